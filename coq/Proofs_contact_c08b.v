(* Proofs_contact_c08b.v — compute_fnat_pdb2sql for arbitrary chain names: _fix_chainID renames the two
   chains of both structures to A, B; the specification is invariant under that renaming. *)
From Coq Require Import Lia Lqa Sorted Permutation.
From Verif Require Import PyLib PyLibFacts Generated_parse Generated_contact Model_contact Spec_contact
  Proofs_contact_lists Proofs_contact_spec Proofs_contact_c05 Proofs_contact_c14 Proofs_contact_c08.
Open Scope Z_scope.
Open Scope list_scope.

Lemma existsb_map' {A B} (f : B -> bool) (g : A -> B) l : existsb f (map g l) = existsb (fun x => f (g x)) l.
Proof. induction l as [|x t IH]; simpl; [reflexivity | rewrite IH; reflexivity]. Qed.
Lemma existsb_ext_in' {A} (f g : A -> bool) l : (forall x, In x l -> f x = g x) -> existsb f l = existsb g l.
Proof.
  induction l as [|x t IH]; simpl; intro H; [reflexivity|].
  rewrite (H x (or_introl eq_refl)), IH; [reflexivity|]. intros y Hy; apply H; right; exact Hy.
Qed.
Lemma NoDup_map_inj_on {A B} (f : A -> B) l :
  (forall x y, In x l -> In y l -> f x = f y -> x = y) -> NoDup l -> NoDup (map f l).
Proof.
  induction l as [|x t IH]; simpl; intros Inj ND; [constructor|].
  inversion ND as [|? ? Hn ND']; subst. constructor.
  - intro F. apply in_map_iff in F. destruct F as [y [E Hy]].
    assert (y = x) by (apply Inj; [right; exact Hy | left; reflexivity | exact E]). subst. contradiction.
  - apply IH; [intros a b Ha Hb; apply Inj; right; assumption | exact ND'].
Qed.
Lemma filter_map_comm {A B} (f : B -> bool) (g : A -> B) l :
  filter f (map g l) = map g (filter (fun x => f (g x)) l).
Proof. induction l as [|x t IH]; simpl; [reflexivity|]. destruct (f (g x)); simpl; rewrite IH; reflexivity. Qed.

Definition ren (rho : string -> string) (a : atom) : atom := set_chain a (rho (chain a)).
Definition ren3 (rho : string -> string) (r : res3) : res3 := let '(c, n, rn) := r in (rho c, n, rn).
Definition ren33 (rho : string -> string) (p : res3 * res3) : res3 * res3 := (ren3 rho (fst p), ren3 rho (snd p)).

(* sort_by String.leb sorts *)
Definition sle (a b : string) : Prop := String.leb a b = true.
Lemma insert_HdRel a x l : sle a x -> HdRel sle a l -> HdRel sle a (insert_sorted String.leb x l).
Proof.
  intros Hx H. destruct l as [|y t]; simpl; [constructor; exact Hx|].
  destruct (String.leb x y); constructor; [exact Hx | inversion H; assumption].
Qed.
Lemma insert_Sorted x l : Sorted sle l -> Sorted sle (insert_sorted String.leb x l).
Proof.
  induction l as [|y t IH]; simpl; intro S; [repeat constructor|].
  inversion S as [|? ? S' Hd]; subst. destruct (String.leb x y) eqn:E.
  - constructor; [exact S | constructor; exact E].
  - constructor; [apply IH; exact S'|]. apply insert_HdRel; [|exact Hd].
    destruct (String.leb_total x y) as [T|T]; [congruence | exact T].
Qed.
Lemma sort_by_Sorted l : Sorted sle (sort_by String.leb l).
Proof. induction l as [|x t IH]; simpl; [constructor | apply insert_Sorted; exact IH]. Qed.

(* a duplicate-free sorted list whose elements are exactly A and B is [A; B] *)
Lemma two_sorted (l : list string) :
  NoDup l -> Sorted sle l -> (forall x, In x l <-> x = "A"%string \/ x = "B"%string) -> l = ["A"; "B"]%string.
Proof.
  intros ND S M.
  destruct l as [|x [|y [|z t]]].
  - exfalso. apply (M "A"%string). left; reflexivity.
  - exfalso. assert (Hx : forall w, (w = "A"%string \/ w = "B"%string) -> w = x) by (intros w Hw; apply M in Hw; destruct Hw as [E|[]]; symmetry; exact E).
    assert ("A"%string = x) by (apply Hx; left; reflexivity). assert ("B"%string = x) by (apply Hx; right; reflexivity). congruence.
  - assert (Mx := proj1 (M x) (or_introl eq_refl)). assert (My := proj1 (M y) (or_intror (or_introl eq_refl))).
    inversion ND as [|? ? Hn _]; subst. inversion S as [|? ? _ Hd]; subst. inversion Hd as [|? ? Hxy]; subst.
    destruct Mx as [-> | ->], My as [-> | ->]; try reflexivity.
    + exfalso; apply Hn; left; reflexivity.
    + unfold sle in Hxy. vm_compute in Hxy. discriminate.
    + exfalso; apply Hn; left; reflexivity.
  - exfalso. inversion ND as [|? ? Hx ND1]; subst. inversion ND1 as [|? ? Hy ND2]; subst. inversion ND2 as [|? ? Hz _]; subst.
    assert (Mx := proj1 (M x) (or_introl eq_refl)).
    assert (My := proj1 (M y) (or_intror (or_introl eq_refl))).
    assert (Mz := proj1 (M z) (or_intror (or_intror (or_introl eq_refl)))).
    destruct Mx as [-> | ->], My as [-> | ->], Mz as [-> | ->];
      try (apply Hx; simpl; auto; fail); try (apply Hy; simpl; auto; fail).
Qed.

Section Rename.
  Variables (c1 c2 : string).
  Hypothesis N12 : c1 <> c2.
  (* the renaming _fix_chainID applies to a structure whose sorted chain list is [c1; c2] *)
  Definition rho (c : string) : string := nth (index_of c [c1; c2]) ascii_uppercase ""%string.
  Lemma rho_c1 : rho c1 = "A"%string.
  Proof. unfold rho. simpl. rewrite String.eqb_refl. reflexivity. Qed.
  Lemma rho_c2 : rho c2 = "B"%string.
  Proof. unfold rho. simpl. rewrite (proj2 (String.eqb_neq c2 c1)) by congruence. rewrite String.eqb_refl. reflexivity. Qed.

  Lemma fix_chainID_ren s : get_chains s = [c1; c2] -> fix_chainID s = Ok (map (ren rho) s).
  Proof. intro H. unfold fix_chainID. rewrite H. reflexivity. Qed.

  Variable s : structure.
  Hypothesis HC : get_chains s = [c1; c2].

  Lemma chain_12 a : In a s -> chain a = c1 \/ chain a = c2.
  Proof.
    intro Ha. assert (Hc : In (chain a) (get_chains s)) by (apply get_chains_In; apply in_map; exact Ha).
    rewrite HC in Hc. destruct Hc as [Hc|[Hc|[]]]; auto.
  Qed.
  Lemma rho_eq_c1 a : In a s -> (rho (chain a) = "A"%string <-> chain a = c1).
  Proof.
    intro Ha. destruct (chain_12 a Ha) as [E|E]; rewrite E.
    - rewrite rho_c1. tauto.
    - rewrite rho_c2. split; [discriminate | intro F; exfalso; apply N12; symmetry; exact F].
  Qed.
  Lemma rho_eq_c2 a : In a s -> (rho (chain a) = "B"%string <-> chain a = c2).
  Proof.
    intro Ha. destruct (chain_12 a Ha) as [E|E]; rewrite E.
    - rewrite rho_c1. split; [discriminate | intro F; exfalso; apply N12; exact F].
    - rewrite rho_c2. tauto.
  Qed.

  Lemma wf_ren : wf s -> wf (map (ren rho) s).
  Proof. unfold wf. rewrite map_map. simpl. tauto. Qed.

  Lemma get_chains_ren : get_chains (map (ren rho) s) = ["A"; "B"]%string.
  Proof.
    apply two_sorted.
    - apply get_chains_NoDup.
    - unfold get_chains, sorted_set_str. apply sort_by_Sorted.
    - intro x. rewrite get_chains_In, map_map. simpl. rewrite in_map_iff. split.
      + intros [a [E Ha]]. destruct (chain_12 a Ha) as [C|C]; rewrite C in E; [rewrite rho_c1 in E | rewrite rho_c2 in E]; auto.
      + pose proof (get_chains_In s c1) as I1. pose proof (get_chains_In s c2) as I2. rewrite HC in I1, I2.
        intros [->| ->].
        * assert (H : In c1 (map chain s)) by (apply I1; left; reflexivity). apply in_map_iff in H.
          destruct H as [a [E Ha]]. exists a. split; [rewrite E; apply rho_c1 | exact Ha].
        * assert (H : In c2 (map chain s)) by (apply I2; right; left; reflexivity). apply in_map_iff in H.
          destruct H as [a [E Ha]]. exists a. split; [rewrite E; apply rho_c2 | exact Ha].
  Qed.
End Rename.

(* ------------------------------------------------------------------ *)
(* the specification does not depend on how the two chains are named  *)
Section SpecInvariance.
  Variable near : atom -> atom -> bool.
  Hypothesis near_coord : forall r a b, near (ren r a) (ren r b) = near a b.
  Variables (c1 c2 : string).
  Hypothesis N12 : c1 <> c2.
  Variables (ref dec : structure).
  Hypothesis HR : get_chains ref = [c1; c2].
  Hypothesis HD : get_chains dec = [c1; c2].
  Notation r := (rho c1 c2).
  Notation ref' := (map (ren r) ref).
  Notation dec' := (map (ren r) dec).

  Lemma ref_contacts_ren_In p' :
    In p' (ref_contacts near ref' "A" "B") <-> exists p, In p (ref_contacts near ref c1 c2) /\ ren33 r p = p'.
  Proof.
    destruct p' as [rA' rB']. rewrite (ref_contacts_In ref' "A" "B" near rA' rB'). split.
    - intros [a' [b' [Ha' [Hb' [Ca [Cb [Va [Vb [Nr [Ea Eb]]]]]]]]]].
      apply in_map_iff in Ha', Hb'. destruct Ha' as [a [<- Ha]], Hb' as [b [<- Hb]].
      exists (res3_of a, res3_of b). split.
      + apply (ref_contacts_In ref c1 c2 near). exists a, b.
        simpl in Ca, Cb. apply (rho_eq_c1 c1 c2 N12 ref HR a Ha) in Ca. apply (rho_eq_c2 c1 c2 N12 ref HR b Hb) in Cb.
        rewrite near_coord in Nr. repeat split; assumption.
      + unfold ren33. simpl. rewrite <- Ea, <- Eb. reflexivity.
    - intros [[rA rB] [Hp E]]. apply (ref_contacts_In ref c1 c2 near rA rB) in Hp.
      destruct Hp as [a [b [Ha [Hb [Ca [Cb [Va [Vb [Nr [Ea Eb]]]]]]]]]].
      exists (ren r a), (ren r b). unfold ren33 in E. simpl in E. inversion E as [[EA EB]].
      split; [apply in_map; exact Ha | split; [apply in_map; exact Hb|]].
      simpl. rewrite Ca, Cb, (rho_c1 c1 c2), (rho_c2 c1 c2 N12), near_coord.
      repeat split; try assumption.
      + rewrite <- Ea. unfold res3_of, ren3. simpl. rewrite Ca, (rho_c1 c1 c2). reflexivity.
      + rewrite <- Eb. unfold res3_of, ren3. simpl. rewrite Cb, (rho_c2 c1 c2 N12). reflexivity.
  Qed.

  Lemma ren33_inj p q : In p (ref_contacts near ref c1 c2) -> In q (ref_contacts near ref c1 c2) ->
    ren33 r p = ren33 r q -> p = q.
  Proof.
    destruct p as [pA pB], q as [qA qB]. intros Hp Hq E.
    apply (ref_contacts_In ref c1 c2 near) in Hp, Hq.
    destruct Hp as [a [b [_ [_ [Ca [Cb [_ [_ [_ [Ea Eb]]]]]]]]]].
    destruct Hq as [a' [b' [_ [_ [Ca' [Cb' [_ [_ [_ [Ea' Eb']]]]]]]]]].
    rewrite <- Ea, <- Eb, <- Ea', <- Eb' in E |- *. unfold ren33, res3_of, ren3 in E. simpl in E. inversion E.
    unfold res3_of. congruence.
  Qed.

  Lemma res_contactb_ren rA rB : In (rA, rB) (ref_contacts near ref c1 c2) ->
    res_contactb near dec' (ren3 r rA) (ren3 r rB) = res_contactb near dec rA rB.
  Proof.
    intro Hp. apply (ref_contacts_In ref c1 c2 near) in Hp.
    destruct Hp as [a0 [b0 [_ [_ [Ca [Cb [_ [_ [_ [Ea Eb]]]]]]]]]].
    assert (KA : forall a, In a dec -> res3_eqb (res3_of (ren r a)) (ren3 r rA) = res3_eqb (res3_of a) rA).
    { intros a Ha. subst rA. unfold res3_of, ren3, res3_eqb. simpl. rewrite Ca, (rho_c1 c1 c2).
      f_equal. f_equal. apply bool_eq_iff. rewrite !String.eqb_eq. apply (rho_eq_c1 c1 c2 N12 dec HD a Ha). }
    assert (KB : forall b, In b dec -> res3_eqb (res3_of (ren r b)) (ren3 r rB) = res3_eqb (res3_of b) rB).
    { intros b Hb. subst rB. unfold res3_of, ren3, res3_eqb. simpl. rewrite Cb, (rho_c2 c1 c2 N12).
      f_equal. f_equal. apply bool_eq_iff. rewrite !String.eqb_eq. apply (rho_eq_c2 c1 c2 N12 dec HD b Hb). }
    unfold res_contactb. rewrite existsb_map'. apply existsb_ext_in'. intros a Ha.
    rewrite (KA a Ha). f_equal. rewrite existsb_map'. apply existsb_ext_in'. intros b Hb.
    rewrite (KB b Hb), near_coord. reflexivity.
  Qed.

  Lemma fnat_spec_ren : fnat_spec near ref' dec' = fnat_spec near ref dec.
  Proof.
    rewrite (spec_value near ref' dec' "A" "B") by (rewrite distinct_chains_get_chains; apply (get_chains_ren c1 c2 N12 ref HR)).
    rewrite (spec_value near ref dec c1 c2) by (rewrite distinct_chains_get_chains; exact HR).
    set (L := ref_contacts near ref c1 c2). set (L' := ref_contacts near ref' "A" "B").
    assert (PM : Permutation L' (map (ren33 r) L)).
    { apply NoDup_Permutation.
      - apply (dedup_NoDup respair_eqb respair_eqb_ok).
      - apply NoDup_map_inj_on; [intros p q Hp Hq; apply ren33_inj; assumption | apply (dedup_NoDup respair_eqb respair_eqb_ok)].
      - intro p'. unfold L'. rewrite ref_contacts_ren_In, in_map_iff. split; intros [p [A B]]; exists p; tauto. }
    assert (E1 : List.length L' = List.length L) by (rewrite (Permutation_length PM); apply map_length).
    assert (E2 : List.length (preserved near ref' dec' "A" "B") = List.length (preserved near ref dec c1 c2)).
    { unfold preserved. fold L L'.
      rewrite (Permutation_length (Permutation_filter' _ _ _ PM)).
      rewrite filter_map_comm, map_length. f_equal. apply filter_ext_in'. intros [rA rB] Hp.
      unfold ren33. simpl. apply res_contactb_ren. exact Hp. }
    rewrite E1, E2. reflexivity.
  Qed.
End SpecInvariance.

(* ------------------------------------------------------------------ *)
Lemma withinb_coord c r a b : withinb c (ren r a) (ren r b) = withinb c a b.
Proof. reflexivity. Qed.

Lemma compute_fnat_sql_fix cutoff dec ref dec' ref' :
  fix_chainID dec = Ok dec' -> fix_chainID ref = Ok ref' ->
  fix_chainID dec' = Ok dec' -> fix_chainID ref' = Ok ref' ->
  compute_fnat_pdb2sql cutoff dec ref = compute_fnat_pdb2sql cutoff dec' ref'.
Proof.
  intros A B C D. unfold compute_fnat_pdb2sql. change fnat_sql_fix_chainID_src with true. cbv iota.
  rewrite A, B, C, D. reflexivity.
Qed.

(* the SQL route for complexes with any two chain names (the same in reference and decoy) *)
Lemma fnat_sql_exact cutoff ref dec c1 c2 :
  wf ref -> wf dec -> get_chains ref = [c1; c2] -> get_chains dec = [c1; c2] ->
  fnat_outcome (compute_fnat_pdb2sql cutoff dec ref) (fnat_spec (withinb cutoff) ref dec).
Proof.
  intros Wr Wd Hr Hd.
  assert (N : c1 <> c2).
  { pose proof (get_chains_NoDup ref) as ND. rewrite Hr in ND. inversion ND as [|? ? Hn _]; subst.
    intros ->. apply Hn. left; reflexivity. }
  rewrite (compute_fnat_sql_fix cutoff dec ref (map (ren (rho c1 c2)) dec) (map (ren (rho c1 c2)) ref)).
  - rewrite <- (fnat_spec_ren (withinb cutoff) (withinb_coord cutoff) c1 c2 N ref dec Hr Hd).
    apply fnat_sql_exact_AB.
    + apply wf_ren; exact Wr.
    + apply wf_ren; exact Wd.
    + apply (get_chains_ren c1 c2 N ref Hr).
    + apply (get_chains_ren c1 c2 N dec Hd).
  - apply fix_chainID_ren; exact Hd.
  - apply fix_chainID_ren; exact Hr.
  - apply fix_chainID_AB. apply (get_chains_ren c1 c2 N dec Hd).
  - apply fix_chainID_AB. apply (get_chains_ren c1 c2 N ref Hr).
Qed.

Lemma reference_pairs_exact cutoff ref c1 c2 :
  wf ref -> get_chains ref = [c1; c2] ->
  exists rp, compute_residue_pairs_ref cutoff ref = Ok rp /\ NoDup (flat_pairs rp) /\
             Permutation (flat_pairs rp) (ref_contacts (withinb cutoff) ref c1 c2).
Proof.
  intros W HC. unfold compute_residue_pairs_ref. rewrite HC. exact (ref_pairs_exact cutoff ref c1 c2 W HC).
Qed.

Lemma fnat_identical_is_one cutoff s lines c1 c2 :
  wf s -> get_chains s = [c1; c2] -> fnat_spec (withinb cutoff) s s <> None ->
  (fast_read lines = Ok s -> every_residue_has_heavy s -> compute_fnat_fast cutoff s lines = Ok 1%Q) /\
  compute_fnat_pdb2sql cutoff s s = Ok 1%Q.
Proof.
  intros W HC NN. split.
  - intros FR HV. exact (fnat_outcome_identical _ _ s (fnat_fast_exact cutoff s lines s c1 c2 W HC FR HV) NN).
  - exact (fnat_outcome_identical _ _ s (fnat_sql_exact cutoff s s c1 c2 W W HC HC) NN).
Qed.
