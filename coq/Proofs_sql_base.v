(* Proofs_sql_base.v — side conditions of the sql theorems (executable, so that they can be
   evaluated on concrete inputs) and basic lemmas: name resolution, result monad, lists. *)
From Coq Require Import Lia.
From Verif Require Import PyLib ModelTypes Generated_parse Model_sqlval Model_sql Spec_sql.
Open Scope string_scope.

(* ------------------------------------------------------------------ *)
(* side conditions *)

(* a table as SQLite can hold it and the library creates it: column names are plain
   identifiers, none of them is rowid/oid/_rowid_, no two are equal up to case *)
Definition wf_table (t : table) : bool :=
  (forallb (fun c : string * string => (ident_shape (fst c) && negb (is_rowid_alias (fst c)))%bool) (tcols t)
   && nodup_str (map fst (tcols t)))%bool.

(* the condition keywords are identifiers and the rowid is only ever called rowID
   (exclusion of finding F23: rowid / oid / _rowid_ as keys) *)
Definition key_plain (k0 : string) : bool :=
  let k := snd (key_of k0) in
  (ident_shape k && (negb (is_rowid_alias k) || String.eqb k "rowID"))%bool.
Definition keys_plain (kw : conds) : bool := forallb (fun c : string * cval => key_plain (fst c)) kw.

(* rowID is requested at most once, and the text "rowID" occurs in the attribute string only
   as that attribute (exclusion of finding F20 and of columns whose name contains rowID) *)
Definition count_rowid (columns : string) : nat :=
  List.length (filter (String.eqb "rowID") (map strip (split_comma columns))).
Definition cols_rowid_ok (columns : string) : bool :=
  if String.eqb columns "*" then true
  else (Nat.leb (count_rowid columns) 1
        && Bool.eqb (is_substring "rowID" columns) (Nat.eqb (count_rowid columns) 1))%bool.

(* every list has at most 950 values (the rest is C17) *)
Definition short_lists (kw : conds) : bool := forallb (fun c : string * cval => negb (long_list (snd c))) kw.

(* the addressed table has the column names of the first table (exclusion of finding F22) *)
Fixpoint list_beq_str (a b : list string) : bool :=
  match a, b with
  | [], [] => true
  | x :: s, y :: t => (String.eqb x y && list_beq_str s t)%bool
  | _, _ => false
  end.
Definition same_colnames (d : db) (t : table) : bool :=
  match tables d with
  | [] => false
  | (_, t0) :: _ => list_beq_str (map fst (tcols t0)) (map fst (tcols t))
  end.

(* ------------------------------------------------------------------ *)
(* result monad *)
Lemma res_Ok_inj {A} (a b : A) : Ok a = Ok b -> a = b.
Proof. intro H; inversion H; reflexivity. Qed.
Lemma bind_Ok_inv {A B} (r : res A) (f : A -> res B) b :
  bind r f = Ok b -> exists a, r = Ok a /\ f a = Ok b.
Proof. destruct r as [a|e]; simpl; intro H; [exists a; auto | discriminate]. Qed.
Lemma bind_Err_inv {A B} (r : res A) (f : A -> res B) e :
  bind r f = Err e -> r = Err e \/ exists a, r = Ok a /\ f a = Err e.
Proof. destruct r as [a|e']; simpl; intro H; [right; exists a; auto | left; inversion H; reflexivity]. Qed.

Lemma mapM_Ok_Forall2 {A B} (f : A -> res B) l ys :
  mapM f l = Ok ys -> Forall2 (fun x y => f x = Ok y) l ys.
Proof.
  revert ys; induction l as [|x t IH]; simpl; intros ys H.
  - apply res_Ok_inj in H; subst; constructor.
  - apply bind_Ok_inv in H; destruct H as (y & Hy & H).
    apply bind_Ok_inv in H; destruct H as (ys' & Hys & H).
    apply res_Ok_inj in H; subst. constructor; auto.
Qed.
Lemma Forall2_mapM_Ok {A B} (f : A -> res B) l ys :
  Forall2 (fun x y => f x = Ok y) l ys -> mapM f l = Ok ys.
Proof. induction 1; simpl; [reflexivity|]. rewrite H, IHForall2. reflexivity. Qed.
Lemma mapM_transfer {A B} (f g : A -> res B) l ys :
  (forall x y, In x l -> f x = Ok y -> g x = Ok y) ->
  mapM f l = Ok ys -> mapM g l = Ok ys.
Proof.
  intros H Hm. apply Forall2_mapM_Ok. apply mapM_Ok_Forall2 in Hm.
  induction Hm; constructor.
  - apply H; [left; reflexivity | assumption].
  - apply IHHm. intros; apply H; [right|]; assumption.
Qed.
Lemma forallb_map {A B} (f : B -> bool) (g : A -> B) l : forallb f (map g l) = forallb (fun x => f (g x)) l.
Proof. induction l as [|x t IH]; simpl; [reflexivity|]. rewrite IH. reflexivity. Qed.
Lemma mapM_map {A B C} (f : B -> res C) (g : A -> B) l : mapM f (map g l) = mapM (fun x => f (g x)) l.
Proof. induction l as [|x t IH]; simpl; [reflexivity|]. rewrite IH. reflexivity. Qed.
Lemma mapM_ext {A B} (f g : A -> res B) l : (forall x, f x = g x) -> mapM f l = mapM g l.
Proof. intro H. induction l as [|x t IH]; simpl; [reflexivity|]. rewrite H, IH. reflexivity. Qed.

Lemma mapM_length {A B} (f : A -> res B) l ys : mapM f l = Ok ys -> List.length ys = List.length l.
Proof. intro H; apply mapM_Ok_Forall2 in H. induction H; simpl; congruence. Qed.

(* ------------------------------------------------------------------ *)
(* case-insensitive names *)
Lemma ci_eqb_refl a : ci_eqb a a = true.
Proof. unfold ci_eqb. apply String.eqb_refl. Qed.
Lemma ci_eqb_sym a b : ci_eqb a b = ci_eqb b a.
Proof. unfold ci_eqb. apply String.eqb_sym. Qed.
Lemma ci_eqb_alias a b : ci_eqb a b = true -> is_rowid_alias a = is_rowid_alias b.
Proof. unfold ci_eqb, is_rowid_alias. intro H. apply String.eqb_eq in H. rewrite H. reflexivity. Qed.
Lemma ci_eqb_trans a b c : ci_eqb a b = true -> ci_eqb b c = true -> ci_eqb a c = true.
Proof.
  unfold ci_eqb. intros H1 H2. apply String.eqb_eq in H1, H2. rewrite H1, H2. apply String.eqb_refl.
Qed.

Lemma find_exact_In n cols i j : find_exact n cols i = Some j -> In n (map fst cols).
Proof.
  revert i; induction cols as [|[c ty] t IH]; simpl; intros i H; [discriminate|].
  destruct (String.eqb n c) eqn:E.
  - apply String.eqb_eq in E. left; auto.
  - right; eapply IH; eauto.
Qed.
Lemma find_exact_ci n cols i j :
  nodup_str (map fst cols) = true -> find_exact n cols i = Some j -> find_ci n cols i = Some j.
Proof.
  revert i; induction cols as [|[c ty] t IH]; simpl; intros i Hnd H; [discriminate|].
  apply andb_prop in Hnd; destruct Hnd as [Hn Hnd].
  destruct (String.eqb n c) eqn:E.
  - apply String.eqb_eq in E; subst. rewrite ci_eqb_refl. exact H.
  - destruct (ci_eqb n c) eqn:Eci.
    + exfalso. apply find_exact_In in H.
      apply Bool.negb_true_iff in Hn.
      assert (X : existsb (ci_eqb c) (map fst t) = true).
      { apply existsb_exists. exists n; split; [exact H|]. rewrite ci_eqb_sym; exact Eci. }
      congruence.
    + apply IH; assumption.
Qed.
Lemma find_ci_alias_none k cols i :
  forallb (fun c : string * string => (ident_shape (fst c) && negb (is_rowid_alias (fst c)))%bool) cols = true ->
  is_rowid_alias k = true -> find_ci k cols i = None.
Proof.
  revert i; induction cols as [|[c ty] t IH]; simpl; intros i Hw Hk; [reflexivity|].
  apply andb_prop in Hw; destruct Hw as [Hc Hw].
  apply andb_prop in Hc; destruct Hc as [_ Hc]. simpl in Hc.
  destruct (ci_eqb k c) eqn:E.
  - apply ci_eqb_alias in E. rewrite Hk in E. rewrite <- E in Hc. discriminate.
  - apply IH; assumption.
Qed.
Lemma find_ci_ident k cols i j :
  forallb (fun c : string * string => (ident_shape (fst c) && negb (is_rowid_alias (fst c)))%bool) cols = true ->
  find_exact k cols i = Some j -> ident_shape k = true.
Proof.
  revert i; induction cols as [|[c ty] t IH]; simpl; intros i Hw H; [discriminate|].
  apply andb_prop in Hw; destruct Hw as [Hc Hw].
  destruct (String.eqb k c) eqn:E.
  - apply String.eqb_eq in E; subst. apply andb_prop in Hc; tauto.
  - eapply IH; eauto.
Qed.

Lemma list_beq_str_eq a b : list_beq_str a b = true -> a = b.
Proof.
  revert b; induction a as [|x s IH]; destruct b as [|y t]; simpl; intro H; try discriminate; auto.
  apply andb_prop in H; destruct H as [H1 H2]. apply String.eqb_eq in H1. f_equal; auto.
Qed.

Lemma mem_str_In x l : mem_str x l = true <-> In x l.
Proof.
  unfold mem_str. rewrite existsb_exists. split.
  - intros (y & Hy & E). apply String.eqb_eq in E; subst; auto.
  - intro H. exists x; split; [auto | apply String.eqb_refl].
Qed.
