(* Proofs_fs_c20.v — C20: at every crash point of every scenario the file holds the last-committed
   table (or no atoms if nothing was committed yet); close(keep) leaves exactly the object's table;
   close(remove) removes exactly that file; no other path is ever touched, whatever the name. *)
From Coq Require Import Lia.
From Verif Require Import PyLib ModelTypes Model_fs Spec_fs Proofs_fs_base.
Open Scope string_scope.
Open Scope list_scope.
Open Scope nat_scope.

Global Opaque atom_cols.
Arguments sels h n : simpl never.

Section C20.
Variable fs0 : fsys.
Variable sc : scenario.
Let N := sc_name sc.
Let J := jpath N.

Definition obs (w : world) : outcome := observe (w_fs w) N.
Definition empty_atom : table := mkTable atom_cols [].
Definition durable_ok (last : option table) (D : dbimage) : Prop :=
  match last with Some t => D = Some t | None => D = Some empty_atom end.

(* the world between two scenario steps, related to the abstract object S *)
Record st_ok (S : sstate) (w : world) : Prop := mk_st_ok {
  ok_file : exists D, w_fs w N = Some (FDb D) /\ durable_ok (s_last S) D;
  ok_conn : w_conns w 0 = Some (mkConn (Some N) (Some (s_tab S)) (s_dirty S));
  ok_frame : forall p, p <> N -> p <> J -> w_fs w p = fs0 p;
  ok_clean : s_dirty S = false -> s_last S = Some (s_tab S);
  ok_journal : s_dirty S = false -> fs0 J = None -> w_fs w J = None }.

Lemma J_neq_N : J <> N.
Proof. exact (jpath_neq N). Qed.
Lemma N_neq_J : N <> J.
Proof. intro H. symmetry in H. exact (jpath_neq N H). Qed.

Lemma holds_obs S w : st_ok S w -> holds_committed (s_last S) (obs w).
Proof.
  intros [[D [HD Hd]] _ _ _ _]. unfold obs, observe. rewrite HD.
  unfold durable_ok in Hd. destruct (s_last S) as [t|]; subst D; simpl; reflexivity.
Qed.

(* one effectful statement after any number of SELECTs *)
Lemma step_shape (P : world -> Prop) w n a :
  P w -> always_before P w (sels 0 n ++ [a]).
Proof. intro HP. apply always_before_sels; [exact HP|]. simpl. split; [exact HP | exact I]. Qed.

Ltac open_world w := destruct w as [fs cs]; simpl w_fs in *; simpl w_conns in *.

(* a DML statement on the open connection *)
Lemma dml_ok S w f t' :
  st_ok S w -> on_table f (Some (s_tab S)) = Some t' ->
  st_ok (mkS t' true (s_last S)) (fst (step w (AExec 0 KDml (on_table f)))).
Proof.
  intros [[D [HD Hd]] Hc Hf Hcl Hj] Ht. open_world w.
  unfold step. simpl w_conns. simpl w_fs. rewrite Hc. simpl c_view. simpl c_path. simpl c_intx.
  rewrite Ht. destruct (s_dirty S) eqn:Hdirty; simpl fst.
  - constructor; simpl.
    + exists D. split; assumption.
    + now rewrite conn_set_eq.
    + exact Hf.
    + discriminate.
    + discriminate.
  - constructor; simpl.
    + exists D. split; [|assumption]. fold J. rewrite fs_set_neq; [exact HD | exact N_neq_J].
    + now rewrite conn_set_eq.
    + intros p HpN HpJ. fold J. rewrite fs_set_neq by exact HpJ. now apply Hf.
    + discriminate.
    + discriminate.
Qed.

(* a DDL statement on the open connection *)
Lemma ddl_ok S w f t' :
  st_ok S w -> on_table f (Some (s_tab S)) = Some t' ->
  st_ok (if s_dirty S then mkS t' true (s_last S) else mkS t' false (Some t'))
        (fst (step w (AExec 0 KDdl (on_table f)))).
Proof.
  intros [[D [HD Hd]] Hc Hf Hcl Hj] Ht. open_world w.
  unfold step. simpl w_conns. simpl w_fs. rewrite Hc. simpl c_view. simpl c_path. simpl c_intx.
  rewrite Ht. destruct (s_dirty S) eqn:Hdirty; simpl fst.
  - constructor; simpl.
    + exists D. split; assumption.
    + now rewrite conn_set_eq.
    + exact Hf.
    + discriminate.
    + discriminate.
  - constructor; simpl.
    + exists (Some t'). split; [apply fs_set_eq | reflexivity].
    + now rewrite conn_set_eq.
    + intros p HpN HpJ. fold N. rewrite fs_set_neq by exact HpN. now apply Hf.
    + reflexivity.
    + intros _ H0. fold N. rewrite fs_set_neq by exact J_neq_N. now apply Hj.
Qed.

Lemma commit_ok S w :
  st_ok S w -> st_ok (mkS (s_tab S) false (Some (s_tab S))) (fst (step w (ACommit 0))).
Proof.
  intros [[D [HD Hd]] Hc Hf Hcl Hj]. open_world w.
  unfold step. simpl w_conns. simpl w_fs. rewrite Hc. simpl c_view. simpl c_path. simpl c_intx.
  destruct (s_dirty S) eqn:Hdirty; simpl fst.
  - constructor; simpl.
    + exists (Some (s_tab S)). split; [|reflexivity]. fold N. fold J.
      rewrite fs_set_neq by exact N_neq_J. apply fs_set_eq.
    + now rewrite conn_set_eq.
    + intros p HpN HpJ. fold N. fold J. rewrite fs_set_neq by exact HpJ. rewrite fs_set_neq by exact HpN. now apply Hf.
    + reflexivity.
    + intros _ _. fold N. fold J. apply fs_set_eq.
  - specialize (Hcl eq_refl). rewrite Hcl in Hd. simpl in Hd. subst D.
    constructor; simpl.
    + exists (Some (s_tab S)). split; [exact HD | reflexivity].
    + exact Hc.
    + exact Hf.
    + reflexivity.
    + intros _ H0. now apply Hj.
Qed.

Lemma spec_step_clean s S :
  (s_dirty S = false -> s_last S = Some (s_tab S)) ->
  s_dirty (spec_step s S) = false -> s_last (spec_step s S) = Some (s_tab (spec_step s S)).
Proof.
  intros H. destruct s as [m|]; [destruct m|]; simpl.
  - rewrite orb_true_r. discriminate.
  - destruct (s_dirty S); simpl; [discriminate|].
    destruct (update_shape_ok cols vals && update_count_ok vals rowids (s_tab S))%bool eqn:E; simpl; [discriminate|].
    intros _. now apply H.
  - destruct (s_dirty S); simpl; [discriminate | reflexivity].
  - reflexivity.
Qed.

(* one scenario step: before each of its actions the file holds the table committed before the
   step; afterwards the world matches the abstract object again *)
Lemma step_ok S w s :
  st_ok S w ->
  always_before (fun w' => holds_committed (s_last S) (obs w')) w (acts_step s (s_tab S))
  /\ st_ok (spec_step s S) (exec (acts_step s (s_tab S)) w).
Proof.
  intro H. pose proof (holds_obs S w H) as HP.
  destruct s as [m|]; [destruct m as [col vals idx | cols vals rowids | name ctype dflt]|].
  - (* update_column *)
    split; [simpl; split; [exact HP | exact I]|].
    simpl acts_step. rewrite exec_cons. simpl exec.
    unfold spec_step. simpl apply_step. simpl modifies_data. rewrite orb_true_r.
    apply dml_ok; [exact H | reflexivity].
  - (* update *)
    unfold acts_step, acts_modify, spec_step, apply_step, apply_modify, modifies_data.
    destruct (update_shape_ok cols vals) eqn:Eshape; cbn [andb].
    + destruct (update_count_ok vals rowids (s_tab S)) eqn:Ecount.
      * split.
        -- apply always_before_sels; [exact HP|]. apply always_before_sels; [exact HP|]. simpl. split; [exact HP | exact I].
        -- rewrite exec_sels, exec_sels. rewrite exec_cons. simpl exec. rewrite orb_true_r.
           apply dml_ok; [exact H | reflexivity].
      * rewrite app_nil_r. split.
        -- apply always_before_sels; [exact HP|]. apply always_before_sels_only. exact HP.
        -- rewrite exec_sels, exec_sels_only. rewrite orb_false_r.
           destruct H as [H1 H2 H3 H4 H5]. constructor; simpl; assumption.
    + rewrite app_nil_r. split.
      * apply always_before_sels_only. exact HP.
      * rewrite exec_sels_only. rewrite orb_false_r.
        destruct H as [H1 H2 H3 H4 H5]. constructor; simpl; assumption.
  - (* add_column *)
    split; [simpl; split; [exact HP | exact I]|].
    simpl acts_step. rewrite exec_cons. simpl exec.
    unfold spec_step. simpl apply_step.
    pose proof (ddl_ok S w (add_col name dflt) (add_col name dflt (s_tab S)) H eq_refl) as Hd.
    destruct (s_dirty S); exact Hd.
  - (* commit *)
    split; [simpl; split; [exact HP | exact I]|].
    simpl acts_step. rewrite exec_cons. simpl exec.
    unfold spec_step. simpl apply_step. apply commit_ok. exact H.
Qed.

(* ------------------------------------------------------------------ *)
(* the creation *)
Definition w0 : world := world0 fs0.
Definition ex0 : bool := is_some (fs0 N).
Definition P0 (w : world) : Prop := obs w = observe fs0 N \/ no_atoms (obs w).

Lemma step_exists w p : fst (step w (AExists p)) = w.
Proof. destruct w; reflexivity. Qed.
Lemma step_readall w p : fst (step w (AReadAll p)) = w.
Proof. destruct w as [fs cs]. unfold step, fstep. simpl w_fs. destruct (fs p) as [[| |]|]; reflexivity. Qed.

Lemma reads_quiet (P : world -> Prop) w l :
  P w -> always_before P w l ->
  always_before P w (match sc_pdb sc with Some p => [AExists p; AExists p; AReadAll p] | None => [] end ++ l).
Proof.
  intros HP Hl. destruct (sc_pdb sc) as [p|]; [|exact Hl].
  cbn [always_before app]. rewrite !step_exists, step_readall. repeat split; assumption.
Qed.
Lemma reads_exec w l :
  exec (match sc_pdb sc with Some p => [AExists p; AExists p; AReadAll p] | None => [] end ++ l) w = exec l w.
Proof.
  destruct (sc_pdb sc) as [p|]; [|reflexivity].
  simpl app. rewrite !exec_cons, !step_exists, step_readall. reflexivity.
Qed.

(* the world right after sqlite3.connect(sqlfile) *)
Definition w_conn : world :=
  mkWorld (fs_set (if ex0 then fs_set fs0 N None else fs0) N (Some (FDb None)))
          (conn_set (fun _ => None) 0 (Some (mkConn (Some N) None false))).

Lemma step_remove_some fs cs p c :
  fs p = Some c -> fst (step (mkWorld fs cs) (ARemove p)) = mkWorld (fs_set fs p None) cs.
Proof. intro E. unfold step, fstep. simpl w_fs. rewrite E. reflexivity. Qed.
Lemma step_connect_none fs cs h p :
  fs p = None ->
  fst (step (mkWorld fs cs) (AConnect h (Some p)))
  = mkWorld (fs_set fs p (Some (FDb None))) (conn_set cs h (Some (mkConn (Some p) None false))).
Proof. intro E. unfold step. simpl w_fs. rewrite E. reflexivity. Qed.
Lemma exec_nil w : exec [] w = w.
Proof. reflexivity. Qed.

Lemma prelude_exec : exec (c20_prelude ex0 sc ++ [AConnect 0 (Some N)]) w0 = w_conn.
Proof.
  unfold c20_prelude, w0, world0, w_conn, ex0. fold N.
  destruct (fs0 N) as [c|] eqn:E; cbn [is_some app].
  - rewrite !exec_cons, step_exists, (step_remove_some _ _ _ _ E).
    rewrite step_connect_none by apply fs_set_eq. apply exec_nil.
  - rewrite !exec_cons, step_exists. rewrite step_connect_none by exact E. apply exec_nil.
Qed.

Lemma prelude_before : always_before P0 w0 (c20_prelude ex0 sc ++ [AConnect 0 (Some N)]).
Proof.
  unfold c20_prelude, w0, world0, ex0. fold N.
  destruct (fs0 N) as [c|] eqn:E; cbn [is_some app always_before].
  - rewrite step_exists, (step_remove_some _ _ _ _ E).
    split; [now left|]. split; [now left|]. split; [|exact I].
    right. unfold obs, observe. simpl w_fs. rewrite fs_set_eq. exact I.
  - rewrite step_exists. split; [now left|]. split; [now left | exact I].
Qed.

Definition frame (w : world) : Prop := forall p, p <> N -> p <> J -> w_fs w p = fs0 p.

Lemma w_conn_frame : frame w_conn.
Proof.
  intros p HpN HpJ. unfold w_conn. simpl. rewrite fs_set_neq by exact HpN.
  destruct ex0; [rewrite fs_set_neq by exact HpN|]; reflexivity.
Qed.

(* after CREATE TABLE (autocommitted) *)
Definition w_created : world :=
  mkWorld (fs_set (w_fs w_conn) N (Some (FDb (Some empty_atom))))
          (conn_set (w_conns w_conn) 0 (Some (mkConn (Some N) (Some empty_atom) false))).
Lemma create_step : fst (step w_conn (AExec 0 KDdl ddl_create)) = w_created.
Proof. unfold w_conn, w_created, step. simpl. reflexivity. Qed.

Lemma st_ok_inserted :
  st_ok (mkS (mkTable atom_cols (sc_rows sc)) true None)
        (fst (step w_created (AExec 0 KDml (dml_insert (sc_rows sc))))).
Proof.
  unfold w_created, step. simpl w_conns. rewrite conn_set_eq. simpl.
  constructor; simpl.
  - exists (Some empty_atom). split; [|reflexivity]. fold N. fold J.
    rewrite fs_set_neq by exact N_neq_J. apply fs_set_eq.
  - now rewrite conn_set_eq.
  - intros p HpN HpJ. fold N. fold J. rewrite fs_set_neq by exact HpJ. rewrite fs_set_neq by exact HpN.
    now apply w_conn_frame.
  - discriminate.
  - discriminate.
Qed.

Lemma P0_created : P0 w_created.
Proof. right. unfold obs, w_created, observe. simpl w_fs. rewrite fs_set_eq. reflexivity. Qed.
Lemma P0_conn : P0 w_conn.
Proof. right. unfold obs, w_conn, observe. simpl w_fs. rewrite fs_set_eq. exact I. Qed.
Lemma P0_of_st S w : st_ok S w -> s_last S = None -> P0 w.
Proof. intros H HN. right. pose proof (holds_obs S w H) as HH. rewrite HN in HH. exact HH. Qed.

Lemma create_ok :
  always_before P0 w0 (c20_prelude ex0 sc ++ acts_create sc)
  /\ st_ok (spec_created sc) (exec (c20_prelude ex0 sc ++ acts_create sc) w0).
Proof.
  unfold acts_create. fold N.
  change (AConnect 0 (Some N) :: AExec 0 KDdl ddl_create :: nil) with ([AConnect 0 (Some N)] ++ [AExec 0 KDdl ddl_create]).
  rewrite <- !app_assoc. rewrite (app_assoc (c20_prelude ex0 sc) [AConnect 0 (Some N)]).
  set (rest := match sc_pdb sc with Some p => [AExists p; AExists p; AReadAll p] | None => [] end ++ _).
  split.
  - apply always_before_app. split; [exact prelude_before|]. rewrite prelude_exec.
    change ([AExec 0 KDdl ddl_create] ++ rest) with (AExec 0 KDdl ddl_create :: rest).
    cbn [always_before]. split; [exact P0_conn|]. rewrite create_step.
    unfold rest. apply reads_quiet; [exact P0_created|].
    change ([AExec 0 KDml (dml_insert (sc_rows sc))] ++ ?l) with (AExec 0 KDml (dml_insert (sc_rows sc)) :: l).
    cbn [always_before]. split; [exact P0_created|].
    pose proof st_ok_inserted as Hins.
    destruct (sc_fix sc); [|exact I].
    apply always_before_sels; [eapply P0_of_st; [exact Hins | reflexivity]|].
    simpl. split; [eapply P0_of_st; [exact Hins | reflexivity] | exact I].
  - rewrite exec_app, prelude_exec.
    change ([AExec 0 KDdl ddl_create] ++ rest) with (AExec 0 KDdl ddl_create :: rest).
    rewrite exec_cons, create_step. unfold rest. rewrite reads_exec.
    change ([AExec 0 KDml (dml_insert (sc_rows sc))] ++ ?l) with (AExec 0 KDml (dml_insert (sc_rows sc)) :: l).
    rewrite exec_cons. pose proof st_ok_inserted as Hins.
    unfold spec_created, table0, created_rows.
    destruct (sc_fix sc).
    + rewrite exec_sels. rewrite exec_cons. simpl exec.
      exact (dml_ok _ _ (fun t => mkTable (t_cols t) (fix_chain_rows (t_rows t))) _ Hins eq_refl).
    + simpl exec. exact Hins.
Qed.

(* ------------------------------------------------------------------ *)
(* the steps *)
Lemma spec_run_app l1 l2 S : spec_run (l1 ++ l2) S = spec_run l2 (spec_run l1 S).
Proof. revert S. induction l1 as [|s l1 IH]; intro S; simpl; [reflexivity | apply IH]. Qed.

Lemma spec_run_tab : forall ss S, s_tab (spec_run ss S) = fold_left (fun t s => apply_step s t) ss (s_tab S).
Proof.
  induction ss as [|s ss IH]; intro S; simpl; [reflexivity|]. rewrite IH. f_equal.
  unfold spec_step. destruct s as [m|]; [destruct m|]; simpl; try reflexivity.
  destruct (s_dirty S); reflexivity.
Qed.

Lemma spec_step_tab s S : s_tab (spec_step s S) = apply_step s (s_tab S).
Proof.
  unfold spec_step. destruct s as [m|]; [destruct m|]; simpl; try reflexivity.
  destruct (s_dirty S); reflexivity.
Qed.

(* all the step groups, from any related pair (S, w) *)
Lemma steps_ok : forall ss S w,
  st_ok S w ->
  (forall j, j < List.length ss ->
     always_before (fun w' => holds_committed (s_last (spec_run (firstn j ss) S)) (obs w'))
                   (exec (List.concat (firstn j (groups_steps ss (s_tab S)))) w)
                   (nth j (groups_steps ss (s_tab S)) []))
  /\ st_ok (spec_run ss S) (exec (List.concat (groups_steps ss (s_tab S))) w)
  /\ List.length (groups_steps ss (s_tab S)) = List.length ss.
Proof.
  induction ss as [|s ss IH]; intros S w H.
  - simpl. split; [intros j Hj; lia | split; [exact H | reflexivity]].
  - destruct (step_ok S w s H) as [Hb Hs].
    specialize (IH (spec_step s S) (exec (acts_step s (s_tab S)) w) Hs).
    rewrite spec_step_tab in IH. destruct IH as [IH1 [IH2 IH3]].
    simpl groups_steps. split; [|split].
    + intros j Hj. destruct j as [|j].
      * simpl. exact Hb.
      * simpl firstn. simpl List.concat. rewrite exec_app. simpl nth. simpl spec_run.
        apply IH1. simpl in Hj. lia.
    + simpl List.concat. rewrite exec_app. simpl spec_run. exact IH2.
    + simpl. now rewrite IH3.
Qed.

(* ------------------------------------------------------------------ *)
(* close *)
Definition S_end : sstate := spec_run (sc_steps sc) (spec_created sc).

Lemma close_ok w :
  st_ok S_end w ->
  always_before (fun w' => holds_committed (s_last S_end) (obs w') \/
                           (if sc_keep sc then obs w' = OTable (final_table sc) else obs w' = ONoFile))
                w (acts_close sc)
  /\ (if sc_keep sc then obs (exec (acts_close sc) w) = OTable (final_table sc)
      else obs (exec (acts_close sc) w) = ONoFile)
  /\ frame (exec (acts_close sc) w)
  /\ (fs0 J = None -> w_fs (exec (acts_close sc) w) J = None).
Proof.
  intro H. pose proof (holds_obs _ _ H) as HP. unfold acts_close, final_table. fold S_end.
  destruct (sc_keep sc).
  - pose proof (commit_ok _ _ H) as Hc.
    set (w1 := fst (step w (ACommit 0))) in *.
    pose proof (holds_obs _ _ Hc) as HPc. cbn [s_last holds_committed] in HPc.
    destruct Hc as [_ Hcc Hf _ Hj]. cbn [s_tab s_dirty s_last] in Hcc, Hj.
    assert (Hw2 : w_fs (fst (step w1 (ACloseConn 0))) = w_fs w1).
    { destruct w1 as [fs1 cs1]. unfold step. simpl w_conns in *. simpl w_fs in *. rewrite Hcc. reflexivity. }
    split; [|split; [|split]].
    + cbn [always_before]. fold w1. split; [now left|]. split; [now right | exact I].
    + rewrite !exec_cons, exec_nil. fold w1. unfold obs. rewrite Hw2. exact HPc.
    + rewrite !exec_cons, exec_nil. fold w1. intros p HpN HpJ. rewrite Hw2. now apply Hf.
    + rewrite !exec_cons, exec_nil. fold w1. intro H0. rewrite Hw2. now apply Hj.
  - destruct H as [[D [HD Hd]] Hc Hf Hcl Hj].
    assert (Hfs1 : exists fs1, w_fs (fst (step w (ACloseConn 0))) = fs1 /\ fs1 N = Some (FDb D)
                   /\ (forall p, p <> N -> p <> J -> fs1 p = fs0 p) /\ (fs0 J = None -> fs1 J = None)).
    { destruct w as [fs cs]. unfold step. simpl w_conns in *. simpl w_fs in *. rewrite Hc. simpl c_path. simpl c_intx.
      destruct (s_dirty S_end) eqn:Ed; simpl fst; simpl w_fs.
      - exists (fs_set fs (jpath (sc_name sc)) None). fold N. fold J. split; [reflexivity|]. split; [|split].
        + rewrite fs_set_neq by exact N_neq_J. exact HD.
        + intros p HpN HpJ. rewrite fs_set_neq by exact HpJ. now apply Hf.
        + intros _. apply fs_set_eq.
      - exists fs. split; [reflexivity|]. split; [exact HD|]. split; [exact Hf|]. intro H0. now apply Hj. }
    destruct Hfs1 as [fs1 [E1 [E2 [E3 E4]]]].
    set (w1 := fst (step w (ACloseConn 0))) in *.
    assert (Hw2 : w_fs (fst (step w1 (ARemove N))) = fs_set fs1 N None).
    { destruct w1 as [fs1' cs1]. simpl in E1. subst fs1'. unfold step, fstep. simpl w_fs. rewrite E2. reflexivity. }
    fold N. split; [|split; [|split]].
    + cbn [always_before]. fold w1. split; [now left|]. split; [|exact I]. left.
      unfold obs, observe. rewrite E1, E2. unfold durable_ok in Hd.
      destruct (s_last S_end); subst D; simpl; reflexivity.
    + rewrite !exec_cons, exec_nil. fold w1. unfold obs, observe. rewrite Hw2, fs_set_eq. reflexivity.
    + rewrite !exec_cons, exec_nil. fold w1. intros p HpN HpJ. rewrite Hw2. rewrite fs_set_neq by exact HpN. now apply E3.
    + rewrite !exec_cons, exec_nil. fold w1. intro H0. rewrite Hw2. rewrite fs_set_neq by exact J_neq_N. now apply E4.
Qed.

End C20.

(* ================================================================== *)
(* assembling the scenario *)
Section Main.
Variable fs0 : fsys.
Variable sc : scenario.
Let N := sc_name sc.
Let ex := is_some (fs0 N).
Let n := List.length (sc_steps sc).
Let o0 := observe fs0 N.
Let g0 := c20_prelude ex sc ++ acts_create sc.
Let w1 := exec g0 (world0 fs0).
Let gsteps := groups_steps (sc_steps sc) (table0 sc).

Lemma run_script k :
  fst (run_n k (world0 fs0) (c20_script sc)) = exec (firstn k (c20_flat ex sc)) (world0 fs0).
Proof.
  destruct k as [|k]; [reflexivity|].
  unfold c20_script. cbn [run_n]. fold N.
  assert (E : step (world0 fs0) (AExists N) = (world0 fs0, RBool ex)) by reflexivity.
  rewrite E. rewrite run_n_seq. cbn [fst].
  unfold c20_flat, c20_groups, c20_prelude. fold N. cbn [List.concat app firstn].
  rewrite exec_cons, E. cbn [fst resp_true].
  rewrite <- app_assoc. destruct ex; reflexivity.
Qed.

Lemma gsteps_len : List.length gsteps = n.
Proof.
  destruct (steps_ok fs0 sc (sc_steps sc) (spec_created sc) w1 (proj2 (create_ok fs0 sc))) as [_ [_ H]].
  exact H.
Qed.

Lemma groups_len : List.length (c20_groups ex sc) = S (S n).
Proof.
  unfold c20_groups, c20_tail_groups. cbn [List.length]. rewrite app_length. fold gsteps. rewrite gsteps_len.
  simpl. lia.
Qed.

Lemma spec_after_all : spec_after sc n = S_end sc.
Proof. unfold spec_after, S_end, n. now rewrite firstn_all. Qed.

Definition Pg (g : nat) (w : world) : Prop := Allowed o0 sc g (obs sc w).

Lemma Allowed_0 o : (o = o0 \/ no_atoms o) -> Allowed o0 sc 0 o.
Proof. intro H. unfold Allowed. exact H. Qed.
Lemma Allowed_step j o : j < n -> holds_committed (s_last (spec_after sc j)) o -> Allowed o0 sc (S j) o.
Proof.
  intros Hj H. unfold Allowed. fold n. change (Nat.eqb (S j) 0) with false. cbv iota.
  destruct (Nat.leb_spec (S j) n); [|lia]. left. now rewrite Nat.sub_1_r.
Qed.
Lemma Allowed_close o :
  (holds_committed (s_last (S_end sc)) o \/ (if sc_keep sc then o = OTable (final_table sc) else o = ONoFile)) ->
  Allowed o0 sc (S n) o.
Proof.
  intro H. unfold Allowed. fold n. change (Nat.eqb (S n) 0) with false. cbv iota.
  destruct (Nat.leb_spec (S n) n); [lia|]. rewrite Nat.eqb_refl. now rewrite spec_after_all.
Qed.
Lemma Allowed_end o :
  (if sc_keep sc then o = OTable (final_table sc) else o = ONoFile) -> Allowed o0 sc (S (S n)) o.
Proof.
  intro H. unfold Allowed. fold n. change (Nat.eqb (S (S n)) 0) with false. cbv iota.
  destruct (Nat.leb_spec (S (S n)) n); [lia|].
  destruct (Nat.eqb_spec (S (S n)) (S n)); [lia|]. exact H.
Qed.

Lemma w1_ok : st_ok fs0 sc (spec_created sc) w1.
Proof. exact (proj2 (create_ok fs0 sc)). Qed.

Lemma groups_before g : g < S (S n) ->
  always_before (Pg g) (exec (List.concat (firstn g (c20_groups ex sc))) (world0 fs0)) (nth g (c20_groups ex sc) []).
Proof.
  intro Hg. unfold c20_groups. fold g0.
  destruct (steps_ok fs0 sc (sc_steps sc) (spec_created sc) w1 w1_ok) as [Hsteps [Hend Hlen]].
  fold gsteps in Hsteps, Hend, Hlen. cbn [s_tab spec_created] in Hsteps, Hend, Hlen. fold gsteps in Hsteps, Hend, Hlen.
  destruct g as [|j].
  - cbn [firstn List.concat nth]. rewrite exec_nil.
    eapply always_before_weaken; [|exact (proj1 (create_ok fs0 sc))].
    intros w' H. apply Allowed_0. exact H.
  - cbn [firstn List.concat nth]. rewrite exec_app. fold w1. unfold c20_tail_groups. fold gsteps.
    destruct (Nat.lt_ge_cases j n) as [Hj|Hj].
    + rewrite firstn_app_le by (rewrite gsteps_len; lia).
      rewrite app_nth1 by (rewrite gsteps_len; exact Hj).
      eapply always_before_weaken; [|exact (Hsteps j Hj)].
      intros w' H. apply Allowed_step; [exact Hj | exact H].
    + assert (j = n) by lia. subst j.
      rewrite firstn_app_ge by (rewrite gsteps_len; lia). rewrite gsteps_len, Nat.sub_diag.
      cbn [firstn]. rewrite app_nil_r.
      rewrite app_nth2 by (rewrite gsteps_len; lia). rewrite gsteps_len, Nat.sub_diag. cbn [nth].
      eapply always_before_weaken; [|exact (proj1 (close_ok fs0 sc _ Hend))].
      intros w' H. apply Allowed_close. exact H.
Qed.

Lemma flat_exec : exec (c20_flat ex sc) (world0 fs0) = exec (acts_close sc) (exec (List.concat gsteps) w1).
Proof.
  unfold c20_flat, c20_groups, c20_tail_groups. fold g0. fold gsteps.
  cbn [List.concat]. rewrite concat_app. cbn [List.concat]. rewrite app_nil_r.
  now rewrite !exec_app.
Qed.

Lemma end_ok : st_ok fs0 sc (S_end sc) (exec (List.concat gsteps) w1).
Proof.
  destruct (steps_ok fs0 sc (sc_steps sc) (spec_created sc) w1 w1_ok) as [_ [Hend _]]. exact Hend.
Qed.

(* ---------------- the theorems ---------------- *)
Theorem crash_atomic k :
  Allowed o0 sc (group_of (c20_groups ex sc) k)
          (observe (recover (crash (fst (run_n k (world0 fs0) (c20_script sc)))) N) N).
Proof.
  rewrite observe_recover. unfold crash. rewrite run_script.
  destruct (Nat.lt_ge_cases k (List.length (c20_flat ex sc))) as [Hk|Hk].
  - apply (groups_points (c20_groups ex sc) Pg (world0 fs0)).
    + intros g Hg. rewrite groups_len in Hg. now apply groups_before.
    + exact Hk.
  - rewrite group_of_end by exact Hk. rewrite groups_len.
    rewrite firstn_all2 by exact Hk. rewrite flat_exec.
    apply Allowed_end. exact (proj1 (proj2 (close_ok fs0 sc _ end_ok))).
Qed.

Definition final_world : world := fst (run_n (List.length (c20_flat ex sc)) (world0 fs0) (c20_script sc)).

Lemma final_world_eq : final_world = exec (acts_close sc) (exec (List.concat gsteps) w1).
Proof. unfold final_world. rewrite run_script, firstn_all. exact flat_exec. Qed.

Theorem close_keep_exact :
  sc_keep sc = true ->
  observe (w_fs final_world) N = OTable (final_table sc)
  /\ (fs0 (jpath N) = None -> w_fs final_world (jpath N) = None).
Proof.
  intro Hk. rewrite final_world_eq.
  destruct (close_ok fs0 sc _ end_ok) as [_ [H1 [_ H3]]]. rewrite Hk in H1. split; [exact H1 | exact H3].
Qed.

Theorem close_remove_only_that_file :
  sc_keep sc = false ->
  w_fs final_world N = None
  /\ (forall p, p <> N -> p <> jpath N -> w_fs final_world p = fs0 p)
  /\ (fs0 (jpath N) = None -> w_fs final_world (jpath N) = None).
Proof.
  intro Hk. rewrite final_world_eq.
  destruct (close_ok fs0 sc _ end_ok) as [_ [H1 [H2 H3]]]. rewrite Hk in H1.
  split; [|split; [exact H2 | exact H3]].
  unfold obs, observe in H1. fold N in H1.
  destruct (w_fs (exec (acts_close sc) (exec (List.concat gsteps) w1)) N) as [[|[|]|]|]; try discriminate; reflexivity.
Qed.

End Main.

(* ================================================================== *)
(* file names are data *)
Section Names.
Variable fs0 : fsys.
Variable sc : scenario.
Let N := sc_name sc.
Let J := jpath N.
Let ex := is_some (fs0 N).

(* the only shapes of action a scenario performs: tests and reads; removal of exactly the given name;
   connection actions on the one connection opened on exactly the given name *)
Definition act_local (a : act) : Prop :=
  match a with
  | AExists _ | AReadAll _ => True
  | ARemove p => p = N
  | AConnect h (Some p) => h = 0 /\ p = N
  | AExec h _ _ | ACommit h | ACloseConn h => h = 0
  | _ => False
  end.

Definition local_inv (w : world) : Prop :=
  (forall p, p <> N -> p <> J -> w_fs w p = fs0 p) /\
  (forall c, w_conns w 0 = Some c -> c_path c = Some N).

Lemma w_fs_mk f c : w_fs (mkWorld f c) = f.
Proof. reflexivity. Qed.
Lemma w_conns_mk f c : w_conns (mkWorld f c) = c.
Proof. reflexivity. Qed.

Lemma local_step w a : local_inv w -> act_local a -> local_inv (fst (step w a)).
Proof.
  intros [Hf Hc] Ha. destruct w as [fs cs]. simpl w_fs in *. simpl w_conns in *.
  assert (Hinv : local_inv (mkWorld fs cs)) by (split; assumption).
  destruct a as [p|p|p s|p|p|p|s d|p|h [p|]|h k f|h|h]; simpl in Ha; try contradiction.
  - (* exists *) exact Hinv.
  - (* readall *) unfold step, fstep. simpl w_fs. destruct (fs p) as [[| |]|]; exact Hinv.
  - (* remove N *) subst p. unfold step, fstep. simpl w_fs. fold N.
    destruct (fs N); cbn [fst w_fs w_conns c_path c_intx c_view]; split; try assumption.
    intros p HpN HpJ; rewrite ?w_fs_mk. rewrite fs_set_neq by exact HpN. now apply Hf.
  - (* connect 0 N *) destruct Ha as [-> ->]. unfold step. simpl w_fs. simpl w_conns. fold N.
    destruct (fs N) as [[| |]|]; cbn [fst w_fs w_conns c_path c_intx c_view]; split; try assumption.
    + intros c; rewrite ?w_conns_mk; rewrite conn_set_eq. intro E. injection E as <-. reflexivity.
    + intros p HpN HpJ; rewrite ?w_fs_mk. rewrite fs_set_neq by exact HpN. now apply Hf.
    + intros c; rewrite ?w_conns_mk; rewrite conn_set_eq. intro E. injection E as <-. reflexivity.
  - (* exec *) subst h. unfold step. simpl w_fs. simpl w_conns.
    destruct (cs 0) as [c|] eqn:Ec; [|exact Hinv].
    pose proof (Hc c eq_refl) as Hp. rewrite Hp.
    destruct k; cbn [fst w_fs w_conns c_path c_intx c_view].
    + exact Hinv.
    + split.
      * intros p HpN HpJ; rewrite ?w_fs_mk. destruct (c_intx c); [now apply Hf|]. fold N. rewrite fs_set_neq by exact HpN. now apply Hf.
      * intros c'; rewrite ?w_conns_mk; rewrite conn_set_eq. intro E. injection E as <-. reflexivity.
    + split.
      * intros p HpN HpJ; rewrite ?w_fs_mk. destruct (c_intx c); [now apply Hf|]. fold N. fold J. rewrite fs_set_neq by exact HpJ. now apply Hf.
      * intros c'; rewrite ?w_conns_mk; rewrite conn_set_eq. intro E. injection E as <-. reflexivity.
  - (* commit *) subst h. unfold step. simpl w_fs. simpl w_conns.
    destruct (cs 0) as [c|] eqn:Ec; [|exact Hinv].
    pose proof (Hc c eq_refl) as Hp. rewrite Hp.
    destruct (c_intx c); cbn [fst w_fs w_conns c_path c_intx c_view]; [|exact Hinv]. split.
    + intros p HpN HpJ; rewrite ?w_fs_mk. fold N. fold J. rewrite fs_set_neq by exact HpJ. rewrite fs_set_neq by exact HpN. now apply Hf.
    + intros c'; rewrite ?w_conns_mk; rewrite conn_set_eq. intro E. injection E as <-. reflexivity.
  - (* close *) subst h. unfold step. simpl w_fs. simpl w_conns.
    destruct (cs 0) as [c|] eqn:Ec; [|exact Hinv].
    pose proof (Hc c eq_refl) as Hp. rewrite Hp. cbn [fst w_fs w_conns c_path c_intx c_view]. split.
    + intros p HpN HpJ; rewrite ?w_fs_mk. destruct (c_intx c); [|now apply Hf]. fold N. fold J. rewrite fs_set_neq by exact HpJ. now apply Hf.
    + intros c'; rewrite ?w_conns_mk; rewrite conn_set_eq. discriminate.
Qed.

Lemma local_exec : forall l w, local_inv w -> Forall act_local l -> local_inv (exec l w).
Proof.
  induction l as [|a l IH]; intros w Hw Hl; [exact Hw|].
  rewrite exec_cons. inversion Hl; subst. apply IH; [apply local_step; assumption | assumption].
Qed.

Lemma sels_local m : Forall act_local (sels 0 m).
Proof. unfold sels. induction m; simpl; constructor; [reflexivity | assumption]. Qed.

Lemma create_local : Forall act_local (acts_create sc).
Proof.
  unfold acts_create. fold N. repeat (apply Forall_app; split).
  - repeat constructor.
  - destruct (sc_pdb sc); repeat constructor.
  - repeat constructor.
  - destruct (sc_fix sc); [|constructor]. apply Forall_app. split; [apply sels_local | repeat constructor].
Qed.

Lemma step_local s t : Forall act_local (acts_step s t).
Proof.
  destruct s as [m|]; [destruct m as [col vals idx | cols vals rowids | name ctype dflt]|]; unfold acts_step, acts_modify.
  - repeat constructor.
  - apply Forall_app. split; [apply sels_local|].
    destruct (update_shape_ok cols vals); [|constructor].
    apply Forall_app. split; [apply sels_local|].
    destruct (update_count_ok vals rowids t); repeat constructor.
  - repeat constructor.
  - repeat constructor.
Qed.

Lemma steps_local : forall ss t, Forall act_local (List.concat (groups_steps ss t)).
Proof.
  induction ss as [|s ss IH]; intro t; simpl; [constructor|].
  apply Forall_app. split; [apply step_local | apply IH].
Qed.

Lemma flat_local : Forall act_local (c20_flat ex sc).
Proof.
  unfold c20_flat, c20_groups, c20_tail_groups, c20_prelude. fold N. cbn [List.concat].
  rewrite concat_app. cbn [List.concat]. rewrite app_nil_r.
  apply Forall_app. split; [apply Forall_app; split|apply Forall_app; split].
  - destruct ex; repeat constructor.
  - apply create_local.
  - apply steps_local.
  - unfold acts_close. fold N. destruct (sc_keep sc); repeat constructor.
Qed.

Lemma Forall_firstn {A} (P : A -> Prop) k l : Forall P l -> Forall P (firstn k l).
Proof.
  revert l. induction k as [|k IH]; intros l H; [constructor|].
  destruct l; [constructor|]. inversion H; subst. simpl. constructor; [assumption | now apply IH].
Qed.

Theorem names_are_data k p :
  p <> N -> p <> jpath N ->
  w_fs (fst (run_n k (world0 fs0) (c20_script sc))) p = fs0 p.
Proof.
  intros HpN HpJ. rewrite run_script. fold N. fold ex.
  assert (H : local_inv (exec (firstn k (c20_flat ex sc)) (world0 fs0))).
  { apply local_exec; [|apply Forall_firstn, flat_local].
    split; [reflexivity | intros c H; discriminate]. }
  exact (proj1 H p HpN HpJ).
Qed.

End Names.

(* ================================================================== *)
(* "never part of one": a committed table is always a table the object held after some step *)
Lemma last_is_snapshot : forall ss St,
  s_last (spec_run ss St) = s_last St \/
  exists j, j <= List.length ss /\ s_last (spec_run ss St) = Some (s_tab (spec_run (firstn j ss) St)).
Proof.
  induction ss as [|s ss IH]; intro St; [left; reflexivity|].
  simpl spec_run. destruct (IH (spec_step s St)) as [E|[j [Hj E]]].
  - assert (H : s_last (spec_step s St) = s_last St \/ s_last (spec_step s St) = Some (s_tab (spec_step s St))).
    { unfold spec_step. destruct s as [m|]; [destruct m|]; simpl; try (left; reflexivity); try (right; reflexivity).
      destruct (s_dirty St); [left | right]; reflexivity. }
    destruct H as [H|H].
    + left. congruence.
    + right. exists 1. split; [simpl; lia|]. simpl firstn. simpl spec_run. congruence.
  - right. exists (S j). split; [simpl; lia|]. simpl firstn. simpl spec_run. exact E.
Qed.

Lemma committed_is_snapshot sc j t :
  s_last (spec_after sc j) = Some t -> exists i, t = s_tab (spec_after sc i).
Proof.
  unfold spec_after. intro H.
  destruct (last_is_snapshot (firstn j (sc_steps sc)) (spec_created sc)) as [E|[i [Hi E]]].
  - rewrite E in H. discriminate.
  - rewrite E in H. injection H as <-. exists i.
    rewrite firstn_firstn. f_equal. f_equal. f_equal.
    rewrite firstn_length in Hi. lia.
Qed.

Theorem never_partial fs0 sc k :
  let name := sc_name sc in
  let o := observe (recover (crash (fst (run_n k (world0 fs0) (c20_script sc)))) name) name in
  no_atoms o \/ o = observe fs0 name \/ exists i, o = OTable (s_tab (spec_after sc i)).
Proof.
  intros name o. pose proof (crash_atomic fs0 sc k) as H. fold name in H. fold o in H.
  assert (HC : forall j, holds_committed (s_last (spec_after sc j)) o ->
               no_atoms o \/ o = observe fs0 name \/ exists i, o = OTable (s_tab (spec_after sc i))).
  { intros j Hj. destruct (s_last (spec_after sc j)) as [t|] eqn:E; simpl in Hj.
    - right. right. destruct (committed_is_snapshot sc j t E) as [i Hi]. exists i. now rewrite Hj, Hi.
    - left. exact Hj. }
  assert (HF : (if sc_keep sc then o = OTable (final_table sc) else o = ONoFile) ->
               no_atoms o \/ o = observe fs0 name \/ exists i, o = OTable (s_tab (spec_after sc i))).
  { destruct (sc_keep sc); intro E.
    - right. right. exists (List.length (sc_steps sc)). rewrite E. unfold final_table, spec_after. now rewrite firstn_all.
    - left. rewrite E. exact I. }
  unfold Allowed in H.
  destruct (Nat.eqb _ 0).
  - destruct H as [H|H]; [right; left; exact H | left; exact H].
  - destruct (Nat.leb _ _).
    + destruct H as [H|H]; eapply HC; exact H.
    + destruct (Nat.eqb _ (S _)).
      * destruct H as [H|H]; [eapply HC; exact H | apply HF; exact H].
      * apply HF; exact H.
Qed.
