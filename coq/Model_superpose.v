(* Model_superpose.v — executable model of superpose.superpose / superpose_selection (C13).
   The rotation matrix returned by get_rotation_matrix is an ORACLE argument here (its
   optimality is property C06); everything else — which atoms are paired, centring on the
   selections, the single rigid motion applied to ALL atoms, the write-back of x,y,z only —
   is modelled. superpose.py:10-114. *)
From Verif Require Import PyLib ModelTypes Model_many Model_store.
Open Scope Q_scope.

Definition vec := (Q * Q * Q)%type.
Definition mat := (vec * vec * vec)%type.            (* rows *)
(* Qred keeps the rationals in lowest terms (== is unchanged): without it the denominators of a
   sum of n binary64 values grow to 2^(52 n) and the executable model crawls *)
Definition vadd (a b : vec) : vec := let '(a1, a2, a3) := a in let '(b1, b2, b3) := b in (Qred (a1 + b1), Qred (a2 + b2), Qred (a3 + b3)).
Definition vsub (a b : vec) : vec := let '(a1, a2, a3) := a in let '(b1, b2, b3) := b in (Qred (a1 - b1), Qred (a2 - b2), Qred (a3 - b3)).
Definition vdot (a b : vec) : Q := let '(a1, a2, a3) := a in let '(b1, b2, b3) := b in Qred (a1 * b1 + a2 * b2 + a3 * b3).
Definition mv (m : mat) (v : vec) : vec := let '(r1, r2, r3) := m in (vdot r1 v, vdot r2 v, vdot r3 v).
Definition vscale (k : Q) (a : vec) : vec := let '(a1, a2, a3) := a in (Qred (k * a1), Qred (k * a2), Qred (k * a3)).
Definition vsum (l : list vec) : vec := fold_right vadd (0, 0, 0) l.
Definition mean (l : list vec) : vec := vscale (1 / inject_Z (Z.of_nat (List.length l))) (vsum l).

(* superpose_selection (superpose.py:82-114):
     tr_mobile = -mean(sel_mob); tr_target = -mean(sel_tar)
     xyz += tr_mobile; xyz = rmat . xyz (rotation about the origin); xyz -= tr_target *)
Definition superpose_selection (rmat : mat) (sel_mob sel_tar : list vec) (xyz : list vec) : list vec :=
  let cm := mean sel_mob in let ct := mean sel_tar in
  map (fun x => vadd (mv rmat (vsub x cm)) ct) xyz.

(* the centred selections handed to the rotation kernel *)
Definition centred (l : list vec) : list vec := let c := mean l in map (fun x => vsub x c) l.

(* which coordinates are paired (superpose.py:49-57): by position when the two selections have
   the same size, otherwise through the identity-keyed intersection of many2sql *)
Definition xyz_of (r : row) : vec :=
  match nth 7 r VNull, nth 8 r VNull, nth 9 r VNull with
  | VReal x, VReal y, VReal z => (x, y, z)
  | _, _, _ => (0, 0, 0)
  end.
Definition pairs_of_tuples (tuples : list (list row)) : list vec * list vec :=
  (map (fun t => xyz_of (nth 0 t [])) tuples, map (fun t => xyz_of (nth 1 t [])) tuples).
(* superpose.get_intersection: many2sql([db1.sql2pdb(), db2.sql2pdb()]) called with the selection keywords, then get_intersection('x,y,z'):
   the paired coordinates are those of the EXPORTED TEXT of both structures (PDB precision) *)
Definition paired_selections (sel_mobile sel_target : list row) : res (list vec * list vec) :=
  if Nat.eqb (List.length sel_mobile) (List.length sel_target)
  then Ok (map xyz_of sel_mobile, map xyz_of sel_target)
  else
    do a <- snapshot sel_mobile; do b <- snapshot sel_target;
    Ok (pairs_of_tuples (join [1; 3; 5; 4]%nat [a; b])).

Definition set_xyz (r : row) (v : vec) : row :=
  let '(x, y, z) := v in
  map (fun iv => match fst iv with 7%nat => VReal x | 8%nat => VReal y | 9%nat => VReal z | _ => snd iv end)
      (combine (seq 0 (List.length r)) r).

(* the whole call, given the oracle's matrix: new mobile table *)
Definition superpose (rmat : mat) (mobile sel_mobile sel_target : list row) : res (list row) :=
  do p <- paired_selections sel_mobile sel_target;
  let new := superpose_selection rmat (fst p) (snd p) (map xyz_of mobile) in
  Ok (map (fun rv => set_xyz (fst rv) (snd rv)) (combine mobile new)).
