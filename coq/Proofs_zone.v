(* Proofs_zone.v — C09: a zone file written by the library is read back as exactly the zone *)
From Coq Require Import Lia ZifyBool.
From Verif Require Import PyLib PyLibFacts ModelTypes Generated_zone Model_zone Proofs_text Proofs_digits Proofs_numtext.
Open Scope string_scope.

(* chain identifiers that a zone file can carry: one character, not blank, not '-' *)
Definition zone_char (c : ascii) : bool := (negb (is_space c) && negb (Ascii.eqb c "-"))%bool.

Fixpoint nosep (sep : ascii) (s : string) : bool :=
  match s with EmptyString => true | String c t => (negb (Ascii.eqb c sep) && nosep sep t)%bool end.

Lemma app_assoc_s (a b c : string) : ((a ++ b) ++ c = a ++ (b ++ c))%string.
Proof. induction a as [|x a IH]; cbn; [reflexivity | rewrite IH; reflexivity]. Qed.
Lemma app_nil_r_s (a : string) : (a ++ "" = a)%string.
Proof. induction a as [|x a IH]; cbn; [reflexivity | rewrite IH; reflexivity]. Qed.

Lemma ws_split_aux_nospace s : forall cur r, nospace s = true ->
  ws_split_aux cur (s ++ r) = ws_split_aux (rev_str cur s) r.
Proof.
  induction s as [|c t IH]; intros cur r H; cbn; [reflexivity|].
  cbn in H. apply andb_prop in H. destruct H as [Hc Ht]. apply negb_true_iff in Hc. rewrite Hc.
  apply IH, Ht.
Qed.
Lemma split_on_aux_nosep sep s : forall cur r, nosep sep s = true ->
  split_on_aux sep cur (s ++ r) = split_on_aux sep (rev_str cur s) r.
Proof.
  induction s as [|c t IH]; intros cur r H; cbn; [reflexivity|].
  cbn in H. apply andb_prop in H. destruct H as [Hc Ht]. apply negb_true_iff in Hc. rewrite Hc.
  apply IH, Ht.
Qed.

Lemma rev_rev_cur cur s : rev_str "" (rev_str cur s) = (rev_str "" cur ++ s)%string.
Proof.
  revert cur. induction s as [|c t IH]; intro cur; cbn.
  - rewrite app_nil_r_s. reflexivity.
  - rewrite IH. cbn. rewrite (rev_str_app (String c "")). rewrite app_assoc_s. reflexivity.
Qed.

Lemma rev_str_length s : forall acc, String.length (rev_str acc s) = (String.length s + String.length acc)%nat.
Proof. induction s as [|x b IH]; intro acc; cbn; [reflexivity | rewrite IH; cbn; lia]. Qed.

Lemma digit_not_dash c : is_digit c = true -> Ascii.eqb c "-" = false.
Proof.
  intro H. rewrite ascii_eqb_nat. change (nat_of_ascii "-") with 45%nat.
  unfold is_digit in H. revert H. generalize (nat_of_ascii c). intros n H. lia.
Qed.
Lemma all_digits_nosep s : all_digits s = true -> nosep "-" s = true.
Proof.
  induction s as [|c t IH]; cbn; intro H; [reflexivity|].
  apply andb_prop in H. destruct H as [A B]. rewrite (digit_not_dash c A), (IH B). reflexivity.
Qed.

Lemma py_int_digits n : (0 <= n)%Z -> py_int (digits n) = Ok n.
Proof.
  intro H. unfold py_int. pose proof (parse_int_str_of_Z n) as P. unfold str_of_Z in P.
  destruct (Z.ltb_spec n 0) as [L|L]; [exfalso; lia|]. rewrite P. reflexivity.
Qed.

Lemma format_is : zone_format_src = [ZLit "zone "; ZChain; ZNum; ZLit "-"; ZChain; ZNum; ZLit (String nl "")].
Proof. reflexivity. Qed.

Theorem zone_line_roundtrip c z prev : zone_char c = true ->
  read_zone_line prev (zone_line (String c "") z) = Ok (String c "", z).
Proof.
  intro Hc. unfold zone_char in Hc. apply andb_prop in Hc. destruct Hc as [Hsp Hd].
  apply negb_true_iff in Hsp. apply negb_true_iff in Hd.
  unfold zone_line. rewrite format_is. cbn [render_zone].
  set (N := str_of_Z z).
  assert (HN : nospace N = true /\ (1 <= String.length N)%nat).
  { unfold N, str_of_Z. destruct (z <? 0)%Z eqn:Ez.
    - destruct (digits_spec (- z)%Z ltac:(lia)) as [A [_ [L _]]].
      split; [cbn; apply all_digits_nospace, A | cbn; lia].
    - destruct (digits_spec z ltac:(lia)) as [A [_ [L _]]]. split; [apply all_digits_nospace, A | exact L]. }
  destruct HN as [HNs HNl].
  (* the line is "zone " ++ body ++ "\n" with a blank-free body *)
  set (body := (String c "" ++ N ++ "-" ++ String c "" ++ N)%string).
  assert (Hline : ("zone " ++ String c "" ++ N ++ "-" ++ String c "" ++ N ++ String nl "" ++ "")%string
                  = ("zone" ++ (String " " (body ++ String nl "")))%string).
  { unfold body. cbn [append]. rewrite app_assoc_s. cbn [append]. reflexivity. }
  rewrite Hline. clear Hline.
  assert (Hbody : nospace body = true).
  { unfold body. cbn. rewrite Hsp. cbn. rewrite !nospace_app. cbn. rewrite Hsp, HNs. reflexivity. }
  assert (Hws : ws_split ("zone" ++ String " " (body ++ String nl "")) = ["zone"; body]).
  { unfold ws_split. rewrite (ws_split_aux_nospace "zone") by reflexivity. cbn [rev_str].
    cbn [ws_split_aux is_space]. change (is_space " ") with true. cbv iota.
    rewrite (ws_split_aux_nospace body) by exact Hbody.
    cbn [ws_split_aux]. change (is_space nl) with true. cbv iota.
    destruct (rev_str "" body) eqn:Er.
    - exfalso. assert (L : String.length (rev_str "" body) = 0%nat) by (rewrite Er; reflexivity).
      rewrite rev_str_length in L. unfold body in L. cbn in L. lia.
    - rewrite <- Er. rewrite rev_str_involutive. reflexivity. }
  unfold read_zone_line. rewrite Hws. unfold body.
  unfold N, str_of_Z. destruct (z <? 0)%Z eqn:Ez.
  - (* negative: c - D - c - D *)
    destruct (digits_spec (- z)%Z ltac:(lia)) as [A _]. pose proof (all_digits_nosep _ A) as HD.
    set (D := digits (- z)%Z) in *.
    assert (Hs : split_on "-" (String c "" ++ String "-" D ++ "-" ++ String c "" ++ String "-" D)
                 = [String c ""; D; String c ""; D]).
    { unfold split_on. cbn [append split_on_aux]. rewrite Hd. change (Ascii.eqb "-" "-") with true. cbv iota.
      cbn [rev_str].
      rewrite (split_on_aux_nosep "-" D) by exact HD.
      cbn [split_on_aux]. change (Ascii.eqb "-" "-") with true. cbv iota. rewrite Hd.
      change (Ascii.eqb "-" "-") with true. cbv iota.
      rewrite rev_rev_cur. cbn [rev_str append].
      replace D with (D ++ "")%string at 2 by apply app_nil_r_s.
      rewrite (split_on_aux_nosep "-" D) by exact HD. cbn [split_on_aux].
      rewrite rev_rev_cur. reflexivity. }
    rewrite Hs. unfold D. rewrite py_int_digits by lia. cbn [bind]. f_equal. f_equal. lia.
  - (* non-negative: cD - cD *)
    destruct (digits_spec z ltac:(lia)) as [A _]. pose proof (all_digits_nosep _ A) as HD.
    set (D := digits z) in *.
    assert (Hs : split_on "-" (String c "" ++ D ++ "-" ++ String c "" ++ D) = [String c D; String c D]).
    { unfold split_on. cbn [append split_on_aux]. rewrite Hd.
      rewrite (split_on_aux_nosep "-" D) by exact HD.
      cbn [split_on_aux]. change (Ascii.eqb "-" "-") with true. cbv iota. rewrite Hd.
      rewrite rev_rev_cur. cbn [rev_str append].
      replace D with (D ++ "")%string at 2 by apply app_nil_r_s.
      rewrite (split_on_aux_nosep "-" D) by exact HD. cbn [split_on_aux].
      rewrite rev_rev_cur. reflexivity. }
    rewrite Hs. unfold D. rewrite py_int_digits by lia. reflexivity.
Qed.

(* ---------------- whole files ---------------- *)
Lemma nospace_not_nl c : is_space c = false -> Ascii.eqb c nl = false.
Proof.
  intro H. rewrite ascii_eqb_nat. change (nat_of_ascii nl) with 10%nat.
  unfold is_space in H. revert H. generalize (nat_of_ascii c). intros n H. lia.
Qed.

Definition zone_ok (zone : list (string * Z)) : Prop :=
  Forall (fun cz => exists c, fst cz = String c "" /\ zone_char c = true) zone.

Fixpoint nonl (s : string) : bool :=
  match s with EmptyString => true | String c t => (negb (Ascii.eqb c nl) && nonl t)%bool end.
Lemma nonl_app s t : nonl (s ++ t) = (nonl s && nonl t)%bool.
Proof. induction s as [|c s IH]; cbn; [reflexivity | rewrite IH, andb_assoc; reflexivity]. Qed.
Lemma nospace_nonl s : nospace s = true -> nonl s = true.
Proof.
  induction s as [|c t IH]; cbn; intro H; [reflexivity|].
  apply andb_prop in H. destruct H as [A B]. apply negb_true_iff in A.
  rewrite (nospace_not_nl c A), (IH B). reflexivity.
Qed.
Lemma readlines_aux_line' s : forall cur r, nonl s = true ->
  readlines_aux cur (s ++ String nl r) = (rev_str "" cur ++ s ++ String nl "")%string :: readlines_aux "" r.
Proof.
  induction s as [|c t IH]; intros cur r H.
  - cbn [append readlines_aux]. change (Ascii.eqb nl nl) with true. cbv iota.
    cbn [rev_str]. rewrite (rev_str_app (String nl "")). reflexivity.
  - cbn in H. apply andb_prop in H. destruct H as [Hc Ht]. apply negb_true_iff in Hc.
    cbn [append readlines_aux]. rewrite Hc.
    rewrite (IH (String c cur) r Ht). cbn [rev_str]. rewrite (rev_str_app (String c "")).
    rewrite app_assoc_s. reflexivity.
Qed.

Lemma zone_line_nonl c z : zone_char c = true ->
  exists body, nonl body = true /\ zone_line (String c "") z = (body ++ String nl "")%string.
Proof.
  intro Hc. unfold zone_char in Hc. apply andb_prop in Hc. destruct Hc as [Hsp _]. apply negb_true_iff in Hsp.
  unfold zone_line. rewrite format_is. cbn [render_zone].
  assert (HN : nospace (str_of_Z z) = true).
  { unfold str_of_Z. destruct (z <? 0)%Z eqn:Ez.
    - destruct (digits_spec (- z)%Z ltac:(lia)) as [A _]. cbn. apply all_digits_nospace, A.
    - destruct (digits_spec z ltac:(lia)) as [A _]. apply all_digits_nospace, A. }
  exists ("zone " ++ String c "" ++ str_of_Z z ++ "-" ++ String c "" ++ str_of_Z z)%string.
  split.
  - rewrite !nonl_app. cbn. rewrite (nospace_not_nl c Hsp), (nospace_nonl _ HN). reflexivity.
  - cbn [append]. repeat (rewrite app_assoc_s; cbn [append]). reflexivity.
Qed.

Theorem zone_file_roundtrip zone : zone_ok zone ->
  read_zone (write_zone zone) = Ok (group zone).
Proof.
  intro H. unfold read_zone.
  enough (E : forall prev, read_zone_lines prev (readlines (write_zone zone)) = Ok zone) by (rewrite E; reflexivity).
  induction H as [|[ch z] t [c [Hc Hz]] Ht IH]; intro prev; [reflexivity|].
  cbn [fst snd] in Hc. subst ch.
  cbn [write_zone fold_right fst snd]. fold (write_zone t).
  destruct (zone_line_nonl c z Hz) as [body [Hb El]].
  unfold readlines. rewrite El, app_assoc_s. cbn [append].
  rewrite (readlines_aux_line' body "" (write_zone t) Hb). cbn [rev_str append].
  rewrite <- El. cbn [read_zone_lines].
  rewrite (zone_line_roundtrip c z prev Hz). cbn [bind].
  fold (readlines (write_zone t)). rewrite IH. reflexivity.
Qed.
