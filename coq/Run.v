(* Run.v — single entry point of the executable model: one wire value in, one out.
   Decoding of arguments is done here, in Gallina, so that driver.ml has no logic. *)
From Verif Require Import PyLib ModelTypes Generated_scores Model_scores Spec_scores Run_parse Run_export Run_many Run_store Run_superpose Run_sql Run_contact Run_geom.
From Verif Require Run_fs.
From Verif Require Import Run_rmsd.
Open Scope string_scope.

Definition VresS (r : res string) : V :=
  match r with Ok s => VOk (VS s) | Err e => VErr e end.

Definition run_scores (cmd : string) (a : list V) : option V :=
  if cmd =? "capri" then
    Some (VresS (capri (getQ (nth 0 a (VZ 0))) (getQ (nth 1 a (VZ 0))) (getQ (nth 2 a (VZ 0)))))
  else if cmd =? "capri_sys" then
    Some (VresS (capri_src (getQ (nth 0 a (VZ 0))) (getQ (nth 1 a (VZ 0))) (getQ (nth 2 a (VZ 0))) (getS (nth 3 a (VZ 0)))))
  else if cmd =? "spec.capri" then
    Some (VOk (VS (class_name (capri_spec (getQ (nth 0 a (VZ 0))) (getQ (nth 1 a (VZ 0))) (getQ (nth 2 a (VZ 0)))))))
  else if cmd =? "dockq" then
    Some (VQ (dockq (getQ (nth 0 a (VZ 0))) (getQ (nth 1 a (VZ 0))) (getQ (nth 2 a (VZ 0)))
                    (getQ (nth 3 a (VZ 0))) (getQ (nth 4 a (VZ 0)))))
  else if cmd =? "dockq_raw" then
    Some (VQ (Qred (dockq_raw_src (getQ (nth 0 a (VZ 0))) (getQ (nth 1 a (VZ 0))) (getQ (nth 2 a (VZ 0)))
                    (getQ (nth 3 a (VZ 0))) (getQ (nth 4 a (VZ 0))))))
  else if cmd =? "spec.dockq" then
    Some (VQ (round_dec 6 (dockq_formula (getQ (nth 0 a (VZ 0))) (getQ (nth 1 a (VZ 0))) (getQ (nth 2 a (VZ 0)))
                    (getQ (nth 3 a (VZ 0))) (getQ (nth 4 a (VZ 0))))))
  else if cmd =? "dockq_defaults" then Some (VL [VQ dockq_d1_src; VQ dockq_d2_src])
  else None.

Definition run (v : V) : V :=
  match v with
  | VL (VS cmd :: args) =>
    match run_scores cmd args with
    | Some r => r
    | None =>
    match run_parse cmd args with
    | Some r => r
    | None =>
    match run_export cmd args with
    | Some r => r
    | None =>
    match run_many cmd args with
    | Some r => r
    | None =>
    match run_store cmd args with
    | Some r => r
    | None =>
    match run_superpose cmd args with
    | Some r => r
    | None =>
    match run_sql cmd args with
    | Some r => r
    | None =>
    match run_contact cmd args with
    | Some r => r
    | None =>
    match run_geom cmd args with
    | Some r => r
    | None =>
    match Run_fs.run_fs cmd args with
    | Some r => r
    | None =>
    match run_rmsd cmd args with
    | Some r => r
    | None => VErr "unknown-command"
    end end end end end end end end end end end
  | _ => VErr "bad-request"
  end.
