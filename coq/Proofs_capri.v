(* Proofs_scores.v — lemmas for C12 *)
From Coq Require Import Lqa Lia.
From Verif Require Import PyLib PyLibFacts ModelTypes Generated_scores Model_scores Spec_scores.
Open Scope Q_scope.

(* the binary64 thresholds, computed once *)
Lemma t01_val : t01 = 3602879701896397 # 36028797018963968. Proof. vm_compute. reflexivity. Qed.
Lemma t03_val : t03 = 5404319552844595 # 18014398509481984. Proof. vm_compute. reflexivity. Qed.
Lemma t05_val : t05 = 1 # 2. Proof. vm_compute. reflexivity. Qed.
(* and they are within 2^-56 relative distance of the decimal numbers they stand for *)
Lemma t01_near : Qabs (t01 - (1#10)) <= 1 # 100000000000000000.
Proof. rewrite t01_val. vm_compute. discriminate. Qed.
Lemma t03_near : Qabs (t03 - (3#10)) <= 1 # 10000000000000000.
Proof. rewrite t03_val. vm_compute. discriminate. Qed.

Ltac decide_cmp :=
  repeat match goal with
  | |- context [Qltb ?a ?b] =>
      first [ rewrite (Qltb_true a b) by lra | rewrite (Qltb_false a b) by lra ]
  | |- context [Qleb ?a ?b] =>
      first [ rewrite (Qleb_true a b) by lra | rewrite (Qleb_false a b) by lra ]
  end.

(* cell decomposition of (f, l, i)-space by the thresholds *)
Inductive fcell (f : Q) : Type :=
| F0 : f < t01 -> fcell f
| F1 : t01 <= f -> f < t03 -> fcell f
| F2 : t03 <= f -> f < t05 -> fcell f
| F3 : t05 <= f -> fcell f.
Lemma fcell_of f : fcell f.
Proof.
  destruct (Qlt_le_dec f t01); [apply F0; assumption|].
  destruct (Qlt_le_dec f t03); [apply F1; assumption|].
  destruct (Qlt_le_dec f t05); [apply F2; assumption|].
  apply F3; assumption.
Qed.
Inductive cell3 (a b c x : Q) : Type :=
| L0 : x <= a -> cell3 a b c x
| L1 : a < x -> x <= b -> cell3 a b c x
| L2 : b < x -> x <= c -> cell3 a b c x
| L3 : c < x -> cell3 a b c x.
Lemma cell3_of a b c x : cell3 a b c x.
Proof.
  destruct (Qlt_le_dec a x); [|apply L0; assumption].
  destruct (Qlt_le_dec b x); [|apply L1; assumption].
  destruct (Qlt_le_dec c x); [|apply L2; assumption].
  apply L3; assumption.
Qed.

Lemma capri_eq_spec f l i : capri f l i = Ok (class_name (capri_spec f l i)).
Proof.
  unfold capri, capri_src, capri_spec, levelb.
  pose proof t01_val as E1. pose proof t03_val as E3. pose proof t05_val as E5.
  change (String.eqb "protein-protein" "protein-protein") with true. cbv iota.
  destruct (fcell_of f) as [Hf|Hf Hf'|Hf Hf'|Hf];
  destruct (cell3_of 1 5 10 l) as [Hl|Hl Hl'|Hl Hl'|Hl];
  destruct (cell3_of 1 2 4 i) as [Hi|Hi Hi'|Hi Hi'|Hi];
  rewrite E1, E3, E5 in *; decide_cmp; reflexivity.
Qed.

Ltac cells f l i :=
  pose proof t01_val as E1; pose proof t03_val as E3; pose proof t05_val as E5;
  destruct (fcell_of f) as [Hf|Hf Hf'|Hf Hf'|Hf];
  destruct (cell3_of 1 5 10 l) as [Hl|Hl Hl'|Hl Hl'|Hl];
  destruct (cell3_of 1 2 4 i) as [Hi|Hi Hi'|Hi Hi'|Hi];
  rewrite E1, E3, E5 in *.

Lemma capri_spec_table f l i : is_class (capri_spec f l i) f l i.
Proof.
  unfold capri_spec, levelb.
  cells f l i; decide_cmp; cbn [andb orb];
  (split; [cbn [cond]; rewrite ?E1, ?E3, ?E5; lra
          | intros c' Hc'; destruct c'; cbn [class_rank] in Hc'; try lia;
            cbn [cond]; rewrite ?E1, ?E3, ?E5; lra]).
Qed.

Lemma capri_spec_levels f l i : is_class_levels (capri_spec f l i) f l i.
Proof.
  unfold capri_spec, levelb.
  cells f l i; decide_cmp; cbn [andb orb];
  (split; [cbn [level class_rank]; rewrite ?E1, ?E3, ?E5; try exact I; lra
          | intros k Hk; cbn [class_rank] in Hk;
            destruct k as [|[|[|[|k]]]]; try lia;
            cbn [level]; rewrite ?E1, ?E3, ?E5; lra]).
Qed.

