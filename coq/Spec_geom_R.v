(* Spec_geom_R.v — the number dictionary over Coq's reals and the Prop-level specifications of
   C10 / C06 / C18.  The executable definitions of Spec_geom.v / Model_geom*.v / Generated_geom.v are
   instantiated here at NumR; nothing is re-defined. *)
From Coq Require Import Reals.
From Verif Require Import Base Model_geom_num Spec_geom.
Open Scope R_scope.

Definition Rltb (a b : R) : bool := if Rlt_dec a b then true else false.
Definition NumR : Num R := mkNum R Rplus Rminus Rmult Rdiv Ropp IZR Rltb.
Notation Nr := NumR.

Lemma Rltb_true a b : Rltb a b = true <-> a < b.
Proof. unfold Rltb. destruct (Rlt_dec a b); split; intros; auto; discriminate. Qed.
Lemma Rltb_false a b : Rltb a b = false <-> ~ a < b.
Proof. unfold Rltb. destruct (Rlt_dec a b); split; intros; auto; try discriminate; contradiction. Qed.

(* ---- rotations --------------------------------------------------------------------------- *)
Definition orthogonal (M : mat3 R) : Prop := mmul Nr (mtrans M) M = meye Nr.
Definition is_rotation (M : mat3 R) : Prop := orthogonal M /\ mdet Nr M = 1.
Definition unit3 (u : vec3 R) : Prop := norm2 Nr u = 1.
Definition unit_cs (c s : R) : Prop := c * c + s * s = 1.
Definition unit4 (q : vec4 R) : Prop := dot4 Nr q q = 1.

(* a map of space is an isometry / preserves handedness on a set of points *)
Definition preserves_distances (f : vec3 R -> vec3 R) : Prop :=
  forall a b, dist2 Nr (f a) (f b) = dist2 Nr a b.
Definition preserves_handedness (f : vec3 R -> vec3 R) : Prop :=
  forall o a b c, triple Nr (vsub Nr (f a) (f o)) (vsub Nr (f b) (f o)) (vsub Nr (f c) (f o))
                = triple Nr (vsub Nr a o) (vsub Nr b o) (vsub Nr c o).
Definition rigid (f : vec3 R -> vec3 R) : Prop := preserves_distances f /\ preserves_handedness f.

(* x |-> M (x - c) + c *)
Definition rot_about (M : mat3 R) (c : vec3 R) (p : vec3 R) : vec3 R := vadd Nr (mvmul Nr M (vsub Nr p c)) c.

(* ---- C06 ------------------------------------------------------------------------------------ *)
Definition optimal (U : mat3 R) (P Q : list (vec3 R)) : Prop :=
  is_rotation U /\ forall R', is_rotation R' -> resid Nr U P Q <= resid Nr R' P Q.

Definition mdiag (s : vec3 R) : mat3 R := M3 (vx s) 0 0 0 (vy s) 0 0 0 (vz s).
(* what numpy.linalg.svd promises for the answer (V, s, Wh) on the input A:  A = V diag(s) Wh,
   orthogonal factors, s1 >= s2 >= s3 >= 0 *)
Definition svd_ok (A : mat3 R) (ans : mat3 R * vec3 R * mat3 R) : Prop :=
  let '(V, s, Wh) := ans in
    A = mmul Nr V (mmul Nr (mdiag s) Wh) /\ orthogonal V /\ orthogonal Wh /\
    vx s >= vy s /\ vy s >= vz s /\ vz s >= 0.
Definition svd_spec (svd : mat3 R -> mat3 R * vec3 R * mat3 R) : Prop := forall A, svd_ok A (svd A).
(* what is used of numpy.linalg.eigh on the symmetric F for the answer (l, U): the column picked by argmax
   is a unit eigenvector and its eigenvalue bounds the Rayleigh quotient *)
Definition eig_ok (pick : list R -> nat) (F : mat4 R) (ans : list R * mat4 R) : Prop :=
  let '(l, U) := ans in
    let q := m4col U (pick l) in
    exists lam, m4vmul Nr F q = V4 (lam * w0 q) (lam * w1 q) (lam * w2 q) (lam * w3 q) /\ unit4 q /\
                forall v, quadform4 Nr F v <= lam * dot4 Nr v v.
Definition eig_spec (pick : list R -> nat) (eig : mat4 R -> list R * mat4 R) : Prop :=
  forall F, eig_ok pick F (eig F).

Definition psd3 (S : mat3 R) : Prop := forall v, 0 <= dot Nr v (mvmul Nr S v).
Definition symmetric3 (S : mat3 R) : Prop := mtrans S = S.

(* ---- C18 ------------------------------------------------------------------------------------ *)
(* v has polar angle theta and azimuth phi (given by their cosines and sines) and length r *)
Definition has_angles (v : vec3 R) (r cphi sphi cth sth : R) : Prop :=
  unit_cs cphi sphi /\ unit_cs cth sth /\ v = vscale Nr r (sph Nr cphi sphi cth sth).
(* eigh on the covariance C -> (u, v): the picked column is a unit eigenvector of extreme eigenvalue *)
Definition eigh_max_spec (C : mat3 R) (e : vec3 R) : Prop :=
  unit3 e /\ exists lam, mvmul Nr C e = vscale Nr lam e /\ forall w, dot Nr w (mvmul Nr C w) <= lam * norm2 Nr w.
Definition eigh_min_spec (C : mat3 R) (e : vec3 R) : Prop :=
  unit3 e /\ exists lam, mvmul Nr C e = vscale Nr lam e /\ forall w, lam * norm2 Nr w <= dot Nr w (mvmul Nr C w).
