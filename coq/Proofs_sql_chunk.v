(* Proofs_sql_chunk.v — C17: the chunk recursion of get().  List facts: separated selections
   concatenate to the selection of the union; the pieces of a list; conditions with one entry
   replaced by a piece. *)
From Coq Require Import Lia.
From Verif Require Import PyLib ModelTypes Generated_parse Model_sqlval Model_sql Spec_sql
  Proofs_sql_base Proofs_sql_get.
Open Scope string_scope.
Open Scope list_scope.

(* ------------------------------------------------------------------ *)
(* separated predicates *)
Lemma filter_all_false {X} (p : X -> bool) l : forallb (fun y => negb (p y)) l = true -> filter p l = [].
Proof.
  induction l as [|x t IH]; cbn; intro H; [reflexivity|].
  apply andb_prop in H. destruct H as [Hx Ht]. apply Bool.negb_true_iff in Hx. rewrite Hx. apply IH; exact Ht.
Qed.
Lemma filter_or_false {X} (p q : X -> bool) l :
  forallb (fun y => negb (p y)) l = true -> filter (fun x => (p x || q x)%bool) l = filter q l.
Proof.
  induction l as [|x t IH]; cbn; intro H; [reflexivity|].
  apply andb_prop in H. destruct H as [Hx Ht]. apply Bool.negb_true_iff in Hx. rewrite Hx. cbn.
  rewrite (IH Ht). reflexivity.
Qed.
Lemma filter_sep_split {X} (p q : X -> bool) l :
  sep p q l = true -> filter (fun x => (p x || q x)%bool) l = (filter p l ++ filter q l)%list.
Proof.
  induction l as [|x t IH]; cbn; intro H; [reflexivity|].
  destruct (q x) eqn:Q.
  - apply andb_prop in H. destruct H as [Hx Ht]. apply Bool.negb_true_iff in Hx. rewrite Hx. cbn.
    rewrite (filter_all_false p t Ht). cbn. rewrite (filter_or_false p q t Ht). reflexivity.
  - rewrite Bool.orb_false_r. destruct (p x); cbn; rewrite (IH H); reflexivity.
Qed.
Lemma filter_seps_concat {X} (l : list X) ps :
  seps l ps = true -> filter (any_of ps) l = List.concat (map (fun p => filter p l) ps).
Proof.
  induction ps as [|p rest IH]; cbn [seps]; intro H.
  - cbn. induction l; [reflexivity|]. cbn. assumption.
  - apply andb_prop in H. destruct H as [H1 H2].
    cbn [map List.concat]. rewrite <- (IH H2). rewrite <- (filter_sep_split p (any_of rest) l H1).
    apply filter_ext. intro x. reflexivity.
Qed.

(* ------------------------------------------------------------------ *)
(* the pieces of a list *)
Lemma chunks_aux_concat n : forall fuel l, (0 < n)%nat -> (List.length l <= fuel)%nat ->
  List.concat (chunks_aux fuel n l) = l.
Proof.
  induction fuel as [|f IH]; intros l Hn Hl.
  - destruct l; [reflexivity|cbn in Hl; lia].
  - destruct l as [|x t]; [reflexivity|].
    cbn [chunks_aux List.concat]. rewrite IH.
    + apply firstn_skipn.
    + exact Hn.
    + rewrite skipn_length. cbn [List.length] in *. lia.
Qed.
Lemma chunks_concat n l : (0 < n)%nat -> List.concat (chunks n l) = l.
Proof. intro H. apply chunks_aux_concat; [exact H|lia]. Qed.
Lemma chunks_aux_small n : forall fuel l c, In c (chunks_aux fuel n l) -> (List.length c <= n)%nat.
Proof.
  induction fuel as [|f IH]; intros l c H; [destruct H|].
  destruct l as [|x t]; [destruct H|]. cbn [chunks_aux] in H. destruct H as [<-|H].
  - apply firstn_le_length.
  - eapply IH; exact H.
Qed.
Lemma chunks_small n l c : In c (chunks n l) -> (List.length c <= n)%nat.
Proof. apply chunks_aux_small. Qed.
Lemma chunks_first n l : (n < List.length l)%nat -> exists rest, chunks n l = firstn n l :: rest.
Proof.
  intro H. unfold chunks. destruct l as [|x t]; [cbn in H; lia|].
  cbn [List.length chunks_aux]. eexists; reflexivity.
Qed.

Lemma mapM_app {A B} (f : A -> res B) l1 l2 ys :
  mapM f (l1 ++ l2) = Ok ys ->
  exists y1 y2, mapM f l1 = Ok y1 /\ mapM f l2 = Ok y2 /\ ys = y1 ++ y2.
Proof.
  revert ys; induction l1 as [|x t IH]; cbn; intros ys H.
  - exists [], ys. auto.
  - apply bind_Ok_inv in H. destruct H as (y & Hy & H1).
    apply bind_Ok_inv in H1. destruct H1 as (ys' & Hys & H2). apply res_Ok_inj in H2. subst ys.
    destruct (IH ys' Hys) as (y1 & y2 & E1 & E2 & E3). subst ys'.
    exists (y :: y1), y2. rewrite Hy, E1. cbn. auto.
Qed.
Lemma mapM_app_ok {A B} (f : A -> res B) l1 l2 y1 y2 :
  mapM f l1 = Ok y1 -> mapM f l2 = Ok y2 -> mapM f (l1 ++ l2) = Ok (y1 ++ y2).
Proof.
  revert y1; induction l1 as [|x t IH]; cbn; intros y1 H1 H2.
  - apply res_Ok_inj in H1. subst. exact H2.
  - apply bind_Ok_inv in H1. destruct H1 as (y & Hy & H1).
    apply bind_Ok_inv in H1. destruct H1 as (ys' & Hys & H3). apply res_Ok_inj in H3. subst y1.
    rewrite Hy. cbn. rewrite (IH ys' Hys H2). reflexivity.
Qed.
Lemma mapM_concat {A B} (f : A -> res B) (pieces : list (list A)) ys :
  mapM f (List.concat pieces) = Ok ys ->
  exists yss, Forall2 (fun c yc => mapM f c = Ok yc) pieces yss /\ ys = List.concat yss.
Proof.
  revert ys; induction pieces as [|c rest IH]; cbn; intros ys H.
  - apply res_Ok_inj in H. subst. exists []. split; [constructor|reflexivity].
  - apply mapM_app in H. destruct H as (y1 & y2 & E1 & E2 & ->).
    destruct (IH y2 E2) as (yss & F & ->). exists (y1 :: yss). split; [constructor; assumption|reflexivity].
Qed.
Lemma forallb_concat {A} (p : A -> bool) (pieces : list (list A)) c :
  forallb p (List.concat pieces) = true -> In c pieces -> forallb p c = true.
Proof.
  induction pieces as [|x rest IH]; cbn; intros H Hin; [destruct Hin|].
  rewrite forallb_app in H. apply andb_prop in H. destruct H as [H1 H2].
  destruct Hin as [<-|Hin]; [exact H1|apply IH; assumption].
Qed.
Lemma existsb_concat {A} (p : A -> bool) (pieces : list (list A)) :
  existsb p (List.concat pieces) = existsb (existsb p) pieces.
Proof.
  induction pieces as [|x rest IH]; cbn; [reflexivity|]. rewrite existsb_app, IH. reflexivity.
Qed.

(* ------------------------------------------------------------------ *)
(* the keyword list around its first long list *)
Fixpoint nodup_keys (kw : conds) : bool :=
  match kw with [] => true | (k, _) :: t => (negb (has_key k t) && nodup_keys t)%bool end.
Fixpoint nlong (kw : conds) : nat :=
  match kw with [] => O | (_, v) :: t => ((if long_list v then 1 else 0) + nlong t)%nat end.

Lemma has_key_app k a b : has_key k (a ++ b) = (has_key k a || has_key k b)%bool.
Proof. induction a as [|[k' v] t IH]; cbn; [reflexivity|]. rewrite IH. apply Bool.orb_assoc. Qed.

Lemma key_of_pos k : fst (key_of k) = false -> key_of k = (false, k).
Proof. unfold key_of. destruct (prefix "no_" k); [discriminate|reflexivity]. Qed.

Lemma first_long_split kw k l :
  first_long kw = Some (k, l) -> nodup_keys kw = true ->
  exists kw1 kw2, kw = kw1 ++ (k, CList l) :: kw2 /\ short_lists kw1 = true /\
                  fst (key_of k) = false /\ long_list (CList l) = true /\ has_key k kw1 = false.
Proof.
  induction kw as [|[k0 v] t IH]; cbn [first_long nodup_keys]; intros H Hnd; [discriminate|].
  apply andb_prop in Hnd. destruct Hnd as [Hk0 Hnd]. apply Bool.negb_true_iff in Hk0.
  destruct (long_list v) eqn:Lv.
  - destruct (fst (key_of k0)) eqn:N; [discriminate|]. inversion H; subst k l.
    destruct v as [x|l']; [discriminate|]. exists [], t. cbn. auto.
  - destruct (IH H Hnd) as (kw1 & kw2 & -> & Hs & Hn & Hl & Hh).
    exists ((k0, v) :: kw1), kw2. repeat split; auto.
    + cbn. rewrite Lv. exact Hs.
    + cbn. rewrite Hh. rewrite has_key_app in Hk0. apply Bool.orb_false_iff in Hk0. destruct Hk0 as [_ Hk0].
      cbn in Hk0. apply Bool.orb_false_iff in Hk0. destruct Hk0 as [Hk0 _].
      rewrite String.eqb_sym. rewrite Hk0. reflexivity.
Qed.

Lemma dict_set_split k v v0 kw1 kw2 :
  has_key k kw1 = false -> dict_set k v (kw1 ++ (k, v0) :: kw2) = kw1 ++ (k, v) :: kw2.
Proof.
  induction kw1 as [|[k' v'] t IH]; cbn; intro H.
  - rewrite String.eqb_refl. reflexivity.
  - apply Bool.orb_false_iff in H. destruct H as [H1 H2]. rewrite H1. rewrite (IH H2). reflexivity.
Qed.

(* ------------------------------------------------------------------ *)
(* one condition whose list is cut in two / in pieces *)
Lemma spec_cond_app t k a b s :
  spec_cond t (k, CList (a ++ b)) = Ok s ->
  exists va vb, spec_cond t (k, CList a) = Ok (fst s, va) /\ spec_cond t (k, CList b) = Ok (fst s, vb) /\
                snd s = va ++ vb.
Proof.
  unfold spec_cond. cbn [fst snd spec_values]. rewrite (key_of_snd k).
  destruct (spec_cond_attr t (snd (key_of k))) as [cr|]; [|discriminate].
  set (chk1 := fun l => match cr with CRowid => negb (forallb is_pint l) | CCol _ => false end).
  set (chk2 := fun l => match cr with CRowid => negb (forallb rowid_in_model l) | CCol _ => false end).
  change (match cr with CRowid => negb (forallb is_pint (a ++ b)) | CCol _ => false end) with (chk1 (a ++ b)).
  change (match cr with CRowid => negb (forallb rowid_in_model (a ++ b)) | CCol _ => false end) with (chk2 (a ++ b)).
  change (match cr with CRowid => negb (forallb is_pint a) | CCol _ => false end) with (chk1 a).
  change (match cr with CRowid => negb (forallb rowid_in_model a) | CCol _ => false end) with (chk2 a).
  change (match cr with CRowid => negb (forallb is_pint b) | CCol _ => false end) with (chk1 b).
  change (match cr with CRowid => negb (forallb rowid_in_model b) | CCol _ => false end) with (chk2 b).
  assert (C1 : chk1 (a ++ b) = false -> chk1 a = false /\ chk1 b = false).
  { unfold chk1. destruct cr; [|auto]. rewrite forallb_app. intro H. apply Bool.negb_false_iff in H.
    apply andb_prop in H. destruct H as [-> ->]. auto. }
  assert (C2 : chk2 (a ++ b) = false -> chk2 a = false /\ chk2 b = false).
  { unfold chk2. destruct cr; [|auto]. rewrite forallb_app. intro H. apply Bool.negb_false_iff in H.
    apply andb_prop in H. destruct H as [-> ->]. auto. }
  destruct (chk1 (a ++ b)) eqn:E1; [discriminate|]. destruct (C1 eq_refl) as [-> ->].
  destruct (chk2 (a ++ b)) eqn:E2; [discriminate|]. destruct (C2 eq_refl) as [-> ->].
  intro H. apply bind_Ok_inv in H. destruct H as (vs & Hvs & H). apply res_Ok_inj in H. subst s.
  apply mapM_app in Hvs. destruct Hvs as (va & vb & Ha & Hb & ->).
  exists va, vb. rewrite Ha, Hb. cbn. auto.
Qed.

Lemma spec_cond_nil t k s : spec_cond t (k, CList []) = Ok s -> snd s = [].
Proof.
  unfold spec_cond. cbn [fst snd spec_values]. rewrite (key_of_snd k).
  destruct (spec_cond_attr t (snd (key_of k))) as [cr|]; [|discriminate].
  destruct cr; cbn; intro H; apply res_Ok_inj in H; subst; reflexivity.
Qed.

Lemma spec_cond_pieces t k : forall pieces s,
  spec_cond t (k, CList (List.concat pieces)) = Ok s ->
  exists vss, Forall2 (fun c vc => spec_cond t (k, CList c) = Ok (fst s, vc)) pieces vss /\
              snd s = List.concat vss.
Proof.
  induction pieces as [|c rest IH]; intros s H.
  - exists []. split; [constructor|]. cbn in *. eapply spec_cond_nil; exact H.
  - cbn [List.concat] in H. apply spec_cond_app in H. destruct H as (va & vb & Ha & Hb & Hs).
    destruct (IH _ Hb) as (vss & F & E). cbn [fst snd] in *.
    exists (va :: vss). split; [constructor; assumption|]. cbn. rewrite Hs, E. reflexivity.
Qed.

(* ------------------------------------------------------------------ *)
(* the whole conjunction with the long list replaced by a piece *)
Lemma spec_names_ok_app t a b : spec_names_ok t (a ++ b) = (spec_names_ok t a && spec_names_ok t b)%bool.
Proof. unfold spec_names_ok. apply forallb_app. Qed.
Lemma spec_total_app a b : spec_total (a ++ b) = (spec_total a + spec_total b)%Z.
Proof.
  unfold spec_total. induction a as [|c t IH]; cbn [app fold_right]; [lia|]. rewrite IH. lia.
Qed.
Lemma spec_matches_app cs1 cs2 pr : spec_matches (cs1 ++ cs2) pr = (spec_matches cs1 pr && spec_matches cs2 pr)%bool.
Proof. unfold spec_matches. apply forallb_app. Qed.

Lemma andb_existsb {A} (b1 b2 : bool) (f : A -> bool) l :
  (b1 && (existsb f l && b2))%bool = existsb (fun c => (b1 && (f c && b2))%bool) l.
Proof.
  induction l as [|x t IH]; cbn.
  - rewrite Bool.andb_false_r. reflexivity.
  - rewrite <- IH. destruct b1, b2, (f x), (existsb f t); reflexivity.
Qed.

Lemma existsb_map' {A B} (p : B -> bool) (g : A -> B) l : existsb p (map g l) = existsb (fun x => p (g x)) l.
Proof. induction l as [|x t IH]; cbn; [reflexivity|]. rewrite IH. reflexivity. Qed.
Lemma existsb_ext' {A} (p q : A -> bool) l : (forall x, p x = q x) -> existsb p l = existsb q l.
Proof. intro H. induction l as [|x t IH]; cbn; [reflexivity|]. rewrite H, IH. reflexivity. Qed.

Lemma matches_pieces cs1 cs2 cr vss pr :
  spec_matches (cs1 ++ (cr, false, List.concat vss) :: cs2) pr =
  any_of (map (fun vc => spec_matches (cs1 ++ (cr, false, vc) :: cs2)) vss) pr.
Proof.
  rewrite spec_matches_app. unfold any_of. rewrite existsb_map'.
  unfold spec_matches at 2. cbn [forallb]. fold (spec_matches cs2 pr).
  unfold spec_holds at 1. unfold cond_true, in_true. rewrite existsb_concat.
  rewrite andb_existsb. apply existsb_ext'. intro vc.
  rewrite spec_matches_app. unfold spec_matches at 3. cbn [forallb]. reflexivity.
Qed.
