(* Proofs_sql_examples.v — a small concrete database used by the Examples next to the theorems
   (non-vacuity of the hypotheses) and by the refutation witnesses of the recorded findings. *)
From Verif Require Import PyLib ModelTypes Generated_parse Model_sqlval Model_sql Spec_sql.
Open Scope string_scope.
Open Scope Z_scope.

Definition ex_row (serial : Z) (name res chain : string) (resSeq : Z) (x : Q) : row :=
  [VInt serial; VText name; VText ""; VText res; VText chain; VInt resSeq; VText "";
   VReal x; VReal 0; VReal (1 # 2); VReal 1; VReal 10; VText "C"; VInt 0].
Definition ex_table : table :=
  mkTable col_src [ex_row 1 "N" "ALA" "A" 1 1; ex_row 2 "CA" "ALA" "A" 1 (3 # 2);
                   ex_row 3 "N" "GLY" "B" 2 0; ex_row 4 "CA" "GLY" "B" 2 (5 # 4)].
Definition ex_table2 : table :=
  mkTable col_src [ex_row 11 "O" "LYS" "C" 7 2; ex_row 12 "CB" "LYS" "C" 7 (7 # 2)].
Definition ex_db : db := mkDb [("ATOM", ex_table)] 0.
Definition ex_db2 : db := mkDb [("ATOM", ex_table); ("ATOM1", ex_table2)] 0.
Definition ints (a : Z) (n : nat) : list pv := map PInt (seqZ a n).
Definition pos (l : list Z) : list pyv := map (fun z => PV (VInt z)) l.
