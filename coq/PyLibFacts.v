(* PyLibFacts.v — lemmas about the PyLib primitives *)
From Coq Require Import Lqa Lia.
From Verif Require Import PyLib.
Open Scope Q_scope.

Lemma Qltb_true a b : a < b -> Qltb a b = true.
Proof. intro H; apply Qltb_spec; exact H. Qed.
Lemma Qltb_false a b : b <= a -> Qltb a b = false.
Proof.
  intro H. destruct (Qltb a b) eqn:E; [|reflexivity].
  apply Qltb_spec in E. exfalso. apply (Qlt_not_le _ _ E H).
Qed.
Lemma Qleb_true a b : a <= b -> Qleb a b = true.
Proof. intro H; apply Qleb_spec; exact H. Qed.
Lemma Qleb_false a b : b < a -> Qleb a b = false.
Proof.
  intro H. destruct (Qleb a b) eqn:E; [|reflexivity].
  apply Qleb_spec in E. exfalso. apply (Qlt_not_le _ _ H E).
Qed.

Lemma Qfloor'_eq q : Qfloor' q = Qfloor q.
Proof. destruct q; reflexivity. Qed.

Lemma rhe_cases q :
  round_half_even q = Qfloor q \/ round_half_even q = (Qfloor q + 1)%Z.
Proof.
  unfold round_half_even. rewrite Qfloor'_eq.
  destruct (Qcompare _ _); [destruct (Z.even _)| |]; auto.
Qed.

Lemma rhe_comp q q' : q == q' -> round_half_even q = round_half_even q'.
Proof.
  intro H. unfold round_half_even. rewrite !Qfloor'_eq.
  rewrite (Qfloor_comp _ _ H).
  assert (E : q - inject_Z (Qfloor q') == q' - inject_Z (Qfloor q')) by (rewrite H; reflexivity).
  rewrite (Qcompare_comp _ _ E (1#2) (1#2)) by reflexivity. reflexivity.
Qed.

Lemma rhe_monotone q q' : q <= q' -> (round_half_even q <= round_half_even q')%Z.
Proof.
  intro H.
  pose proof (Qfloor_resp_le _ _ H) as Hf.
  destruct (Z.eq_dec (Qfloor q) (Qfloor q')) as [E|NE].
  - unfold round_half_even. rewrite !Qfloor'_eq, <- E.
    set (f := Qfloor q) in *.
    destruct (Qcompare_spec (q - inject_Z f) (1#2)) as [C1|C1|C1];
    destruct (Qcompare_spec (q' - inject_Z f) (1#2)) as [C2|C2|C2];
    try (exfalso; lra); try (destruct (Z.even f)); lia.
  - destruct (rhe_cases q) as [A|A], (rhe_cases q') as [B|B]; lia.
Qed.

Lemma rhe_Z z : round_half_even (inject_Z z) = z.
Proof.
  unfold round_half_even. rewrite Qfloor'_eq, Qfloor_Z.
  assert (E : inject_Z z - inject_Z z == 0) by ring.
  rewrite (Qcompare_comp _ _ E (1#2) (1#2)) by reflexivity. reflexivity.
Qed.

Lemma pow10_pos k : (0 < pow10 k)%Z.
Proof. unfold pow10. apply Z.pow_pos_nonneg; lia. Qed.

Lemma round_dec_nonneg_val k q : 0 <= q ->
  round_dec k q == inject_Z (round_half_even (q * inject_Z (pow10 k))) / inject_Z (pow10 k).
Proof.
  intro H. unfold round_dec.
  rewrite (Qltb_false q 0) by exact H.
  rewrite Qred_correct.
  pose proof (pow10_pos k) as P.
  unfold Qdiv, Qeq, Qinv, Qmult; simpl.
  destruct (pow10 k) eqn:E; try lia. simpl. ring.
Qed.
