(* Proofs_fs_c16_main.v — C16: the general theorems instantiated at the library's scripts, and the
   refutation of the in-place zone writer. *)
From Coq Require Import Lia.
From Verif Require Import PyLib ModelTypes Model_fs Spec_fs Proofs_fs_base Proofs_fs_c16 Proofs_fs_zone.
Open Scope string_scope.
Open Scope list_scope.
Open Scope nat_scope.

(* only requested outputs (and, transiently, the call's own temp files) ever change *)
Theorem footprint_only_requested c fs n p :
  ~ may_write c p -> fst (frun_n n fs (script c)) p = fs p.
Proof. intro H. exact (within_frame (Rc c) (Wc c) n fs (script c) p (script_within c) H). Qed.

Theorem inputs_unchanged c fs n :
  ~ may_write c (cl_decoy c) -> ~ may_write c (cl_ref c) ->
  fst (frun_n n fs (script c)) (cl_decoy c) = fs (cl_decoy c) /\
  fst (frun_n n fs (script c)) (cl_ref c) = fs (cl_ref c).
Proof. intros H1 H2. split; now apply footprint_only_requested. Qed.

(* whatever else is in the directory: two file systems that agree on the call's footprint give the
   same actions, the same answers, the same value, and the same files in the footprint *)
Theorem cwd_irrelevant c fs1 fs2 n :
  agree_on (footprint c) fs1 fs2 ->
  snd (frun_n n fs1 (script c)) = snd (frun_n n fs2 (script c))
  /\ ftrace_n n fs1 (script c) = ftrace_n n fs2 (script c)
  /\ agree_on (footprint c) (fst (frun_n n fs1 (script c))) (fst (frun_n n fs2 (script c))).
Proof.
  intro H. exact (within_local (Rc c) (Wc c) n fs1 fs2 (script c) (script_within c) H).
Qed.

(* any mix of routines, any number of them: if what one call may write no other call reads or
   writes, then under EVERY schedule every call that has returned returned its solo result *)
Theorem noninterference_calls (cs : list call) (fs0 : fsys) :
  (forall i j ci cj q, i <> j -> nth_error cs i = Some ci -> nth_error cs j = Some cj ->
     may_write ci q -> ~ footprint cj q) ->
  forall (s : list nat) i c a,
    nth_error cs i = Some c ->
    nth_error (snd (run_sched s (fs0, map script cs))) i = Some (Ret a) ->
    exists n, snd (frun_n n fs0 (script c)) = Ret a.
Proof.
  intros Hdis s i c a Hi Hr.
  set (Rf := fun i q => exists c, nth_error cs i = Some c /\ may_read c q).
  set (Wf := fun i q => exists c, nth_error cs i = Some c /\ may_write c q).
  apply (noninterference fs0 (map script cs) Rf Wf) with (s := s) (i := i).
  - intros j p Hj.
    destruct (nth_error cs j) as [cj|] eqn:Ej.
    + rewrite (map_nth_error script _ _ Ej) in Hj. injection Hj as <-.
      eapply within_weaken; [| |apply script_within]; intros q Hq; exists cj; split; auto.
    + exfalso. apply nth_error_None in Ej.
      assert (nth_error (map script cs) j <> None) by (rewrite Hj; discriminate).
      apply nth_error_Some in H. rewrite map_length in H. lia.
  - intros j k q Hjk [cj [Ej Hw]] [[ck [Ek Hr']]|[ck [Ek Hw']]].
    + apply (Hdis j k cj ck q Hjk Ej Ek Hw). left. exact Hr'.
    + apply (Hdis j k cj ck q Hjk Ej Ek Hw). right. exact Hw'.
  - now apply map_nth_error.
  - exact Hr.
Qed.

(* the decoy-ranking loop: any number of tasks sharing one zone file *)
Theorem shared_zone_cache_all :
  forall (Z : path) (lines : list string) (ref tmp : nat -> path) (rest : nat -> list path) (rtext : nat -> string),
  (forall i j, i <> j -> tmp i <> tmp j) -> (forall i, tmp i <> Z) ->
  (forall i j, tmp i <> ref j) -> (forall i, ref i <> Z) ->
  forall (n : nat) (fs0 : fsys) (s : list nat) i a,
    (fs0 Z = None \/ fs0 Z = Some (FText (concat_str lines))) ->
    (forall j, j < n -> fs0 (tmp j) = None /\ fs0 (ref j) = Some (FText (rtext j))) ->
    nth_error (snd (run_sched s (fs0, map (fun j => acquire_zone (ref j) (Some Z) (tmp j :: rest j) lines) (seq 0 n)))) i
      = Some (Ret a) ->
    exists rs, a = Ok (concat_str lines, rs).
Proof.
  intros Z lines ref tmp rest rtext H1 H2 H3 H4 n fs0 s i a HI Hinit Hr.
  exact (shared_zone_cache Z lines ref tmp rest rtext H1 H2 H3 H4 n fs0 s i a HI Hinit Hr).
Qed.

(* with the in-place writer there IS a schedule in which a reader goes on with a partial zone *)
Theorem in_place_write_refuted :
  forall (Z ref : path) (rtext : string) (lines : list string),
  ref <> Z -> concat_str lines <> "" ->
  let fs0 := fs_set (fun _ => None) ref (Some (FText rtext)) in
  let task := acquire_zone_in_place ref Z lines in
  exists (s : list nat) (got : string),
    nth_error (snd (run_sched s (fs0, [task; task]))) 1 = Some (Ret (Ok (got, [got])))
    /\ got <> concat_str lines.
Proof.
  intros Z ref rtext lines Hne Hnz fs0 task.
  exists [0; 0; 0; 0; 0; 0; 1; 1; 1], "".
  split; [|intro E; apply Hnz; now symmetry].
  assert (E1 : String.eqb Z ref = false) by (apply String.eqb_neq; congruence).
  assert (E2 : String.eqb ref Z = false) by (apply String.eqb_neq; congruence).
  unfold task, acquire_zone_in_place, fs0.
  repeat (progress (cbn -[String.eqb concat_str write_lines]; unfold fs_set; rewrite ?E1, ?E2, ?String.eqb_refl)).
  reflexivity.
Qed.
