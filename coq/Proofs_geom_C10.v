(* Proofs_geom_C10.v — lemmas behind Properties/C10.v: the regenerated Rodrigues and Euler matrices
   are the rotations the property describes; rotate() is a rigid motion; compositions; the
   selection write-back touches exactly the selected rows. *)
From Coq Require Import Reals Lra Psatz Nsatz Lia.
From Verif Require Import Base Model_geom_num Generated_geom Model_geom Spec_geom Spec_geom_R Proofs_geom_alg.
Open Scope R_scope.

(* ---- the Rodrigues matrix ------------------------------------------------------------------ *)
Lemma rodrigues_is_rotation ct st ux uy uz :
  unit3 (V3 ux uy uz) -> unit_cs ct st -> is_rotation (rodrigues_src Nr ct st ux uy uz).
Proof.
  intros Hu Hc. gunf_in Hu. gunf_in Hc. split.
  - gunf. gext; nsatz.
  - gunf. nsatz.
Qed.

(* the matrix is Rodrigues' rotation formula in vector form, for every vector *)
Lemma rodrigues_is_vector_formula ct st u v :
  mvmul Nr (rodrigues_src Nr ct st (vx u) (vy u) (vz u)) v = spec_rot_point Nr u ct st (vzero Nr) v.
Proof. gring. Qed.

Lemma rodrigues_fixes_axis ct st u :
  unit3 u -> mvmul Nr (rodrigues_src Nr ct st (vx u) (vy u) (vz u)) u = u.
Proof. intros Hu. destruct u as [x y z]. gunf_in Hu. gunf. gext; nsatz. Qed.

(* right-handed: a vector perpendicular to the axis turns towards u x v *)
Lemma rodrigues_right_handed ct st u v :
  dot Nr u v = 0 ->
  mvmul Nr (rodrigues_src Nr ct st (vx u) (vy u) (vz u)) v = vadd Nr (vscale Nr ct v) (vscale Nr st (cross Nr u v)).
Proof. intros H. destruct u as [x y z], v as [a b c]. gunf_in H. gunf. gext; nsatz. Qed.

Lemma rodrigues_inverse ct st ux uy uz :
  unit3 (V3 ux uy uz) -> unit_cs ct st ->
  mmul Nr (rodrigues_src Nr ct (- st) ux uy uz) (rodrigues_src Nr ct st ux uy uz) = meye Nr.
Proof. intros Hu Hc. gunf_in Hu. gunf_in Hc. gunf. gext; nsatz. Qed.

Lemma rodrigues_neg_is_transpose ct st ux uy uz :
  rodrigues_src Nr ct (- st) ux uy uz = mtrans (rodrigues_src Nr ct st ux uy uz).
Proof. gunf. gext; ring. Qed.

(* ---- Euler ----------------------------------------------------------------------------------- *)
Lemma euler_rx_is_rodrigues c s : euler_rx_src Nr c s = rodrigues_src Nr c s 1 0 0.
Proof. gunf. gext; ring. Qed.
Lemma euler_ry_is_rodrigues c s : euler_ry_src Nr c s = rodrigues_src Nr c s 0 1 0.
Proof. gunf. gext; ring. Qed.
Lemma euler_rz_is_rodrigues c s : euler_rz_src Nr c s = rodrigues_src Nr c s 0 0 1.
Proof. gunf. gext; ring. Qed.

Lemma euler_is_x_then_y_then_z ca sa cb sb cg sg v :
  mvmul Nr (euler_src Nr ca sa cb sb cg sg) v =
  mvmul Nr (rodrigues_src Nr cg sg 0 0 1) (mvmul Nr (rodrigues_src Nr cb sb 0 1 0) (mvmul Nr (rodrigues_src Nr ca sa 1 0 0) v)).
Proof.
  rewrite <- euler_rx_is_rodrigues, <- euler_ry_is_rodrigues, <- euler_rz_is_rodrigues.
  unfold euler_src. rewrite !mvmul_mmul. reflexivity.
Qed.
Lemma euler_is_spec ca sa cb sb cg sg v :
  mvmul Nr (euler_src Nr ca sa cb sb cg sg) v = spec_rot_z Nr cg sg (spec_rot_y Nr cb sb (spec_rot_x Nr ca sa v)).
Proof. gring. Qed.
Lemma euler_is_rotation ca sa cb sb cg sg :
  unit_cs ca sa -> unit_cs cb sb -> unit_cs cg sg -> is_rotation (euler_src Nr ca sa cb sb cg sg).
Proof.
  intros Ha Hb Hg. unfold euler_src.
  rewrite euler_rx_is_rodrigues, euler_ry_is_rodrigues, euler_rz_is_rodrigues.
  apply rot_mmul; [| apply rot_mmul]; apply rodrigues_is_rotation; auto; gunf; ring.
Qed.

(* ---- rigid motions --------------------------------------------------------------------------- *)
Lemma rot_about_rigid M c : is_rotation M -> rigid (rot_about M c).
Proof.
  intros [Ho Hd]. split.
  - intros a b. unfold dist2, rot_about.
    replace (vsub Nr (vadd Nr (mvmul Nr M (vsub Nr a c)) c) (vadd Nr (mvmul Nr M (vsub Nr b c)) c))
      with (mvmul Nr M (vsub Nr a b)) by gring.
    apply orth_norm2, Ho.
  - intros o a b d. unfold rot_about.
    replace (vsub Nr (vadd Nr (mvmul Nr M (vsub Nr a c)) c) (vadd Nr (mvmul Nr M (vsub Nr o c)) c))
      with (mvmul Nr M (vsub Nr a o)) by gring.
    replace (vsub Nr (vadd Nr (mvmul Nr M (vsub Nr b c)) c) (vadd Nr (mvmul Nr M (vsub Nr o c)) c))
      with (mvmul Nr M (vsub Nr b o)) by gring.
    replace (vsub Nr (vadd Nr (mvmul Nr M (vsub Nr d c)) c) (vadd Nr (mvmul Nr M (vsub Nr o c)) c))
      with (mvmul Nr M (vsub Nr d o)) by gring.
    rewrite triple_mvmul, Hd. ring.
Qed.
Lemma translate_rigid t : rigid (fun p => vadd Nr p t).
Proof.
  split.
  - intros a b. unfold dist2. f_equal. gring.
  - intros o a b c. f_equal; gring.
Qed.
Lemma rigid_id : rigid (fun p => p).
Proof. split; red; intros; reflexivity. Qed.
Lemma rigid_compose f g : rigid f -> rigid g -> rigid (fun p => g (f p)).
Proof.
  intros [Fd Fh] [Gd Gh]. split.
  - intros a b. rewrite Gd. apply Fd.
  - intros o a b c. rewrite Gh. apply Fh.
Qed.
(* any finite composition of rigid maps is rigid *)
Lemma rigid_fold (fs : list (vec3 R -> vec3 R)) :
  Forall rigid fs -> rigid (fun p => fold_left (fun x f => f x) fs p).
Proof.
  induction fs as [| f fs IH]; intros H; simpl.
  - apply rigid_id.
  - inversion H as [| ? ? Hf Hfs]; subst.
    apply (rigid_compose f (fun p => fold_left (fun x g => g x) fs p)); auto.
Qed.

(* rotate() applies x |-> M (x - c) + c to every point *)
Lemma rotate_apply_is_rot_about xyz M c : rotate_apply_src Nr xyz M c = map (rot_about M c) xyz.
Proof. unfold rotate_apply_src. rewrite !map_map. reflexivity. Qed.

Lemma rotate_ok xyz M center xyz' :
  rotate Nr xyz M center = Ok xyz' ->
  xyz' = map (rot_about M (match center with Some c => c | None => mean Nr xyz end)) xyz.
Proof.
  unfold rotate. destruct xyz as [| p t]; destruct center as [c |]; intros H; try discriminate;
    injection H as <-; rewrite rotate_apply_is_rot_about; reflexivity.
Qed.

(* ---- operations: what each successful transform does to the selected points ---------------- *)
Definition op_valid (o : op (T := R)) : Prop :=
  match o with
  | OTranslate _ => True
  | ORotAxis u c s => unit3 u /\ unit_cs c s
  | ORotEuler ca sa cb sb cg sg => unit_cs ca sa /\ unit_cs cb sb /\ unit_cs cg sg
  | ORotMat M => is_rotation M
  end.
Definition op_matrix (o : op (T := R)) : mat3 R :=
  match o with
  | OTranslate _ => meye Nr
  | ORotAxis u c s => rodrigues_src Nr c s (vx u) (vy u) (vz u)
  | ORotEuler ca sa cb sb cg sg => euler_src Nr ca sa cb sb cg sg
  | ORotMat M => M
  end.
(* the point map of an operation, given the points it is applied to *)
Definition op_point (o : op (T := R)) (xyz : list (vec3 R)) : vec3 R -> vec3 R :=
  match o with
  | OTranslate t => fun p => vadd Nr p t
  | _ => rot_about (op_matrix o) (mean Nr xyz)
  end.
Lemma op_matrix_rotation o : op_valid o -> is_rotation (op_matrix o).
Proof.
  destruct o as [t | [x y z] c s | ca sa cb sb cg sg | M]; simpl.
  - intros _. apply rot_eye.
  - intros [Hu Hc]. apply rodrigues_is_rotation; assumption.
  - intros (Ha & Hb & Hg). apply euler_is_rotation; assumption.
  - auto.
Qed.
Lemma op_fun_ok o xyz xyz' : op_fun Nr o xyz = Ok xyz' -> xyz' = map (op_point o xyz) xyz.
Proof.
  destruct o as [t | u c s | ca sa cb sb cg sg | M]; simpl.
  - unfold translate. destruct xyz; intros H; [discriminate | injection H as <-; reflexivity].
  - unfold rot_xyz_around_axis. intros H. apply rotate_ok in H. exact H.
  - unfold rotation_euler. intros H. apply rotate_ok in H. exact H.
  - intros H. apply rotate_ok in H. exact H.
Qed.
Lemma op_point_rigid o xyz : op_valid o -> rigid (op_point o xyz).
Proof.
  intros Hv. destruct o as [t | u c s | ca sa cb sb cg sg | M];
    [apply translate_rigid | apply rot_about_rigid, (op_matrix_rotation _ Hv) ..].
Qed.
Lemma op_fun_length o xyz xyz' : op_fun Nr o xyz = Ok xyz' -> List.length xyz' = List.length xyz.
Proof. intros H. apply op_fun_ok in H. subst. apply map_length. Qed.

(* a history of transforms applied to one set of points (the moved set) *)
Fixpoint ops_fun (h : list (op (T := R))) (xyz : list (vec3 R)) : res (list (vec3 R)) :=
  match h with
  | [] => Ok xyz
  | o :: t => match op_fun Nr o xyz with Ok x => ops_fun t x | Err e => Err e end
  end.
Lemma composition_rigid h : Forall op_valid h -> forall xyz xyz',
  ops_fun h xyz = Ok xyz' -> exists f, rigid f /\ xyz' = map f xyz.
Proof.
  induction h as [| o t IH]; intros Hv xyz xyz' H; simpl in H.
  - injection H as <-. exists (fun p => p). split; [apply rigid_id | symmetry; apply map_id].
  - inversion Hv as [| ? ? Ho Ht]; subst.
    destruct (op_fun Nr o xyz) as [x |] eqn:E; [| discriminate].
    apply op_fun_ok in E. destruct (IH Ht _ _ H) as (g & Hg & ->).
    exists (fun p => g (op_point o xyz p)). split.
    + apply rigid_compose; [apply op_point_rigid, Ho | exact Hg].
    + rewrite E, map_map. reflexivity.
Qed.

(* ---- inverse: the centroid is a fixed point, so rotating back about the default centre restores ---- *)
Lemma nlen_cons (p : vec3 R) l : nlen Nr (p :: l) = nlen Nr l + 1.
Proof. unfold nlen. cbn [List.length nofZ NumR]. rewrite Nat2Z.inj_succ, succ_IZR. reflexivity. Qed.
Lemma nlen_pos (p : vec3 R) l : nlen Nr (p :: l) > 0.
Proof.
  rewrite nlen_cons. unfold nlen. cbn [nofZ NumR].
  assert (0 <= IZR (Z.of_nat (List.length l))) by (apply IZR_le; lia). lra.
Qed.
Lemma nlen_map (f : vec3 R -> vec3 R) l : nlen Nr (map f l) = nlen Nr l.
Proof. unfold nlen. rewrite map_length. reflexivity. Qed.
Lemma vsum_rot_about M c l :
  vsum Nr (map (rot_about M c) l) =
  vadd Nr (mvmul Nr M (vsub Nr (vsum Nr l) (vscale Nr (nlen Nr l) c))) (vscale Nr (nlen Nr l) c).
Proof.
  induction l as [| p l IH].
  - unfold nlen. cbn [List.length map vsum fold_right Z.of_nat nofZ NumR]. gring.
  - rewrite nlen_cons. cbn [map vsum fold_right]. fold (vsum Nr (map (rot_about M c) l)). fold (vsum Nr l).
    rewrite IH. generalize (nlen Nr l) (vsum Nr l). intros n S. unfold rot_about. gring.
Qed.
Lemma mean_rot_about M l : l <> [] -> mean Nr (map (rot_about M (mean Nr l)) l) = mean Nr l.
Proof.
  intros Hl. destruct l as [| p t]; [contradiction |].
  pose proof (nlen_pos p t) as Hn.
  unfold mean at 1. rewrite vsum_rot_about, nlen_map. unfold mean.
  generalize dependent (nlen Nr (p :: t)). intros n Hn. generalize (vsum Nr (p :: t)). intros S.
  destruct S as [sx sy sz], M as [a b c d e f g h i]. gunf. gext; field; lra.
Qed.
Lemma rot_about_compose M' M c p : rot_about M' c (rot_about M c p) = rot_about (mmul Nr M' M) c p.
Proof. unfold rot_about. gring. Qed.
Lemma rot_about_eye c p : rot_about (meye Nr) c p = p.
Proof. unfold rot_about. gring. Qed.

Lemma rotate_inverse_restores M M' xyz xyz1 :
  mmul Nr M' M = meye Nr -> rotate Nr xyz M None = Ok xyz1 -> rotate Nr xyz1 M' None = Ok xyz.
Proof.
  intros HI H. pose proof (rotate_ok _ _ _ _ H) as E. cbn in E.
  destruct xyz as [| p t]; [discriminate |].
  assert (Hne : p :: t <> []) by discriminate.
  assert (Hm : mean Nr xyz1 = mean Nr (p :: t)) by (rewrite E; apply mean_rot_about, Hne).
  unfold rotate. destruct xyz1 as [| q u]; [discriminate |].
  rewrite rotate_apply_is_rot_about. unfold rotate_default_center_src. rewrite Hm, E, map_map. f_equal.
  rewrite <- (map_id (p :: t)) at 2. apply map_ext. intros x.
  rewrite rot_about_compose, HI. apply rot_about_eye.
Qed.
Lemma rot_axis_inverse_restores xyz u c s xyz1 :
  unit3 u -> unit_cs c s ->
  rot_xyz_around_axis Nr xyz u c s None = Ok xyz1 -> rot_xyz_around_axis Nr xyz1 u c (- s) None = Ok xyz.
Proof.
  intros Hu Hc. unfold rot_xyz_around_axis. apply rotate_inverse_restores.
  destruct u as [x y z]. apply rodrigues_inverse; assumption.
Qed.
Lemma rot_mat_inverse_restores xyz M xyz1 :
  is_rotation M -> rotate Nr xyz M None = Ok xyz1 -> rotate Nr xyz1 (mtrans M) None = Ok xyz.
Proof. intros HM. apply rotate_inverse_restores, rot_inverse_l, HM. Qed.
Lemma translate_inverse_restores xyz t xyz1 :
  translate Nr xyz t = Ok xyz1 -> translate Nr xyz1 (vopp Nr t) = Ok xyz.
Proof.
  unfold translate. destruct xyz as [| p l]; [discriminate |]. intros H. injection H as <-.
  unfold translation_src. cbn [map]. f_equal. rewrite map_map. f_equal; [gring |].
  rewrite <- (map_id l) at 2. apply map_ext. intros x. gring.
Qed.

(* ---- the write-back touches exactly the selected rows ------------------------------------- *)
Section Frame.
Context {A : Type}.
Local Notation tbl := (list (A * vec3 R)).

Lemma set_nth_length {X} i (x : X) l : List.length (set_nth i x l) = List.length l.
Proof. revert i; induction l as [| y t IH]; intros [| i]; simpl; auto. Qed.
Lemma nth_error_set_nth_eq {X} i (x : X) l : (i < List.length l)%nat -> nth_error (set_nth i x l) i = Some x.
Proof. revert i; induction l as [| y t IH]; intros [| i] H; simpl in *; try lia; auto. apply IH. lia. Qed.
Lemma nth_error_set_nth_neq {X} i j (x : X) l : i <> j -> nth_error (set_nth i x l) j = nth_error l j.
Proof.
  revert i j; induction l as [| y t IH]; intros [| i] [| j] H; simpl; auto; try contradiction;
    try (apply IH; lia).
Qed.
Lemma map_fst_set_nth (tb : tbl) i a p q : nth_error tb i = Some (a, q) -> map fst (set_nth i (a, p) tb) = map fst tb.
Proof.
  revert i; induction tb as [| r t IH]; intros [| i] H; simpl in *; try discriminate.
  - injection H as ->. reflexivity.
  - f_equal. apply IH, H.
Qed.

Lemma write_row_length (tb : tbl) i p : List.length (write_row tb i p) = List.length tb.
Proof. unfold write_row. destruct (nth_error tb i) as [[a q] |]; auto. apply set_nth_length. Qed.
Lemma write_row_fst (tb : tbl) i p : map fst (write_row tb i p) = map fst tb.
Proof. unfold write_row. destruct (nth_error tb i) as [[a q] |] eqn:E; auto. eapply map_fst_set_nth, E. Qed.
Lemma write_row_other (tb : tbl) i j p : i <> j -> nth_error (write_row tb i p) j = nth_error tb j.
Proof. intros H. unfold write_row. destruct (nth_error tb i) as [[a q] |]; auto. apply nth_error_set_nth_neq, H. Qed.
Lemma write_row_same (tb : tbl) i p : (i < List.length tb)%nat ->
  nth_error (map snd (write_row tb i p)) i = Some p.
Proof.
  intros H. unfold write_row. destruct (nth_error tb i) as [[a q] |] eqn:E.
  - rewrite nth_error_map, nth_error_set_nth_eq by exact H. reflexivity.
  - apply nth_error_None in E. lia.
Qed.

Lemma write_sel_spec sel : forall (tb : tbl) xyz,
  NoDup sel -> (forall i, In i sel -> (i < List.length tb)%nat) -> List.length xyz = List.length sel ->
  List.length (write_sel tb sel xyz) = List.length tb /\
  map fst (write_sel tb sel xyz) = map fst tb /\
  (forall j, ~ In j sel -> nth_error (write_sel tb sel xyz) j = nth_error tb j) /\
  (forall k, (k < List.length sel)%nat -> nth_error (map snd (write_sel tb sel xyz)) (nth k sel O) = nth_error xyz k).
Proof.
  induction sel as [| i sel IH]; intros tb xyz Hnd Hin Hlen.
  - destruct xyz; [| discriminate]. cbn. repeat split; auto. intros k Hk. simpl in Hk. lia.
  - destruct xyz as [| p xyz]; [discriminate |].
    inversion Hnd as [| ? ? Hni Hnd']; subst.
    change (write_sel tb (i :: sel) (p :: xyz)) with (write_sel (write_row tb i p) sel xyz).
    assert (Hin' : forall j, In j sel -> (j < List.length (write_row tb i p))%nat)
      by (intros j Hj; rewrite write_row_length; apply Hin; right; exact Hj).
    assert (Hlen' : List.length xyz = List.length sel) by (simpl in Hlen; lia).
    destruct (IH (write_row tb i p) xyz Hnd' Hin' Hlen') as (L & Fs & Oth & Sel).
    repeat split.
    + rewrite L. apply write_row_length.
    + rewrite Fs. apply write_row_fst.
    + intros j Hj. rewrite Oth by (intros C; apply Hj; right; exact C).
      apply write_row_other. intros ->. apply Hj. left. reflexivity.
    + intros [| k] Hk; cbn [nth nth_error].
      * rewrite nth_error_map, (Oth i Hni), <- nth_error_map. apply write_row_same, Hin. left. reflexivity.
      * apply Sel. simpl in Hk. lia.
Qed.

Lemma read_sel_length (tb : tbl) sel : List.length (read_sel Nr tb sel) = List.length sel.
Proof. apply map_length. Qed.

Theorem db_apply_moves_only_selection (tb tb' : tbl) sel o :
  NoDup sel -> (forall i, In i sel -> (i < List.length tb)%nat) ->
  db_apply Nr tb sel o = Ok tb' ->
  List.length tb' = List.length tb /\
  map fst tb' = map fst tb /\
  (forall j, ~ In j sel -> nth_error tb' j = nth_error tb j) /\
  (forall k, (k < List.length sel)%nat ->
     nth_error (map snd tb') (nth k sel O) =
     Some (op_point o (read_sel Nr tb sel) (nth k (read_sel Nr tb sel) (vzero Nr)))).
Proof.
  intros Hnd Hin H. unfold db_apply in H.
  destruct (op_fun Nr o (read_sel Nr tb sel)) as [xyz |] eqn:E; [| discriminate]. cbn in H. injection H as <-.
  pose proof (op_fun_length _ _ _ E) as Hl. rewrite read_sel_length in Hl.
  destruct (write_sel_spec sel tb xyz Hnd Hin Hl) as (L & Fs & Oth & Sel).
  repeat split; auto.
  intros k Hk. rewrite (Sel k Hk). apply op_fun_ok in E. rewrite E.
  rewrite nth_error_map. rewrite (nth_error_nth' _ (vzero Nr)) by (rewrite read_sel_length; exact Hk). reflexivity.
Qed.
End Frame.

(* ---- random axis and angle ----------------------------------------------------------------------- *)
Lemma random_axis_unit cth sth cph sph : unit_cs cth sth -> unit_cs cph sph -> unit3 (rand_axis_src Nr cth sth cph sph).
Proof. intros H1 H2. gunf_in H1. gunf_in H2. unfold rand_axis_src. gunf. nsatz. Qed.
Lemma random_angle_range u3 : 0 <= u3 < 1 -> 0 <= rand_angle_src Nr PI u3 < 2 * PI.
Proof. intros [H0 H1]. unfold rand_angle_src. gunf. pose proof PI_RGT_0. split; nra. Qed.
Lemma random_theta_range u1 u2 : 0 <= u1 < 1 -> 0 <= rand_theta_src Nr PI u1 u2 < 2 * PI.
Proof. intros [H0 H1]. unfold rand_theta_src. gunf. pose proof PI_RGT_0. split; nra. Qed.
Lemma random_cosphi_range u1 u2 : 0 <= u2 < 1 -> -1 <= rand_cosphi_src Nr PI u1 u2 < 1.
Proof. intros [H0 H1]. unfold rand_cosphi_src. gunf. split; lra. Qed.
