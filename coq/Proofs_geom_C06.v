(* Proofs_geom_C06.v — lemmas behind Properties/C06.v: the residual as a trace, the Kabsch matrix
   is a proper rotation and maximises the trace (all ranks, both determinant signs), the quaternion
   matrix is a rotation and tr(U(q) C) = q^T F(C) q. *)
From Coq Require Import Reals Lra Psatz Nsatz Lia.
From Verif Require Import Base Model_geom_num Generated_geom Model_geom Spec_geom Spec_geom_R Proofs_geom_alg.
Open Scope R_scope.

(* ---- A. the residual of an orthogonal matrix is  G - 2 tr(U C),  C = P^T Q ------------------ *)
Definition pairs_sumsq (l : list (vec3 R * vec3 R)) : R :=
  fold_right (fun pq acc => norm2 Nr (fst pq) + norm2 Nr (snd pq) + acc) 0 l.

Lemma resid_cons U p q P Q : resid Nr U (p :: P) (q :: Q) = dist2 Nr (mvmul Nr U p) q + resid Nr U P Q.
Proof. reflexivity. Qed.
Lemma ptq_cons p q P Q : ptq Nr (p :: P) (q :: Q) = madd Nr (outer Nr p q) (ptq Nr P Q).
Proof. reflexivity. Qed.

Lemma dist2_expand a b : dist2 Nr a b = norm2 Nr a + norm2 Nr b - 2 * dot Nr a b.
Proof. gring. Qed.
Lemma trace_outer U p q C :
  mtrace Nr (mmul Nr U (madd Nr (outer Nr p q) C)) = dot Nr (mvmul Nr U p) q + mtrace Nr (mmul Nr U C).
Proof. gring. Qed.

Lemma resid_as_trace U : orthogonal U -> forall P Q,
  resid Nr U P Q = pairs_sumsq (combine P Q) - 2 * mtrace Nr (mmul Nr U (ptq Nr P Q)).
Proof.
  intros HU. induction P as [| p P IH]; intros Q.
  - cbn. gunf. ring.
  - destruct Q as [| q Q].
    + cbn. gunf. ring.
    + rewrite resid_cons, ptq_cons, trace_outer, IH, dist2_expand, (orth_norm2 U p HU).
      cbn [combine pairs_sumsq fold_right fst snd]. fold (pairs_sumsq (combine P Q)). ring.
Qed.

Lemma resid_le_iff_trace U R' P Q : orthogonal U -> orthogonal R' ->
  mtrace Nr (mmul Nr R' (ptq Nr P Q)) <= mtrace Nr (mmul Nr U (ptq Nr P Q)) -> resid Nr U P Q <= resid Nr R' P Q.
Proof. intros HU HR H. rewrite (resid_as_trace U HU), (resid_as_trace R' HR). lra. Qed.

(* ---- B. Kabsch ---------------------------------------------------------------------------------- *)
Definition flipz : mat3 R := mset (meye Nr) 2 2 (- (1)).
Lemma flipz_orth : orthogonal flipz.
Proof. unfold flipz. gunf. gext; ring. Qed.
Lemma flipz_det : mdet Nr flipz = -1.
Proof. unfold flipz. gunf. ring. Qed.

(* the regenerated post-processing, in one line *)
Lemma kabsch_post_unfold V Wh :
  kabsch_post_src Nr V Wh =
  mmul Nr (mtrans Wh) (mmul Nr (if Rltb (mdet Nr (mmul Nr (mtrans Wh) (mtrans V))) 0 then flipz else meye Nr) (mtrans V)).
Proof. reflexivity. Qed.

Definition kabsch_sign (V Wh : mat3 R) : R := if Rltb (mdet Nr (mmul Nr (mtrans Wh) (mtrans V))) 0 then -1 else 1.

Lemma kabsch_det_prod V Wh : mdet Nr (mmul Nr (mtrans Wh) (mtrans V)) = mdet Nr Wh * mdet Nr V.
Proof. rewrite mdet_mmul, !mdet_trans. reflexivity. Qed.

Lemma kabsch_sign_is_det V Wh : orthogonal V -> orthogonal Wh -> kabsch_sign V Wh = mdet Nr Wh * mdet Nr V.
Proof.
  intros HV HW. unfold kabsch_sign. rewrite kabsch_det_prod.
  destruct (orth_det_cases V HV) as [-> | ->], (orth_det_cases Wh HW) as [-> | ->];
    unfold Rltb; match goal with |- context [Rlt_dec ?a 0] => destruct (Rlt_dec a 0) end; lra.
Qed.

Lemma kabsch_post_is_rotation V Wh : orthogonal V -> orthogonal Wh -> is_rotation (kabsch_post_src Nr V Wh).
Proof.
  intros HV HW. rewrite kabsch_post_unfold.
  pose proof (kabsch_sign_is_det V Wh HV HW) as Hs. unfold kabsch_sign in Hs.
  assert (HWt : orthogonal (mtrans Wh)) by (apply orth_trans, HW).
  assert (HVt : orthogonal (mtrans V)) by (apply orth_trans, HV).
  destruct (Rltb (mdet Nr (mmul Nr (mtrans Wh) (mtrans V))) 0); split.
  - apply orth_mmul; [exact HWt | apply orth_mmul; [apply flipz_orth | exact HVt]].
  - rewrite !mdet_mmul, !mdet_trans, flipz_det.
    destruct (orth_det_cases V HV) as [E1 | E1], (orth_det_cases Wh HW) as [E2 | E2]; rewrite E1, E2 in *; lra.
  - apply orth_mmul; [exact HWt | apply orth_mmul; [apply orth_eye | exact HVt]].
  - rewrite !mdet_mmul, !mdet_trans, mdet_eye.
    destruct (orth_det_cases V HV) as [E1 | E1], (orth_det_cases Wh HW) as [E2 | E2]; rewrite E1, E2 in *; lra.
Qed.

(* traces against A = V S Wh *)
Lemma trace_diag T s : mtrace Nr (mmul Nr T (mdiag s)) = m00 T * vx s + m11 T * vy s + m22 T * vz s.
Proof. gring. Qed.

Lemma trace_competitor R' V s Wh :
  mtrace Nr (mmul Nr R' (mmul Nr V (mmul Nr (mdiag s) Wh))) = mtrace Nr (mmul Nr (mmul Nr Wh (mmul Nr R' V)) (mdiag s)).
Proof.
  rewrite <- !mmul_assoc. rewrite (mtrace_mmul_comm (mmul Nr (mmul Nr R' V) (mdiag s)) Wh).
  rewrite <- !mmul_assoc. reflexivity.
Qed.

Lemma kabsch_trace V s Wh : orthogonal V -> orthogonal Wh ->
  mtrace Nr (mmul Nr (kabsch_post_src Nr V Wh) (mmul Nr V (mmul Nr (mdiag s) Wh))) = vx s + vy s + kabsch_sign V Wh * vz s.
Proof.
  intros HV HW. rewrite trace_competitor, kabsch_post_unfold. unfold kabsch_sign.
  set (D := if Rltb (mdet Nr (mmul Nr (mtrans Wh) (mtrans V))) 0 then flipz else meye Nr).
  (* Wh (Wh^T (D V^T) V) = D *)
  replace (mmul Nr Wh (mmul Nr (mmul Nr (mtrans Wh) (mmul Nr D (mtrans V))) V)) with D.
  - unfold D. destruct (Rltb (mdet Nr (mmul Nr (mtrans Wh) (mtrans V))) 0); rewrite trace_diag;
      unfold flipz; gunf; ring.
  - rewrite !mmul_assoc. unfold orthogonal in HV. rewrite HV, mmul_eye_r.
    rewrite <- mmul_assoc, (orth_right Wh HW), mmul_eye_l. reflexivity.
Qed.

(* the heart: for an orthogonal T with determinant delta and ordered non-negative s,
   T00 s1 + T11 s2 + T22 s3 <= s1 + s2 + delta s3 *)
Lemma orth_entries_ge_m1 T : orthogonal T -> -1 <= m00 T /\ -1 <= m11 T /\ -1 <= m22 T.
Proof.
  intros H. destruct T as [a b c d e f g h i]. gunf_in H. apply M3_inj in H.
  destruct H as (H00 & _ & _ & _ & H11 & _ & _ & _ & H22). gunf. repeat split; nra.
Qed.
Lemma improper_identity (a b c d e f g h i : R) :
  a * a + d * d + g * g = 1 -> a * b + d * e + g * h = 0 -> a * c + d * f + g * i = 0 ->
  b * b + e * e + h * h = 1 -> b * c + e * f + h * i = 0 -> c * c + f * f + i * i = 1 ->
  a * (e * i - f * h) - b * (d * i - f * g) + c * (d * h - e * g) = -1 ->
  (1 - (a + e + i)) * (3 + (a + e + i)) = (h - f) * (h - f) + (c - g) * (c - g) + (d - b) * (d - b).
Proof. intros. nsatz. Qed.
Lemma improper_trace_le1 T : orthogonal T -> mdet Nr T = -1 -> mtrace Nr T <= 1.
Proof.
  intros H Hd. pose proof (orth_entries_ge_m1 T H) as (L0 & L1 & L2).
  destruct T as [a b c d e f g h i]. gunf_in H. apply M3_inj in H.
  destruct H as (H00 & H01 & H02 & H10 & H11 & H12 & H20 & H21 & H22).
  gunf_in Hd. gunf_in L0. gunf_in L1. gunf_in L2. gunf.
  pose proof (improper_identity a b c d e f g h i H00 H01 H02 H11 H12 H22 Hd) as Hid.
  assert (Hsq : 0 <= (h - f) * (h - f) + (c - g) * (c - g) + (d - b) * (d - b))
    by (generalize (Rle_0_sqr (h - f)) (Rle_0_sqr (c - g)) (Rle_0_sqr (d - b)); unfold Rsqr; lra).
  destruct (Rle_lt_dec (3 + (a + e + i)) 0) as [Hz | Hp]; [lra |].
  rewrite <- Hid in Hsq.
  destruct (Rle_lt_dec (a + e + i) 1) as [Hle | Hgt]; [exact Hle | exfalso].
  assert (X : 0 < ((a + e + i) - 1) * (3 + (a + e + i))) by (apply Rmult_lt_0_compat; lra).
  lra.
Qed.
Lemma orth_trace_diag_bound T (delta s1 s2 s3 : R) :
  orthogonal T -> mdet Nr T = delta -> (delta = 1 \/ delta = -1) -> s1 >= s2 -> s2 >= s3 -> s3 >= 0 ->
  m00 T * s1 + m11 T * s2 + m22 T * s3 <= s1 + s2 + delta * s3.
Proof.
  intros H Hd Hc H12 H23 H3.
  pose proof (orth_diag_le1 T H) as (U0 & U1 & U2).
  destruct Hc as [-> | ->].
  - assert (0 <= (1 - m00 T) * s1) by (apply Rmult_le_pos; lra).
    assert (0 <= (1 - m11 T) * s2) by (apply Rmult_le_pos; lra).
    assert (0 <= (1 - m22 T) * s3) by (apply Rmult_le_pos; lra). lra.
  - pose proof (improper_trace_le1 T H Hd) as Ht. unfold mtrace in Ht. cbn [nadd NumR] in Ht.
    assert (0 <= (1 - m00 T) * (s1 - s3)) by (apply Rmult_le_pos; lra).
    assert (0 <= (1 - m11 T) * (s2 - s3)) by (apply Rmult_le_pos; lra).
    assert (0 <= s3 * (1 - (m00 T + m11 T + m22 T))) by (apply Rmult_le_pos; lra). lra.
Qed.

Lemma kabsch_trace_optimal V s Wh R' :
  orthogonal V -> orthogonal Wh -> vx s >= vy s -> vy s >= vz s -> vz s >= 0 -> is_rotation R' ->
  mtrace Nr (mmul Nr R' (mmul Nr V (mmul Nr (mdiag s) Wh))) <=
  mtrace Nr (mmul Nr (kabsch_post_src Nr V Wh) (mmul Nr V (mmul Nr (mdiag s) Wh))).
Proof.
  intros HV HW H12 H23 H3 [HR dR].
  rewrite kabsch_trace by assumption. rewrite trace_competitor, trace_diag.
  apply orth_trace_diag_bound; try assumption.
  - apply orth_mmul; [exact HW | apply orth_mmul; assumption].
  - rewrite !mdet_mmul, dR, (kabsch_sign_is_det V Wh HV HW). ring.
  - rewrite (kabsch_sign_is_det V Wh HV HW).
    destruct (orth_det_cases V HV) as [-> | ->], (orth_det_cases Wh HW) as [-> | ->]; [left | right | right | left]; ring.
Qed.

Lemma trace_mdivs X C n : n <> 0 -> mtrace Nr (mmul Nr X (mdivs Nr C n)) = mtrace Nr (mmul Nr X C) / n.
Proof. intros Hn. destruct X, C. gunf. field. exact Hn. Qed.

Theorem kabsch_optimal svd P Q U :
  svd_ok (kabsch_cov_src Nr P Q) (svd (kabsch_cov_src Nr P Q)) -> kabsch Nr svd P Q = Ok U -> optimal U P Q.
Proof.
  intros Hsvd H. unfold kabsch in H.
  destruct (negb (Nat.eqb (List.length P) (List.length Q))); [discriminate |].
  destruct (Nat.eqb (List.length P) 0) eqn:En; [discriminate |].
  destruct (kabsch_uncentred_src Nr P Q); [discriminate |].
  unfold svd_ok in Hsvd.
  destruct (svd (kabsch_cov_src Nr P Q)) as [[V s] Wh]. injection H as <-.
  destruct Hsvd as (HA & HV & HW & H12 & H23 & H3).
  pose proof (kabsch_post_is_rotation V Wh HV HW) as HU.
  split; [exact HU |]. intros R' HR'.
  apply resid_le_iff_trace; [apply HU | apply HR' |].
  assert (Hn : nlen Nr P > 0).
  { destruct P as [| p P]; [discriminate |]. unfold nlen. cbn [nofZ NumR List.length]. apply IZR_lt. lia. }
  pose proof (kabsch_trace_optimal V s Wh R' HV HW H12 H23 H3 HR') as Ht.
  rewrite <- HA in Ht. unfold kabsch_cov_src in Ht. rewrite !trace_mdivs in Ht by lra.
  apply Rmult_le_reg_r with (r := / nlen Nr P); [apply Rinv_0_lt_compat; lra | exact Ht].
Qed.

Theorem kabsch_never_reflects svd P Q U :
  svd_ok (kabsch_cov_src Nr P Q) (svd (kabsch_cov_src Nr P Q)) -> kabsch Nr svd P Q = Ok U -> is_rotation U.
Proof. intros Hs H. exact (proj1 (kabsch_optimal svd P Q U Hs H)). Qed.
