(* Model_rmsd.v — executable model of the i-RMSD / L-RMSD pipelines of StructureSimilarity.py
   (C07, C09, C11).  Hand-written mirror of the code; the rotation kernel is an oracle argument
   (one recorded matrix per call of get_rotation_matrix; its optimality is C06), the contact
   detection is Model_contact (C05/C14), the zone-file format is Model_zone (regenerated), the
   superposition step is Model_superpose.superpose_selection (C13).
   Structures are lists of Model_contact.atom in FILE ORDER (idx = position of the ATOM record);
   both the table parser and the fast fixed-column readers deliver these on canonical records
   (Proofs_contact_c08: fast reader columns = wwPDB columns; C01). *)
From Verif Require Import PyLib ModelTypes Generated_parse Generated_contact Model_contact Model_superpose Model_zone.
Open Scope string_scope.
Open Scope Z_scope.
Open Scope list_scope.

Definition zone := list (string * Z).               (* sorted distinct (chainID, resSeq) *)
Definition resdata := list (string * list Z).       (* resData: chain -> residue numbers *)

Definition cz_eqb (p q : string * Z) : bool := (String.eqb (fst p) (fst q) && Z.eqb (snd p) (snd q))%bool.
Definition cz_leb (p q : string * Z) : bool :=
  if String.eqb (fst p) (fst q) then Z.leb (snd p) (snd q) else String.leb (fst p) (fst q).
Definition sorted_set_cz (l : list (string * Z)) : zone := sort_by cz_leb (dedup_keep_first cz_eqb l).

Definition backbone4 : list string := backbone_src.                   (* ['CA','C','N','O'] *)
Definition pos_of (a : atom) : vec := (ax a, ay a, az a).

(* ---- StructureSimilarity.py compute_izone (save_file=False part) ---- *)
Definition compute_izone (cutoff : Q) (ref : structure) : res zone :=
  match get_chains ref with
  | [c1; c2] =>
    do r <- get_contact_atoms (closeQ cutoff) false false ref false c1 c2 true;   (* no filters, extend_to_residue *)
    let ic := fst r in
    let index_contact_ref := flat_map snd ic in                                  (* dict values, in chain order *)
    let rows := filter (fun a => (mem Z.eqb (idx a) index_contact_ref && mem String.eqb (name a) backbone4)%bool) ref in
    Ok (sorted_set_cz (map (fun a => (chain a, resSeq a)) rows))
  | _ => Err "ValueError"
  end.

(* ---- compute_lzone: the zone of the LONG chain (by reference atom count; tie -> first chain) ---- *)
Definition compute_lzone (ref : structure) : res zone :=
  match get_chains ref with
  | [c1; c2] =>
    let nA := List.length (chain_atoms ref c1) in
    let nB := List.length (chain_atoms ref c2) in
    let long := if Nat.ltb nA nB then c2 else c1 in
    Ok (sorted_set_cz (map (fun a => (chain a, resSeq a)) (chain_atoms ref long)))
  | _ => Err "ValueError"
  end.

Definition resdata_of (z : zone) : resdata := group z.                (* Model_zone.group: dict insertion order *)
Definition in_resdata (rd : resdata) (c : string) : option (list Z) :=
  match find (fun e => String.eqb (fst e) c) rd with Some e => Some (snd e) | None => None end.

(* ---- the fast readers (get_data_zone_backbone / get_xyz_zone_backbone / _get_xyz) ---- *)
Definition key3 := (string * Z * string)%type.                          (* (chainID, resSeq, name) *)
Definition key3_of (a : atom) : key3 := (chain a, resSeq a, name a).
Definition key3_eqb (p q : key3) : bool :=
  let '(c, n, m) := p in let '(c', n', m') := q in (String.eqb c c' && Z.eqb n n' && String.eqb m m')%bool.
(* atoms whose name is in [names]: in the zone / of a chain that is not in resData at all *)
Definition in_zone_atoms (names : list string) (rd : resdata) (s : structure) : list atom :=
  filter (fun a => (mem String.eqb (name a) names &&
                    match in_resdata rd (chain a) with Some l => mem Z.eqb (resSeq a) l | None => false end)%bool) s.
Definition not_in_zone_atoms (names : list string) (rd : resdata) (s : structure) : list atom :=
  filter (fun a => (mem String.eqb (name a) names &&
                    match in_resdata rd (chain a) with Some _ => false | None => true end)%bool) s.
(* _get_xyz(pdb, index): every record, in file order, whose key is in the set *)
Definition get_xyz_by_keys (s : structure) (keys : list key3) : list vec :=
  map pos_of (filter (fun a => mem key3_eqb (key3_of a) keys) s).
Definition inter_keys (a b : list key3) : list key3 := filter (fun k => mem key3_eqb k b) a.

(* ---- check_residues(kwargs) restricted to the two uses: no kwargs, or name=<list> ---- *)
Definition resk_list (names : option (list string)) (s : structure) : list (string * string * Z) :=
  dedup_keep_first resk_eqb
    (map resk_of (filter (fun a => match names with Some l => mem String.eqb (name a) l | None => true end) s)).
Definition names_of_res (names : option (list string)) (s : structure) (k : string * string * Z) : list string :=
  map name (filter (fun a => (resk_eqb (resk_of a) k &&
                              match names with Some l => mem String.eqb (name a) l | None => true end)%bool) s).
Fixpoint list_eqb {A} (eqb : A -> A -> bool) (l l' : list A) : bool :=
  match l, l' with
  | [], [] => true
  | x :: t, y :: t' => (eqb x y && list_eqb eqb t t')%bool
  | _, _ => false
  end.
(* Ok true / Ok false (mismatch tolerated: enforce_residue_matching=False) / Err ValueError (enforced) *)
Definition check_residues (enforce : bool) (names : option (list string)) (decoy ref : structure) : res bool :=
  let rr := resk_list names ref in let rd := resk_list names decoy in
  if negb (list_eqb resk_eqb rr rd) then (if enforce then Err "ValueError" else Ok false)
  else
    if forallb (fun k => list_eqb String.eqb (names_of_res names ref k) (names_of_res names decoy k)) rr
    then Ok true
    else (if enforce then Err "ValueError" else Ok false).

(* mean squared deviation; get_rmsd = round(sqrt(msd), 3) is finished by the harness (sqrt is not rational) *)
Definition sqdev (p q : vec) : Q := let d := vsub p q in vdot d d.
Definition msd (P Qs : list vec) : res Q :=
  if negb (Nat.eqb (List.length P) (List.length Qs)) then Err "ValueError"          (* NumPy shape mismatch *)
  else match P with
       | [] => Err "ZeroDivisionError"
       | _ => Ok (Qred (fold_right (fun a b => Qred (a + b)%Q) 0%Q (map (fun pq => sqdev (fst pq) (snd pq)) (combine P Qs))
                        / inject_Z (Z.of_nat (List.length P))))
       end.

(* ---- compute_irmsd_fast (zone already resolved: in memory, written, or read back) ---- *)
Definition irmsd_fast (rmat : mat) (z : zone) (check enforce : bool) (decoy ref : structure) : res Q :=
  let rd := resdata_of z in
  do xyz <- (if (check || enforce)%bool then
               do _ <- check_residues enforce None decoy ref;
               let kd := map key3_of (in_zone_atoms ["C"; "CA"; "N"; "O"] rd decoy) in
               let kr := map key3_of (in_zone_atoms ["C"; "CA"; "N"; "O"] rd ref) in
               let common := inter_keys kr kd in
               Ok (get_xyz_by_keys decoy common, get_xyz_by_keys ref common)
             else Ok (map pos_of (in_zone_atoms ["C"; "CA"; "N"; "O"] rd decoy),
                      map pos_of (in_zone_atoms ["C"; "CA"; "N"; "O"] rd ref)));
  let '(xd, xr) := xyz in
  if negb (Nat.eqb (List.length xd) (List.length xr)) then Err "ValueError"
  else msd (superpose_selection rmat xd xr xd) xr.

(* ---- compute_lrmsd_fast: fit on the zone (long chain), measure on the atoms of the other chain ---- *)
Definition lrmsd_fast (rmat : mat) (z : zone) (check enforce : bool) (names : list string) (decoy ref : structure) : res Q :=
  let rd := resdata_of z in
  do xyz <- (if (check || enforce)%bool then
               do _ <- check_residues enforce (Some names) decoy ref;
               let cl := inter_keys (map key3_of (in_zone_atoms names rd ref)) (map key3_of (in_zone_atoms names rd decoy)) in
               let cs := inter_keys (map key3_of (not_in_zone_atoms names rd ref)) (map key3_of (not_in_zone_atoms names rd decoy)) in
               Ok (get_xyz_by_keys decoy cl, get_xyz_by_keys ref cl, get_xyz_by_keys decoy cs, get_xyz_by_keys ref cs)
             else Ok (map pos_of (in_zone_atoms names rd decoy), map pos_of (in_zone_atoms names rd ref),
                      map pos_of (not_in_zone_atoms names rd decoy), map pos_of (not_in_zone_atoms names rd ref)));
  let '(dl, rl, ds, rs) := xyz in
  if negb (Nat.eqb (List.length dl) (List.length rl)) then Err "ValueError"
  else msd (superpose_selection rmat dl rl ds) rs.

(* ---- compute_irmsd_pdb2sql ---- *)
Definition key4 := (string * Z * string * string)%type.                 (* chainID, resSeq, resName, name *)
Definition key4_of (a : atom) : key4 := (chain a, resSeq a, resName a, name a).
Definition key4_eqb (p q : key4) : bool :=
  let '(c, n, r, m) := p in let '(c', n', r', m') := q in
  (String.eqb c c' && Z.eqb n n' && String.eqb r r' && String.eqb m m')%bool.
Definition first_with_key4 (k : key4) (s : structure) : option atom := find (fun a => key4_eqb (key4_of a) k) s.

(* rows of the reference in the zone: either from its own contact computation or from a zone file *)
Definition izone_rows_computed (cutoff : Q) (ref : structure) : res (list atom) :=
  match get_chains ref with
  | c1 :: c2 :: _ =>
    do r <- get_contact_atoms (closeQ cutoff) false false ref false c1 c2 true;
    let index_contact_ref := flat_map snd (fst r) in
    Ok (filter (fun a => (mem Z.eqb (idx a) index_contact_ref && mem String.eqb (name a) backbone4)%bool) ref)
  | _ => Err "IndexError"
  end.
(* get_izone_rowID: one get() per chain of resData; the rowIDs are then used as a condition of
   further get() calls, which return rows in table order whatever the order of the list *)
Definition izone_rows_from_zone (z : zone) (ref : structure) : list atom :=
  let rd := resdata_of z in
  filter (fun a => (match in_resdata rd (chain a) with Some l => mem Z.eqb (resSeq a) l | None => false end
                    && mem String.eqb (name a) ["C"; "CA"; "N"; "O"])%bool) ref.

Definition irmsd_sql (rmat : mat) (rows_ref : list atom) (decoy ref : structure) : res Q :=
  if negb (list_eqb String.eqb (get_chains decoy) (get_chains ref)) then Err "ValueError"
  else
    (* for each reference atom the FIRST decoy record with the same (chain, resSeq, resName, name) *)
    let pairs := flat_map (fun r => match first_with_key4 (key4_of r) decoy with
                                    | Some d => [(pos_of d, pos_of r)] | None => [] end) rows_ref in
    match pairs with
    | [] => Err "ValueError"
    | _ =>
      let xd := map fst pairs in let xr := map snd pairs in
      (* centre both, rotate the decoy fragment about the origin, compare with the centred reference *)
      let cd := centred xd in let cr := centred xr in
      msd (map (mv rmat) cd) cr
    end.

(* ---- compute_lrmsd_pdb2sql ---- *)
Definition key3_first (k : key3) (s : structure) : option atom := find (fun a => key3_eqb (key3_of a) k) s.
(* get_identical_atoms: shared (chain, resSeq, name) keys; the order is that of a Python set and is
   immaterial for the value (both coordinate lists follow the same order) — modelled in decoy order *)
Definition identical_atoms (decoy ref : structure) (c : string) (names : list string) : list vec * list vec :=
  let sel := fun s => filter (fun a => (String.eqb (chain a) c && mem String.eqb (name a) names)%bool) s in
  let kd := dedup_keep_first key3_eqb (map key3_of (sel decoy)) in
  let kr := map key3_of (sel ref) in
  let shared := filter (fun k => mem key3_eqb k kr) kd in
  (flat_map (fun k => match key3_first k decoy with Some a => [pos_of a] | None => [] end) shared,
   flat_map (fun k => match key3_first k ref with Some a => [pos_of a] | None => [] end) shared).

Definition lrmsd_sql (rmat : mat) (enforce : bool) (names : list string) (decoy ref : structure) : res Q :=
  let chd := get_chains decoy in let chr := get_chains ref in
  if negb (list_eqb String.eqb chd chr) then Err "ValueError"
  else match chd with
  | c1 :: c2 :: _ =>
    let sel := fun s c => map pos_of (filter (fun a => (String.eqb (chain a) c && mem String.eqb (name a) names)%bool) s) in
    do ok <- check_residues enforce (Some names) decoy ref;
    let '(dA, rA) := if ok then (sel decoy c1, sel ref c1) else identical_atoms decoy ref c1 names in
    let '(dB, rB) := if ok then (sel decoy c2, sel ref c2) else identical_atoms decoy ref c2 names in
    (* the long chain is chosen by the number of SELECTED decoy atoms; tie -> chain B (F5) *)
    let '(dl, rl, ds, rs) := if Nat.ltb (List.length dB) (List.length dA) then (dA, rA, dB, rB) else (dB, rB, dA, rA) in
    if negb (Nat.eqb (List.length dl) (List.length rl)) then Err "ValueError"
    else
      let cd := mean dl in let cr := mean rl in
      msd (map (fun x => mv rmat (vsub x cd)) ds) (map (fun x => vsub x cr) rs)
  | _ => Err "IndexError"
  end.
