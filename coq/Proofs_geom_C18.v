(* Proofs_geom_C18.v — lemmas behind Properties/C18.v: the regenerated per-axis table of
   _align_along_axis maps the vector with spherical angles (theta, phi) onto the requested axis;
   the successive rotations are ONE rotation about the centroid; covariance transforms by congruence;
   the principal direction ends up on the target axis. *)
From Coq Require Import Reals Lra Psatz Nsatz Lia.
From Verif Require Import Base PyLib Model_geom_num Generated_geom Model_geom Spec_geom Spec_geom_R
  Proofs_geom_alg Proofs_geom_C10.
Open Scope R_scope.
Open Scope string_scope.

(* ---- the angle expressions ------------------------------------------------------------------- *)
Lemma ang_cs_unit k neg c s : unit_cs c s -> unit_cs (fst (ang_cs Nr k neg (c, s))) (snd (ang_cs Nr k neg (c, s))).
Proof.
  intros H. gunf_in H. unfold ang_cs, quarter_turn.
  destruct neg; destruct (k mod 4)%Z as [| [p | p |] | p]; try destruct p; cbn [fst snd]; gunf; nra.
Qed.
(* meaning of the three forms that occur, in terms of the real cosine and sine *)
Lemma ang_cs_neg a : ang_cs Nr 0 true (cos a, sin a) = (cos (- a), sin (- a)).
Proof. rewrite cos_neg, sin_neg. reflexivity. Qed.
Lemma ang_cs_half_pi_minus a : ang_cs Nr 1 true (cos a, sin a) = (cos (PI / 2 - a), sin (PI / 2 - a)).
Proof.
  rewrite cos_shift, sin_shift. unfold ang_cs, quarter_turn. cbn [fst snd Z.modulo]. cbn. f_equal. ring.
Qed.
Lemma ang_cs_minus_half_pi a : ang_cs Nr (-1) false (cos a, sin a) = (cos (a - PI / 2), sin (a - PI / 2)).
Proof.
  replace (a - PI / 2) with (- (PI / 2 - a)) by ring. rewrite cos_neg, sin_neg, cos_shift, sin_shift.
  unfold ang_cs, quarter_turn. cbn. f_equal; ring.
Qed.

(* ---- one rotation about the centroid ----------------------------------------------------------- *)
Definition step_matrix (st : (Z * Z * Z) * angexpr) (cphi sphi cth sth : R) : mat3 R :=
  let cs := step_cs Nr (snd st) cphi sphi cth sth in
  let ax := zvec Nr (fst st) in
  rodrigues_src Nr (fst cs) (snd cs) (vx ax) (vy ax) (vz ax).
Definition align_matrix_from (M0 : mat3 R) (steps : list ((Z * Z * Z) * angexpr)) (cphi sphi cth sth : R) : mat3 R :=
  fold_left (fun M st => mmul Nr (step_matrix st cphi sphi cth sth) M) steps M0.
Definition align_matrix steps cphi sphi cth sth := align_matrix_from (meye Nr) steps cphi sphi cth sth.

Lemma map_rot_about_nonempty M c (l : list (vec3 R)) : l <> [] -> map (rot_about M c) l <> [].
Proof. destruct l; [contradiction | discriminate]. Qed.

Lemma step_is_rot_about st cphi sphi cth sth (x : list (vec3 R)) : x <> [] ->
  rot_xyz_around_axis Nr x (zvec Nr (fst st)) (fst (step_cs Nr (snd st) cphi sphi cth sth))
                      (snd (step_cs Nr (snd st) cphi sphi cth sth)) None
  = Ok (map (rot_about (step_matrix st cphi sphi cth sth) (mean Nr x)) x).
Proof.
  intros Hx. unfold rot_xyz_around_axis, rotate. destruct x; [contradiction |].
  rewrite rotate_apply_is_rot_about. reflexivity.
Qed.

Lemma align_steps_from steps cphi sphi cth sth : forall M0 xyz, xyz <> [] ->
  fold_left (fun acc st =>
               do x <- acc;
               let cs := step_cs Nr (snd st) cphi sphi cth sth in
               rot_xyz_around_axis Nr x (zvec Nr (fst st)) (fst cs) (snd cs) None)
            steps (Ok (map (rot_about M0 (mean Nr xyz)) xyz))
  = Ok (map (rot_about (align_matrix_from M0 steps cphi sphi cth sth) (mean Nr xyz)) xyz).
Proof.
  induction steps as [| st steps IH]; intros M0 xyz Hne; cbn [fold_left].
  - reflexivity.
  - cbn [bind]. cbv zeta.
    rewrite (step_is_rot_about st cphi sphi cth sth _ (map_rot_about_nonempty M0 _ xyz Hne)).
    rewrite (mean_rot_about M0 xyz Hne), map_map.
    rewrite (map_ext _ (rot_about (mmul Nr (step_matrix st cphi sphi cth sth) M0) (mean Nr xyz)))
      by (intros p; apply rot_about_compose).
    apply (IH (mmul Nr (step_matrix st cphi sphi cth sth) M0) xyz Hne).
Qed.

Theorem single_rotation_about_centroid steps cphi sphi cth sth xyz : xyz <> [] ->
  align_steps Nr steps cphi sphi cth sth xyz =
  Ok (map (rot_about (align_matrix steps cphi sphi cth sth) (mean Nr xyz)) xyz).
Proof.
  intros Hne. unfold align_steps, align_matrix.
  rewrite <- (align_steps_from steps cphi sphi cth sth (meye Nr) xyz Hne). f_equal. f_equal.
  rewrite <- (map_id xyz) at 1. apply map_ext. intros p. symmetry. apply rot_about_eye.
Qed.

Definition steps_unit_axes (steps : list ((Z * Z * Z) * angexpr)) : Prop :=
  Forall (fun st => unit3 (zvec Nr (fst st))) steps.
Lemma step_matrix_rotation st cphi sphi cth sth :
  unit3 (zvec Nr (fst st)) -> unit_cs cphi sphi -> unit_cs cth sth -> is_rotation (step_matrix st cphi sphi cth sth).
Proof.
  intros Hu Hp Ht. unfold step_matrix. cbv zeta.
  destruct (zvec Nr (fst st)) as [x y z] eqn:E. apply rodrigues_is_rotation; [exact Hu |].
  unfold step_cs. destruct (ae_var (snd st)); apply ang_cs_unit; assumption.
Qed.
Lemma align_matrix_from_rotation steps cphi sphi cth sth : forall M0,
  is_rotation M0 -> steps_unit_axes steps -> unit_cs cphi sphi -> unit_cs cth sth ->
  is_rotation (align_matrix_from M0 steps cphi sphi cth sth).
Proof.
  induction steps as [| st steps IH]; intros M0 H0 Hs Hp Ht; cbn [align_matrix_from fold_left].
  - exact H0.
  - inversion Hs as [| ? ? Hst Hrest]; subst. apply IH; auto.
    apply rot_mmul; [apply step_matrix_rotation; assumption | exact H0].
Qed.
Lemma align_matrix_rotation steps cphi sphi cth sth :
  steps_unit_axes steps -> unit_cs cphi sphi -> unit_cs cth sth -> is_rotation (align_matrix steps cphi sphi cth sth).
Proof. intros. apply align_matrix_from_rotation; auto. apply rot_eye. Qed.

(* ---- the regenerated table ------------------------------------------------------------------------ *)
Lemma table_unit_axes : forall axis steps, assoc_str axis align_table_src = Some steps -> steps_unit_axes steps.
Proof.
  intros axis steps H. unfold align_table_src in H. cbn [assoc_str] in H.
  repeat match type of H with
         | (if ?b then _ else _) = _ => destruct b
         end; try discriminate; injection H as <-; unfold steps_unit_axes;
    repeat (apply Forall_cons; [unfold zvec; cbn [fst snd]; gunf; ring |]); apply Forall_nil.
Qed.

Definition target_axis (axis : string) : option (vec3 R) := unit_axis Nr axis.

(* for the three letters: the vector with spherical angles (theta, phi) and length r goes to r e_axis *)
Theorem align_maps_vector axis steps e v r cphi sphi cth sth :
  assoc_str axis align_table_src = Some steps -> target_axis axis = Some e ->
  has_angles v r cphi sphi cth sth ->
  mvmul Nr (align_matrix steps cphi sphi cth sth) v = vscale Nr r e.
Proof.
  intros Hs He (Hp & Ht & ->). gunf_in Hp. gunf_in Ht.
  unfold target_axis, unit_axis in He.
  destruct (String.eqb axis "x") eqn:Ex; [apply String.eqb_eq in Ex; subst axis |
    destruct (String.eqb axis "y") eqn:Ey; [apply String.eqb_eq in Ey; subst axis |
      destruct (String.eqb axis "z") eqn:Ez; [apply String.eqb_eq in Ez; subst axis | discriminate]]];
    injection He as <-; cbv in Hs; injection Hs as <-;
    unfold align_matrix, align_matrix_from, step_matrix, step_cs, zvec, ang_cs, quarter_turn;
    cbn [fold_left fst snd ae_k ae_neg ae_var Z.modulo Z.div_eucl Z.pos_div_eucl Z.leb Z.ltb Z.compare Pos.compare Pos.compare_cont
         Z.succ_double Z.double Z.mul Z.add Z.sub Z.opp Pos.mul Pos.add Z.pos_sub Z.pred_double Pos.pred_double Z.sgn Z.abs Z.eqb Pos.eqb];
    gunf; gext; nsatz.
Qed.

(* ---- covariance under an affine map -------------------------------------------------------------- *)
Definition scatter_about (mu : vec3 R) (l : list (vec3 R)) : mat3 R :=
  fold_right (fun p acc => madd Nr (outer Nr (vsub Nr p mu) (vsub Nr p mu)) acc) (mzero Nr) l.
Lemma scatter_is l : scatter Nr l = scatter_about (mean Nr l) l.
Proof. reflexivity. Qed.
Lemma scatter_about_affine M c mu l :
  scatter_about (rot_about M c mu) (map (rot_about M c) l) = mmul Nr M (mmul Nr (scatter_about mu l) (mtrans M)).
Proof.
  induction l as [| p l IH].
  - cbn. gring.
  - cbn [map scatter_about fold_right]. fold (scatter_about (rot_about M c mu) (map (rot_about M c) l)).
    fold (scatter_about mu l). rewrite IH. generalize (scatter_about mu l). intros S. unfold rot_about. gring.
Qed.
Lemma mean_affine M c l : l <> [] -> mean Nr (map (rot_about M c) l) = rot_about M c (mean Nr l).
Proof.
  intros Hl. destruct l as [| p t]; [contradiction |].
  pose proof (nlen_pos p t) as Hn.
  unfold mean. rewrite vsum_rot_about, nlen_map.
  generalize dependent (nlen Nr (p :: t)). intros n Hn. generalize (vsum Nr (p :: t)). intros S.
  destruct S as [sx sy sz], M as [m0 m1 m2 m3 m4 m5 m6 m7 m8], c as [cx cy cz]. unfold rot_about. gunf. gext; field; lra.
Qed.
Lemma mdivs_congruence M S k : mdivs Nr (mmul Nr M (mmul Nr S (mtrans M))) k = mmul Nr M (mmul Nr (mdivs Nr S k) (mtrans M)).
Proof. destruct M, S. gunf. unfold Rdiv. gext; ring. Qed.

Theorem cov_rotates M c xyz : xyz <> [] ->
  sample_cov Nr (map (rot_about M c) xyz) = mmul Nr M (mmul Nr (sample_cov Nr xyz) (mtrans M)).
Proof.
  intros Hne. unfold sample_cov. rewrite nlen_map, scatter_is, (mean_affine M c xyz Hne), scatter_about_affine.
  rewrite mdivs_congruence, <- scatter_is. reflexivity.
Qed.

(* the specification's covariance (entry by entry, from the definition) is the model's np.cov *)
Lemma spec_cov_is_sample_cov xyz : spec_cov Nr xyz = sample_cov Nr xyz.
Proof.
  unfold spec_cov, sample_cov. rewrite scatter_is. generalize (mean Nr xyz) (nsub Nr (nlen Nr xyz) (n1 Nr)). intros mu k.
  assert (H : forall l, scatter_about mu l =
    let d := map (fun p => vsub Nr p mu) l in
    let s := fun (f g : vec3 R -> R) => fold_right (fun p acc => nadd Nr (nmul Nr (f p) (g p)) acc) (n0 Nr) d in
    M3 (s vx vx) (s vx vy) (s vx vz) (s vy vx) (s vy vy) (s vy vz) (s vz vx) (s vz vy) (s vz vz)).
  { induction l as [| p l IH]; cbn [map scatter_about fold_right].
    - reflexivity.
    - fold (scatter_about mu l). rewrite IH. cbv zeta. destruct p, mu. gunf. gext; ring. }
  rewrite H. reflexivity.
Qed.

(* ---- the principal direction lands on the target axis ---------------------------------------------- *)
Lemma sph_unit cphi sphi cth sth : unit_cs cphi sphi -> unit_cs cth sth -> norm2 Nr (sph Nr cphi sphi cth sth) = 1.
Proof. intros H1 H2. gunf_in H1. gunf_in H2. gunf. nsatz. Qed.

Lemma mvmul_vscale B k x : mvmul Nr B (vscale Nr k x) = vscale Nr k (mvmul Nr B x).
Proof. gring. Qed.

Section Principal.
Variables (axis : string) (steps : list ((Z * Z * Z) * angexpr)) (e v : vec3 R) (r cphi sphi cth sth lam : R).
Variables (sel all : list (vec3 R)).
Hypothesis Hsteps : assoc_str axis align_table_src = Some steps.
Hypothesis Haxis : target_axis axis = Some e.
Hypothesis Hang : has_angles v r cphi sphi cth sth.
Hypothesis Hr : r <> 0.
Hypothesis Hsel : sel <> [].
(* v is an eigenvector of the covariance of the selected atoms *)
Hypothesis Heig : mvmul Nr (sample_cov Nr sel) v = vscale Nr lam v.
Let A := align_matrix steps cphi sphi cth sth.
Let f := rot_about A (mean Nr all).

Lemma align_A_rotation : is_rotation A.
Proof using Hsteps Hang.
  destruct Hang as (Hp & Ht & _). apply align_matrix_rotation; auto. eapply table_unit_axes, Hsteps.
Qed.
Lemma align_At_e : mvmul Nr (mtrans A) e = vscale Nr (/ r) v.
Proof using Hsteps Haxis Hang Hr.
  pose proof (align_maps_vector axis steps e v r cphi sphi cth sth Hsteps Haxis Hang) as Hm. fold A in Hm.
  pose proof align_A_rotation as [Ho _].
  assert (E : mvmul Nr (mtrans A) (mvmul Nr A v) = v) by (rewrite <- mvmul_mmul; unfold orthogonal in Ho; rewrite Ho; apply mvmul_eye).
  rewrite Hm in E. rewrite <- E.
  rewrite mvmul_vscale.
  generalize (mvmul Nr (mtrans A) e). intros y. destruct y. gunf. gext; field; exact Hr.
Qed.
Lemma var_after w :
  var_along Nr (map f sel) w = dot Nr (mvmul Nr (mtrans A) w) (mvmul Nr (sample_cov Nr sel) (mvmul Nr (mtrans A) w)).
Proof using Hsel.
  unfold var_along. rewrite spec_cov_is_sample_cov. unfold f. rewrite (cov_rotates A (mean Nr all) sel Hsel).
  rewrite !mvmul_mmul, dot_comm, dot_mvmul_trans, dot_comm. reflexivity.
Qed.
Lemma var_target : var_along Nr (map f sel) e = lam.
Proof using Hsteps Haxis Hang Hr Hsel Heig.
  rewrite var_after, align_At_e.
  rewrite mvmul_vscale.
  rewrite Heig. destruct Hang as (Hp & Ht & ->).
  pose proof (sph_unit cphi sphi cth sth Hp Ht) as Hu. revert Hu. generalize (sph Nr cphi sphi cth sth). intros s Hu.
  destruct s as [x y z]. gunf_in Hu. gunf.
  replace (/ r * (r * x) * (/ r * (lam * (r * x))) + / r * (r * y) * (/ r * (lam * (r * y))) + / r * (r * z) * (/ r * (lam * (r * z))))
    with (lam * (x * x + y * y + z * z)) by (field; exact Hr).
  rewrite Hu. ring.
Qed.
(* largest variance: nothing exceeds the target direction *)
Theorem principal_axis_on_target_max :
  (forall w, dot Nr w (mvmul Nr (sample_cov Nr sel) w) <= lam * norm2 Nr w) ->
  var_along Nr (map f sel) e = lam /\ forall w, unit3 w -> var_along Nr (map f sel) w <= var_along Nr (map f sel) e.
Proof using Hsteps Haxis Hang Hr Hsel Heig.
  intros Hray. split; [apply var_target |]. intros w Hw. rewrite var_target, var_after.
  pose proof align_A_rotation as HA. apply rot_trans in HA. destruct HA as [Ho _].
  specialize (Hray (mvmul Nr (mtrans A) w)). rewrite (orth_norm2 _ w Ho) in Hray. unfold unit3 in Hw. rewrite Hw in Hray. lra.
Qed.
(* least variance (interfaces): nothing is below the target direction *)
Theorem principal_axis_on_target_min :
  (forall w, lam * norm2 Nr w <= dot Nr w (mvmul Nr (sample_cov Nr sel) w)) ->
  var_along Nr (map f sel) e = lam /\ forall w, unit3 w -> var_along Nr (map f sel) e <= var_along Nr (map f sel) w.
Proof using Hsteps Haxis Hang Hr Hsel Heig.
  intros Hray. split; [apply var_target |]. intros w Hw. rewrite var_target, var_after.
  pose proof align_A_rotation as HA. apply rot_trans in HA. destruct HA as [Ho _].
  specialize (Hray (mvmul Nr (mtrans A) w)). rewrite (orth_norm2 _ w Ho) in Hray. unfold unit3 in Hw. rewrite Hw in Hray. lra.
Qed.
End Principal.

(* ---- database level: align_pca_vect rotates every atom once about the centroid, keeps everything else ---- *)
Lemma read_all_is_coords {A} (tb : list (A * vec3 R)) : read_sel Nr tb (seq 0 (List.length tb)) = map snd tb.
Proof.
  unfold read_sel. rewrite <- (map_length snd tb). generalize (map snd tb). intros l.
  apply nth_ext with (d := vzero Nr) (d' := vzero Nr).
  - rewrite map_length, seq_length. reflexivity.
  - intros n Hn. rewrite map_length, seq_length in Hn.
    rewrite (nth_indep _ _ (nth 0 l (vzero Nr))) by (rewrite map_length, seq_length; exact Hn).
    rewrite (map_nth (fun i => nth i l (vzero Nr)) (seq 0 (List.length l)) 0%nat n).
    rewrite seq_nth by exact Hn. reflexivity.
Qed.

Theorem align_db_frame {A} (tb tb' : list (A * vec3 R)) axis cphi sphi cth sth :
  tb <> [] ->
  align_pca_vect Nr tb axis cphi sphi cth sth = Ok tb' ->
  exists steps, assoc_str axis align_table_src = Some steps /\
    List.length tb' = List.length tb /\ map fst tb' = map fst tb /\
    forall k, (k < List.length tb)%nat ->
      nth_error (map snd tb') k =
      Some (rot_about (align_matrix steps cphi sphi cth sth) (mean Nr (map snd tb)) (nth k (map snd tb) (vzero Nr))).
Proof.
  unfold align_pca_vect, align_along_axis. intros Htb H.
  destruct (assoc_str axis align_table_src) as [steps |] eqn:Es; [| discriminate].
  exists steps. split; [reflexivity |].
  rewrite read_all_is_coords in H.
  assert (Hne : map snd tb <> []) by (destruct tb; [contradiction | discriminate]).
  rewrite (single_rotation_about_centroid steps cphi sphi cth sth _ Hne) in H. cbn [bind] in H. injection H as <-.
  set (xyz' := map _ (map snd tb)).
  assert (Hl : List.length xyz' = List.length (seq 0 (List.length tb))) by (unfold xyz'; rewrite !map_length, seq_length; reflexivity).
  destruct (write_sel_spec (seq 0 (List.length tb)) tb xyz' (seq_NoDup _ _)
              (fun i Hi => proj2 (proj1 (in_seq _ _ _) Hi)) Hl) as (L & Fs & _ & Sel).
  repeat split; auto.
  intros k Hk. specialize (Sel k). rewrite seq_length in Sel. specialize (Sel Hk).
  rewrite seq_nth in Sel by exact Hk. cbn [plus] in Sel. rewrite Sel. unfold xyz'.
  rewrite nth_error_map. rewrite (nth_error_nth' _ (vzero Nr)) by (rewrite map_length; exact Hk). reflexivity.
Qed.
