(* C12 — DockQ follows its formula; CAPRI class is total and equals the published table.
   Only statements, each closed by [exact], followed by Print Assumptions. *)
From Verif Require Import PyLib ModelTypes Generated_scores Model_scores Spec_scores
  Proofs_capri Proofs_capri2 Proofs_dockq.
Open Scope Q_scope.

(* The classifier (regenerated from compute_CapriClass) is defined for EVERY rational
   (Fnat, L-RMSD, i-RMSD) and returns the class of the published table, in both readings. *)
Theorem C12_capri_total_and_exact : forall f l i,
  exists c, capri f l i = Ok (class_name c) /\ is_class c f l i /\ is_class_levels c f l i.
Proof.
  intros f l i. exists (capri_spec f l i).
  split; [exact (capri_eq_spec f l i) | split; [exact (capri_spec_table f l i) | exact (capri_spec_levels f l i)]].
Qed.
Print Assumptions C12_capri_total_and_exact.

Theorem C12_capri_only_that_class : forall f l i c c',
  capri f l i = Ok (class_name c) -> is_class c' f l i -> c' = c.
Proof. exact capri_only_that_class. Qed.
Print Assumptions C12_capri_only_that_class.

Theorem C12_capri_monotone : forall f l i f' l' i' c c',
  f <= f' -> l' <= l -> i' <= i ->
  capri f l i = Ok (class_name c) -> capri f' l' i' = Ok (class_name c') ->
  (class_rank c <= class_rank c')%nat.
Proof. exact capri_monotone. Qed.
Print Assumptions C12_capri_monotone.

(* on every threshold (non-vacuity: concrete points, including all three coordinates on a boundary) *)
Example C12_capri_on_thresholds :
  capri t01 10 4 = Ok "acceptable" /\ capri t03 5 2 = Ok "medium" /\ capri t05 1 1 = Ok "high"
  /\ capri t05 1 (3#2) = Ok "high" /\ capri t05 (3#2) (3#2) = Ok "medium"
  /\ capri (1#1) 11 5 = Ok "incorrect" /\ capri t03 11 4 = Ok "acceptable" /\ capri 0 0 0 = Ok "incorrect".
Proof. vm_compute. repeat split. Qed.

Theorem C12_dockq_formula : forall f l i d1 d2,
  dockq f l i d1 d2 = round_dec 6 (dockq_raw_src f l i d1 d2) /\
  dockq_raw_src f l i d1 d2 == dockq_formula f l i d1 d2.
Proof. intros. split; [reflexivity | exact (dockq_raw_is_formula f l i d1 d2)]. Qed.
Print Assumptions C12_dockq_formula.

Theorem C12_dockq_defaults : dockq_d1_src == 85 # 10 /\ dockq_d2_src == 15 # 10.
Proof. split; reflexivity. Qed.

Theorem C12_dockq_range : forall f l i d1 d2,
  0 <= f -> f <= 1 -> 0 <= dockq f l i d1 d2 /\ dockq f l i d1 d2 <= 1.
Proof. exact dockq_range. Qed.
Print Assumptions C12_dockq_range.

Theorem C12_dockq_perfect : forall d1 d2, dockq 1 0 0 d1 d2 == 1.
Proof. exact dockq_perfect. Qed.
Print Assumptions C12_dockq_perfect.

Theorem C12_dockq_monotone : forall f l i f' l' i' d1 d2,
  0 <= f -> f <= f' -> f' <= 1 -> 0 <= l' -> l' <= l -> 0 <= i' -> i' <= i ->
  dockq f l i d1 d2 <= dockq f' l' i' d1 d2.
Proof. exact dockq_monotone. Qed.
Print Assumptions C12_dockq_monotone.
