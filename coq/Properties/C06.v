(* C06 — optimal superposition: a proper rotation attaining the minimum RMSD.
   Statements only.  kabsch / quaternion / get_rotation_matrix are the executable model of superpose.py built
   from the regenerated formulas (kabsch_cov_src, kabsch_post_src, quat_F_src, quat_rot_src, quat_pick_src,
   the guards, the dispatch table), instantiated at the reals.  LAPACK enters as an oracle: the theorems
   quantify over every function svd / eig and assume only what is checked at run time on each recorded answer
   (svd_ok: A = V diag(s) Wh, orthogonal factors, s1 >= s2 >= s3 >= 0;  eig_ok: the picked column is a unit
   eigenvector whose eigenvalue bounds the Rayleigh quotient).  No rank or sign assumption anywhere:
   coplanar, collinear, single-point, identical and mirror-image sets are covered.
     optimal U P Q := is_rotation U /\ forall R, is_rotation R -> resid U P Q <= resid R P Q
     resid U P Q   := sum_k |U p_k - q_k|^2   (lists of any length) *)
From Coq Require Import Reals Lra.
From Verif Require Import Base PyLib Model_geom_num Generated_geom Model_geom Spec_geom Spec_geom_R
  Proofs_geom_alg Proofs_geom_C06 Proofs_geom_quat Proofs_geom_C06b Proofs_geom_psd.
Open Scope R_scope.

Theorem C06_rot_of_quat_is_rotation : forall q, unit4 q -> is_rotation (quat_rot_src Nr q).
Proof. exact quat_rot_is_rotation. Qed.
Print Assumptions C06_rot_of_quat_is_rotation.

(* every proper rotation is the matrix of a unit quaternion (Shepperd's four cases) *)
Theorem C06_quat_surjective : forall M, is_rotation M -> exists q, unit4 q /\ quat_rot_src Nr q = M.
Proof. exact quat_surjective. Qed.
Print Assumptions C06_quat_surjective.

(* the 16 entries of F and the 9 entries of U(q):  tr(U(q) R) = q^T F(R) q  for every q and R;
   F is Horn's matrix of the specification *)
Theorem C06_trace_is_quadratic_form : forall q C,
  mtrace Nr (mmul Nr (quat_rot_src Nr q) C) = quadform4 Nr (quat_F_src Nr C) q /\ quat_F_src Nr C = horn Nr C.
Proof. intros. split; [apply quat_trace_identity | apply quat_F_is_horn]. Qed.
Print Assumptions C06_trace_is_quadratic_form.

(* the residual of an orthogonal matrix is  sum |p|^2 + |q|^2  -  2 tr(U P^T Q) *)
Theorem C06_residual_is_trace : forall U, orthogonal U -> forall P Q,
  resid Nr U P Q = pairs_sumsq (combine P Q) - 2 * mtrace Nr (mmul Nr U (ptq Nr P Q)).
Proof. exact resid_as_trace. Qed.
Print Assumptions C06_residual_is_trace.

(* first/second-order certificate of Wahba's problem *)
Theorem C06_wahba_certificate_sound : forall U P Q,
  is_rotation U ->
  let S := mmul Nr U (ptq Nr P Q) in
  symmetric3 S -> psd3 (shift3 Nr (mtrace Nr S) S) -> optimal U P Q.
Proof. exact wahba_certificate_sound. Qed.
Print Assumptions C06_wahba_certificate_sound.

Theorem C06_kabsch_optimal : forall svd P Q U,
  svd_ok (kabsch_cov_src Nr P Q) (svd (kabsch_cov_src Nr P Q)) -> kabsch Nr svd P Q = Ok U -> optimal U P Q.
Proof. exact kabsch_optimal. Qed.
Print Assumptions C06_kabsch_optimal.

(* the determinant correction: never a reflection *)
Theorem C06_kabsch_never_reflects : forall svd P Q U,
  svd_ok (kabsch_cov_src Nr P Q) (svd (kabsch_cov_src Nr P Q)) -> kabsch Nr svd P Q = Ok U ->
  orthogonal U /\ mdet Nr U = 1.
Proof. exact kabsch_never_reflects. Qed.
Print Assumptions C06_kabsch_never_reflects.

(* optimal among ALL rotations (uses C06_quat_surjective) *)
Theorem C06_quaternion_optimal : forall eig P Q U,
  eig_ok (quat_pick_src Nr) (quat_F_of P Q) (eig (quat_F_of P Q)) -> quaternion Nr eig P Q = Ok U -> optimal U P Q.
Proof. exact quaternion_optimal. Qed.
Print Assumptions C06_quaternion_optimal.

Theorem C06_methods_agree : forall svd eig P Q U1 U2,
  svd_spec svd -> eig_spec (quat_pick_src Nr) eig ->
  kabsch Nr svd P Q = Ok U1 -> quaternion Nr eig P Q = Ok U2 -> resid Nr U1 P Q = resid Nr U2 P Q.
Proof. exact methods_agree. Qed.
Print Assumptions C06_methods_agree.

(* through the dispatcher, whatever the spelling of the method *)
Theorem C06_get_rotation_matrix_optimal : forall svd eig method P Q U,
  svd_spec svd -> eig_spec (quat_pick_src Nr) eig ->
  get_rotation_matrix Nr svd eig method P Q = Ok U -> optimal U P Q.
Proof. exact get_rotation_matrix_optimal. Qed.
Print Assumptions C06_get_rotation_matrix_optimal.

(* unequal sizes, uncentred input (some |mean component| > eps, eps the double nearest 1e-6) and unknown
   methods are rejected with ValueError, by both kernels *)
Theorem C06_guards : forall svd eig P Q,
  (List.length P <> List.length Q -> kabsch Nr svd P Q = Err "ValueError" /\ quaternion Nr eig P Q = Err "ValueError") /\
  (List.length P = List.length Q -> List.length P <> O -> uncentred P \/ uncentred Q ->
     kabsch Nr svd P Q = Err "ValueError" /\ quaternion Nr eig P Q = Err "ValueError") /\
  (forall method, assoc_str (lower method) rotmat_dispatch_src = None ->
     get_rotation_matrix Nr svd eig method P Q = Err "ValueError").
Proof. exact guards. Qed.
Print Assumptions C06_guards.
Theorem C06_guard_constants :
  Rabs (centre_eps_src Nr - 1 / 1000000) < 1 / 10 ^ 21 /\
  rotmat_dispatch_src = [("svd"%string, KKabsch); ("quaternion"%string, KQuaternion)].
Proof. split; [exact centre_eps_is_1e6 | exact dispatch_table]. Qed.

(* the run-time certificate (executed over Q by the harness, same text): the division-free symmetric
   elimination only accepts positive semi-definite matrices (any size), and the enclosure computed from it
   brackets the residual of every rotation from below while its upper end is attained by a rotation *)
Theorem C06_psd_check_sound : forall k n M, square n M -> psd_check Nr k M = true -> forall v, 0 <= qfu M v.
Proof. exact psd_check_sound. Qed.
Print Assumptions C06_psd_check_sound.
Theorem C06_enclosure_sound : forall P Q q lam,
  List.length P = List.length Q -> dot4 Nr q q <> 0 ->
  fst (fst (enclosure Nr P Q q lam)) = true ->
  (forall R', is_rotation R' -> snd (fst (enclosure Nr P Q q lam)) <= resid Nr R' P Q) /\
  (exists R', is_rotation R' /\ resid Nr R' P Q = snd (enclosure Nr P Q q lam)).
Proof. exact enclosure_sound. Qed.
Print Assumptions C06_enclosure_sound.

(* the oracle hypotheses are satisfiable on a degenerate, negative-determinant input: the octahedron and its
   mirror image; A = diag(1/3, 1/3, -1/3) = I diag(1/3,1/3,1/3) diag(1,1,-1), and F = diag(2,2,2,-6) has a
   threefold largest eigenvalue (eigh lists the eigenvalues in ascending order; argmax takes the first of the three) *)
Definition octa : list (vec3 R) := [V3 1 0 0; V3 (-1) 0 0; V3 0 1 0; V3 0 (-1) 0; V3 0 0 1; V3 0 0 (-1)].
Definition octa_mirror : list (vec3 R) := [V3 1 0 0; V3 (-1) 0 0; V3 0 1 0; V3 0 (-1) 0; V3 0 0 (-1); V3 0 0 1].
Example C06_svd_ok_satisfiable :
  svd_ok (kabsch_cov_src Nr octa octa_mirror) (meye Nr, V3 (1 / 3) (1 / 3) (1 / 3), flipz).
Proof.
  unfold svd_ok. split; [| split; [apply orth_eye | split; [apply flipz_orth | cbn; lra]]].
  unfold kabsch_cov_src, octa, octa_mirror, flipz, nlen. cbn [ptq combine fold_right fst snd List.length Z.of_nat Pos.of_succ_nat Pos.succ].
  gunf. gext; field.
Qed.
Example C06_eig_ok_satisfiable :
  eig_ok (quat_pick_src Nr) (quat_F_of octa octa_mirror)
         ([-6; 2; 2; 2], M4 0 1 0 0 0 0 1 0 0 0 0 1 1 0 0 0).
Proof.
  unfold eig_ok. exists 2.
  assert (Hp : quat_pick_src Nr [-6; 2; 2; 2] = 1%nat).
  { unfold quat_pick_src, argmax, argmax_aux. cbn [nltb NumR]. unfold Rltb.
    destruct (Rlt_dec (-6) 2) as [H | H]; [| lra]. destruct (Rlt_dec 2 2) as [H' | H']; [lra | reflexivity]. }
  rewrite Hp. unfold quat_F_of, quat_corr_src, octa, octa_mirror. cbn [ptq combine fold_right fst snd m4col].
  repeat split.
  - gunf. gext; ring.
  - gunf. ring.
  - intros [a b c d]. gunf. nra.
Qed.
