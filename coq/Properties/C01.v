(* C01 — Parsing: one row per ATOM record, each field from its fixed wwPDB columns.
   Model: Model_parse.v over the tables/leaf functions regenerated from pdb2sqlcore.py and
   pdb2sql_base.py (Generated_parse.v).  Spec: Spec_parse.v (wwPDB columns, 1-based inclusive). *)
From Verif Require Import PyLib ModelTypes Generated_parse Model_parse Spec_parse Proofs_text Proofs_parse Proofs_forms.
Open Scope string_scope.

(* the slice table and the column types in today's source ARE the wwPDB table *)
Theorem C01_columns_are_wwpdb :
  delimiter_src = map (fun f => (fst (fst f), to_half_open (snd (fst f)))) wwpdb_cols.
Proof. exact columns_are_wwpdb. Qed.
Print Assumptions C01_columns_are_wwpdb.

(* every printable record: the parser's row (or error) is exactly the specification's *)
Theorem C01_record_exact : forall l, printableb l = true -> parse_record 0 l = spec_row l.
Proof. exact parse_record_exact. Qed.
Print Assumptions C01_record_exact.

(* every sequence of lines (printable + newline, no MODEL/ENDMDL): never a shifted, partial or
   altered table — either an error or exactly spec_table: one row per ATOM record, in order *)
Theorem C01_parse_total_exact : forall lines,
  Forall (fun l => linecharsb l = true) lines ->
  forallb (fun l => negb (is_ENDMDL l)) lines = true ->
  parse_lines lines 0 = (do rs <- spec_table lines; Ok (rs, 0%Z)).
Proof. exact parse_lines_exact. Qed.
Print Assumptions C01_parse_total_exact.

Theorem C01_one_row_per_record : forall lines rows,
  Forall (fun l => linecharsb l = true) lines ->
  forallb (fun l => negb (is_ENDMDL l)) lines = true ->
  parse_lines lines 0 = Ok (rows, 0%Z) ->
  List.length rows = List.length (filter is_ATOM lines) /\
  forall k, (k < List.length rows)%nat ->
    spec_row (upto_nl (nth k (filter is_ATOM lines) "")) = Ok (nth k rows []).
Proof. exact one_row_per_record. Qed.
Print Assumptions C01_one_row_per_record.

Theorem C01_other_records_ignored : forall l1 x l2 n,
  is_ATOM x = false -> is_ENDMDL x = false ->
  parse_lines (l1 ++ x :: l2)%list n = parse_lines (l1 ++ l2)%list n.
Proof. exact other_records_ignored. Qed.
Print Assumptions C01_other_records_ignored.

(* the table is identical whichever accepted container carries the same text: path string / Path object
   (readlines), whole-file str / bytes when recognised as content (split at newlines), list / ndarray of
   lines with or without their terminators *)
Theorem C01_forms_agree : forall txt,
  parse (InText FPath txt) = parse (InText FPathObj txt) /\
  (Nat.ltb 3 (count_sub (String nl "ATOM ") txt) = true ->
     parse (InText FStr txt) = parse (InText FPath txt) /\ parse (InText FBytes txt) = parse (InText FPath txt)) /\
  (forall f, split_nl txt <> [] -> parse (InLines f (split_nl txt)) = parse (InText FPath txt)) /\
  (forall f, readlines txt <> [] -> parse (InLines f (readlines txt)) = parse (InText FPath txt)).
Proof. exact forms_agree. Qed.
Print Assumptions C01_forms_agree.

Theorem C01_rejects_long_record : forall nm l, (80 < length l)%nat -> parse_record nm l = Err "ValueError".
Proof. exact long_record_rejected. Qed.
Theorem C01_rejects_bad_field : forall l f e,
  printableb l = true -> In f wwpdb_cols -> spec_field l f = Err e -> exists e', parse_record 0 l = Err e'.
Proof. exact bad_field_rejected. Qed.
Theorem C01_blank_chain_and_segid_is_error : forall l,
  trim (columns 22 22 l) = "" -> trim (columns 73 76 l) = "" ->
  spec_field l ("chainID", (22, 22)%nat, TText) = Err "ValueError".
Proof. exact blank_chain_and_segid. Qed.
Print Assumptions C01_rejects_bad_field.

(* non-vacuity: a record with 5-digit serial, non-blank altLoc and iCode, 4-digit resSeq, a
   one-letter name left-aligned in column 13, blank occupancy, B-factor, chain (segID given) and
   element meets the hypotheses and is parsed to the expected row *)
Example C01_wide_record :
  let l := "ATOM  12345 H   BMET  1234C   -999.999 999.9991234.567                  SEGX" in
  printableb l = true /\
  parse_record 0 l = Ok [VInt 12345; VText "H"; VText "B"; VText "MET"; VText "SEGX"; VInt 1234; VText "C";
                         VReal (b64 (-999999 # 1000)); VReal (b64 (999999 # 1000)); VReal (b64 (1234567 # 1000));
                         VReal 1; VReal 10; VText "H"; VInt 0].
Proof. vm_compute. split; reflexivity. Qed.
Example C01_rejections :
  parse_record 0 "ATOM      1  N   MET A   1      27.340  24.430   2.614  1.00  9.67           N    X" = Err "ValueError" /\
  parse_record 0 "ATOM      1  N   MET A   1      27.3a0  24.430   2.614  1.00  9.67           N  " = Err "ValueError" /\
  parse_record 0 "ATOM      1  N   MET     1      27.340  24.430   2.614  1.00  9.67           N  " = Err "ValueError".
Proof. vm_compute. repeat split. Qed.
