(* C14 — Contact residues and residue extension are exact projections of the contact atoms.
   Only statements, each closed by [exact], followed by Print Assumptions.

   [get_contact_residues], [get_contact_residue_pairs] (the two return modes of
   interface.get_contact_residues) and [get_contact_atoms ... extend=true] are the literal models
   (Model_contact.v); [project_dict], [project_pairs], [pair_projects], [closure_dict], [in_closure] are the
   specification (Spec_contact.v).  All statements are for every distance test [close], every cutoff,
   every option combination, unbounded tables; residues are identified by the full triple
   (chain, number, name), so residues sharing a number but differing in name or chain stay apart, and
   numbers are arbitrary integers (negative included). *)
From Coq Require Import Permutation.
From Verif Require Import PyLib Model_contact Spec_contact Proofs_contact_lists Proofs_contact_spec
  Proofs_contact_c05 Proofs_contact_c14.
Open Scope Z_scope.
Open Scope list_scope.

(* The contact residues of each chain are the distinct (chain, number, name) triples of that chain's
   contact atoms — whatever get_contact_atoms returned for the same call, errors included. *)
Theorem C14_residues_are_projection : forall close only_bb exclH s allchains c1 c2,
  get_contact_residues close only_bb exclH s allchains c1 c2 =
  match get_contact_atoms close only_bb exclH s allchains c1 c2 false with
  | Ok r => Ok (project_dict s (fst r))
  | Err e => Err e
  end.
Proof. exact residues_are_projection. Qed.
Print Assumptions C14_residues_are_projection.

Theorem C14_projection_meaning : forall s L r,
  (In r (project_atoms s L) <-> exists a, In a s /\ In (idx a) L /\ res3_of a = r) /\ NoDup (project_atoms s L).
Proof. intros s L r. split; [exact (project_atoms_In s L r) | exact (project_atoms_NoDup s L)]. Qed.
Print Assumptions C14_projection_meaning.

(* The residue pair map is the projection of the atom pair map: rB is listed under rA exactly when some
   listed atom pair (i, j) has i in rA and j in rB; one entry per owning residue, no duplicates. *)
Theorem C14_pair_projection : forall close only_bb exclH s allchains c1 c2 ic pm,
  wf s -> get_contact_atoms close only_bb exclH s allchains c1 c2 false = Ok (ic, pm) ->
  exists rp, get_contact_residue_pairs close only_bb exclH s allchains c1 c2 = Ok rp /\
    NoDup (map fst rp) /\
    (forall rA l, In (rA, l) rp -> NoDup l) /\
    (forall rA rB, In rB (dlook res3_eqb rA rp) <-> pair_projects s pm rA rB) /\
    (forall rA, In rA (map fst rp) <-> exists i l a, In (i, l) pm /\ In a s /\ idx a = i /\ res3_of a = rA).
Proof. exact pair_projection. Qed.
Print Assumptions C14_pair_projection.

(* ... and the executable specification used by the correspondence check has the same reading *)
Theorem C14_pair_projection_spec : forall s pm,
  NoDup (map fst (project_pairs s pm)) /\
  (forall rA rB, In rB (dlook res3_eqb rA (project_pairs s pm)) <-> pair_projects s pm rA rB) /\
  (forall rA, In rA (map fst (project_pairs s pm)) <-> exists i l a, In (i, l) pm /\ In a s /\ idx a = i /\ res3_of a = rA).
Proof. exact project_pairs_meaning. Qed.
Print Assumptions C14_pair_projection_spec.

(* Extension to whole residues returns exactly all atoms (all backbone atoms under only_backbone) of every
   residue owning at least one contact atom: nothing missing, nothing foreign. *)
Theorem C14_extension_is_closure : forall close only_bb exclH s (allchains : bool) c1 c2,
  let cs := if allchains then get_chains s else [c1; c2] in
  symmetric close -> wf s -> NoDup cs -> (2 <= List.length cs)%nat -> (forall c, In c cs -> present s c) ->
  exists ic pm,
    get_contact_atoms close only_bb exclH s allchains c1 c2 false = Ok (ic, pm) /\
    get_contact_atoms close only_bb exclH s allchains c1 c2 true = Ok (closure_dict s only_bb ic, pm).
Proof. exact extension_is_closure. Qed.
Print Assumptions C14_extension_is_closure.

Theorem C14_extension_function : forall only_bb s L, wf s -> extend_to_residue only_bb s L = closure s only_bb L.
Proof. exact extend_is_closure. Qed.
Print Assumptions C14_extension_function.

Theorem C14_closure_meaning : forall s only_bb L i,
  In i (closure s only_bb L) <-> exists a, idx a = i /\ in_closure s only_bb L a.
Proof. exact closure_meaning. Qed.
Print Assumptions C14_closure_meaning.

(* non-vacuity: two residues numbered 1 in chain A that differ in name, a negative number, backbone restriction *)
Definition ex14 : structure :=
  [ mkAtom 0 "A" "ALA" 1 "CA" 0 0 0;  mkAtom 1 "A" "ALA" 1 "CB" 1 0 0;  mkAtom 2 "A" "GLY" 1 "N" 0 20 0;
    mkAtom 3 "B" "SER" (-5) "O" 3 0 0; mkAtom 4 "B" "SER" (-5) "HG" 3 (5 # 2) 0; mkAtom 5 "B" "ALA" 1 "CA" 50 0 0 ].
Example C14_example :
  get_contact_atoms (closeQ 3) false false ex14 false "A" "B" false = Ok ([("A", [0; 1]); ("B", [3])], [(0, [3]); (1, [3])]) /\
  get_contact_residues (closeQ 3) false false ex14 false "A" "B" = Ok ([("A", [("A", 1, "ALA")]); ("B", [("B", -5, "SER")])]) /\
  get_contact_residue_pairs (closeQ 3) false false ex14 false "A" "B" = Ok [(("A", 1, "ALA"), [("B", -5, "SER")])] /\
  get_contact_atoms (closeQ 3) false false ex14 false "A" "B" true = Ok ([("A", [0; 1]); ("B", [3; 4])], [(0, [3]); (1, [3])]) /\
  get_contact_atoms (closeQ 3) true false ex14 false "A" "B" true = Ok ([("A", [0]); ("B", [3])], [(0, [3])]).
Proof. vm_compute. repeat split. Qed.
