(* C04 — Update: exactly the addressed cells change, to exactly the supplied values.
   Statements only; proofs in Proofs_sql_upd*.v / Proofs_sql_hist.v.

   [spec_step] (Spec_sql.v) is the list-of-records machine: a successful update writes the i-th
   value row into the requested columns of the i-th selected record (positions from the
   row-by-row selection), every other record is returned as it was; update_column writes the last
   value addressed to a position; add_column appends one cell to every record.  [model_step] is
   the model of the library (validation, shape checks, inner get('rowID'), executemany of
   UPDATE ... WHERE rowID=?).  The state of both is the same type (a list of named tables), so the
   abstraction function is the identity.  [op_side] collects the side conditions of C03 for the
   selection of the operation (Proofs_sql_hist.v).                                                  *)
From Verif Require Import PyLib ModelTypes Generated_parse Model_sqlval Model_sql Spec_sql
  Proofs_sql_base Proofs_sql_get Proofs_sql_upd Proofs_sql_upd2 Proofs_sql_upd3 Proofs_sql_hist Proofs_sql_examples
  Generated_sql Proofs_sql_src.
Open Scope string_scope.

(* one operation: whenever the specification accepts it, the model ends in exactly the specified state *)
Theorem C04_step_refines : forall d o d',
  op_side d o -> spec_step d o = (d', None) -> model_step d o = (d', None).
Proof. exact step_refines. Qed.
Print Assumptions C04_step_refines.

Theorem C04_update_refines : forall d columns values tn kw d' t,
  find_table tn (tables d) = Some t -> wf_table t = true -> same_colnames d t = true ->
  keys_plain kw = true -> short_lists kw = true ->
  spec_update d columns values tn kw = (d', None) -> update_top d columns values tn kw = (d', None).
Proof. exact update_refines. Qed.
Print Assumptions C04_update_refines.

Theorem C04_update_xyz_refines : forall d xyz tn kw d' t,
  find_table tn (tables d) = Some t -> wf_table t = true -> same_colnames d t = true ->
  keys_plain kw = true -> short_lists kw = true ->
  spec_update_xyz d xyz tn kw = (d', None) -> update_xyz_top d xyz tn kw = (d', None).
Proof. exact update_xyz_refines. Qed.
Print Assumptions C04_update_xyz_refines.

Theorem C04_update_column_refines : forall d colname values index tn d' t,
  find_table tn (tables d) = Some t -> wf_table t = true ->
  spec_update_column d colname values index tn = (d', None) ->
  update_column_model d colname values index tn = (d', None).
Proof. exact update_column_refines. Qed.
Print Assumptions C04_update_column_refines.

Theorem C04_add_column_refines : forall d colname coltype value tn d',
  spec_add_column d colname coltype value tn = (d', None) ->
  add_column_model d colname coltype value tn = (d', None).
Proof. exact add_column_refines. Qed.
Print Assumptions C04_add_column_refines.

Example C04_step_refines_nonvacuous :
  let kw := [("chainID", CScalar (PStr "B")); ("no_name", CList [PStr "N"])] in
  let o := OpUpdate "x,resSeq" [URow [PFloat (9 # 4); PStr "12"]] "atom" kw in
  (exists t, find_table "atom" (tables ex_db) = Some t /\ wf_table t = true /\ same_colnames ex_db t = true /\
             keys_plain kw = true /\ short_lists kw = true) /\
  snd (spec_step ex_db o) = None /\ model_step ex_db o = spec_step ex_db o /\
  get_top (fst (model_step ex_db o)) "x,resSeq" "atom" [] =
    Ok [PL [PV (VReal 1); PV (VInt 1)]; PL [PV (VReal (3 # 2)); PV (VInt 1)];
        PL [PV (VReal 0); PV (VInt 2)]; PL [PV (VReal (9 # 4)); PV (VInt 12)]].
Proof. split; [exists ex_table; vm_compute; repeat split|vm_compute; repeat split]. Qed.

Example C04_update_column_nonvacuous :
  let o := OpUpdateColumn "temp" [PFloat (1 # 2); PInt 3; PFloat (5 # 2)] (Some [PInt 3; PInt 9; PInt 3]) "ATOM" in
  snd (spec_step ex_db o) = None /\ model_step ex_db o = spec_step ex_db o /\
  get_top (fst (model_step ex_db o)) "temp" "ATOM" [] = Ok [PV (VReal 10); PV (VReal 10); PV (VReal 10); PV (VReal (5 # 2))].
Proof. vm_compute. repeat split. Qed.

(* frame: a successful update keeps the number and order of the rows, every row outside the
   selection, every column outside the attribute list, and the width of every row *)
Theorem C04_update_frame : forall d columns values tn kw d',
  op_side d (OpUpdate columns values tn kw) ->
  spec_update d columns values tn kw = (d', None) ->
  update_top d columns values tn kw = (d', None) /\
  exists cis ps,
    spec_positions d tn kw = Ok ps /\
    List.length (table_rows d' tn) = List.length (table_rows d tn) /\
    (forall q, (q < List.length (table_rows d tn))%nat -> ~ In q ps ->
               nth q (table_rows d' tn) [] = nth q (table_rows d tn) []) /\
    (forall q c, (q < List.length (table_rows d tn))%nat -> ~ In c cis ->
                 nth c (nth q (table_rows d' tn) []) VNull = nth c (nth q (table_rows d tn) []) VNull) /\
    (forall q, (q < List.length (table_rows d tn))%nat ->
               List.length (nth q (table_rows d' tn) []) = List.length (nth q (table_rows d tn) [])).
Proof. exact update_frame. Qed.
Print Assumptions C04_update_frame.

(* a mismatch between the shape of the values and the selection / attribute list is an error
   raised before anything is written — outside finding F19 (ragged value lists) *)
Theorem C04_shape_error_is_atomic : forall d columns values tn kw d1,
  sel_side d tn kw ->
  spec_update d columns values tn kw = (d1, Some "ShapeError") ->
  ragged (List.length (split_comma columns)) values = false ->
  d1 = d /\ exists e, update_top d columns values tn kw = (d, Some e).
Proof. exact shape_error_is_atomic. Qed.
Print Assumptions C04_shape_error_is_atomic.

Example C04_shape_error_nonvacuous :
  snd (spec_update ex_db "x,y" [URow [PInt 1; PInt 2]] "ATOM" []) = Some "ShapeError" /\
  update_top ex_db "x,y" [URow [PInt 1; PInt 2]] "ATOM" [] = (ex_db, Some "ValueError") /\
  snd (spec_update ex_db "x,y" [URow [PInt 1]; URow [PInt 1]; URow [PInt 1]; URow [PInt 1]] "ATOM" []) = Some "ShapeError" /\
  update_top ex_db "x,y" [URow [PInt 1]; URow [PInt 1]; URow [PInt 1]; URow [PInt 1]] "ATOM" [] = (ex_db, Some "ValueError") /\
  update_top ex_db "x" [UScalar (PInt 1); UScalar (PInt 1); UScalar (PInt 1); UScalar (PInt 1)] "ATOM" [] = (ex_db, Some "TypeError").
Proof. vm_compute. repeat split. Qed.

(* finding F19: with a ragged list the error comes after the earlier rows were written *)
Theorem C04_ragged_refuted :
  let v := [URow [PInt 7; PInt 8]; URow [PInt 9]; URow [PInt 1; PInt 2]; URow [PInt 1; PInt 2]] in
  ragged 2 v = true /\
  spec_update ex_db "x,y" v "ATOM" [] = (ex_db, Some "ShapeError") /\
  snd (update_top ex_db "x,y" v "ATOM" []) = Some "sqlite3.Error" /\
  fst (update_top ex_db "x,y" v "ATOM" []) <> ex_db.
Proof. vm_compute. repeat split. discriminate. Qed.

(* histories: every reachable state of the model is the state of the list-of-records machine *)
Theorem C04_history_refines : forall d ops, hist_ok d ops -> model_history d ops = spec_history d ops.
Proof. exact history_refines. Qed.
Print Assumptions C04_history_refines.

Example C04_history_nonvacuous :
  let ops := [OpAddColumn "w" "FLOAT" (PInt 0) "ATOM";
              OpUpdate "w,name" [URow [PFloat (1 # 4); PStr "XX"]; URow [PInt 2; PInt 5]] "ATOM" [("resName", CScalar (PStr "ALA"))];
              OpUpdate "x" [URow [PInt 1]] "ATOM" [];
              OpUpdateColumn "resSeq" [PStr "7"; PStr "abc"] None "ATOM"] in
  hist_ok ex_db ops /\ model_history ex_db ops = spec_history ex_db ops /\
  get_top (model_history ex_db ops) "rowID,name,resSeq,w" "ATOM" [] =
    Ok [PL [PV (VInt 0); PV (VText "XX"); PV (VInt 7); PV (VReal (1 # 4))];
        PL [PV (VInt 1); PV (VText "5"); PV (VText "abc"); PV (VReal 2)];
        PL [PV (VInt 2); PV (VText "N"); PV (VInt 2); PV (VReal 0)];
        PL [PV (VInt 3); PV (VText "CA"); PV (VInt 2); PV (VReal 0)]].
Proof.
  split; [|vm_compute; repeat split].
  set (d1 := fst (spec_step ex_db (OpAddColumn "w" "FLOAT" (PInt 0) "ATOM"))).
  assert (E1 : d1 = mkDb [("ATOM", mkTable (tcols ex_table ++ [("w", "FLOAT")])%list (map (fun r => r ++ [VReal 0])%list (trows ex_table)))] 0)
    by (vm_compute; reflexivity).
  apply hist_step; [exact I|vm_compute; reflexivity|]. fold d1. rewrite E1. clear d1 E1.
  match goal with |- hist_ok ?d _ => set (d1 := d) end.
  assert (S1 : sel_side d1 "ATOM" [("resName", CScalar (PStr "ALA"))])
    by (eexists; split; [vm_compute; reflexivity|vm_compute; repeat split]).
  apply hist_step; [exact S1|vm_compute; reflexivity|].
  match goal with |- hist_ok ?d _ => let v := eval vm_compute in d in change d with v end.
  match goal with |- hist_ok ?d _ => set (d2 := d) end.
  assert (S2 : sel_side d2 "ATOM" []) by (eexists; split; [vm_compute; reflexivity|vm_compute; repeat split]).
  apply hist_shape_error; [exact S2|vm_compute; reflexivity|vm_compute; reflexivity|].
  apply hist_step; [eexists; split; vm_compute; reflexivity|vm_compute; reflexivity|].
  apply hist_nil.
Qed.

(* the model is built from the values read from the source on this run (regions sql_update_consts, sql_views) *)
Theorem C04_built_from_source :
  update_shift_src = rowid_in_shift_src /\ update_column_shift_src = rowid_in_shift_src /\
  rowid_in_shift_src = rowid_out_shift_src /\
  (forall v, index_val (PInt v) = Ok (v + update_column_shift_src)) /\
  (forall d v tn kw, update_xyz_top d v tn kw = update_top d update_xyz_columns_src v tn kw) /\
  update_where_src = " WHERE rowID=?" /\ update_column_query_src = "UPDATE {tablename} SET {cn}=? WHERE rowID=?" /\
  add_column_query_src = "ALTER TABLE %s ADD COLUMN '%s' %s DEFAULT %s".
Proof.
  destruct update_built_from_source as (A & B & C & _ & D & _ & E & F & _).
  destruct views_built_from_source as (_ & _ & G & _).
  destruct get_built_from_source as (_ & _ & _ & _ & H & _).
  repeat split; assumption.
Qed.
Print Assumptions C04_built_from_source.

(* values read back equal in value whatever carried them: the store conversion (SQLite affinity)
   keeps numbers and text, and the model receives Python numbers from every carrier (after F1) *)
Example C04_readback_value :
  store_val AReal (PInt 5) = Ok (VReal 5) /\ store_val AInt (PFloat (10 # 2)) = Ok (VInt 5) /\
  store_val AInt (PStr " 7 ") = Ok (VInt 7) /\ store_val AText (PInt 12) = Ok (VText "12") /\
  store_val AReal (PStr "abc") = Ok (VText "abc") /\ store_val ANumeric (PFloat (5 # 2)) = Ok (VReal (5 # 2)) /\
  val_sql_eq (VReal 5) (VInt 5) = true.
Proof. vm_compute. repeat split. Qed.
