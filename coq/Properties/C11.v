(* C11 — scores are invariant under changes that do not alter the structural relation.
   Model-level theorems about Model_contact (C05/C14/C08 models) under rigid motions and ignored
   fields; the RMSD measures, renumbering, hydrogens and permutations are decided by the
   metamorphic correspondence (every variant scored by the real routines). *)
From Verif Require Import PyLib ModelTypes Model_contact Spec_contact Model_superpose Spec_superpose
  Proofs_superpose Proofs_invariance Proofs_rigid_rmsd.
Open Scope Q_scope.

(* every rigid motion (orthogonal matrix, any translation) preserves all squared distances ... *)
Theorem C11_rigid_motion_distances : forall m t a b, orthogonal m -> sqdist (move m t a) (move m t b) == sqdist a b.
Proof. exact sqdist_rigid. Qed.
Print Assumptions C11_rigid_motion_distances.

(* ... hence every contact decision, at every cutoff ... *)
Theorem C11_rigid_motion_contact_test : forall c m t a b, orthogonal m -> closeQ c (move m t a) (move m t b) = closeQ c a b.
Proof. exact closeQ_rigid. Qed.

(* ... hence contact atoms, pair maps, residue extension (the i-RMSD zone), residue pairs ... *)
Theorem C11_rigid_motion_contacts : forall m t, orthogonal m -> forall c only_bb exclH s allchains c1 c2 ext,
  get_contact_atoms (closeQ c) only_bb exclH (map (move m t) s) allchains c1 c2 ext
  = get_contact_atoms (closeQ c) only_bb exclH s allchains c1 c2 ext.
Proof. exact contacts_rigid. Qed.
Print Assumptions C11_rigid_motion_contacts.

Theorem C11_rigid_motion_residue_pairs : forall m t, orthogonal m -> forall c only_bb exclH s allchains c1 c2,
  get_contact_residue_pairs (closeQ c) only_bb exclH (map (move m t) s) allchains c1 c2
  = get_contact_residue_pairs (closeQ c) only_bb exclH s allchains c1 c2.
Proof. exact residue_pairs_rigid. Qed.

(* ... the clash count, and Fnat even when decoy and reference move independently *)
Theorem C11_rigid_motion_clashes : forall m t, orthogonal m -> forall s c1 c2,
  compute_clashes (map (move m t) s) c1 c2 = compute_clashes s c1 c2.
Proof. exact clashes_rigid. Qed.
Theorem C11_rigid_motion_fnat : forall c m t m' t' decoy ref, orthogonal m -> orthogonal m' ->
  compute_fnat_pdb2sql c (map (move m t) decoy) (map (move m' t') ref) = compute_fnat_pdb2sql c decoy ref.
Proof. exact fnat_sql_rigid. Qed.
Print Assumptions C11_rigid_motion_fnat.

(* generally: ANY transformation keeping the identity fields and the contact decisions leaves the
   contact computation unchanged (used above with rigid motions) *)
Theorem C11_contacts_depend_on_identity_and_distances_only :
  forall (close close' : atom -> atom -> bool) (f : atom -> atom) only_bb exclH,
  (forall a, idx (f a) = idx a) -> (forall a, chain (f a) = chain a) -> (forall a, resName (f a) = resName a) ->
  (forall a, resSeq (f a) = resSeq a) -> (forall a, name (f a) = name a) ->
  (forall a b, close' (f a) (f b) = close a b) ->
  forall s allchains c1 c2 ext,
  get_contact_atoms close' only_bb exclH (map f s) allchains c1 c2 ext = get_contact_atoms close only_bb exclH s allchains c1 c2 ext.
Proof. exact get_contact_atoms_congruence. Qed.
Print Assumptions C11_contacts_depend_on_identity_and_distances_only.

(* serial number, altLoc, iCode, occupancy, B-factor, element and model are never read by the scores *)
Theorem C11_ignored_fields : forall i r k v, In k [0; 2; 6; 10; 11; 12; 13]%nat ->
  atom_of_row i (set_cell r k v) = atom_of_row i r.
Proof. exact ignored_fields. Qed.
Print Assumptions C11_ignored_fields.

(* the RMSD measures: for a rigidly displaced copy M·P+t of the fitted atoms, every candidate rotation R of the
   original corresponds to the candidate R·M^T (again orthogonal) of the copy with exactly the same residual
   against the reference: the sets of attainable residuals — hence the minimum the kernel finds (C06), hence
   i-RMSD and L-RMSD — are the same *)
Theorem C11_rigid_motion_rmsd : forall m t r P Qs, orthogonal m -> P <> [] ->
  resid (map (mv (mmul r (mT m))) (centred (map (affine m t) P))) (centred Qs)
  == resid (map (mv r) (centred P)) (centred Qs).
Proof. exact residuals_of_displaced_copy. Qed.
Print Assumptions C11_rigid_motion_rmsd.
Theorem C11_rotation_candidates_correspond : forall a b, orthogonal a -> orthogonal b -> orthogonal (mmul a b).
Proof. exact orthogonal_mmul. Qed.
Print Assumptions C11_rotation_candidates_correspond.

(* PARTIAL: renumbering, added hydrogens and record permutations are decided by
   the metamorphic correspondence, not by theorems. Permutation + fast route + no enforcement: known finding F6. *)
Example C11_example :
  let m : mat := ((0, -1, 0), (1, 0, 0), (0, 0, 1)) in
  orthogonal m /\
  move m (1, 2, 3) (mkAtom 0 "A" "ALA" 1 "CA" 1 0 0) = mkAtom 0 "A" "ALA" 1 "CA" 1 3 3.
Proof. split; [cbn; repeat split; reflexivity | vm_compute; reflexivity]. Qed.
