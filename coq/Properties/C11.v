(* C11 — scores are invariant under changes that do not alter the structural relation.
   Model-level theorems about Model_contact (C05/C14/C08 models) under rigid motions and ignored
   fields; the RMSD measures, renumbering, hydrogens and permutations are decided by the
   metamorphic correspondence (every variant scored by the real routines). *)
From Verif Require Import PyLib ModelTypes Model_contact Spec_contact Model_superpose Spec_superpose
  Proofs_superpose Proofs_invariance Proofs_rigid_rmsd Proofs_renumber Proofs_hydrogens Proofs_relabel Model_zone Model_rmsd Proofs_renumber_rmsd Proofs_permute.
Open Scope Q_scope.

(* every rigid motion (orthogonal matrix, any translation) preserves all squared distances ... *)
Theorem C11_rigid_motion_distances : forall m t a b, orthogonal m -> sqdist (move m t a) (move m t b) == sqdist a b.
Proof. exact sqdist_rigid. Qed.
Print Assumptions C11_rigid_motion_distances.

(* ... hence every contact decision, at every cutoff ... *)
Theorem C11_rigid_motion_contact_test : forall c m t a b, orthogonal m -> closeQ c (move m t a) (move m t b) = closeQ c a b.
Proof. exact closeQ_rigid. Qed.

(* ... hence contact atoms, pair maps, residue extension (the i-RMSD zone), residue pairs ... *)
Theorem C11_rigid_motion_contacts : forall m t, orthogonal m -> forall c only_bb exclH s allchains c1 c2 ext,
  get_contact_atoms (closeQ c) only_bb exclH (map (move m t) s) allchains c1 c2 ext
  = get_contact_atoms (closeQ c) only_bb exclH s allchains c1 c2 ext.
Proof. exact contacts_rigid. Qed.
Print Assumptions C11_rigid_motion_contacts.

Theorem C11_rigid_motion_residue_pairs : forall m t, orthogonal m -> forall c only_bb exclH s allchains c1 c2,
  get_contact_residue_pairs (closeQ c) only_bb exclH (map (move m t) s) allchains c1 c2
  = get_contact_residue_pairs (closeQ c) only_bb exclH s allchains c1 c2.
Proof. exact residue_pairs_rigid. Qed.

(* ... the clash count, and Fnat even when decoy and reference move independently *)
Theorem C11_rigid_motion_clashes : forall m t, orthogonal m -> forall s c1 c2,
  compute_clashes (map (move m t) s) c1 c2 = compute_clashes s c1 c2.
Proof. exact clashes_rigid. Qed.
Theorem C11_rigid_motion_fnat : forall c m t m' t' decoy ref, orthogonal m -> orthogonal m' ->
  compute_fnat_pdb2sql c (map (move m t) decoy) (map (move m' t') ref) = compute_fnat_pdb2sql c decoy ref.
Proof. exact fnat_sql_rigid. Qed.
Print Assumptions C11_rigid_motion_fnat.

(* generally: ANY transformation keeping the identity fields and the contact decisions leaves the
   contact computation unchanged (used above with rigid motions) *)
Theorem C11_contacts_depend_on_identity_and_distances_only :
  forall (close close' : atom -> atom -> bool) (f : atom -> atom) only_bb exclH,
  (forall a, idx (f a) = idx a) -> (forall a, chain (f a) = chain a) -> (forall a, resName (f a) = resName a) ->
  (forall a, resSeq (f a) = resSeq a) -> (forall a, name (f a) = name a) ->
  (forall a b, close' (f a) (f b) = close a b) ->
  forall s allchains c1 c2 ext,
  get_contact_atoms close' only_bb exclH (map f s) allchains c1 c2 ext = get_contact_atoms close only_bb exclH s allchains c1 c2 ext.
Proof. exact get_contact_atoms_congruence. Qed.
Print Assumptions C11_contacts_depend_on_identity_and_distances_only.

(* serial number, altLoc, iCode, occupancy, B-factor, element and model are never read by the scores *)
Theorem C11_ignored_fields : forall i r k v, In k [0; 2; 6; 10; 11; 12; 13]%nat ->
  atom_of_row i (set_cell r k v) = atom_of_row i r.
Proof. exact ignored_fields. Qed.
Print Assumptions C11_ignored_fields.

(* the RMSD measures: for a rigidly displaced copy M·P+t of the fitted atoms, every candidate rotation R of the
   original corresponds to the candidate R·M^T (again orthogonal) of the copy with exactly the same residual
   against the reference: the sets of attainable residuals — hence the minimum the kernel finds (C06), hence
   i-RMSD and L-RMSD — are the same *)
Theorem C11_rigid_motion_rmsd : forall m t r P Qs, orthogonal m -> P <> [] ->
  resid (map (mv (mmul r (mT m))) (centred (map (affine m t) P))) (centred Qs)
  == resid (map (mv r) (centred P)) (centred Qs).
Proof. exact residuals_of_displaced_copy. Qed.
Print Assumptions C11_rigid_motion_rmsd.
Theorem C11_rotation_candidates_correspond : forall a b, orthogonal a -> orthogonal b -> orthogonal (mmul a b).
Proof. exact orthogonal_mmul. Qed.
Print Assumptions C11_rotation_candidates_correspond.

(* renumbering: adding the same constant to all residue numbers (any strictly increasing renumbering) leaves the contact
   atoms, the pair map and the residue extension unchanged (they are lists of atom positions), maps the residue pairs
   key by key, leaves the clash count unchanged and — applied to decoy and reference alike — leaves Fnat unchanged *)
Theorem C11_renumbering_contacts : forall k c bb eh s allchains c1 c2 ext,
  get_contact_atoms (closeQ c) bb eh (map (renum (fun n => n + k)%Z) s) allchains c1 c2 ext
  = get_contact_atoms (closeQ c) bb eh s allchains c1 c2 ext.
Proof. exact contact_atoms_shifted. Qed.
Theorem C11_renumbering_residue_pairs : forall g, (forall x y, (x < y)%Z -> (g x < g y)%Z) -> forall c bb eh s c1 c2,
  get_contact_residue_pairs (closeQ c) bb eh (map (renum g) s) false c1 c2
  = map_res (mapd g) (get_contact_residue_pairs (closeQ c) bb eh s false c1 c2).
Proof. exact pairs_renum. Qed.
Theorem C11_renumbering_clashes : forall k s c1 c2,
  compute_clashes (map (renum (fun n => n + k)%Z) s) c1 c2 = compute_clashes s c1 c2.
Proof. exact clashes_shifted. Qed.
Theorem C11_renumbering_fnat : forall k c decoy ref,
  compute_fnat_pdb2sql c (map (renum (fun n => n + k)%Z) decoy) (map (renum (fun n => n + k)%Z) ref) = compute_fnat_pdb2sql c decoy ref.
Proof. exact fnat_shifted. Qed.
Print Assumptions C11_renumbering_fnat.

(* hydrogens: with hydrogens excluded (the setting of the clash count and of Fnat) the contact atoms, the pair map, the
   residue pairs, the clash count and Fnat of a structure are those of the structure without its hydrogen atoms
   (atoms whose name begins with H) — as long as every chain keeps a heavy atom and atom positions are labelled uniquely *)
Theorem C11_hydrogens_contacts : forall close only_bb s allchains c1 c2,
  get_chains (strip_H s) = get_chains s ->
  get_contact_atoms close only_bb true (strip_H s) allchains c1 c2 false
  = get_contact_atoms close only_bb true s allchains c1 c2 false.
Proof. exact contact_atoms_ignore_hydrogens. Qed.
Theorem C11_hydrogens_clashes : forall s c1 c2, get_chains (strip_H s) = get_chains s ->
  compute_clashes (strip_H s) c1 c2 = compute_clashes s c1 c2.
Proof. exact clashes_ignore_hydrogens. Qed.
Theorem C11_hydrogens_fnat : forall c decoy ref,
  chains_keep_heavy decoy -> chains_keep_heavy ref -> NoDup (map idx decoy) -> NoDup (map idx ref) ->
  compute_fnat_pdb2sql c (strip_H decoy) (strip_H ref) = compute_fnat_pdb2sql c decoy ref.
Proof. exact fnat_ignores_hydrogens. Qed.
Print Assumptions C11_hydrogens_fnat.

(* the position labels (row numbers) are immaterial: relabelling by any strictly increasing map leaves residue pairs,
   clash count and Fnat unchanged — so ADDING HYDROGEN RECORDS ANYWHERE in the files (the heavy atoms keep their order,
   their row numbers shift) changes neither the clash count nor Fnat *)
Theorem C11_row_labels_immaterial_fnat : forall g g' c decoy ref,
  (forall x y, (x < y)%Z -> (g x < g y)%Z) -> (forall x y, (x < y)%Z -> (g' x < g' y)%Z) ->
  compute_fnat_pdb2sql c (map (relabel g) decoy) (map (relabel g') ref) = compute_fnat_pdb2sql c decoy ref.
Proof. exact fnat_relabelled. Qed.
Theorem C11_added_hydrogens_clashes : forall g s sH c1 c2,
  (forall x y, (x < y)%Z -> (g x < g y)%Z) -> strip_H sH = map (relabel g) s -> get_chains (strip_H sH) = get_chains sH ->
  compute_clashes sH c1 c2 = compute_clashes s c1 c2.
Proof. exact clashes_with_added_hydrogens. Qed.
Theorem C11_added_hydrogens_fnat : forall g g' c decoy ref decoyH refH,
  (forall x y, (x < y)%Z -> (g x < g y)%Z) -> (forall x y, (x < y)%Z -> (g' x < g' y)%Z) ->
  strip_H decoyH = map (relabel g) decoy -> strip_H refH = map (relabel g') ref ->
  chains_keep_heavy decoyH -> chains_keep_heavy refH -> NoDup (map idx decoyH) -> NoDup (map idx refH) ->
  compute_fnat_pdb2sql c decoyH refH = compute_fnat_pdb2sql c decoy ref.
Proof. exact fnat_with_added_hydrogens. Qed.
Print Assumptions C11_added_hydrogens_fnat.

(* renumbering and the i-RMSD: the interface zone of the renumbered reference is the old zone with its numbers shifted, and
   the fast i-RMSD computed with it (for the same rotation — the kernel is handed the very same coordinate lists) is the
   same value *)
Theorem C11_renumbering_izone : forall g, (forall x y, (x < y)%Z -> (g x < g y)%Z) -> forall c ref,
  compute_izone c (map (renum g) ref) = map_res (map (gz g)) (compute_izone c ref).
Proof. exact compute_izone_renumbered. Qed.
Theorem C11_renumbering_irmsd : forall k rmat c check enforce decoy ref,
  (do z <- compute_izone c (map (renum (fun n => n + k)%Z) ref);
   irmsd_fast rmat z check enforce (map (renum (fun n => n + k)%Z) decoy) (map (renum (fun n => n + k)%Z) ref))
  = (do z <- compute_izone c ref; irmsd_fast rmat z check enforce decoy ref).
Proof. exact irmsd_pipeline_shifted. Qed.
Print Assumptions C11_renumbering_irmsd.
Theorem C11_renumbering_lrmsd : forall g, (forall x y, (x < y)%Z -> (g x < g y)%Z) -> forall rmat check enforce names decoy ref,
  (do z <- compute_lzone (map (renum g) ref); lrmsd_fast rmat z check enforce names (map (renum g) decoy) (map (renum g) ref))
  = (do z <- compute_lzone ref; lrmsd_fast rmat z check enforce names decoy ref).
Proof. exact lrmsd_pipeline_renumbered. Qed.

(* reordering the ATOM records of the decoy (any permutation, identities unique) does not change the SQL i-RMSD at all: the
   routine walks the reference rows and finds each partner by identity *)
Theorem C11_permuted_decoy_irmsd_sql : forall rmat rows decoy decoy' ref,
  Permutation.Permutation decoy decoy' -> NoDup (map key4_of decoy) ->
  irmsd_sql rmat rows decoy' ref = irmsd_sql rmat rows decoy ref.
Proof. exact irmsd_sql_decoy_order_irrelevant. Qed.
Print Assumptions C11_permuted_decoy_irmsd_sql.

(* PARTIAL: the SQL RMSD routes under renumbering, the RMSD values under added hydrogens, and record permutations for the other
   measures (fast routes: "same value or an explicit error"; Fnat; L-RMSD) are decided by the metamorphic correspondence, not
   by theorems. Permutation + fast route + no enforcement: known finding F6. *)
Example C11_example :
  let m : mat := ((0, -1, 0), (1, 0, 0), (0, 0, 1)) in
  orthogonal m /\
  move m (1, 2, 3) (mkAtom 0 "A" "ALA" 1 "CA" 1 0 0) = mkAtom 0 "A" "ALA" 1 "CA" 1 3 3.
Proof. split; [cbn; repeat split; reflexivity | vm_compute; reflexivity]. Qed.
