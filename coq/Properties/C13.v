(* C13 — superpose(): one rigid motion of the whole structure, optimal on the selection.
   Model: Model_superpose (hand-written mirror of superpose.py; the rotation kernel is an oracle
   argument whose optimality is property C06). *)
From Verif Require Import PyLib ModelTypes Model_many Model_store Model_superpose Spec_superpose Proofs_superpose Proofs_rigid_rmsd Proofs_superpose_opt.
Open Scope Q_scope.

(* every atom of the mobile structure undergoes the same map x |-> R x + t *)
Theorem C13_single_rigid_motion : forall rmat pm pt xyz,
  let t := vsub (mean pt) (mv rmat (mean pm)) in
  Forall2 veq (superpose_selection rmat pm pt xyz) (map (fun x => vadd (mv rmat x) t) xyz).
Proof. exact superpose_is_one_affine_map. Qed.
Print Assumptions C13_single_rigid_motion.

(* with an orthogonal R that map preserves every distance within the moved structure *)
Theorem C13_rigid : forall rmat pm pt a b, orthogonal rmat ->
  let f := fun x => vadd (mv rmat (vsub x (mean pm))) (mean pt) in
  norm2 (vsub (f a) (f b)) == norm2 (vsub a b).
Proof. exact superpose_preserves_distances. Qed.
Print Assumptions C13_rigid.

(* the deviation left on the paired atoms IS the rotation kernel's residual on the centred
   selections: the motion is optimal on them exactly when the kernel's rotation is (C06) *)
Theorem C13_residual_is_kernel_residual : forall rmat pm pt,
  resid (superpose_selection rmat pm pt pm) pt == resid (map (mv rmat) (centred pm)) (centred pt).
Proof. exact resid_after_superposition. Qed.
Print Assumptions C13_residual_is_kernel_residual.

(* centroid decomposition: the residual of ANY affine map x |-> r x + t on the paired atoms is the rotation's
   residual on the centred sets plus n |r cP + t - cQ|^2 ... *)
Theorem C13_residual_decomposition : forall r t P Qs, P <> [] -> List.length P = List.length Qs ->
  resid (map (affine r t) P) Qs
  == resid (map (mv r) (centred P)) (centred Qs)
     + inject_Z (Z.of_nat (List.length P)) * norm2 (vsub (affine r t (mean P)) (mean Qs)).
Proof. exact residual_decomposition. Qed.
Print Assumptions C13_residual_decomposition.

(* ... hence superpose's motion is optimal among ALL rigid motions (any rotation r', any translation t') on the
   paired atoms exactly under the hypothesis that the kernel's rotation is optimal among rotations on the
   centred sets, which is what C06 states about the kernel *)
Theorem C13_optimal_over_rigid_motions : forall rmat P Qs, P <> [] -> List.length P = List.length Qs ->
  (forall r', orthogonal r' ->
     resid (map (mv rmat) (centred P)) (centred Qs) <= resid (map (mv r') (centred P)) (centred Qs)) ->
  forall r' t', orthogonal r' ->
    resid (superpose_selection rmat P Qs P) Qs <= resid (map (affine r' t') P) Qs.
Proof. exact superpose_optimal_over_rigid_motions. Qed.
Print Assumptions C13_optimal_over_rigid_motions.

(* only the mobile structure's coordinates change: count, order and every other attribute stay *)
Theorem C13_only_coordinates_change : forall rmat mobile sm st new,
  superpose rmat mobile sm st = Ok new ->
  List.length new = List.length mobile /\
  forall k i, i <> 7%nat -> i <> 8%nat -> i <> 9%nat ->
    nth i (nth k new []) VNull = nth i (nth k mobile []) VNull.
Proof. exact superpose_frame. Qed.
Print Assumptions C13_only_coordinates_change.

(* atoms are paired by identity (on the exported text of both selections) when the selection sizes differ ... *)
Theorem C13_paired_by_identity_partial : forall sm st,
  List.length sm <> List.length st ->
  paired_selections sm st = (do a <- snapshot sm; do b <- snapshot st; Ok (shared_pairs a b)).
Proof. exact paired_by_identity_when_sizes_differ. Qed.
(* ... the full statement (always by identity) is FALSE of the faithful model: known finding F7 *)
Theorem C13_paired_by_identity_refuted : exists sm st,
  List.length sm = List.length st /\ paired_selections sm st <> Ok (shared_pairs sm st).
Proof. exact positional_pairing_refuted. Qed.
Print Assumptions C13_paired_by_identity_refuted.
