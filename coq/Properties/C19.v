(* C19 — many2sql: the intersection is exactly the common atoms, row-aligned per structure.
   Model: Model_many.join (nested-loop INNER JOIN with the all-pairs ON clause built by
   many2sql.get_intersection), hand-written and tied by correspondence. *)
From Verif Require Import PyLib ModelTypes Model_many Spec_many Proofs_many.

(* exact characterisation, for any number of structures and any match keys: a tuple is in the
   result iff its i-th row is an atom of structure i and all rows match pairwise on the keys *)
Theorem C19_intersection_exact : forall idx ts tup,
  In tup (join idx ts) <-> Forall2 (fun r t => In r t) tup ts /\ pairwise idx tup.
Proof. exact join_exact. Qed.
Print Assumptions C19_intersection_exact.

(* row-aligned: every row of a result tuple carries the key of the first *)
Theorem C19_row_aligned : forall idx ts tup r0 rs,
  In tup (join idx ts) -> tup = r0 :: rs -> Forall (fun r => same_key idx r0 r = true) rs.
Proof. exact join_sound. Qed.
Print Assumptions C19_row_aligned.

(* own values: row i of a result tuple IS an atom (a whole row) of structure i *)
Theorem C19_own_values : forall idx ts tup, In tup (join idx ts) ->
  List.length tup = List.length ts /\ forall i, (i < List.length ts)%nat -> In (nth i tup []) (nth i ts []).
Proof. exact join_own_rows. Qed.
Print Assumptions C19_own_values.

(* nothing common is left out: an atom of the first structure whose key occurs in every other
   structure heads a result tuple *)
Theorem C19_common_atoms_present : forall idx t0 r0 rest,
  In r0 t0 -> Forall (fun t => exists r, In r t /\ same_key idx r0 r = true) rest ->
  exists rs, In (r0 :: rs) (join idx (t0 :: rest)).
Proof. exact join_complete. Qed.
Print Assumptions C19_common_atoms_present.

(* the simple "look the key up in every other structure" specification only yields result tuples *)
Theorem C19_spec_tuples_in_result : forall idx t0 rest tup,
  In tup (spec_tuples idx (t0 :: rest)) -> In tup (join idx (t0 :: rest)).
Proof. exact spec_tuples_in_join. Qed.
Print Assumptions C19_spec_tuples_in_result.

Example C19_example :
  let a := [VInt 1; VText "CA"; VText ""; VText "ALA"; VText "A"; VInt 1] in
  let b := [VInt 2; VText "CB"; VText ""; VText "ALA"; VText "A"; VInt 1] in
  let a' := [VInt 7; VText "CA"; VText ""; VText "ALA"; VText "A"; VInt 1] in
  join [1; 3; 5; 4]%nat [[a; b]; [a']] = [[a; a']] /\ spec_tuples [1; 3; 5; 4]%nat [[a; b]; [a']] = [[a; a']].
Proof. vm_compute. split; reflexivity. Qed.
