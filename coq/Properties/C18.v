(* C18 — align(): the chosen principal axis ends up on the requested Cartesian axis.
   Statements only.  align_table_src (the per-axis list of (rotation axis, angle expression) of
   _align_along_axis), rodrigues_src and rotate_apply_src are regenerated from align.py / transform.py;
   the eigen-solver is an oracle: the theorems assume of the picked eigenvector only what is checked at run
   time (eigen-equation, Rayleigh bound).  Angles enter as (cos, sin) pairs. *)
From Coq Require Import Reals Lra.
From Verif Require Import Base PyLib Model_geom_num Generated_geom Model_geom Spec_geom Spec_geom_R
  Proofs_geom_alg Proofs_geom_C10 Proofs_geom_C18 Proofs_geom_psd.
Open Scope R_scope.
Open Scope string_scope.

(* for x, y and z alike: the vector of length r with polar angle theta and azimuth phi is carried onto r e_axis
   by the product of the rotations listed in the regenerated table *)
Theorem C18_align_maps_vector : forall axis steps e v r cphi sphi cth sth,
  assoc_str axis align_table_src = Some steps -> unit_axis Nr axis = Some e ->
  has_angles v r cphi sphi cth sth ->
  mvmul Nr (align_matrix steps cphi sphi cth sth) v = vscale Nr r e.
Proof. exact align_maps_vector. Qed.
Print Assumptions C18_align_maps_vector.

(* the table has an entry for each of the three letters, and only proper rotations come out of it *)
Theorem C18_table_total : forall cphi sphi cth sth, unit_cs cphi sphi -> unit_cs cth sth ->
  forall axis, axis = "x" \/ axis = "y" \/ axis = "z" ->
  exists steps, assoc_str axis align_table_src = Some steps /\ is_rotation (align_matrix steps cphi sphi cth sth).
Proof.
  intros cphi sphi cth sth Hp Ht axis [-> | [-> | ->]]; eexists; (split; [reflexivity |]);
    apply align_matrix_rotation; auto;
    [apply (table_unit_axes "x") | apply (table_unit_axes "y") | apply (table_unit_axes "z")]; reflexivity.
Qed.
Print Assumptions C18_table_total.

(* the angle expressions of the table mean what they say *)
Theorem C18_angle_expressions : forall a,
  ang_cs Nr 0 true (cos a, sin a) = (cos (- a), sin (- a)) /\
  ang_cs Nr 1 true (cos a, sin a) = (cos (PI / 2 - a), sin (PI / 2 - a)) /\
  ang_cs Nr (-1) false (cos a, sin a) = (cos (a - PI / 2), sin (a - PI / 2)).
Proof. intros a. split; [apply ang_cs_neg | split; [apply ang_cs_half_pi_minus | apply ang_cs_minus_half_pi]]. Qed.
Print Assumptions C18_angle_expressions.

(* the successive rotations (each about the current centroid) are ONE rotation about the centroid *)
Theorem C18_single_rotation_about_centroid : forall steps cphi sphi cth sth xyz, xyz <> [] ->
  align_steps Nr steps cphi sphi cth sth xyz =
  Ok (map (rot_about (align_matrix steps cphi sphi cth sth) (mean Nr xyz)) xyz).
Proof. exact single_rotation_about_centroid. Qed.
Print Assumptions C18_single_rotation_about_centroid.

(* the sample covariance transforms by congruence under x |-> M (x - c) + c *)
Theorem C18_cov_rotates : forall M c xyz, xyz <> [] ->
  sample_cov Nr (map (rot_about M c) xyz) = mmul Nr M (mmul Nr (sample_cov Nr xyz) (mtrans M)) /\
  spec_cov Nr xyz = sample_cov Nr xyz.
Proof. intros M c xyz H. split; [exact (cov_rotates M c xyz H) | exact (spec_cov_is_sample_cov xyz)]. Qed.
Print Assumptions C18_cov_rotates.

(* after align(): the variance of the selected atoms along the target axis is the extreme eigenvalue, and no
   direction has a larger one (structures) / a smaller one (interfaces).  sel: the selected atoms, all: every
   atom (the rotation is about the centroid of ALL atoms); v: the eigenvector handed to get_rotation_angle *)
Theorem C18_principal_axis_on_target : forall axis steps e v r cphi sphi cth sth lam sel all,
  assoc_str axis align_table_src = Some steps -> unit_axis Nr axis = Some e ->
  has_angles v r cphi sphi cth sth -> r <> 0 -> sel <> [] ->
  mvmul Nr (sample_cov Nr sel) v = vscale Nr lam v ->
  let f := rot_about (align_matrix steps cphi sphi cth sth) (mean Nr all) in
  ((forall w, dot Nr w (mvmul Nr (sample_cov Nr sel) w) <= lam * norm2 Nr w) ->
     var_along Nr (map f sel) e = lam /\ forall w, unit3 w -> var_along Nr (map f sel) w <= var_along Nr (map f sel) e) /\
  ((forall w, lam * norm2 Nr w <= dot Nr w (mvmul Nr (sample_cov Nr sel) w)) ->
     var_along Nr (map f sel) e = lam /\ forall w, unit3 w -> var_along Nr (map f sel) e <= var_along Nr (map f sel) w).
Proof.
  intros axis steps e v r cphi sphi cth sth lam sel all Hs He Ha Hr Hsel Heig f. split.
  - exact (principal_axis_on_target_max axis steps e v r cphi sphi cth sth lam sel all Hs He Ha Hr Hsel Heig).
  - exact (principal_axis_on_target_min axis steps e v r cphi sphi cth sth lam sel all Hs He Ha Hr Hsel Heig).
Qed.
Print Assumptions C18_principal_axis_on_target.

(* database level: every atom is moved by that single rotation about the centroid of the whole structure;
   the number of rows and every non-coordinate attribute (any type A) are unchanged *)
Theorem C18_only_coordinates_change : forall (A : Type) (tb tb' : list (A * vec3 R)) axis cphi sphi cth sth,
  tb <> [] -> align_pca_vect Nr tb axis cphi sphi cth sth = Ok tb' ->
  exists steps, assoc_str axis align_table_src = Some steps /\
    List.length tb' = List.length tb /\ map fst tb' = map fst tb /\
    forall k, (k < List.length tb)%nat ->
      nth_error (map snd tb') k =
      Some (rot_about (align_matrix steps cphi sphi cth sth) (mean Nr (map snd tb)) (nth k (map snd tb) (vzero Nr))).
Proof. intros A. exact (@align_db_frame A). Qed.
Print Assumptions C18_only_coordinates_change.

(* the run-time verdict (executed over Q, same text): if the elimination accepts lam, no unit direction has a
   variance above lam (structures) / below lam (interfaces) *)
Theorem C18_principal_check_sound : forall xyz e lam,
  (fst (principal_check Nr xyz e lam) = true -> forall w, unit3 w -> var_along Nr xyz w <= lam) /\
  (fst (least_check Nr xyz e lam) = true -> forall w, unit3 w -> lam <= var_along Nr xyz w).
Proof. intros. split; [apply principal_check_sound | apply least_check_sound]. Qed.
Print Assumptions C18_principal_check_sound.

(* an unknown axis letter is rejected; a plane is mapped to its normal *)
Theorem C18_axis_letters : forall xyz cphi sphi cth sth,
  align_along_axis Nr xyz "w" cphi sphi cth sth = Err "ValueError" /\
  plane_axis "xy" = Ok "z" /\ plane_axis "xz" = Ok "y" /\ plane_axis "yz" = Ok "x".
Proof. intros. repeat split. Qed.

(* hypotheses satisfiable on a generic orientation (sin th = 3/5, cos ph = 5/13), and an exact run of the
   executable model (same text over Q) for the y axis: (1,2,2) has r = 3, sin th = sqrt5/3 is irrational, so the
   run uses the rational direction r (sin th cos ph, sin th sin ph, cos th) = 65 (3/5*5/13, 3/5*12/13, 4/5) *)
Example C18_has_angles_satisfiable : has_angles (V3 15 36 52) 65 (5 / 13) (12 / 13) (4 / 5) (3 / 5).
Proof. unfold has_angles. repeat split; gunf; [field | field | gext; field]. Qed.
Example C18_model_run :
  align_along_axis NumQ [V3 15 36 52; V3 (-15) (-36) (-52)]%Q "y" (5 # 13) (12 # 13) (4 # 5) (3 # 5)
  = Ok [V3 0 65 0; V3 0 (-65 # 1) 0]%Q.
Proof. vm_compute. reflexivity. Qed.
