(* C10 — transforms move exactly the selected atoms by exactly the stated isometry.
   Statements only, each closed by [exact] (or two lines of glue), followed by Print Assumptions.
   Everything is stated about the text regenerated from transform.py (Generated_geom.v: rodrigues_src,
   euler_*_src, rotate_apply_src, translation_src, rand_*_src) instantiated at the reals (NumR);
   cos/sin never occur: an angle is a pair (c, s) with c^2 + s^2 = 1. *)
From Coq Require Import Reals Lra.
From Verif Require Import Base PyLib Model_geom_num Generated_geom Model_geom Spec_geom Spec_geom_R
  Proofs_geom_alg Proofs_geom_C10.
Open Scope R_scope.

(* the matrix of rot_xyz_around_axis is a proper rotation for every unit axis and every angle *)
Theorem C10_rodrigues_is_rotation : forall ct st ux uy uz,
  unit3 (V3 ux uy uz) -> unit_cs ct st -> is_rotation (rodrigues_src Nr ct st ux uy uz).
Proof. exact rodrigues_is_rotation. Qed.
Print Assumptions C10_rodrigues_is_rotation.

(* it is Rodrigues' rotation formula (the specification, in vector form) for every vector ... *)
Theorem C10_rodrigues_is_spec : forall ct st u v,
  mvmul Nr (rodrigues_src Nr ct st (vx u) (vy u) (vz u)) v = spec_rot_point Nr u ct st (vzero Nr) v.
Proof. exact rodrigues_is_vector_formula. Qed.
Print Assumptions C10_rodrigues_is_spec.

(* ... it fixes the axis ... *)
Theorem C10_rodrigues_fixes_axis : forall ct st u,
  unit3 u -> mvmul Nr (rodrigues_src Nr ct st (vx u) (vy u) (vz u)) u = u.
Proof. exact rodrigues_fixes_axis. Qed.
Print Assumptions C10_rodrigues_fixes_axis.

(* ... and turns a perpendicular vector v towards u x v: the rotation is right-handed *)
Theorem C10_rodrigues_right_handed : forall ct st u v,
  dot Nr u v = 0 ->
  mvmul Nr (rodrigues_src Nr ct st (vx u) (vy u) (vz u)) v = vadd Nr (vscale Nr ct v) (vscale Nr st (cross Nr u v)).
Proof. exact rodrigues_right_handed. Qed.
Print Assumptions C10_rodrigues_right_handed.

Theorem C10_rodrigues_inverse : forall ct st ux uy uz,
  unit3 (V3 ux uy uz) -> unit_cs ct st ->
  mmul Nr (rodrigues_src Nr ct (- st) ux uy uz) (rodrigues_src Nr ct st ux uy uz) = meye Nr.
Proof. exact rodrigues_inverse. Qed.
Print Assumptions C10_rodrigues_inverse.

(* rotation_euler: about x by alpha, THEN about y by beta, THEN about z by gamma, each factor being the
   axis-angle matrix of a coordinate axis; and it is the specification's composition *)
Theorem C10_euler_is_x_then_y_then_z : forall ca sa cb sb cg sg v,
  mvmul Nr (euler_src Nr ca sa cb sb cg sg) v =
  mvmul Nr (rodrigues_src Nr cg sg 0 0 1) (mvmul Nr (rodrigues_src Nr cb sb 0 1 0) (mvmul Nr (rodrigues_src Nr ca sa 1 0 0) v))
  /\ mvmul Nr (euler_src Nr ca sa cb sb cg sg) v = spec_rot_z Nr cg sg (spec_rot_y Nr cb sb (spec_rot_x Nr ca sa v)).
Proof. intros. split; [apply euler_is_x_then_y_then_z | apply euler_is_spec]. Qed.
Print Assumptions C10_euler_is_x_then_y_then_z.

(* rotate(): every point goes to M (x - c) + c, c the given centre or the centroid of the given points;
   for a proper rotation M this preserves all distances and the handedness *)
Theorem C10_rotate_is_rigid : forall xyz M center xyz',
  is_rotation M -> rotate Nr xyz M center = Ok xyz' ->
  let c := match center with Some c => c | None => mean Nr xyz end in
  xyz' = map (rot_about M c) xyz /\ preserves_distances (rot_about M c) /\ preserves_handedness (rot_about M c).
Proof.
  intros xyz M center xyz' HM H. split; [exact (rotate_ok xyz M center xyz' H) | exact (rot_about_rigid M _ HM)].
Qed.
Print Assumptions C10_rotate_is_rigid.

(* every database-level operation with valid parameters (unit axis, (c,s) on the unit circle, proper
   rotation matrix) acts on the points it is given as one rigid map *)
Theorem C10_operation_is_rigid : forall o xyz xyz',
  op_valid o -> op_fun Nr o xyz = Ok xyz' -> xyz' = map (op_point o xyz) xyz /\ rigid (op_point o xyz).
Proof. intros o xyz xyz' Hv H. split; [exact (op_fun_ok o xyz xyz' H) | exact (op_point_rigid o xyz Hv)]. Qed.
Print Assumptions C10_operation_is_rigid.

(* any finite composition of such transforms is an isometry of the moved set (induction on the history) *)
Theorem C10_composition : forall h, Forall op_valid h -> forall xyz xyz',
  ops_fun h xyz = Ok xyz' -> exists f, rigid f /\ xyz' = map f xyz.
Proof. exact composition_rigid. Qed.
Print Assumptions C10_composition.

(* exactly the selected rows are written, with the transformed coordinates, in selection order;
   unselected rows and every non-coordinate attribute are untouched (any attribute type A) *)
Theorem C10_moves_only_selection : forall (A : Type) (tb tb' : list (A * vec3 R)) sel o,
  NoDup sel -> (forall i, In i sel -> (i < List.length tb)%nat) ->
  db_apply Nr tb sel o = Ok tb' ->
  List.length tb' = List.length tb /\
  map fst tb' = map fst tb /\
  (forall j, ~ In j sel -> nth_error tb' j = nth_error tb j) /\
  (forall k, (k < List.length sel)%nat ->
     nth_error (map snd tb') (nth k sel O) =
     Some (op_point o (read_sel Nr tb sel) (nth k (read_sel Nr tb sel) (vzero Nr)))).
Proof. intros A. exact (@db_apply_moves_only_selection A). Qed.
Print Assumptions C10_moves_only_selection.

(* applying the inverse transform restores the coordinates (exactly, over the reals) *)
Theorem C10_inverse_restores :
  (forall xyz u c s xyz1, unit3 u -> unit_cs c s ->
     rot_xyz_around_axis Nr xyz u c s None = Ok xyz1 -> rot_xyz_around_axis Nr xyz1 u c (- s) None = Ok xyz) /\
  (forall xyz M xyz1, is_rotation M -> rotate Nr xyz M None = Ok xyz1 -> rotate Nr xyz1 (mtrans M) None = Ok xyz) /\
  (forall xyz t xyz1, translate Nr xyz t = Ok xyz1 -> translate Nr xyz1 (vopp Nr t) = Ok xyz).
Proof. split; [exact rot_axis_inverse_restores | split; [exact rot_mat_inverse_restores | exact translate_inverse_restores]]. Qed.
Print Assumptions C10_inverse_restores.

(* random axis / angle: the formulas of get_rot_axis_angle give a unit axis and an angle in [0, 2 pi) *)
Theorem C10_random_axis_unit : forall cth sth cph sph,
  unit_cs cth sth -> unit_cs cph sph -> unit3 (rand_axis_src Nr cth sth cph sph).
Proof. exact random_axis_unit. Qed.
Print Assumptions C10_random_axis_unit.
Theorem C10_random_angle_range : forall u1 u2 u3, 0 <= u1 < 1 -> 0 <= u2 < 1 -> 0 <= u3 < 1 ->
  0 <= rand_angle_src Nr PI u3 < 2 * PI /\ 0 <= rand_theta_src Nr PI u1 u2 < 2 * PI /\ -1 <= rand_cosphi_src Nr PI u1 u2 < 1.
Proof.
  intros u1 u2 u3 H1 H2 H3. split; [exact (random_angle_range u3 H3) | split; [exact (random_theta_range u1 u2 H1) | exact (random_cosphi_range u1 u2 H2)]].
Qed.
Print Assumptions C10_random_angle_range.

(* the hypotheses are satisfiable on non-trivial inputs: a unit axis off the coordinate axes, an angle that
   is no multiple of pi/2, and a run of the executable model (same text, over Q) on a sub-selection *)
Example C10_hypotheses_satisfiable :
  unit3 (V3 (3 / 13) (4 / 13) (12 / 13)) /\ unit_cs (3 / 5) (4 / 5) /\
  op_valid (ORotAxis (V3 (3 / 13) (4 / 13) (12 / 13)) (3 / 5) (4 / 5)).
Proof. unfold op_valid. repeat split; gunf; field. Qed.
Example C10_model_run :
  db_apply NumQ [(1%Z, V3 1 0 0); (2%Z, V3 0 2 0); (3%Z, V3 0 0 3)]%Q [0; 2]%nat (ORotAxis (V3 0 0 1) 0 1)%Q
  = Ok [(1%Z, V3 (1 # 2) (1 # 2) 0); (2%Z, V3 0 2 0); (3%Z, V3 (1 # 2) (-1 # 2) 3)]%Q.
Proof. vm_compute. reflexivity. Qed.
