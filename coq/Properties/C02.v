(* C02 — Export: 80-column fixed-field lines; coordinates in exactly 8 columns.
   format_xyz_src, format_atomname_src and export_layout_src are regenerated from
   pdb2sql_base.py on every run (Generated_export.v). *)
From Verif Require Import PyLib ModelTypes Generated_export Model_export Spec_parse Spec_export
  Proofs_digits Proofs_export.
Open Scope Q_scope.

(* a coordinate raises exactly outside (-1e7+0.5, 1e8-0.5); inside, it is the fixed-point
   rendering with the decimals of the interval table (3 throughout (-999.5, 9999.5)) *)
Theorem C02_xyz_cascade : forall x,
  (Qltb coord_lo x && Qltb x coord_hi = false /\ format_xyz_src x = Err "ValueError") \/
  (Qltb coord_lo x && Qltb x coord_hi = true /\ format_xyz_src x = Ok (fmt_fixed 8 (xyz_decimals x) x)).
Proof. exact format_xyz_cases. Qed.
Print Assumptions C02_xyz_cascade.

(* whenever a coordinate is written it occupies exactly its 8 columns (never overflows) *)
Theorem C02_xyz_width : forall x s, format_xyz_src x = Ok s -> String.length s = 8%nat.
Proof. exact format_xyz_width. Qed.
Print Assumptions C02_xyz_width.

(* the printed number is the value rounded to the printed precision: error <= half a unit *)
Theorem C02_xyz_error : forall p q,
  Qabs (printed_abs p q - Qabs q) <= (1#2) / inject_Z (pow10 p).
Proof. exact printed_within_half_unit. Qed.
Print Assumptions C02_xyz_error.

(* every row whose values fit their field widths is written as exactly 80 columns *)
Theorem C02_line_80 : forall d, fits d = true ->
  exists line, line_of_row d = Ok line /\ String.length line = 80%nat.
Proof. exact line_80. Qed.
Print Assumptions C02_line_80.

Theorem C02_atomname_4_columns : forall nm el s,
  (1 <= String.length nm <= 4)%nat -> format_atomname_src nm el = Ok s -> String.length s = 4%nat.
Proof. exact format_atomname_length. Qed.

Theorem C02_atomname_alignment : forall nm el,
  (1 <= String.length nm <= 4)%nat -> format_atomname_src nm el = Ok (spec_atomname nm el).
Proof. exact format_atomname_spec. Qed.
Print Assumptions C02_atomname_alignment.

(* PARTIAL: the full statement also asks, for every fitting row d,
     line_ok d line = true                      (every attribute in its wwPDB columns)
     parse_record 0 line = Ok d' /\ approx_row d d' = true   (round trip)
   These two are decided on every run by the executable spec (line_ok / approx_row) applied to the
   implementation's output, and by the identity implementation = model on the same rows; they are
   not yet theorems (missing: parse_int (str_of_Z z) = z, decimal_value (fmt_fixed ..) lemmas). *)

(* non-vacuity and the concrete renderings quoted in the property *)
Example C02_examples :
  format_xyz_src (b64 (-999999 # 1000)) = Ok "-1000.00"%string /\
  format_xyz_src (b64 (99995 # 10)) = Ok " 9999.50"%string /\
  format_xyz_src (b64 (9999499 # 1000)) = Ok "9999.499"%string /\
  format_xyz_src ((100000000 # 1) - (1#2)) = Err "ValueError"%string /\
  format_xyz_src (b64 (999999994 # 10)) = Ok "99999999"%string /\
  fits [VInt 99999; VText "HE21"; VText "A"; VText "MET"; VText "B"; VInt (-999); VText "C";
        VReal (b64 (-999499 # 1000)); VReal (b64 (9999499 # 1000)); VReal 0; VReal (b64 (99998#100));
        VReal (-(9999#100)); VText "H"; VInt 0] = true.
Proof. vm_compute. repeat split. Qed.
