(* C02 — Export: 80-column fixed-field lines; coordinates in exactly 8 columns.
   format_xyz_src, format_atomname_src and export_layout_src are regenerated from
   pdb2sql_base.py on every run (Generated_export.v). *)
From Verif Require Import PyLib ModelTypes Generated_export Model_export Spec_parse Spec_export
  Generated_parse Model_parse Proofs_digits Proofs_export Proofs_export2 Proofs_reparse Proofs_reread Proofs_roundtrip Proofs_b64 Proofs_roundtrip2 Proofs_reexport Proofs_reexport2 Proofs_coordok Proofs_lineok.
Open Scope Q_scope.

(* a coordinate raises exactly outside (-1e7+0.5, 1e8-0.5); inside, it is the fixed-point
   rendering with the decimals of the interval table (3 throughout (-999.5, 9999.5)) *)
Theorem C02_xyz_cascade : forall x,
  (Qltb coord_lo x && Qltb x coord_hi = false /\ format_xyz_src x = Err "ValueError") \/
  (Qltb coord_lo x && Qltb x coord_hi = true /\ format_xyz_src x = Ok (fmt_fixed 8 (xyz_decimals x) x)).
Proof. exact format_xyz_cases. Qed.
Print Assumptions C02_xyz_cascade.

(* whenever a coordinate is written it occupies exactly its 8 columns (never overflows) *)
Theorem C02_xyz_width : forall x s, format_xyz_src x = Ok s -> String.length s = 8%nat.
Proof. exact format_xyz_width. Qed.
Print Assumptions C02_xyz_width.

(* the printed number is the value rounded to the printed precision: error <= half a unit *)
Theorem C02_xyz_error : forall p q,
  Qabs (printed_abs p q - Qabs q) <= (1#2) / inject_Z (pow10 p).
Proof. exact printed_within_half_unit. Qed.
Print Assumptions C02_xyz_error.

(* every row whose values fit their field widths is written as exactly 80 columns *)
Theorem C02_line_80 : forall d, fits d = true ->
  exists line, line_of_row d = Ok line /\ String.length line = 80%nat.
Proof. exact line_80. Qed.
Print Assumptions C02_line_80.

Theorem C02_atomname_4_columns : forall nm el s,
  (1 <= String.length nm <= 4)%nat -> format_atomname_src nm el = Ok s -> String.length s = 4%nat.
Proof. exact format_atomname_length. Qed.

Theorem C02_atomname_alignment : forall nm el,
  (1 <= String.length nm <= 4)%nat -> format_atomname_src nm el = Ok (spec_atomname nm el).
Proof. exact format_atomname_spec. Qed.
Print Assumptions C02_atomname_alignment.

(* every piece of the line — in particular every attribute — occupies exactly its own columns: the
   substring of the exported line at the piece's offset is the rendered piece ... *)
Theorem C02_piece_in_its_columns : forall d line k p,
  fits d = true -> line_of_row d = Ok line -> nth_error export_layout_src k = Some p ->
  exists s, render_piece d p = Ok s /\ String.length s = piece_len p /\ substring (offset k) (piece_len p) line = s.
Proof. exact piece_in_its_columns. Qed.
Print Assumptions C02_piece_in_its_columns.
(* ... and in today's layout the offsets and widths of the thirteen attribute pieces ARE the wwPDB columns *)
Theorem C02_layout_columns_are_wwpdb :
  map (fun k => (offset k + 1, offset k + piece_len (nth k export_layout_src (PLit ""))))%nat [1; 3; 4; 5; 7; 8; 9; 11; 12; 13; 14; 15; 17]%nat
  = map (fun f => snd (fst f)) wwpdb_cols.
Proof. exact layout_columns_are_wwpdb. Qed.

(* integer and text attributes are read back exactly from their right-justified fields *)
Theorem C02_int_field_roundtrip : forall w z, int_ok (VInt z) (rjust w (str_of_Z z)) = true.
Proof. exact int_field_roundtrip. Qed.
Theorem C02_text_field_roundtrip : forall w s, clean s = true -> text_ok (VText s) (rjust w s) = true.
Proof. exact text_field_roundtrip. Qed.
Print Assumptions C02_int_field_roundtrip.

(* "as many decimals as fit": every coordinate that is written satisfies the specification predicate coord_ok — 8
   columns, a plain decimal within half a unit of its last place of the value, 3 decimals throughout (-999.5, 9999.5),
   otherwise exactly max_fit decimals, one fewer being accepted only within half a unit below a power of ten *)
Theorem C02_coord_ok : forall q, Qltb coord_lo q && Qltb q coord_hi = true ->
  coord_ok (VReal q) (fmt_fixed 8 (xyz_decimals q) q) = true.
Proof. exact coord_ok_exported. Qed.
Print Assumptions C02_coord_ok.
(* THE EXPORTED LINE of every fitting row satisfies the whole specification predicate line_ok: 80 columns, record name,
   and every attribute readable from its own wwPDB columns (integers and text exactly, coordinates by coord_ok,
   occupancy and B-factor with two decimals within 0.005) *)
Theorem C02_line_ok : forall d line, fits d = true -> line_of_row d = Ok line -> line_ok d line = true.
Proof. exact line_ok_exported. Qed.
Print Assumptions C02_line_ok.

(* reading back: float() of any fixed-point field the exporter writes is the printed decimal — the value
   rounded at the printed precision — rounded once to binary64 ... *)
Theorem C02_float_of_formatted : forall w p q, parse_float (fmt_fixed w p q) = NumOk (b64 (printed_value p q)).
Proof. exact parse_float_fmt_fixed. Qed.
Print Assumptions C02_float_of_formatted.
(* ... so the parser's model (parse_field over the regenerated column table), applied to the exported line of
   any fitting row, reads in the x, y, z columns the written coordinate within half a unit of the printed
   precision, and in the occupancy / B-factor columns the written value within 0.005 *)
Theorem C02_coordinates_reread : forall d line, fits d = true -> line_of_row d = Ok line ->
  forall col k i, In (col, k, i) [("x"%string, 11%nat, 7%nat); ("y"%string, 12%nat, 8%nat); ("z"%string, 13%nat, 9%nat)] ->
  exists q, real_of (nth i d VNull) = Some q
    /\ parse_field line col "REAL" = Ok (Some (VReal (b64 (printed_value (xyz_decimals q) q))))
    /\ Qabs (printed_value (xyz_decimals q) q - q) <= (1#2) / inject_Z (pow10 (xyz_decimals q)).
Proof. exact coordinates_reread. Qed.
Print Assumptions C02_coordinates_reread.
Theorem C02_occupancy_bfactor_reread : forall d line, fits d = true -> line_of_row d = Ok line ->
  forall col k i, In (col, k, i) [("occ"%string, 14%nat, 10%nat); ("temp"%string, 15%nat, 11%nat)] ->
  exists q, real_of (nth i d VNull) = Some q
    /\ parse_field line col "REAL" = Ok (Some (VReal (b64 (printed_value 2 q))))
    /\ Qabs (printed_value 2 q - q) <= 5#1000.
Proof. exact occupancy_bfactor_reread. Qed.
Print Assumptions C02_occupancy_bfactor_reread.

(* THE ROUND TRIP, whole row: for every row that fits its field widths, whose text attributes are left alone by
   str.strip() and whose chain identifier is not empty, the parser's model applied to the exported line returns
   the row itself in serial, name, altLoc, resName, chainID, resSeq, iCode and element, and in x, y, z, occupancy
   and B-factor the printed decimal (within half a unit of the printed precision / 0.005 of the written value by
   the two theorems above) rounded once to binary64; the model number is the one current when the line is read *)
Theorem C02_row_roundtrip : forall d line nmodel, fits d = true -> rereadable d -> line_of_row d = Ok line ->
  parse_record nmodel line = Ok (reread_row d nmodel).
Proof. exact row_roundtrip. Qed.
Print Assumptions C02_row_roundtrip.

(* the binary64 rounding applied to a re-read decimal has relative error at most 2^-53 ... *)
Theorem C02_b64_error : forall q, Qabs (b64 q - q) <= Qabs q * (1 # 2 ^ 53).
Proof. exact b64_error. Qed.
Print Assumptions C02_b64_error.
(* ... so the round trip holds IN THE PROPERTY'S OWN TERMS (Spec_export.approx_row: thirteen attributes, integer and
   text ones identical, coordinates within half a unit of the precision "that fits", occupancy and B-factor within
   0.005, each up to that one binary64 rounding) *)
Theorem C02_roundtrip : forall d line nmodel, fits d = true -> rereadable d -> line_of_row d = Ok line ->
  exists d', parse_record nmodel line = Ok d' /\ approx_row d d' = true.
Proof. exact roundtrip_approx. Qed.
Print Assumptions C02_roundtrip.

(* WRITING THE RE-READ TABLE AGAIN gives the identical line, unless a coordinate moved onto a format-switch threshold
   (its decimals change) or is a negative zero (its sign is lost) — `stable` says exactly that neither happened, and
   the Examples in Proofs_reexport2 show a stable row, a threshold value and a negative zero *)
Theorem C02_reexport_identical : forall d m, fits d = true -> stable d ->
  line_of_row (reread_row d m) = line_of_row d.
Proof. exact reexport_identical. Qed.
Print Assumptions C02_reexport_identical.

(* a record in canonical form (the exporter's own text for a fitting, strip-stable, stable row) is reproduced
   unchanged by reading it and writing it again *)
Theorem C02_canonical_reproduced : forall d line m, fits d = true -> rereadable d -> stable d -> line_of_row d = Ok line ->
  exists d', parse_record m line = Ok d' /\ line_of_row d' = Ok line.
Proof. exact canonical_reproduced. Qed.
Print Assumptions C02_canonical_reproduced.

(* the round trip is FALSE of the faithful model for a row whose chain identifier is the empty string (inside the
   property's quantifier: "0-1 character chain"): the row fits, is exported with a blank column 22, and the parser
   rejects that line (blank chain with blank segID raises, as C01 requires): known finding F24 *)
Theorem C02_blank_chain_refuted : exists d line,
  fits d = true /\ line_of_row d = Ok line /\ parse_record 0 line = Err "ValueError".
Proof. exact blank_chain_not_rereadable. Qed.
Print Assumptions C02_blank_chain_refuted.

(* What is NOT a theorem here: exportpdb's file handling (newline termination, append) and the bundled files (whose records are
   canonical only in columns 1-66 and 77-78) are decided by the harness on the implementation's output; sql2pdb = map line_of_row over
   the selected rows is the hand-written skeleton tied by correspondence. *)

(* non-vacuity and the concrete renderings quoted in the property *)
Example C02_examples :
  format_xyz_src (b64 (-999999 # 1000)) = Ok "-1000.00"%string /\
  format_xyz_src (b64 (99995 # 10)) = Ok " 9999.50"%string /\
  format_xyz_src (b64 (9999499 # 1000)) = Ok "9999.499"%string /\
  format_xyz_src ((100000000 # 1) - (1#2)) = Err "ValueError"%string /\
  format_xyz_src (b64 (999999994 # 10)) = Ok "99999999"%string /\
  fits [VInt 99999; VText "HE21"; VText "A"; VText "MET"; VText "B"; VInt (-999); VText "C";
        VReal (b64 (-999499 # 1000)); VReal (b64 (9999499 # 1000)); VReal 0; VReal (b64 (99998#100));
        VReal (-(9999#100)); VText "H"; VInt 0] = true.
Proof. vm_compute. repeat split. Qed.
