(* C16 — Computations depend on their arguments only: no stray files, safe concurrently.
   Only statements, each closed by [exact] (or a two-line glue proof), followed by Print Assumptions.
   Model: Model_fs.v — abstract file system, computations as resumptions over file-system actions,
   one script per public routine (the six score routines with/without zone file, contacts, superpose,
   align, export on/off); schedules are lists of task indices, one action per entry.
   Oracles (hypotheses, validated at run time): mkstemp returns a fresh private name; os.replace is atomic. *)
From Verif Require Import PyLib ModelTypes Model_fs Spec_fs Proofs_fs_base Proofs_fs_c16 Proofs_fs_zone
  Proofs_fs_c16_main Proofs_fs_spec Generated_fs Proofs_fs_sites Proofs_fs_zone_full Proofs_fs_term.
Open Scope string_scope.
Open Scope list_scope.

(* every routine, whatever the answers of the file system, reads only its inputs (and a zone file it
   was given) and writes only its requested outputs (and its own temporary files) *)
Theorem C16_scripts_stay_in_footprint : forall c : call,
  within (fun p => may_read c p) (fun p => may_write c p) (script c).
Proof. exact script_within. Qed.
Print Assumptions C16_scripts_stay_in_footprint.

(* no file other than the requested outputs is created, modified or deleted — for every call, every
   initial directory, at every moment of the run *)
Theorem C16_footprint_only_requested : forall (c : call) (fs : fsys) (n : nat) (p : path),
  ~ may_write c p -> fst (frun_n n fs (script c)) p = fs p.
Proof. exact footprint_only_requested. Qed.
Print Assumptions C16_footprint_only_requested.

Theorem C16_inputs_unchanged : forall (c : call) (fs : fsys) (n : nat),
  ~ may_write c (cl_decoy c) -> ~ may_write c (cl_ref c) ->
  fst (frun_n n fs (script c)) (cl_decoy c) = fs (cl_decoy c) /\
  fst (frun_n n fs (script c)) (cl_ref c) = fs (cl_ref c).
Proof. exact inputs_unchanged. Qed.
Print Assumptions C16_inputs_unchanged.

(* the same value whatever else is present in the working directory: two directories that agree on the
   call's footprint give the same residual computation after any number of steps (hence the same
   returned value), the same sequence of actions and answers, and the same files in the footprint *)
Theorem C16_cwd_irrelevant : forall (c : call) (fs1 fs2 : fsys) (n : nat),
  agree_on (footprint c) fs1 fs2 ->
  snd (frun_n n fs1 (script c)) = snd (frun_n n fs2 (script c))
  /\ ftrace_n n fs1 (script c) = ftrace_n n fs2 (script c)
  /\ agree_on (footprint c) (fst (frun_n n fs1 (script c))) (fst (frun_n n fs2 (script c))).
Proof. exact cwd_irrelevant. Qed.
Print Assumptions C16_cwd_irrelevant.

(* Noninterference, in general: ANY programs over the file-system actions whose footprints do not
   interfere (what one may write, no other reads or writes), ANY number of them, EVERY schedule:
   each task is always in a state of its solo run and sees, inside its footprint, the file system of
   that solo run; so whatever it returns is what it returns alone (errors included). *)
Theorem C16_noninterference_general :
  forall (A : Type) (fs0 : fsys) (ts : list (prog A)) (Rf Wf : nat -> path -> Prop),
  (forall i p, nth_error ts i = Some p -> within (Rf i) (Wf i) p) ->
  (forall i j q, i <> j -> Wf i q -> ~ (Rf j q \/ Wf j q)) ->
  forall (s : list nat) i p a,
    nth_error ts i = Some p ->
    nth_error (snd (run_sched s (fs0, ts))) i = Some (Ret a) ->
    exists n, snd (frun_n n fs0 p) = Ret a.
Proof. intros A fs0 ts Rf Wf H1 H2 s i p a. exact (noninterference fs0 ts Rf Wf H1 H2 s i p a). Qed.
Print Assumptions C16_noninterference_general.

(* ... and for the library: any mix of the routines *)
Theorem C16_noninterference : forall (cs : list call) (fs0 : fsys),
  (forall i j ci cj q, i <> j -> nth_error cs i = Some ci -> nth_error cs j = Some cj ->
     may_write ci q -> ~ footprint cj q) ->
  forall (s : list nat) i c a,
    nth_error cs i = Some c ->
    nth_error (snd (run_sched s (fs0, map script cs))) i = Some (Ret a) ->
    exists n, snd (frun_n n fs0 (script c)) = Ret a.
Proof. exact noninterference_calls. Qed.
Print Assumptions C16_noninterference.

(* The shared zone-file cache (the decoy-ranking loop): any number of tasks that compute the same zone
   and publish it atomically (private fresh temp file, then os.replace); the cache file initially
   absent or already holding that zone; EVERY schedule: every task that returns obtained exactly that
   zone, and none fails.  (Tasks here interfere — they all read and write Z — so this is not an
   instance of noninterference: it is proved by a rely/guarantee argument over schedules.) *)
Theorem C16_shared_zone_cache :
  forall (Z : path) (lines : list string) (ref tmp : nat -> path) (rest : nat -> list path) (rtext : nat -> string),
  (forall i j, i <> j -> tmp i <> tmp j) -> (forall i, tmp i <> Z) ->
  (forall i j, tmp i <> ref j) -> (forall i, ref i <> Z) ->
  forall (n : nat) (fs0 : fsys) (s : list nat) i a,
    (fs0 Z = None \/ fs0 Z = Some (FText (concat_str lines))) ->
    (forall j, (j < n)%nat -> fs0 (tmp j) = None /\ fs0 (ref j) = Some (FText (rtext j))) ->
    nth_error (snd (run_sched s (fs0, map (fun j => acquire_zone (ref j) (Some Z) (tmp j :: rest j) lines) (seq 0 n)))) i
      = Some (Ret a) ->
    exists rs, a = Ok (concat_str lines, rs).
Proof. exact shared_zone_cache_all. Qed.
Print Assumptions C16_shared_zone_cache.

(* The decoy-ranking loop with the FULL routines: n tasks, each running compute_lrmsd_fast or
   compute_irmsd_fast on its own decoy against its reference, all sharing the zone file Z; EVERY schedule:
   every task that returns returns exactly the basis its value is a function of (the zone, then the texts
   of reference and decoy in reading order) — what it obtains alone — and none fails. *)
Theorem C16_shared_zone_cache_full :
  forall (Z : path) (lines : list string) (ref dec tmp : nat -> path) (rest : nat -> list path)
         (rtext dtext : nat -> string) (fast_l : nat -> bool),
  (forall i j, i <> j -> tmp i <> tmp j) -> (forall i, tmp i <> Z) ->
  (forall i j, tmp i <> ref j) -> (forall i j, tmp i <> dec j) -> (forall i, ref i <> Z) -> (forall i, dec i <> Z) ->
  forall (n : nat) (fs0 : fsys) (s : list nat) i a,
    (fs0 Z = None \/ fs0 Z = Some (FText (concat_str lines))) ->
    (forall j, (j < n)%nat -> fs0 (tmp j) = None /\ fs0 (ref j) = Some (FText (rtext j)) /\ fs0 (dec j) = Some (FText (dtext j))) ->
    nth_error (snd (run_sched s (fs0, map (fun j => script (task_call Z lines ref dec tmp rest fast_l j)) (seq 0 n)))) i
      = Some (Ret a) ->
    exists rs, a = Ok (basis_of_task lines rtext dtext fast_l i, rs).
Proof.
  intros Z lines ref dec tmp rest rtext dtext fast_l H1 H2 H3 H4 H5 H6 n fs0 s i a HI Hinit Hr.
  exact (shared_zone_cache_full Z lines ref dec tmp rest rtext dtext fast_l H1 H2 H3 H4 H5 H6 n fs0 s i a HI Hinit Hr).
Qed.
Print Assumptions C16_shared_zone_cache_full.

(* every routine returns (a value or an error) within [fuel] actions, in every directory, whatever the
   file system answers *)
Theorem C16_scripts_terminate : forall (c : call) (fs : fsys),
  exists r, snd (frun_n (fuel c) fs (script c)) = Ret r.
Proof. exact script_terminates. Qed.
Print Assumptions C16_scripts_terminate.

(* ... so: any mix of routines with non-interfering footprints, EVERY schedule continued until every task
   had its turns: every task RETURNS, and returns exactly what it returns alone (none hangs, none fails
   because of the other) *)
Theorem C16_all_return_solo : forall (cs : list call) (fs0 : fsys),
  (forall i j ci cj q, i <> j -> nth_error cs i = Some ci -> nth_error cs j = Some cj ->
     may_write ci q -> ~ footprint cj q) ->
  forall (s : list nat) i c,
    nth_error cs i = Some c ->
    exists a, nth_error (snd (run_sched (s ++ turns cs) (fs0, map script cs))) i = Some (Ret a)
              /\ exists n, snd (frun_n n fs0 (script c)) = Ret a.
Proof. exact all_return_solo. Qed.
Print Assumptions C16_all_return_solo.

(* What the atomic publication bought (finding F9): with the in-place writer there IS a schedule in
   which a concurrent reader goes on with a partial (here: empty) zone. *)
Theorem C16_in_place_write_refuted :
  forall (Z ref : path) (rtext : string) (lines : list string),
  ref <> Z -> concat_str lines <> "" ->
  exists (s : list nat) (got : string),
    nth_error (snd (run_sched s (fs_set (fun _ => None) ref (Some (FText rtext)),
                                 [acquire_zone_in_place ref Z lines; acquire_zone_in_place ref Z lines]))) 1
      = Some (Ret (Ok (got, [got])))
    /\ got <> concat_str lines.
Proof. exact in_place_write_refuted. Qed.
Print Assumptions C16_in_place_write_refuted.

Theorem C16_spec_executable : forall c p, may_writeb c p = true <-> may_write c p.
Proof. exact may_writeb_iff. Qed.

(* ---- the static side, about TODAY's source text (Generated_fs.v is regenerated from /repo on every
   run): every file-system call site of the package is one the scripts model ---- *)
Theorem C16_callsites_as_modelled : callsites_src = model_callsites.
Proof. exact callsites_match. Qed.
Print Assumptions C16_callsites_as_modelled.

Theorem C16_no_scratch_database :
  map (fun s => (cs_func s, cs_path s)) (sites_where is_connect callsites_src)
  = [("pdb2sql._create_sql", "':memory:'"); ("pdb2sql._create_sql", "self.sqlfile")].
Proof. exact connect_sites. Qed.

Theorem C16_no_database_file_in_routines : sites_where is_sqlfile_arg callsites_src = [].
Proof. exact no_sqlfile_argument. Qed.

Theorem C16_zone_written_atomically :
  map cs_kind (filter (fun s => String.eqb (cs_func s) "StructureSimilarity._write_zone") callsites_src)
  = [SMkstemp; SFdopen "w"; SReplace].
Proof. exact zone_writer_sites. Qed.

Theorem C16_no_command_is_run : sites_where is_shell callsites_src = [].
Proof. exact no_shell_site. Qed.


(* ---- non-vacuity ---- *)
Definition ex_fs : fsys :=
  fs_set (fs_set (fs_set (fun _ => None) "in/ref.pdb" (Some (FText "R"))) "in/d1.pdb" (Some (FText "D1"))) "in/d2.pdb" (Some (FText "D2")).
Definition ex_c1 : call := mkCall "in/d1.pdb" "in/ref.pdb" (RLrmsdFast (Some "cache/z.lzone")) ["cache/z.lzone.aaa"] ["zone A1-A1"; "zone A2-A2"] [] [].
Definition ex_c2 : call := mkCall "in/d2.pdb" "in/ref.pdb" (RLrmsdSql (Some "out")) [] [] ["ATOM 1"] ["ATOM 2"].

(* the hypotheses of C16_noninterference hold for two different routines with disjoint outputs, and a
   schedule that interleaves them action by action returns both solo results *)
Example C16_example_disjoint :
  (forall q, may_write ex_c1 q -> ~ footprint ex_c2 q) /\ (forall q, may_write ex_c2 q -> ~ footprint ex_c1 q)
  /\ (let '(fs, ts) := run_sched (flat_map (fun _ => [0; 1]%nat) (seq 0 60)) (ex_fs, [script ex_c1; script ex_c2]) in
      map result_of ts = [result_of (snd (frun_n 100 ex_fs (script ex_c1))); result_of (snd (frun_n 100 ex_fs (script ex_c2)))]
      /\ result_of (snd (frun_n 100 ex_fs (script ex_c1))) =
         Some (Ok (["zone A1-A1zone A2-A2"; "R"; "D1"; "D1"; "R"; "D1"; "R"; "D1"; "R"], ["R"; "R"; "D1"; "D1"; "R"; "D1"; "R"; "D1"; "R"]))
      /\ fs "cache/z.lzone" = Some (FText "zone A1-A1zone A2-A2") /\ fs "cache/z.lzone.aaa" = None
      /\ fs "out/lrmsd_decoy.pdb" = Some (FText ("ATOM 1" ++ String "010" ""))).
Proof.
  split; [|split].
  - intros q [H|H] [H'|[H'|H']]; vm_compute in H, H'; intuition (subst; discriminate).
  - intros q [H|H] [H'|[H'|H']]; vm_compute in H, H'; intuition (subst; discriminate).
  - vm_compute. repeat split.
Qed.

(* two tasks sharing the cache, interleaved action by action: both obtain the zone *)
Example C16_example_shared :
  let t := fun j : nat => acquire_zone "in/ref.pdb" (Some "cache/z") [if Nat.eqb j 0 then "cache/z.a" else "cache/z.b"] ["zone A1-A1"; "zone A2-A2"] in
  map result_of (snd (run_sched (flat_map (fun _ => [0; 1]%nat) (seq 0 30)) (ex_fs, map t (seq 0 2))))
  = [Some (Ok ("zone A1-A1zone A2-A2", ["R"])); Some (Ok ("zone A1-A1zone A2-A2", ["R"]))].
Proof. vm_compute. reflexivity. Qed.
