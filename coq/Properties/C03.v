(* C03 — Selection: get() returns exactly the rows satisfying AND-of-keys, OR-of-values.
   Statements only; proofs in Proofs_sql_get.v / Proofs_sql_get2.v.

   Vocabulary.  [spec_get] (Spec_sql.v) is the row-by-row reading of the property:
   map project ∘ filter over the rows with their zero-based positions.  [get_top] is the model of
   pdb2sql.get (Model_sql.v).  Side conditions (Proofs_sql_base.v), all executable:
     wf_table        column names are identifiers, none is rowid/oid/_rowid_, distinct up to case
     same_colnames   the addressed table has the first table's column names   (excludes finding F22)
     cols_rowid_ok   rowID requested at most once                             (excludes finding F20)
     keys_plain      keys are identifiers; the rowid is only called rowID     (excludes finding F23)
     short_lists     every list has <= 950 values (the rest is C17)
   The limit "total <= 999" is part of [spec_get = Ok _].                                          *)
From Verif Require Import PyLib ModelTypes Generated_parse Model_sqlval Model_sql Spec_sql
  Proofs_sql_base Proofs_sql_get Proofs_sql_get2 Proofs_sql_upd2 Proofs_sql_hist Proofs_sql_examples
  Generated_sql Proofs_sql_src.
Open Scope string_scope.

(* whenever the specification defines the answer, the model returns exactly it *)
Theorem C03_get_exact : forall d columns tablename kw out t,
  find_table tablename (tables d) = Some t ->
  wf_table t = true -> same_colnames d t = true ->
  cols_rowid_ok columns = true -> keys_plain kw = true -> short_lists kw = true ->
  spec_get d columns tablename kw = Ok out ->
  get_top d columns tablename kw = Ok out.
Proof. exact get_exact. Qed.
Print Assumptions C03_get_exact.

Example C03_get_exact_nonvacuous :
  let kw := [("name", CList [PStr "CA"; PStr "ZZ"]); ("no_resName", CScalar (PStr "GLY")); ("resSeq", CScalar (PStr " 1 "))] in
  find_table "atom" (tables ex_db) = Some ex_table /\ wf_table ex_table = true /\ same_colnames ex_db ex_table = true /\
  cols_rowid_ok "x, rowID" = true /\ keys_plain kw = true /\ short_lists kw = true /\
  spec_get ex_db "x, rowID" "atom" kw = Ok [PL [PV (VReal (3 # 2)); PV (VInt 1)]] /\
  get_top ex_db "x, rowID" "atom" kw = Ok [PL [PV (VReal (3 # 2)); PV (VInt 1)]].
Proof. vm_compute. repeat split. Qed.

(* a scalar acts as the one-element list *)
Theorem C03_scalar_is_singleton : forall d columns tablename kw out t,
  find_table tablename (tables d) = Some t ->
  wf_table t = true -> same_colnames d t = true ->
  cols_rowid_ok columns = true -> keys_plain kw = true -> short_lists kw = true ->
  spec_get d columns tablename kw = Ok out ->
  get_top d columns tablename kw = Ok out /\ get_top d columns tablename (as_lists kw) = Ok out.
Proof. exact scalar_is_singleton. Qed.
Print Assumptions C03_scalar_is_singleton.

(* numeric attributes match their decimal string form (the value layer, shared with SQLite) *)
Example C03_numeric_matches_decimal_text :
  spec_get ex_db "rowID" "ATOM" [("resSeq", CList [PStr "2"])] = Ok (pos [2; 3]) /\
  spec_get ex_db "rowID" "ATOM" [("resSeq", CList [PStr " 2.0"])] = Ok (pos [2; 3]) /\
  spec_get ex_db "rowID" "ATOM" [("x", CScalar (PStr "1.5"))] = Ok (pos [1]) /\
  spec_get ex_db "rowID" "ATOM" [("x", CScalar (PInt 1))] = Ok (pos [0]) /\
  get_top ex_db "rowID" "ATOM" [("resSeq", CList [PStr " 2.0"])] = Ok (pos [2; 3]).
Proof. vm_compute. repeat split. Qed.

(* an unknown attribute / condition name / table is an error, never ignored *)
Theorem C03_unknown_rejected : forall d columns tablename kw,
  tables d <> [] -> nmodel d = 0%nat ->
  (forall t, find_table tablename (tables d) = Some t -> wf_table t = true /\ same_colnames d t = true) ->
  keys_plain kw = true ->
  spec_get d columns tablename kw = Err "Rejected" ->
  forall f, exists e, get_model (S f) d columns tablename kw = Err e /\ rejection e.
Proof. exact unknown_rejected. Qed.
Print Assumptions C03_unknown_rejected.

Example C03_unknown_rejected_nonvacuous :
  spec_get ex_db "x,nosuch" "ATOM" [] = Err "Rejected" /\ get_top ex_db "x,nosuch" "ATOM" [] = Err "ValueError" /\
  spec_get ex_db "x" "ATOM" [("no_nosuch", CScalar (PInt 1))] = Err "Rejected" /\
  get_top ex_db "x" "ATOM" [("no_nosuch", CScalar (PInt 1))] = Err "ValueError" /\
  spec_get ex_db "x" "other" [] = Err "Rejected" /\ get_top ex_db "x" "other" [] = Err "sqlite3.Error".
Proof. vm_compute. repeat split. Qed.

(* rowID is the zero-based position: as an attribute, as a condition, and when it addresses the
   row of an update (the inner selection of update() is this very get) *)
Theorem C03_rowid_zero_based : forall d tablename kw ps t,
  find_table tablename (tables d) = Some t ->
  wf_table t = true -> same_colnames d t = true -> keys_plain kw = true -> short_lists kw = true ->
  spec_positions d tablename kw = Ok ps ->
  get_top d "rowID" tablename kw = Ok (map (fun p => PV (VInt (Z.of_nat p))) ps).
Proof.
  intros d tn kw ps t Ht Hwf Hs Hk Hsh Hps.
  exact (get_exact d "rowID" tn kw _ t Ht Hwf Hs eq_refl Hk Hsh (spec_get_rowID d tn kw ps Hps)).
Qed.
Print Assumptions C03_rowid_zero_based.

Example C03_rowid_zero_based_nonvacuous :
  get_top ex_db "rowID" "ATOM" [] = Ok (pos [0; 1; 2; 3]) /\
  get_top ex_db "rowID" "ATOM" [("rowID", CScalar (PInt 2))] = Ok (pos [2]) /\
  get_top ex_db "serial" "ATOM" [("rowID", CList [PInt 3; PInt 0])] = Ok (pos [1; 4]) /\
  get_top ex_db "rowID" "ATOM" [("no_rowID", CList [PInt 0; PInt 1; PInt 9])] = Ok (pos [2; 3]) /\
  fst (update_top ex_db "resSeq" [URow [PInt 77]] "ATOM" [("rowID", CScalar (PInt 2))])
    = fst (spec_update ex_db "resSeq" [URow [PInt 77]] "ATOM" [("rowID", CScalar (PInt 2))]) /\
  get_top (fst (update_top ex_db "resSeq" [URow [PInt 77]] "ATOM" [("rowID", CScalar (PInt 2))])) "resSeq" "ATOM" []
    = Ok (pos [1; 1; 77; 2]).
Proof. vm_compute. repeat split. Qed.

(* the model is built from the values read from the source on this run (translator regions
   const, sql_get_consts, sql_views) *)
Theorem C03_built_from_source :
  (forall k0, key_of k0 = if prefix neg_prefix_src k0
                          then (true, substring neg_prefix_cut_src (String.length k0) k0) else (false, k0)) /\
  (forall z, rowid_shift (PInt z) = Ok (PInt (z + rowid_in_shift_src))) /\
  (forall z r, dec_at 0 (VInt z :: r) = VInt (z - rowid_out_shift_src) :: r) /\
  rowid_in_shift_src = rowid_out_shift_src /\ rowid_key_src = "rowID" /\ flatten_width_src = 1%nat /\
  (forall d tn kw, get_xyz_model d tn kw = get_top d xyz_columns_src tn kw) /\
  residues_columns_src = "chainID,resName,resSeq" /\ chains_columns_src = "chainID".
Proof.
  destruct get_built_from_source as (A & _ & B & C & D & E & _ & _ & _ & _ & _ & F).
  destruct views_built_from_source as (G & _ & _ & _ & H & I & _).
  repeat split; assumption.
Qed.
Print Assumptions C03_built_from_source.

(* the recorded deviations of the faithful model from the specification (findings F20, F23) *)
Theorem C03_duplicate_rowid_refuted :
  cols_rowid_ok "rowID,rowID" = false /\
  get_top ex_db "rowID,rowID" "ATOM" [] <> spec_get ex_db "rowID,rowID" "ATOM" [].
Proof. split; [reflexivity|]. vm_compute. discriminate. Qed.
Theorem C03_rowid_alias_refuted :
  keys_plain [("rowid", CScalar (PInt 1))] = false /\
  get_top ex_db "name" "ATOM" [("rowid", CScalar (PInt 1))] = Ok [PV (VText "N")] /\
  spec_get ex_db "name" "ATOM" [("rowid", CScalar (PInt 1))] = Ok [PV (VText "CA")].
Proof. vm_compute. repeat split. Qed.
