(* C15 — Derived databases are faithful snapshots and independent afterwards.
   Model: Model_store (hand-written; snapshot = parse (export rows) built from the regenerated
   C01/C02 leaf functions).  PARTIAL by nature: independence is a theorem about the functional
   store; what ties it to the code (separate sqlite3 connections) is the history correspondence. *)
From Verif Require Import PyLib ModelTypes Model_parse Model_export Model_store Spec_parse Spec_export Proofs_zone Proofs_store
  Proofs_roundtrip Proofs_roundtrip2 Proofs_store2.

(* the derived object holds exactly one row per selected row, in order, and row k depends only
   on source row k (through its exported text) — no shifted, merged or cross-talking rows *)
Theorem C15_snapshot_rowwise : forall rows,
  (forall r l, In r rows -> line_of_row r = Ok l -> nonl l = true) ->
  same_outcome (snapshot rows) (mapM derived_row rows).
Proof. exact snapshot_rowwise. Qed.
Print Assumptions C15_snapshot_rowwise.

(* ... and the snapshot is FAITHFUL: for rows that fit their field widths (strip-stable text, non-empty chain: the
   premises of C02's round trip) the derived object holds, row by row and in order, the row itself in every integer
   and text attribute and the PDB-text-precision value in every numeric one: approx_row holds between the source
   row and the derived row *)
Theorem C15_snapshot_faithful : forall rows,
  Forall (fun r => fits r = true /\ rereadable r) rows ->
  (forall r l, In r rows -> line_of_row r = Ok l -> nonl l = true) ->
  snapshot rows = Ok (map (fun r => reread_row r 0) rows)
  /\ Forall2 (fun r r' => approx_row r r' = true) rows (map (fun r => reread_row r 0) rows).
Proof. exact snapshot_faithful. Qed.
Print Assumptions C15_snapshot_faithful.

(* one step on one object leaves every other object as it was; a derivation changes no existing object *)
Theorem C15_step_independent : forall s o s' b,
  step s o = Ok s' -> (b < List.length s)%nat ->
  (match o with OSetCell obj _ _ _ => obj <> b | ODerive _ _ => True end) ->
  nth_error s' b = nth_error s b.
Proof. exact step_independent. Qed.
Print Assumptions C15_step_independent.

(* every history: an object is changed only by operations addressed to it *)
Theorem C15_history_independent : forall ops s s' b,
  run_ops s ops = Ok s' -> (b < List.length s)%nat ->
  forallb (fun o => negb (touches b o)) ops = true ->
  nth_error s' b = nth_error s b.
Proof. exact history_independent. Qed.
Print Assumptions C15_history_independent.

Example C15_example :
  let r := [VInt 1; VText "CA"; VText ""; VText "ALA"; VText "A"; VInt 7; VText "";
            VReal (b64 (12345#10000)); VReal 2; VReal 3; VReal 1; VReal 10; VText "C"; VInt 0] in
  run_ops [[r; r]] [ODerive 0 [1%nat]; OSetCell 0 1 7 (VReal 9); ODerive 0 [0; 1]%nat]
  = Ok [[r; set_nth 7 (VReal 9) r];
        [set_nth 7 (VReal (b64 (1234#1000))) r];       (* snapshot at text precision, before the change *)
        [set_nth 7 (VReal (b64 (1234#1000))) r; set_nth 7 (VReal 9) r]].
Proof. vm_compute. reflexivity. Qed.
