(* C17 — Query results do not depend on condition list length or on which table is used.
   Statements only; proofs in Proofs_sql_chunk*.v / Proofs_sql_table.v.

   Full statement:  for every database, attribute list, table name and conjunction of conditions
   with lists of ANY length,
       get_top d columns tn kw  =  spec_get d columns tn kw
   where spec_get is the row-by-row evaluation on the addressed table, or Err "ValueError" (the
   documented 'too many SQL variables') when the pieces of the several conditions together
   exceed 999.  On the unchanged tree this is FALSE of the faithful model — see the _refuted
   theorems below (findings F10, F11, F21, F22) — and is proved here under the explicit
   exclusion of those classes:
     f10_class kw       a negated condition lists more than 950 values
     f11_class d tn kw  the selections of the 950-value pieces of a positive list are not
                        separated (a value in two pieces, or pieces not in table order)
   [C17_outside_findings] covers every answer that is a row set, [C17_outside_findings_error] the
   documented error (additionally outside F21: no numeric / None scalar among the conditions);
   [C17_never_other_table] needs no exclusion (after fix F12).                                 *)
From Verif Require Import PyLib ModelTypes Generated_parse Model_sqlval Model_sql Spec_sql
  Proofs_sql_base Proofs_sql_get Proofs_sql_chunk Proofs_sql_chunk2 Proofs_sql_chunk3 Proofs_sql_table Proofs_sql_examples
  Generated_sql Proofs_sql_src.
Open Scope string_scope.

Theorem C17_outside_findings : forall d columns tn kw out t,
  find_table tn (tables d) = Some t ->
  wf_table t = true -> same_colnames d t = true -> cols_rowid_ok columns = true ->
  keys_plain kw = true -> nodup_keys kw = true ->
  f10_class kw = false -> f11_class d tn kw = false ->
  spec_get d columns tn kw = Ok out ->
  get_top d columns tn kw = Ok out.
Proof. exact outside_findings_ok. Qed.
Print Assumptions C17_outside_findings.

(* 1901 values in three pieces, sorted like the table, combined with a second condition *)
Example C17_outside_findings_nonvacuous :
  let kw := [("serial", CList (ints 1 1901)); ("no_name", CList [PStr "N"])] in
  find_table "ATOM" (tables ex_db2) = Some ex_table /\ wf_table ex_table = true /\ same_colnames ex_db2 ex_table = true /\
  keys_plain kw = true /\ nodup_keys kw = true /\ f10_class kw = false /\ f11_class ex_db2 "ATOM" kw = false /\
  spec_get ex_db2 "rowID" "ATOM" kw = Ok (pos [1; 3]) /\ get_top ex_db2 "rowID" "ATOM" kw = Ok (pos [1; 3]) /\
  get_top ex_db2 "serial" "ATOM1" [("serial", CList (ints 1 1901))] = Ok (pos [11; 12]).
Proof. vm_compute. repeat split. Qed.

(* the documented error, for every list length: names valid, conditions in the domain, pieces
   together above 999 -> both the specification and the model answer ValueError *)
Theorem C17_outside_findings_error : forall d columns tn kw t,
  find_table tn (tables d) = Some t ->
  wf_table t = true -> same_colnames d t = true ->
  keys_plain kw = true -> nodup_keys kw = true -> f10_class kw = false ->
  limit_error kw = "ValueError" ->
  (exists sel, spec_attrs t columns = Ok sel) -> (exists cs, spec_conds d tn kw = Ok (t, cs)) ->
  Z.ltb sql_limit_src (spec_total kw) = true ->
  spec_get d columns tn kw = Err "ValueError" /\ get_top d columns tn kw = Err "ValueError".
Proof. exact outside_findings_err. Qed.
Print Assumptions C17_outside_findings_error.

Example C17_outside_findings_error_nonvacuous :
  let kw := [("serial", CList (ints 1 1901)); ("resSeq", CList (ints 1 50)); ("chainID", CScalar (PStr "A"))] in
  keys_plain kw = true /\ nodup_keys kw = true /\ f10_class kw = false /\ limit_error kw = "ValueError" /\
  (exists sel, spec_attrs ex_table "x,y" = Ok sel) /\ (exists cs, spec_conds ex_db "ATOM" kw = Ok (ex_table, cs)) /\
  Z.ltb sql_limit_src (spec_total kw) = true /\ get_top ex_db "x,y" "ATOM" kw = Err "ValueError".
Proof. vm_compute. repeat split; eexists; reflexivity. Qed.

(* the rows of the other tables never influence the answer *)
Theorem C17_never_other_table : forall fuel d1 d2 columns tn kw,
  valid_colnames d1 = valid_colnames d2 -> nmodel d1 = nmodel d2 ->
  find_table tn (tables d1) = find_table tn (tables d2) ->
  get_model fuel d1 columns tn kw = get_model fuel d2 columns tn kw.
Proof. exact never_other_table. Qed.
Print Assumptions C17_never_other_table.

Example C17_never_other_table_nonvacuous :
  let d2' := mkDb [("ATOM", ex_table); ("ATOM1", ex_table)] 0 in
  valid_colnames ex_db2 = valid_colnames d2' /\ find_table "atom" (tables ex_db2) = find_table "atom" (tables d2') /\
  find_table "ATOM1" (tables ex_db2) <> find_table "ATOM1" (tables d2').
Proof. vm_compute. repeat split. discriminate. Qed.

(* the limits and their comparisons are the ones read from the source on this run
   (regions const, sql_get_consts, sql_tablenames) *)
Theorem C17_built_from_source :
  sql_limit = sql_limit_src /\ max_sql_values = max_sql_values_src /\ chunk_cmp_src = ">" /\ limit_cmp_src = ">" /\
  (forall k l rest acc, cond_loop ((k, CList l) :: rest) acc =
       let '(neg, k') := key_of k in
       if Z.ltb max_sql_values_src (Z.of_nat (List.length l)) then LChunk k' (chunks (Z.to_nat max_sql_values_src) l)
       else if String.eqb k' rowid_key_src then
              match mapM rowid_shift l with Ok l' => cond_loop rest ((k', neg, l') :: acc) | Err e => LErr e end
            else cond_loop rest ((k', neg, l) :: acc)) /\
  many_first_table_src = "ATOM" /\ many_table_prefix_src = "ATOM".
Proof.
  destruct get_built_from_source as (_ & _ & _ & _ & _ & _ & A & B & C & D & E & _).
  destruct views_built_from_source as (_ & _ & _ & _ & _ & _ & F & G).
  repeat split; assumption.
Qed.
Print Assumptions C17_built_from_source.

(* ---- the full statement is false of the faithful model: witnesses ---- *)
(* F10: a negated list of 951 values never terminates (fuel exhausted = RecursionError) *)
Theorem C17_negated_long_refuted :
  let kw := [("no_serial", CList (ints 100 951))] in
  f10_class kw = true /\
  spec_get ex_db "rowID" "ATOM" kw = Ok (pos [0; 1; 2; 3]) /\
  get_top ex_db "rowID" "ATOM" kw = Err "RecursionError" /\
  get_model 50 ex_db "rowID" "ATOM" kw = Err "RecursionError".
Proof. vm_compute. repeat split. Qed.

(* F11: a value repeated in two pieces duplicates its row; an unsorted list returns piece order *)
Theorem C17_duplicates_refuted :
  let kw := [("serial", CList (PInt 1 :: ints 100 950 ++ [PInt 1]))] in
  f11_class ex_db "ATOM" kw = true /\
  spec_get ex_db "rowID" "ATOM" kw = Ok (pos [0]) /\ get_top ex_db "rowID" "ATOM" kw = Ok (pos [0; 0]).
Proof. vm_compute. repeat split. Qed.
Theorem C17_chunk_order_refuted :
  let kw := [("serial", CList (PInt 4 :: ints 100 950 ++ [PInt 2]))] in
  f11_class ex_db "ATOM" kw = true /\
  spec_get ex_db "rowID" "ATOM" kw = Ok (pos [1; 3]) /\ get_top ex_db "rowID" "ATOM" kw = Ok (pos [3; 1]).
Proof. vm_compute. repeat split. Qed.

(* F21: over the limit with a numeric scalar condition the error is not the documented one *)
Theorem C17_limit_error_refuted :
  let kw := [("serial", CList (ints 1 950)); ("resSeq", CList (ints 1 50)); ("model", CScalar (PInt 0))] in
  spec_get ex_db "x" "ATOM" kw = Err "ValueError" /\ get_top ex_db "x" "ATOM" kw = Err "TypeError".
Proof. vm_compute. repeat split. Qed.

(* F22: attribute names are validated against the first table *)
Theorem C17_first_table_validation_refuted :
  let d := fst (add_column_model ex_db2 "w" "FLOAT" (PInt 0) "ATOM1") in
  spec_get d "w" "ATOM1" [] = Ok [PV (VReal 0); PV (VReal 0)] /\ get_top d "w" "ATOM1" [] = Err "ValueError".
Proof. vm_compute. repeat split. Qed.

(* the documented error, at 999 / 1000 values *)
Example C17_limit_boundary :
  get_top ex_db "rowID" "ATOM" [("serial", CList (ints 1 950)); ("resSeq", CList (ints 1 49))] = Ok (pos [0; 1; 2; 3]) /\
  get_top ex_db "rowID" "ATOM" [("serial", CList (ints 1 950)); ("resSeq", CList (ints 1 50))] = Err "ValueError" /\
  spec_get ex_db "rowID" "ATOM" [("serial", CList (ints 1 950)); ("resSeq", CList (ints 1 50))] = Err "ValueError" /\
  get_top ex_db "rowID" "ATOM" [("serial", CList (ints 1 951)); ("resSeq", CList (ints 1 50))] = Err "ValueError" /\
  spec_get ex_db "rowID" "ATOM" [("serial", CList (ints 1 951)); ("resSeq", CList (ints 1 50))] = Err "ValueError" /\
  get_top ex_db "rowID" "ATOM" [("serial", CList (ints 1 2851))] = Ok (pos [0; 1; 2; 3]).
Proof. vm_compute. repeat split. Qed.
