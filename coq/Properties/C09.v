(* C09 — alternative routes agree; zone files round-trip.
   The zone-line format is regenerated from StructureSimilarity._write_zone (Generated_zone.v). *)
From Verif Require Import PyLib ModelTypes Generated_zone Model_contact Model_superpose Model_zone Model_rmsd Proofs_zone Proofs_routes Proofs_contact_c05 Proofs_zone_source Proofs_contact_c08 Proofs_fnat_routes Proofs_routes_l.
Open Scope string_scope.

(* every chain identifier that is one character, not blank and not '-', and EVERY integer residue
   number (zero and negatives included): the line written is read back as exactly (chain, number) *)
Theorem C09_zone_line_roundtrip : forall c z prev, zone_char c = true ->
  read_zone_line prev (zone_line (String c "") z) = Ok (String c "", z).
Proof. exact zone_line_roundtrip. Qed.
Print Assumptions C09_zone_line_roundtrip.

(* a whole zone file written by the library is read back, by the shared reader, as exactly the
   zone that was written — which is also the in-memory zone the routines use when no file is given
   (resData is built by the same grouping): the three zone sources are interchangeable *)
Theorem C09_zone_source_irrelevant : forall zone, zone_ok zone ->
  read_zone (write_zone zone) = Ok (resdata_of zone).
Proof. exact zone_file_roundtrip. Qed.
Print Assumptions C09_zone_source_irrelevant.

(* the alphabet of the quantifier is inside the theorem's domain *)
Theorem C09_alnum_chains_ok :
  forallb zone_char (list_ascii_of_string "ABCDEFGHIJKLMNOPQRSTUVWXYZabcdefghijklmnopqrstuvwxyz0123456789") = true.
Proof. vm_compute. reflexivity. Qed.

(* the writer publishes the file atomically (temporary file + os.replace), as C16 requires *)
Theorem C09_zone_written_atomically : zone_write_atomic_src = true.
Proof. reflexivity. Qed.

(* fast = SQL for the i-RMSD: when decoy and reference list the same atoms (chain, residue number, residue name, atom
   name) in the same order, each once, both routes fit and measure on the SAME coordinate lists — the backbone atoms
   of the zone residues of each structure in file order — for any zone, whether checking is on or off, and hence
   report the same value for the same rotation *)
Theorem C09_fast_route_coordinates : forall rmat z check enforce decoy ref, aligned decoy ref ->
  let xd := map pos_of (in_zone_atoms bb4 (resdata_of z) decoy) in
  let xr := map pos_of (in_zone_atoms bb4 (resdata_of z) ref) in
  irmsd_fast rmat z check enforce decoy ref = msd (superpose_selection rmat xd xr xd) xr.
Proof. exact irmsd_fast_aligned. Qed.
Theorem C09_sql_route_coordinates : forall rmat z decoy ref, aligned decoy ref ->
  let xd := map pos_of (in_zone_atoms bb4 (resdata_of z) decoy) in
  let xr := map pos_of (in_zone_atoms bb4 (resdata_of z) ref) in
  irmsd_sql rmat (izone_rows_from_zone z ref) decoy ref
  = match xd with [] => Err "ValueError" | _ => msd (map (mv rmat) (centred xd)) (centred xr) end.
Proof. exact irmsd_sql_aligned. Qed.
Theorem C09_irmsd_routes_agree_partial : forall rmat z check enforce decoy ref m m', aligned decoy ref ->
  irmsd_fast rmat z check enforce decoy ref = Ok m ->
  irmsd_sql rmat (izone_rows_from_zone z ref) decoy ref = Ok m' -> (m == m')%Q.
Proof. exact irmsd_routes_agree. Qed.
Print Assumptions C09_irmsd_routes_agree_partial.

(* the SQL i-RMSD and the zone source: the reference rows the routine selects when it computes the interface itself
   (izone=None) are the rows it selects from the zone compute_izone produces (the content of the zone file, by
   C09_zone_source_irrelevant) — for any two-chain reference whose residue numbers designate one residue per chain *)
Theorem C09_sql_zone_source_irrelevant : forall cutoff ref c1 c2, (0 <= cutoff)%Q -> wf ref -> get_chains ref = [c1; c2] ->
  (forall a b, In a ref -> In b ref -> chain a = chain b -> resSeq a = resSeq b -> resName a = resName b) ->
  (do z <- compute_izone cutoff ref; Ok (izone_rows_from_zone z ref)) = izone_rows_computed cutoff ref.
Proof. exact sql_rows_from_computed_zone. Qed.
Print Assumptions C09_sql_zone_source_irrelevant.

(* fast = SQL for the L-RMSD, same setting (same atoms, same order), with the ligand zone the library computes from the
   reference, whenever the two routes pick the same long chain — they choose it by different counts (reference atoms vs
   selected decoy atoms, ties to the second chain), and where that differs is known finding F5 *)
Theorem C09_lrmsd_routes_agree_partial : forall decoy ref c1 c2 names, aligned decoy ref -> get_chains ref = [c1; c2] ->
  Nat.ltb (List.length (sel names decoy c2)) (List.length (sel names decoy c1))
  = negb (Nat.ltb (List.length (chain_atoms ref c1)) (List.length (chain_atoms ref c2))) ->
  compute_lzone ref = Ok (lz ref c1 c2) /\
  forall rmat check enforce m m',
    lrmsd_fast rmat (lz ref c1 c2) check enforce names decoy ref = Ok m ->
    lrmsd_sql rmat enforce names decoy ref = Ok m' -> (m == m')%Q.
Proof. exact lrmsd_routes_agree_full. Qed.
Print Assumptions C09_lrmsd_routes_agree_partial.

(* fast = SQL for Fnat: both routes equal the same specification (C08_fnat_fast_exact, C08_fnat_sql_exact); whenever the fast
   reader's view of the decoy text is the decoy table, they return the same value, or the same error *)
Theorem C09_fnat_routes_agree : forall cutoff ref dec lines c1 c2,
  wf ref -> wf dec -> get_chains ref = [c1; c2] -> get_chains dec = [c1; c2] ->
  fast_read lines = Ok dec -> every_residue_has_heavy dec ->
  compute_fnat_fast cutoff ref lines = compute_fnat_pdb2sql cutoff dec ref.
Proof. exact fnat_routes_agree. Qed.
Print Assumptions C09_fnat_routes_agree.

(* PARTIAL: for structures that are not aligned (missing atoms, permuted records) fast = SQL follows from C07 (both
   routes pair by identity — the fast one only under the same-relative-order condition, F6 — and report the kernel
   residual), and svd = quaternion from C06_methods_agree (both kernels attain the same minimum); all are decided on every run by running all call forms of each measure.
   The L-RMSD routes differ on ambiguous chain sizes: known finding F5. *)
Example C09_example :
  write_zone [("A", 4%Z); ("A", (-2)%Z); ("b", 0%Z)] = "zone A4-A4
zone A-2-A-2
zone b0-b0
" /\ read_zone (write_zone [("A", 4%Z); ("A", (-2)%Z); ("b", 0%Z)]) = Ok [("A", [4; -2]%Z); ("b", [0%Z])].
Proof. vm_compute. split; reflexivity. Qed.
