(* C09 — alternative routes agree; zone files round-trip.
   The zone-line format is regenerated from StructureSimilarity._write_zone (Generated_zone.v). *)
From Verif Require Import PyLib ModelTypes Generated_zone Model_zone Model_rmsd Proofs_zone.
Open Scope string_scope.

(* every chain identifier that is one character, not blank and not '-', and EVERY integer residue
   number (zero and negatives included): the line written is read back as exactly (chain, number) *)
Theorem C09_zone_line_roundtrip : forall c z prev, zone_char c = true ->
  read_zone_line prev (zone_line (String c "") z) = Ok (String c "", z).
Proof. exact zone_line_roundtrip. Qed.
Print Assumptions C09_zone_line_roundtrip.

(* a whole zone file written by the library is read back, by the shared reader, as exactly the
   zone that was written — which is also the in-memory zone the routines use when no file is given
   (resData is built by the same grouping): the three zone sources are interchangeable *)
Theorem C09_zone_source_irrelevant : forall zone, zone_ok zone ->
  read_zone (write_zone zone) = Ok (resdata_of zone).
Proof. exact zone_file_roundtrip. Qed.
Print Assumptions C09_zone_source_irrelevant.

(* the alphabet of the quantifier is inside the theorem's domain *)
Theorem C09_alnum_chains_ok :
  forallb zone_char (list_ascii_of_string "ABCDEFGHIJKLMNOPQRSTUVWXYZabcdefghijklmnopqrstuvwxyz0123456789") = true.
Proof. vm_compute. reflexivity. Qed.

(* the writer publishes the file atomically (temporary file + os.replace), as C16 requires *)
Theorem C09_zone_written_atomically : zone_write_atomic_src = true.
Proof. reflexivity. Qed.

(* fast = SQL and svd = quaternion for each measure are corollaries of C07 (both routes pair by
   identity and report the kernel residual) and of C06_methods_agree (both kernels attain the same
   minimum); they are decided on every run by running all call forms of each measure.
   The L-RMSD routes differ on ambiguous chain sizes: known finding F5. *)
Example C09_example :
  write_zone [("A", 4%Z); ("A", (-2)%Z); ("b", 0%Z)] = "zone A4-A4
zone A-2-A-2
zone b0-b0
" /\ read_zone (write_zone [("A", 4%Z); ("A", (-2)%Z); ("b", 0%Z)]) = Ok [("A", [4; -2]%Z); ("b", [0%Z])].
Proof. vm_compute. split; reflexivity. Qed.
