(* C20 — File-backed databases: complete or empty at any crash; file names are data.
   Only statements, each closed by [exact] (or a two-line glue proof), followed by Print Assumptions.
   Model: Model_fs.v (abstract file system; SQLite connection = durable image + pending transaction,
   Python sqlite3 legacy transaction mode; crash = the file system survives, process memory does not;
   SQLite's atomic COMMIT and hot-journal rollback are the named oracle).  Spec: Spec_fs.v. *)
From Verif Require Import PyLib ModelTypes Model_fs Spec_fs Proofs_fs_base Proofs_fs_c20 Proofs_fs_spec
  Generated_fs Proofs_fs_sites.
Open Scope string_scope.
Open Scope list_scope.

(* For EVERY initial directory, EVERY scenario (any name, any atoms, any sequence of modifiers and
   commits, keep or remove) and EVERY crash point k (= number of intercepted actions already executed;
   k beyond the end = the scenario ran to completion): what a fresh reader finds at the name after the
   crash is allowed by the specification for the scenario step in progress — the complete
   last-committed table, or, when nothing was committed yet, no atoms (or the file that was there
   before, while the creation has not yet removed it). *)
Theorem C20_crash_atomic : forall (fs0 : fsys) (sc : scenario) (k : nat),
  Allowed (observe fs0 (sc_name sc)) sc
          (group_of (c20_groups (is_some (fs0 (sc_name sc))) sc) k)
          (observe (recover (crash (fst (run_n k (world0 fs0) (c20_script sc)))) (sc_name sc)) (sc_name sc)).
Proof. exact crash_atomic. Qed.
Print Assumptions C20_crash_atomic.

(* the property statement read literally ("either no atoms or the complete last-committed table") *)
Theorem C20_crash_complete_or_empty : forall (fs0 : fsys) (sc : scenario) (k : nat),
  Allowed_literal (observe fs0 (sc_name sc)) sc
          (group_of (c20_groups (is_some (fs0 (sc_name sc))) sc) k)
          (observe (recover (crash (fst (run_n k (world0 fs0) (c20_script sc)))) (sc_name sc)) (sc_name sc)).
Proof. intros. left. exact (crash_atomic fs0 sc k). Qed.
Print Assumptions C20_crash_complete_or_empty.

(* "never part of one": whatever is recovered is no atoms, the untouched old file, or a table the
   object held, complete, after one of its steps *)
Theorem C20_never_partial : forall (fs0 : fsys) (sc : scenario) (k : nat),
  let o := observe (recover (crash (fst (run_n k (world0 fs0) (c20_script sc)))) (sc_name sc)) (sc_name sc) in
  no_atoms o \/ o = observe fs0 (sc_name sc) \/ exists i, o = OTable (s_tab (spec_after sc i)).
Proof. exact never_partial. Qed.
Print Assumptions C20_never_partial.

(* close(keep): any reader opens the file to exactly the table the object held; no journal is left *)
Theorem C20_close_keep_exact : forall (fs0 : fsys) (sc : scenario),
  sc_keep sc = true ->
  observe (w_fs (final_world fs0 sc)) (sc_name sc) = OTable (final_table sc)
  /\ (fs0 (jpath (sc_name sc)) = None -> w_fs (final_world fs0 sc) (jpath (sc_name sc)) = None).
Proof. exact close_keep_exact. Qed.
Print Assumptions C20_close_keep_exact.

(* close(remove): exactly that file is removed; every other path is as it was *)
Theorem C20_close_remove_only_that_file : forall (fs0 : fsys) (sc : scenario),
  sc_keep sc = false ->
  w_fs (final_world fs0 sc) (sc_name sc) = None
  /\ (forall p, p <> sc_name sc -> p <> jpath (sc_name sc) -> w_fs (final_world fs0 sc) p = fs0 p)
  /\ (fs0 (jpath (sc_name sc)) = None -> w_fs (final_world fs0 sc) (jpath (sc_name sc)) = None).
Proof. exact close_remove_only_that_file. Qed.
Print Assumptions C20_close_remove_only_that_file.

(* File names are data: for EVERY name (an opaque string: spaces, quotes, $ ; & | * ? ( ) or a leading
   dash make no difference), at EVERY crash point, every path other than the name and its journal is
   exactly as it was; and every action of the script is a test/read, a removal of exactly that name,
   or an action on the one connection opened on exactly that name (no other kind of action exists in
   a script: in particular none runs a command). *)
Theorem C20_names_are_data : forall (fs0 : fsys) (sc : scenario) (k : nat) (p : path),
  p <> sc_name sc -> p <> jpath (sc_name sc) ->
  w_fs (fst (run_n k (world0 fs0) (c20_script sc))) p = fs0 p.
Proof. exact names_are_data. Qed.
Print Assumptions C20_names_are_data.

Theorem C20_script_names_only_that_file : forall (fs0 : fsys) (sc : scenario),
  Forall (act_local sc) (c20_flat (is_some (fs0 (sc_name sc))) sc).
Proof. exact flat_local. Qed.
Print Assumptions C20_script_names_only_that_file.

(* the journal of a file is a different path, whatever the name *)
Theorem C20_journal_is_another_path : forall p : path, jpath p <> p.
Proof. exact jpath_neq. Qed.

(* the executable specification the harness evaluates decides the stated one *)
Theorem C20_spec_executable : forall o0 sc g o,
  (allowedb o0 sc g o = true <-> Allowed o0 sc g o) /\
  (allowed_literalb o0 sc g o = true <-> Allowed_literal o0 sc g o).
Proof. intros. split; [apply allowedb_iff | apply allowed_literalb_iff]. Qed.
Print Assumptions C20_spec_executable.

(* ---- the static side, about TODAY's source text (Generated_fs.v is regenerated from /repo on every
   run): the call-site table equals the one the scripts were written from; no call site runs a
   command; the only removals name self.sqlfile; connections are ':memory:' or self.sqlfile ---- *)
Theorem C20_callsites_as_modelled : callsites_src = model_callsites.
Proof. exact callsites_match. Qed.
Print Assumptions C20_callsites_as_modelled.

Theorem C20_no_command_is_run : sites_where is_shell callsites_src = [].
Proof. exact no_shell_site. Qed.

Theorem C20_removals_name_only_sqlfile :
  map (fun s => (cs_func s, cs_path s)) (sites_where is_remove callsites_src)
  = [("pdb2sql_base._close", "self.sqlfile"); ("pdb2sql._create_sql", "self.sqlfile")].
Proof. exact remove_sites. Qed.

Theorem C20_connections :
  map (fun s => (cs_func s, cs_path s)) (sites_where is_connect callsites_src)
  = [("pdb2sql._create_sql", "':memory:'"); ("pdb2sql._create_sql", "self.sqlfile")].
Proof. exact connect_sites. Qed.


(* ---- non-vacuity: a concrete scenario with an odd name, a pre-existing old database, a commit, a
   modification after it and a schema change; crash points in every phase ---- *)
Definition ex_name : path := "a b;$(touch X)'*.db".
Definition ex_rows : list (list cell) :=
  [[CInt 1; CText "N"; CText ""; CText "ALA"; CText "B"; CInt 1; CText ""; CReal 1 8; CReal 0 1; CReal 5 2; CReal 1 1; CReal 10 1; CText "N"; CInt 0];
   [CInt 2; CText "CA"; CText ""; CText "ALA"; CText "A"; CInt 1; CText ""; CReal 3 8; CReal 1 1; CReal 7 2; CReal 1 1; CReal 10 1; CText "C"; CInt 0]].
Definition ex_sc : scenario :=
  mkSc ex_name None ex_rows true
       [SModify (MUpdCol "x" [CReal 9 1] None); SCommit; SModify (MAddCol "q" "FLOAT" (CReal 0 1));
        SModify (MUpdate ["x"; "y"] [[CReal 4 1; CReal 4 1]] (Some [1%Z]))] true.
Definition ex_old : table := mkTable ["a"] [[CInt 7]].
Definition ex_fs : fsys := fs_set (fs_set (fun _ => None) "victim.txt" (Some (FText "v"))) ex_name (Some (FDb (Some ex_old))).
Definition ex_at (k : nat) : outcome :=
  observe (recover (crash (fst (run_n k (world0 ex_fs) (c20_script ex_sc)))) ex_name) ex_name.

Example C20_example_points :
  ex_at 0 = OTable ex_old                                   (* nothing done yet: the old file *)
  /\ ex_at 2 = ONoFile                                      (* removed, not yet connected *)
  /\ ex_at 4 = OTable (mkTable atom_cols [])                (* table created, atoms pending *)
  /\ no_atoms (ex_at 18)                                    (* just before the commit: still no atoms *)
  /\ (exists t, ex_at 19 = OTable t /\ List.length (t_rows t) = 2%nat /\ t = s_tab (spec_after ex_sc 2))
  /\ ex_at 20 = OTable (s_tab (spec_after ex_sc 3))         (* post-commit ALTER TABLE: durable at once *)
  /\ ex_at 27 = OTable (s_tab (spec_after ex_sc 3))         (* update pending: the committed table *)
  /\ ex_at 29 = OTable (final_table ex_sc)                  (* closed in keep mode *)
  /\ group_of (c20_groups true ex_sc) 18 = 2%nat /\ group_of (c20_groups true ex_sc) 27 = 5%nat
  /\ List.length (c20_flat true ex_sc) = 29%nat.
Proof. vm_compute. repeat split. eexists. repeat split. Qed.
