(* C05 — Contact atoms: exactly the atoms within the cutoff of the other chain.
   Only statements, each closed by [exact], followed by Print Assumptions.

   Reading guide.  [get_contact_atoms close only_bb exclH s allchains chain1 chain2 extend] (Model_contact.v) is
   the literal model of interface.get_contact_atoms on the ATOM table s; it returns both possible
   answers (the per-chain dictionary and the pair map).  [close] is the distance test; the theorems hold
   for EVERY symmetric test, the executable instance is [closeQ cutoff] (regenerated comparison
   operator, Generated_contact.contact_test_src).  [spec_atoms_dict], [spec_pairs], [contact_atom],
   [contact_pair] are the specification (Spec_contact.v).  [wf s]: row ids strictly increase along the
   table.  Unbounded numbers of chains and atoms, all option combinations (only_bb, exclH are
   universally quantified; return_contact_pairs selects a component of the result). *)
From Coq Require Import Permutation.
From Verif Require Import PyLib Model_contact Spec_contact Proofs_contact_lists Proofs_contact_spec Proofs_contact_c05.
Open Scope Z_scope.
Open Scope list_scope.

(* Two requested chains: both answers are exactly the specified ones (as lists, in order). *)
Theorem C05_two_chain_atoms_exact : forall close only_bb exclH s c1 c2,
  symmetric close -> wf s -> c1 <> c2 -> present s c1 -> present s c2 ->
  exists pm, get_contact_atoms close only_bb exclH s false c1 c2 false =
             Ok ([(c1, spec_atoms close only_bb exclH s [c1; c2] c1);
                  (c2, spec_atoms close only_bb exclH s [c1; c2] c2)], pm).
Proof. intros. eexists. exact (two_chain_exact close only_bb exclH s c1 c2 H H0 H1 H2 H3). Qed.
Print Assumptions C05_two_chain_atoms_exact.

Theorem C05_two_chain_pairs_exact : forall close only_bb exclH s c1 c2,
  symmetric close -> wf s -> c1 <> c2 -> present s c1 -> present s c2 ->
  exists ic, get_contact_atoms close only_bb exclH s false c1 c2 false =
             Ok (ic, spec_pairs close only_bb exclH s [c1; c2]).
Proof. intros. eexists. exact (two_chain_exact close only_bb exclH s c1 c2 H H0 H1 H2 H3). Qed.
Print Assumptions C05_two_chain_pairs_exact.

(* the members of the specified lists are exactly the atoms of the statement *)
Theorem C05_spec_atoms_meaning : forall near only_bb exclH s cs c i,
  In i (spec_atoms near only_bb exclH s cs c) <-> exists a, idx a = i /\ contact_atom near only_bb exclH s cs c a.
Proof. exact spec_atoms_In. Qed.
Print Assumptions C05_spec_atoms_meaning.

(* the executable instance: distance <= cutoff over exact rationals *)
Theorem C05_two_chain_exact_Q : forall cutoff only_bb exclH s c1 c2,
  wf s -> c1 <> c2 -> present s c1 -> present s c2 ->
  get_contact_atoms (closeQ cutoff) only_bb exclH s false c1 c2 false =
  Ok (spec_atoms_dict (withinb cutoff) only_bb exclH s [c1; c2], spec_pairs (withinb cutoff) only_bb exclH s [c1; c2]).
Proof. exact two_chain_exact_Q. Qed.
Print Assumptions C05_two_chain_exact_Q.

Theorem C05_missing_chain_rejected : forall close only_bb exclH s c1 c2 ext,
  ~ (present s c1 /\ present s c2) -> get_contact_atoms close only_bb exclH s false c1 c2 ext = Err "ValueError".
Proof. exact missing_chain_rejected. Qed.
Print Assumptions C05_missing_chain_rejected.

(* Swapping the roles of the two chains transposes the pair map and keeps the per-chain atom sets. *)
Theorem C05_swap_transposes : forall close only_bb exclH s c1 c2,
  symmetric close -> wf s -> c1 <> c2 -> present s c1 -> present s c2 ->
  exists A1 A2 pm12 pm21,
    get_contact_atoms close only_bb exclH s false c1 c2 false = Ok ([(c1, A1); (c2, A2)], pm12) /\
    get_contact_atoms close only_bb exclH s false c2 c1 false = Ok ([(c2, A2); (c1, A1)], pm21) /\
    (forall k, In k (map fst pm12) \/ In k (map fst pm21) -> exists a, In a s /\ idx a = k) /\
    forall a b, In a s -> In b s ->
      (In (idx b) (dlook Z.eqb (idx a) pm12) <-> In (idx a) (dlook Z.eqb (idx b) pm21)).
Proof. exact swap_transposes. Qed.
Print Assumptions C05_swap_transposes.

(* All chains: a chain's contact atoms are the union over all other chains ... *)
Theorem C05_allchains_atoms_exact : forall close only_bb exclH s c1 c2,
  symmetric close -> wf s -> (2 <= List.length (get_chains s))%nat ->
  exists pm, get_contact_atoms close only_bb exclH s true c1 c2 false =
             Ok (spec_atoms_dict close only_bb exclH s (get_chains s), pm).
Proof. exact allchains_atoms_exact. Qed.
Print Assumptions C05_allchains_atoms_exact.

(* ... and the pair map contains every contacting pair of atoms of two different chains exactly once,
   listed under the atom whose chain comes first. *)
Theorem C05_allchains_pairs_exact : forall close only_bb exclH s c1 c2 ic pm,
  symmetric close -> wf s -> (2 <= List.length (get_chains s))%nat ->
  get_contact_atoms close only_bb exclH s true c1 c2 false = Ok (ic, pm) ->
  let cs := get_chains s in
  NoDup (map fst pm) /\ (forall k l, In (k, l) pm -> l <> [] /\ exists a, In a s /\ idx a = k) /\
  (forall a, In a s -> Permutation (dlook Z.eqb (idx a) pm) (dlook Z.eqb (idx a) (spec_pairs close only_bb exclH s cs))) /\
  (forall a b, In a s -> In b s -> (In (idx b) (dlook Z.eqb (idx a) pm) <-> contact_pair close only_bb exclH s cs a b)) /\
  (forall a, In a s -> NoDup (dlook Z.eqb (idx a) pm)).
Proof. exact allchains_pairs_exact. Qed.
Print Assumptions C05_allchains_pairs_exact.

(* the chain list of an all-chains request: each chain of the table once *)
Theorem C05_chain_list : forall s c, (In c (get_chains s) <-> present s c) /\ NoDup (get_chains s).
Proof. intros s c. split; [exact (get_chains_In s c) | exact (get_chains_NoDup s)]. Qed.
Print Assumptions C05_chain_list.

(* A pair at exactly the cutoff distance counts (proved about the regenerated comparison:
   replacing <= by < in interface.py makes this proof fail). *)
Theorem C05_cutoff_inclusive : forall (c : Q) a b,
  (0 <= c)%Q -> (sqdist a b == c * c)%Q -> closeQ c a b = true.
Proof. exact cutoff_inclusive. Qed.
Print Assumptions C05_cutoff_inclusive.

Theorem C05_cutoff_decision : forall (c : Q) a b, closeQ c a b = true <-> within c a b.
Proof. exact cutoff_decision. Qed.
Print Assumptions C05_cutoff_decision.

(* non-vacuity: a three-chain table with a hydrogen, a pair at exactly 3 A and a chain without contact *)
Definition ex_s : structure :=
  [ mkAtom 0 "A" "ALA" 1 "CA" 0 0 0;  mkAtom 1 "A" "ALA" 1 "HB" 1 0 0;
    mkAtom 2 "B" "GLY" (-5) "N" 3 0 0; mkAtom 3 "B" "GLY" (-5) "CB" 0 (18 # 10) (24 # 10);
    mkAtom 4 "C" "SER" 7 "O" 0 0 50 ].
Example C05_example_hypotheses :
  wf ex_s /\ "A" <> "B" /\ present ex_s "A" /\ present ex_s "B" /\ symmetric (closeQ 3) /\
  (2 <= List.length (get_chains ex_s))%nat.
Proof.
  split.
  { unfold wf; simpl.
    repeat (apply Sorted.SSorted_cons || apply Sorted.SSorted_nil || apply Forall_cons || apply Forall_nil || reflexivity). }
  split. { intro H; inversion H. }
  split. { unfold present; simpl; auto. }
  split. { unfold present; simpl; auto. }
  split. { exact (closeQ_sym 3). }
  vm_compute. repeat constructor.
Qed.
Example C05_example_values :
  get_contact_atoms (closeQ 3) false true ex_s false "A" "B" false = Ok ([("A", [0]); ("B", [2; 3])], [(0, [2; 3])]) /\
  get_contact_atoms (closeQ 3) true false ex_s true "" "" false = Ok ([("A", [0]); ("B", [2]); ("C", [])], [(0, [2])]) /\
  closeQ 3 (mkAtom 0 "A" "ALA" 1 "CA" 0 0 0) (mkAtom 2 "B" "GLY" (-5) "N" 3 0 0) = true.
Proof. vm_compute. repeat split. Qed.
