(* C08 — Fnat and clash count equal their definitions; Fnat is a fraction in [0,1].
   Only statements, each closed by [exact], followed by Print Assumptions.

   [compute_fnat_fast], [compute_fnat_pdb2sql], [compute_clashes] are the literal models of the three
   routines (Model_contact.v; the comparison operators, the fast reader's columns, the flags and cutoffs
   passed by the callers are regenerated from StructureSimilarity.py).  [fnat_spec], [reported],
   [clash_spec] are the specification (Spec_contact.v): Fnat = |preserved| / |ref_contacts| over distinct
   residue pairs identified by (chain, number, name); an absent residue has no atoms, hence no contact.
   [fnat_outcome r spec]: r is Ok (the six-decimal rounding of the binary64 quotient of spec's fraction), or
   ZeroDivisionError when the reference has no contact.

   compute_fnat_pdb2sql renames the two chains of both structures to A, B (_fix_chainID); the
   specification is invariant under that renaming (Proofs_contact_c08b.fnat_spec_ren), so the theorem
   holds for any two chain names, the same in reference and decoy. *)
From Verif Require Import PyLib Generated_contact Model_contact Spec_contact Proofs_contact_lists Proofs_contact_spec
  Proofs_contact_c05 Proofs_contact_c14 Proofs_contact_c08 Proofs_contact_c08b.
Open Scope Z_scope.
Open Scope list_scope.

(* the fast route, for every reference complex with two chains and every decoy text the fast reader accepts *)
Theorem C08_fnat_fast_exact : forall cutoff ref lines d c1 c2,
  wf ref -> get_chains ref = [c1; c2] -> fast_read lines = Ok d -> every_residue_has_heavy d ->
  fnat_outcome (compute_fnat_fast cutoff ref lines) (fnat_spec (withinb cutoff) ref d).
Proof. exact fnat_fast_exact. Qed.
Print Assumptions C08_fnat_fast_exact.

Theorem C08_fnat_sql_exact : forall cutoff ref dec c1 c2,
  wf ref -> wf dec -> get_chains ref = [c1; c2] -> get_chains dec = [c1; c2] ->
  fnat_outcome (compute_fnat_pdb2sql cutoff dec ref) (fnat_spec (withinb cutoff) ref dec).
Proof. exact fnat_sql_exact. Qed.
Print Assumptions C08_fnat_sql_exact.

(* the specification does not depend on how the two chains are named *)
Theorem C08_fnat_spec_renaming_invariant : forall cutoff c1 c2 ref dec,
  c1 <> c2 -> get_chains ref = [c1; c2] -> get_chains dec = [c1; c2] ->
  fnat_spec (withinb cutoff) (map (ren (rho c1 c2)) ref) (map (ren (rho c1 c2)) dec) = fnat_spec (withinb cutoff) ref dec.
Proof. intros cutoff c1 c2 ref dec N Hr Hd. exact (fnat_spec_ren (withinb cutoff) (withinb_coord cutoff) c1 c2 N ref dec Hr Hd). Qed.
Print Assumptions C08_fnat_spec_renaming_invariant.

(* the reference contacts the routines use are the specified ones *)
Theorem C08_reference_pairs_exact : forall cutoff ref c1 c2,
  wf ref -> get_chains ref = [c1; c2] ->
  exists rp, compute_residue_pairs_ref cutoff ref = Ok rp /\ NoDup (flat_pairs rp) /\
             Permutation.Permutation (flat_pairs rp) (ref_contacts (withinb cutoff) ref c1 c2).
Proof. exact reference_pairs_exact. Qed.
Print Assumptions C08_reference_pairs_exact.

(* Fnat always lies in [0,1] ... *)
Theorem C08_fnat_in_unit_interval : forall r near ref dec q,
  fnat_outcome r (fnat_spec near ref dec) -> r = Ok q -> (0 <= q <= 1)%Q.
Proof. exact fnat_outcome_unit. Qed.
Print Assumptions C08_fnat_in_unit_interval.

Theorem C08_fnat_spec_is_fraction : forall near ref dec q, fnat_spec near ref dec = Some q -> (0 <= q <= 1)%Q.
Proof. exact fnat_spec_unit. Qed.
Print Assumptions C08_fnat_spec_is_fraction.

(* ... and is 1 when the decoy is the reference (both routes). *)
Theorem C08_fnat_identical_is_one : forall cutoff s lines c1 c2,
  wf s -> get_chains s = [c1; c2] -> fnat_spec (withinb cutoff) s s <> None ->
  (fast_read lines = Ok s -> every_residue_has_heavy s -> compute_fnat_fast cutoff s lines = Ok 1%Q) /\
  compute_fnat_pdb2sql cutoff s s = Ok 1%Q.
Proof. exact fnat_identical_is_one. Qed.
Print Assumptions C08_fnat_identical_is_one.

(* The clash count equals the number of inter-chain pairs of non-hydrogen atoms closer than 3 A — outside
   known finding F18 (a pair at exactly 3.000 A is counted because the inclusive contact test is reused) *)
Theorem C08_clashes_exact : forall s c1 c2,
  wf s -> c1 <> c2 -> present s c1 -> present s c2 -> no_pair_at_exactly_3 s c1 c2 ->
  compute_clashes s c1 c2 = Ok (clash_spec s c1 c2).
Proof. exact clashes_exact. Qed.
Print Assumptions C08_clashes_exact.

Theorem C08_clashes_refuted :
  exists s c1 c2, wf s /\ c1 <> c2 /\ present s c1 /\ present s c2 /\
                  compute_clashes s c1 c2 = Ok 2 /\ clash_spec s c1 c2 = 1.
Proof. exact clashes_refuted. Qed.
Print Assumptions C08_clashes_refuted.

(* the constants the callers pass and the fast reader's columns, as regenerated from the source *)
Theorem C08_caller_constants :
  clash_cutoff_src = 3%Q /\ clash_excludeH_src = true /\ clash_only_backbone_src = false /\
  pairs_ref_excludeH_src = true /\ pairs_ref_only_backbone_src = false /\
  fnat_sql_excludeH_src = true /\ fnat_sql_only_backbone_src = false /\ fnat_sql_fix_chainID_src = true /\
  fnat_fast_cutoff_default_src = 5%Q /\ fnat_sql_cutoff_default_src = 5%Q /\
  fnat_fast_digits_src = 6%nat /\ fnat_sql_digits_src = 6%nat.
Proof. repeat split. Qed.

Theorem C08_fast_reader_columns :
  delim "resSeq" = Some fast_resSeq_src /\ delim "resName" = Some fast_resName_src /\ delim "name" = Some fast_name_src /\
  delim "x" = Some fast_x_src /\ delim "y" = Some fast_y_src /\ delim "z" = Some fast_z_src /\
  delim "chainID" = Some (fast_chain_col_src, S fast_chain_col_src) /\
  fast_prefix_src = Generated_parse.atom_prefix_src /\ fast_H_char_src = contact_H_char_src /\
  (fast_chain_alt_col_src = 72)%nat.
Proof. exact fast_reader_columns. Qed.
Print Assumptions C08_fast_reader_columns.

(* non-vacuity: a two-chain complex with a hydrogen, a decoy text missing the first-chain residue A1 *)
Open Scope string_scope.
Definition ex_ref : structure :=
  [ mkAtom 0 "A" "ALA" 1 "CA" 0 0 0; mkAtom 1 "A" "ALA" 1 "HB" 1 0 0; mkAtom 2 "A" "SER" 2 "CB" 0 4 0;
    mkAtom 3 "B" "GLY" 1 "N" 5 0 0;  mkAtom 4 "B" "GLY" 2 "O" 0 4 3 ].
Definition ex_lines : list string :=
  [ "ATOM      3  CB  SER A   2       0.000   4.000   0.000  1.00  0.00              ";
    "ATOM      4  N   GLY B   1       5.000   0.000   0.000  1.00  0.00              ";
    "ATOM      5  O   GLY B   2       0.000   4.000   3.000  1.00  0.00              " ].
Definition ex_dec : structure :=
  [ mkAtom 0 "A" "SER" 2 "CB" 0 4 0; mkAtom 1 "B" "GLY" 1 "N" 5 0 0; mkAtom 2 "B" "GLY" 2 "O" 0 4 3 ].
Example C08_example :
  get_chains ex_ref = ["A"; "B"] /\
  fast_read ex_lines = Ok ex_dec /\
  fnat_spec (withinb 5) ex_ref ex_dec = Some (1 # 3)%Q /\
  compute_fnat_fast 5 ex_ref ex_lines = Ok (333333 # 1000000)%Q /\
  compute_fnat_pdb2sql 5 ex_ref ex_ref = Ok 1%Q /\
  compute_fnat_pdb2sql 5 (map (fun a => set_chain a (if String.eqb (chain a) "A" then "Y" else "C")) ex_dec)
                         (map (fun a => set_chain a (if String.eqb (chain a) "A" then "Y" else "C")) ex_ref) = Ok (333333 # 1000000)%Q /\
  compute_clashes ex_ref "A" "B" = Ok 1 /\ clash_spec ex_ref "A" "B" = 0.
Proof. vm_compute. repeat split. Qed.

(* the hypotheses of the theorems above hold on these structures *)
Definition ex_cl : structure :=
  [ mkAtom 0 "A" "ALA" 1 "CA" 0 0 0; mkAtom 1 "B" "GLY" 1 "N" 2 0 0; mkAtom 2 "B" "GLY" 1 "O" 0 4 0 ].
Example C08_example_hypotheses :
  wf ex_ref /\ wf ex_dec /\ every_residue_has_heavy ex_dec /\ fnat_spec (withinb 5) ex_ref ex_ref <> None /\
  wf ex_cl /\ present ex_cl "A" /\ present ex_cl "B" /\ no_pair_at_exactly_3 ex_cl "A" "B" /\
  compute_clashes ex_cl "A" "B" = Ok 1.
Proof.
  split. { unfold wf; simpl. repeat (apply Sorted.SSorted_cons || apply Sorted.SSorted_nil || apply Forall_cons || apply Forall_nil || reflexivity). }
  split. { unfold wf; simpl. repeat (apply Sorted.SSorted_cons || apply Sorted.SSorted_nil || apply Forall_cons || apply Forall_nil || reflexivity). }
  split. { intros a [<-|[<-|[<-|[]]]]; eexists; (split; [|split; reflexivity]); simpl; auto. }
  split. { vm_compute. discriminate. }
  split. { unfold wf; simpl. repeat (apply Sorted.SSorted_cons || apply Sorted.SSorted_nil || apply Forall_cons || apply Forall_nil || reflexivity). }
  split. { unfold present; simpl; auto. }
  split. { unfold present; simpl; auto. }
  split. { intros a b [<-|[<-|[<-|[]]]] [<-|[<-|[<-|[]]]] Ca Cb _ _; try discriminate Ca; try discriminate Cb; vm_compute; discriminate. }
  vm_compute. reflexivity.
Qed.
