(* C07 — i-RMSD and L-RMSD equal their definitions, with atoms paired by identity.
   Model: Model_rmsd (hand-written mirror of the four routines of StructureSimilarity.py; the
   rotation kernel is an oracle whose optimality is C06; contacts are Model_contact (C05/C14),
   the superposition step is Model_superpose (C13)).  Spec: Spec_rmsd. *)
From Verif Require Import PyLib ModelTypes Generated_parse Generated_rmsd Model_contact Model_superpose Spec_superpose
  Model_rmsd Spec_rmsd Proofs_superpose Proofs_rmsd Proofs_contact_c05 Proofs_izone Proofs_rigid_rmsd Proofs_superpose_opt Proofs_rmsd_opt Model_zone Proofs_rmsd_def Proofs_rmsd_def2 Proofs_routes_l Proofs_rmsd_def3 Proofs_routes Proofs_rmsd_def4.
Open Scope Q_scope.

(* the three fixed-column readers of the fast routes read today's wwPDB columns (regenerated) *)
Theorem C07_fast_readers_read_wwpdb_columns :
  forallb (fun fr => forallb reader_field_ok (snd fr)) rmsd_reader_cols_src = true
  /\ map fst rmsd_reader_cols_src = ["get_xyz_zone_backbone"; "get_data_zone_backbone"; "_get_xyz"]%string.
Proof. exact rmsd_readers_read_wwpdb_columns. Qed.
Print Assumptions C07_fast_readers_read_wwpdb_columns.

(* SQL route: each reference atom is paired with the decoy atom of the same (chain, residue
   number, atom name), never by position — for any order of the decoy records *)
Theorem C07_sql_pairs_by_identity : forall rows decoy,
  Forall (names_consistent decoy) rows ->
  flat_map (fun r => match first_with_key4 (key4_of r) decoy with Some d => [(pos_of d, pos_of r)] | None => [] end) rows
  = flat_map (fun r => match find (same_atom r) decoy with Some d => [(pos_of d, pos_of r)] | None => [] end) rows.
Proof. exact sql_route_pairs_by_identity. Qed.
Print Assumptions C07_sql_pairs_by_identity.

(* ... so THE SQL i-RMSD IS ITS DEFINITION: for any decoy — records in any order, atoms or residues missing — with the
   reference's two chains and residue names consistent with it, the routine given zone z fits and measures on exactly the
   specification's pairs (backbone atoms of the zone residues of the reference, each with the decoy atom of the same
   chain, residue number and atom name; atoms without a partner left out) *)
Theorem C07_irmsd_sql_is_definition : forall rmat z decoy ref,
  get_chains decoy = get_chains ref ->
  Forall (names_consistent decoy) (izone_rows_from_zone z ref) ->
  irmsd_sql rmat (izone_rows_from_zone z ref) decoy ref
  = (let pairs := irmsd_pairs_spec z decoy ref in
     match pairs with
     | [] => Err "ValueError"
     | _ => msd (map (mv rmat) (centred (map fst pairs))) (centred (map snd pairs))
     end).
Proof. exact irmsd_sql_is_definition. Qed.
Print Assumptions C07_irmsd_sql_is_definition.

(* ... and THE FAST i-RMSD IS ITS DEFINITION under the condition it is written for: identities unique in the decoy and the
   common zone atoms in the same relative order in both files (atoms or residues may be missing on either side); without
   that condition the fast route mis-pairs: C07_fast_pairs_by_identity_refuted, known finding F6 *)
Theorem C07_irmsd_fast_is_definition : forall z decoy ref rmat check enforce b,
  NoDup (map key3_of decoy) -> same_relative_order z decoy ref ->
  (check || enforce)%bool = true -> check_residues enforce None decoy ref = Ok b ->
  irmsd_fast rmat z check enforce decoy ref
  = (let pairs := irmsd_pairs_spec z decoy ref in
     msd (superpose_selection rmat (map fst pairs) (map snd pairs) (map fst pairs)) (map snd pairs)).
Proof. exact irmsd_fast_is_definition'. Qed.
Print Assumptions C07_irmsd_fast_is_definition.

(* THE FAST L-RMSD IS ITS DEFINITION under the same conditions, with the ligand zone the library computes from the reference:
   fit on the identity pairs (atom names as given) of the longer chain of the reference, measure on those of the other chain *)
Theorem C07_lrmsd_fast_is_definition : forall decoy ref c1 c2 names rmat check enforce b,
  NoDup (map key3_of decoy) -> get_chains ref = [c1; c2] ->
  same_order_for (Pin ref c1 c2 names) decoy ref -> same_order_for (Pout ref c1 c2 names) decoy ref ->
  (check || enforce)%bool = true -> check_residues enforce (Some names) decoy ref = Ok b ->
  compute_lzone ref = Ok (lz ref c1 c2) /\
  lrmsd_fast rmat (lz ref c1 c2) check enforce names decoy ref
  = match lrmsd_pairs_spec names decoy ref with
    | Some (fit, meas) => msd (superpose_selection rmat (map fst fit) (map snd fit) (map fst meas)) (map snd meas)
    | None => Err "unreachable"
    end.
Proof. exact lrmsd_fast_is_definition'. Qed.
Print Assumptions C07_lrmsd_fast_is_definition.

(* THE SQL L-RMSD IS ITS DEFINITION — PARTIAL: proved for structures listing the same atoms in the same order (the SQL route
   pairs by position when the residues match, by identity in decoy order otherwise; here only the first case is covered), and
   under the hypothesis that the route picks the long chain the definition names (it counts the selected decoy atoms, the
   definition the reference chain sizes: known finding F5 is where they differ). What is missing for the full statement:
   the identity-pairing branch taken when residues differ (reordering of the sums). *)
Theorem C07_lrmsd_sql_is_definition_partial : forall decoy ref c1 c2 names,
  aligned decoy ref -> NoDup (map key3_of decoy) -> get_chains ref = [c1; c2] ->
  Nat.ltb (List.length (sel names decoy c2)) (List.length (sel names decoy c1))
  = negb (Nat.ltb (List.length (chain_atoms ref c1)) (List.length (chain_atoms ref c2))) ->
  forall rmat enforce m',
    lrmsd_sql rmat enforce names decoy ref = Ok m' ->
    exists fit meas m,
      lrmsd_pairs_spec names decoy ref = Some (fit, meas) /\
      msd (superpose_selection rmat (map fst fit) (map snd fit) (map fst meas)) (map snd meas) = Ok m /\ (m == m')%Q.
Proof. exact lrmsd_sql_is_definition_aligned. Qed.
Print Assumptions C07_lrmsd_sql_is_definition_partial.

Theorem C07_lrmsd_sql_definition_nonvacuous :
  aligned decoy_ex ref_ex /\ NoDup (map key3_of decoy_ex) /\ get_chains ref_ex = ["A"; "B"]%string /\
  Nat.ltb (List.length (sel ["CA"; "C"]%string decoy_ex "B")) (List.length (sel ["CA"; "C"]%string decoy_ex "A"))
  = negb (Nat.ltb (List.length (chain_atoms ref_ex "A")) (List.length (chain_atoms ref_ex "B"))) /\
  lrmsd_sql midentity false ["CA"; "C"]%string decoy_ex ref_ex = Ok 1%Q.
Proof. exact lrmsd_sql_definition_nonvacuous. Qed.
Print Assumptions C07_lrmsd_sql_definition_nonvacuous.

(* atoms missing from the decoy are left out: the specification's pairs are exactly the reference
   atoms of the selection that have a decoy atom of the same identity *)
Theorem C07_missing_atoms_left_out : forall sel decoy ref,
  identity_pairs sel decoy ref
  = flat_map (fun r => match find (same_atom r) decoy with Some d => [(pos_of d, pos_of r)] | None => [] end) (filter sel ref).
Proof. exact identity_pairs_filter. Qed.

(* fast route: by identity whenever the common atoms come in the same relative order in the two
   files (the condition check_residues enforces) ... *)
Theorem C07_fast_pairs_by_identity_partial : forall decoy ref keys,
  map key3_of (filter (fun a => mem key3_eqb (key3_of a) keys) decoy)
  = map key3_of (filter (fun a => mem key3_eqb (key3_of a) keys) ref) ->
  Forall2 (fun d r => key3_of d = key3_of r)
          (filter (fun a => mem key3_eqb (key3_of a) keys) decoy) (filter (fun a => mem key3_eqb (key3_of a) keys) ref).
Proof. exact fast_route_pairs_by_identity. Qed.
(* ... and the unconditional statement is false of the faithful model (known finding F6) *)
Theorem C07_fast_pairs_by_identity_refuted : exists decoy ref keys,
  unique_key3 decoy = true /\ unique_key3 ref = true /\
  (forall k, In k keys -> In k (map key3_of decoy) /\ In k (map key3_of ref)) /\
  ~ Forall2 (fun d r => key3_of d = key3_of r)
            (filter (fun a => mem key3_eqb (key3_of a) keys) decoy) (filter (fun a => mem key3_eqb (key3_of a) keys) ref).
Proof. exact fast_route_positional_refuted. Qed.
Print Assumptions C07_fast_pairs_by_identity_refuted.

(* the reported quantity is the rotation kernel's residual on the centred fitted atoms, divided by
   their number: minimal over rigid motions exactly when the kernel is optimal (C06) *)
Theorem C07_value_is_kernel_residual : forall rmat xd xr m,
  msd (superpose_selection rmat xd xr xd) xr = Ok m ->
  m == resid (map (mv rmat) (centred xd)) (centred xr) / inject_Z (Z.of_nat (List.length xd)).
Proof. exact irmsd_value_is_kernel_residual. Qed.
Print Assumptions C07_value_is_kernel_residual.

(* ... and under that hypothesis the reported value is minimal over ALL rigid motions (any rotation r', any
   translation t') of the mean squared deviation of the paired atoms: the centring the pipelines do is the optimal
   translation for every rotation (centroid decomposition, C13_residual_decomposition) *)
Theorem C07_value_minimal_over_rigid_motions : forall rmat xd xr m,
  (forall r', orthogonal r' ->
     resid (map (mv rmat) (centred xd)) (centred xr) <= resid (map (mv r') (centred xd)) (centred xr)) ->
  msd (superpose_selection rmat xd xr xd) xr = Ok m ->
  forall r' t' m', orthogonal r' -> msd (map (affine r' t') xd) xr = Ok m' -> m <= m'.
Proof. exact value_minimal_over_rigid_motions. Qed.
Print Assumptions C07_value_minimal_over_rigid_motions.

(* a decoy identical to the reference scores 0 *)
Theorem C07_identical_scores_zero : forall rmat P m,
  resid (map (mv rmat) (centred P)) (centred P) <= resid (centred P) (centred P) ->
  msd (superpose_selection rmat P P P) P = Ok m -> m == 0.
Proof. exact identical_scores_zero. Qed.
Print Assumptions C07_identical_scores_zero.

(* the interface zone computed by the library IS the set of reference residues (carrying a backbone
   atom) that have any atom within the cutoff of the partner chain — for every two-chain reference,
   every non-negative cutoff (built on the C05 exactness and C14 closure theorems) *)
Theorem C07_izone_exact : forall cutoff ref c1 c2,
  (0 <= cutoff)%Q -> wf ref -> get_chains ref = [c1; c2] ->
  compute_izone cutoff ref = Ok (izone_spec cutoff ref).
Proof. exact izone_exact. Qed.
Print Assumptions C07_izone_exact.

Example C07_example :
  let r := [mkAtom 0 "A" "ALA" 1 "CA" 0 0 0; mkAtom 1 "A" "ALA" 1 "CB" 1 0 0; mkAtom 2 "B" "GLY" (-2) "N" 3 0 0;
            mkAtom 3 "B" "GLY" (-2) "CA" 4 0 0; mkAtom 4 "B" "SER" 5 "CA" 40 0 0]%string in
  compute_izone 5 r = Ok [("A", 1); ("B", -2)]%string%Z /\ izone_spec 5 r = [("A", 1); ("B", -2)]%string%Z
  /\ compute_lzone r = Ok [("B", -2); ("B", 5)]%string%Z.
Proof. vm_compute. repeat split. Qed.
