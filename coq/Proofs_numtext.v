(* Proofs_numtext.v — int() reads back what str() / '%d' wrote *)
From Coq Require Import Lia ZifyBool.
From Verif Require Import PyLib PyLibFacts Proofs_text Proofs_digits.
Open Scope Z_scope.

Definition digit_char (d : Z) : ascii := ascii_of_nat (Z.to_nat d + 48).

Lemma digit_char_facts d : 0 <= d < 10 ->
  is_digit (digit_char d) = true /\ digit_val (digit_char d) = d /\ is_space (digit_char d) = false
  /\ digit_char d <> "-"%char /\ digit_char d <> "+"%char.
Proof.
  intro H. unfold digit_char.
  assert (C : d = 0 \/ d = 1 \/ d = 2 \/ d = 3 \/ d = 4 \/ d = 5 \/ d = 6 \/ d = 7 \/ d = 8 \/ d = 9) by lia.
  destruct C as [->|[->|[->|[->|[->|[->|[->|[->|[->| ->]]]]]]]]]; vm_compute; repeat split; discriminate.
Qed.

(* value of a digit string read most-significant first, with an accumulator *)
Lemma digits_val_app acc s t : digits_val acc (s ++ t) = digits_val (digits_val acc s) t.
Proof. revert acc. induction s as [|c s IH]; intro acc; cbn; [reflexivity | apply IH]. Qed.

Lemma digits_aux_spec fuel : forall n acc,
  (1 <= fuel)%nat -> 0 <= n < 2 ^ Z.of_nat fuel ->
  exists pre, digits_pos_aux fuel n acc = (pre ++ acc)%string
    /\ all_digits pre = true /\ (forall a, digits_val a pre = a * 10 ^ Z.of_nat (String.length pre) + n)
    /\ (1 <= String.length pre)%nat /\ lstrip pre = pre
    /\ (forall c r, pre = String c r -> c <> "-"%char /\ c <> "+"%char).
Proof.
  induction fuel as [|f IH]; intros n acc Hf Hn; [lia|].
  cbn [digits_pos_aux]. fold (digit_char (n mod 10)).
  pose proof (Z.mod_pos_bound n 10 ltac:(lia)) as Hm.
  destruct (digit_char_facts (n mod 10) Hm) as [D1 [D2 [D3 [D4 D5]]]].
  destruct (n <? 10) eqn:E.
  - exists (String (digit_char (n mod 10)) ""). cbn. rewrite D1, D2, D3.
    rewrite Z.mod_small in * by lia.
    split; [reflexivity|]. split; [reflexivity|]. split; [intro a; lia|]. split; [lia|]. split; [reflexivity|].
    intros c r H. injection H as <- _. split; assumption.
  - assert (Hf' : (1 <= f)%nat).
    { destruct f as [|f']; [|lia]. change (2 ^ Z.of_nat 1) with 2 in Hn. lia. }
    assert (Hn' : 0 <= n / 10 < 2 ^ Z.of_nat f).
    { split; [apply Z.div_pos; lia|].
      replace (Z.of_nat (S f)) with (Z.of_nat f + 1) in Hn by lia.
      rewrite Z.pow_add_r in Hn by lia. change (2 ^ 1) with 2 in Hn.
      apply Z.div_lt_upper_bound; lia. }
    destruct (IH (n / 10) (String (digit_char (n mod 10)) acc) Hf' Hn') as [pre [E1 [A1 [V1 [L1 [S1 N1]]]]]].
    exists (pre ++ String (digit_char (n mod 10)) "")%string.
    split.
    { rewrite E1. clear. induction pre as [|c p IHp]; cbn; [reflexivity | rewrite IHp; reflexivity]. }
    split.
    { clear - A1 D1. induction pre as [|c p IHp]; cbn in *; [rewrite D1; reflexivity|].
      apply andb_prop in A1. destruct A1 as [A B]. rewrite A. apply IHp, B. }
    split.
    { intro a. rewrite digits_val_app, V1. cbn [digits_val]. rewrite D2.
      rewrite length_append. cbn [String.length].
      replace (Z.of_nat (String.length pre + 1)) with (Z.of_nat (String.length pre) + 1) by lia.
      rewrite Z.pow_add_r by lia. change (10 ^ 1) with 10.
      pose proof (Z.div_mod n 10 ltac:(lia)). lia. }
    split.
    { rewrite length_append. lia. }
    split.
    { destruct pre as [|c p]; [cbn in L1; lia|]. cbn in S1 |- *.
      destruct (is_space c); [|reflexivity].
      (* lstrip (String c p) = String c p with is_space c = true is impossible: lstrip is shorter *)
      exfalso. assert (Hl : (String.length (lstrip p) <= String.length p)%nat).
      { clear. induction p as [|d q IHq]; cbn; [lia|]. destruct (is_space d); cbn; lia. }
      rewrite S1 in Hl. cbn in Hl. lia. }
    { intros c r H. destruct pre as [|c' p]; [cbn in L1; lia|]. cbn in H. injection H as <- _.
      apply (N1 c' p eq_refl). }
Qed.

Lemma digits_spec n : 0 <= n ->
  all_digits (digits n) = true /\ digits_val 0 (digits n) = n /\ (1 <= String.length (digits n))%nat
  /\ lstrip (digits n) = digits n
  /\ (forall c r, digits n = String c r -> c <> "-"%char /\ c <> "+"%char).
Proof.
  intro Hn. unfold digits.
  destruct (digits_aux_spec (S (Z.to_nat (Z.log2 n))) n "") as [pre [E [A [V [L [S N]]]]]]; [lia| |].
  { split; [exact Hn|].
    destruct (Z.eq_dec n 0) as [->|NZ]; [reflexivity|].
    pose proof (Z.log2_spec n ltac:(lia)) as [_ H]. pose proof (Z.log2_nonneg n).
    replace (Z.of_nat (S (Z.to_nat (Z.log2 n)))) with (Z.succ (Z.log2 n)) by lia. exact H. }
  assert (Ep : (pre ++ "")%string = pre) by (clear; induction pre as [|c p IH]; cbn; [reflexivity | rewrite IH; reflexivity]).
  rewrite E, Ep. split; [exact A|]. split; [rewrite V; lia|]. split; [exact L|]. split; [exact S|]. exact N.
Qed.

(* ---------------- strip on strings without blanks ---------------- *)
Fixpoint nospace (s : string) : bool :=
  match s with EmptyString => true | String c t => (negb (is_space c) && nospace t)%bool end.

Lemma rev_str_app acc s : rev_str acc s = (rev_str "" s ++ acc)%string.
Proof.
  revert acc. induction s as [|c t IH]; intro acc; cbn; [reflexivity|].
  rewrite (IH (String c acc)), (IH (String c "")).
  clear. induction (rev_str "" t) as [|d r IHr]; cbn; [reflexivity | rewrite IHr; reflexivity].
Qed.
Lemma rev_str_snoc s c : rev_str "" (s ++ String c "") = String c (rev_str "" s).
Proof.
  induction s as [|d t IH]; cbn; [reflexivity|].
  rewrite (rev_str_app (String d "")), IH. cbn. rewrite <- (rev_str_app (String d "")). reflexivity.
Qed.
Lemma rev_str_involutive s : rev_str "" (rev_str "" s) = s.
Proof.
  induction s as [|c t IH]; cbn; [reflexivity|].
  rewrite (rev_str_app (String c "")), rev_str_snoc, IH. reflexivity.
Qed.
Lemma nospace_app s t : nospace (s ++ t) = (nospace s && nospace t)%bool.
Proof. induction s as [|c s IH]; cbn; [reflexivity | rewrite IH, andb_assoc; reflexivity]. Qed.
Lemma nospace_rev s : nospace (rev_str "" s) = nospace s.
Proof.
  induction s as [|c t IH]; cbn; [reflexivity|].
  rewrite (rev_str_app (String c "")), nospace_app, IH. cbn. rewrite andb_true_r. apply andb_comm.
Qed.
Lemma lstrip_nospace s : nospace s = true -> lstrip s = s.
Proof. destruct s as [|c t]; cbn; intro H; [reflexivity|]. apply andb_prop in H. destruct H as [H _]. destruct (is_space c); [discriminate H | reflexivity]. Qed.
Lemma strip_nospace s : nospace s = true -> strip s = s.
Proof.
  intro H. unfold strip, rstrip. rewrite (lstrip_nospace s H).
  rewrite lstrip_nospace by (rewrite nospace_rev; exact H). apply rev_str_involutive.
Qed.

Lemma is_digit_not_space c : is_digit c = true -> is_space c = false.
Proof. unfold is_digit, is_space. generalize (nat_of_ascii c). intros n H. lia. Qed.
Lemma all_digits_nospace s : all_digits s = true -> nospace s = true.
Proof.
  induction s as [|c t IH]; cbn; intro H; [reflexivity|].
  apply andb_prop in H. destruct H as [A B]. rewrite (is_digit_not_space c A), (IH B). reflexivity.
Qed.

Theorem parse_int_str_of_Z z : parse_int (str_of_Z z) = NumOk z.
Proof.
  unfold parse_int, str_of_Z.
  destruct (z <? 0) eqn:E.
  - destruct (digits_spec (- z) ltac:(lia)) as [A [V [L [S N]]]].
    assert (Hns : nospace (String "-" (digits (- z))) = true).
    { change (nospace (String "-" (digits (- z)))) with (nospace (digits (- z))). apply all_digits_nospace, A. }
    rewrite (strip_nospace _ Hns).
    cbn [split_sign]. rewrite A.
    assert (Hne : str_nonempty (digits (- z)) = true) by (destruct (digits (- z)); [cbn in L; lia | reflexivity]).
    rewrite Hne, V. cbn. f_equal. lia.
  - destruct (digits_spec z ltac:(lia)) as [A [V [L [S N]]]].
    rewrite strip_nospace by (apply all_digits_nospace, A).
    assert (Hs : split_sign (digits z) = (false, digits z)).
    { destruct (digits z) as [|c r] eqn:Ed; [reflexivity|].
      destruct (N c r eq_refl) as [N1 N2]. unfold split_sign.
      destruct (ascii_dec c "-") as [->|]; [contradiction|]. destruct (ascii_dec c "+") as [->|]; [contradiction|].
      destruct c as [[] [] [] [] [] [] [] []]; try reflexivity; contradiction. }
    rewrite Hs, A.
    assert (Hne : str_nonempty (digits z) = true) by (destruct (digits z); [cbn in L; lia | reflexivity]).
    rewrite Hne, V. reflexivity.
Qed.
