(* Proofs_routes.v — C09: the fast and the SQL route of the i-RMSD use the SAME paired coordinates (and therefore report
   the same value for the same rotation) whenever decoy and reference list the same atoms (chain, residue number,
   residue name, atom name) in the same order, each once — the situation the fast route is written for *)
From Coq Require Import Lia Lqa.
From Verif Require Import PyLib ModelTypes Model_contact Model_many Model_superpose Spec_superpose Model_zone Model_rmsd Spec_rmsd
  Proofs_superpose Proofs_rmsd.
Open Scope string_scope.
Open Scope list_scope.

Definition aligned (decoy ref : structure) : Prop :=
  map key4_of decoy = map key4_of ref /\ NoDup (map key4_of decoy).

(* projections of the four-field identity *)
Definition k4_chain (k : key4) : string := let '(c, _, _, _) := k in c.
Definition k4_key3 (k : key4) : key3 := let '(c, n, _, m) := k in (c, n, m).
Definition k4_resk (k : key4) : string * string * Z := let '(c, n, r, _) := k in (c, r, n).
Definition k4_name (k : key4) : string := let '(_, _, _, m) := k in m.
Lemma chain_k4 a : chain a = k4_chain (key4_of a). Proof. reflexivity. Qed.
Lemma key3_k4 a : key3_of a = k4_key3 (key4_of a). Proof. reflexivity. Qed.
Lemma resk_k4 a : resk_of a = k4_resk (key4_of a). Proof. reflexivity. Qed.
Lemma name_k4 a : name a = k4_name (key4_of a). Proof. reflexivity. Qed.

(* anything computed from the identity fields alone agrees on two aligned structures *)
Lemma via_key4 {B} (F : list key4 -> B) (G : structure -> B) decoy ref :
  (forall s, G s = F (map key4_of s)) -> map key4_of decoy = map key4_of ref -> G decoy = G ref.
Proof. intros H E. rewrite (H decoy), (H ref), E. reflexivity. Qed.

Lemma filter_map_key4 (p : key4 -> bool) s : map key4_of (filter (fun a => p (key4_of a)) s) = filter p (map key4_of s).
Proof. induction s as [|a t IH]; [reflexivity|]. cbn. destruct (p (key4_of a)); cbn; rewrite IH; reflexivity. Qed.

Lemma get_chains_aligned decoy ref : map key4_of decoy = map key4_of ref -> get_chains decoy = get_chains ref.
Proof.
  apply (via_key4 (fun l => sorted_set_str (map k4_chain l))). intro s. unfold get_chains. rewrite map_map. reflexivity.
Qed.

Lemma resk_list_aligned names decoy ref : map key4_of decoy = map key4_of ref -> resk_list names decoy = resk_list names ref.
Proof.
  apply (via_key4 (fun l => dedup_keep_first resk_eqb (map k4_resk (filter (fun k => match names with Some nl => mem String.eqb (k4_name k) nl | None => true end) l)))).
  intro s. unfold resk_list. rewrite <- (filter_map_key4 (fun k => match names with Some nl => mem String.eqb (k4_name k) nl | None => true end)), map_map. reflexivity.
Qed.
Lemma names_of_res_aligned names decoy ref k : map key4_of decoy = map key4_of ref ->
  names_of_res names decoy k = names_of_res names ref k.
Proof.
  apply (via_key4 (fun l => map k4_name (filter (fun k4 => (resk_eqb (k4_resk k4) k && match names with Some nl => mem String.eqb (k4_name k4) nl | None => true end)%bool) l))
                  (fun s => names_of_res names s k)).
  intro s. unfold names_of_res.
  rewrite <- (filter_map_key4 (fun k4 => (resk_eqb (k4_resk k4) k && match names with Some nl => mem String.eqb (k4_name k4) nl | None => true end)%bool)), map_map. reflexivity.
Qed.

Lemma list_eqb_refl {A} (eqb : A -> A -> bool) : (forall x, eqb x x = true) -> forall l, list_eqb eqb l l = true.
Proof. intros H l. induction l as [|x t IH]; [reflexivity|]. cbn. rewrite H, IH. reflexivity. Qed.
Lemma resk_eqb_refl k : resk_eqb k k = true.
Proof. destruct k as [[c r] n]. cbn. rewrite !String.eqb_refl, Z.eqb_refl. reflexivity. Qed.

Lemma check_residues_aligned enforce names decoy ref : map key4_of decoy = map key4_of ref ->
  check_residues enforce names decoy ref = Ok true.
Proof.
  intro E. unfold check_residues. rewrite (resk_list_aligned names decoy ref E).
  rewrite (list_eqb_refl resk_eqb resk_eqb_refl). cbn [negb].
  assert (F : forallb (fun k => list_eqb String.eqb (names_of_res names ref k) (names_of_res names decoy k)) (resk_list names ref) = true).
  { apply forallb_forall. intros k _. rewrite (names_of_res_aligned names decoy ref k E). apply (list_eqb_refl String.eqb String.eqb_refl). }
  rewrite F. reflexivity.
Qed.

(* ---- the zone predicate is a function of the identity ---- *)
Definition inz_k4 (names : list string) (rd : resdata) (k : key4) : bool :=
  (mem String.eqb (k4_name k) names &&
   match in_resdata rd (k4_chain k) with Some l => mem Z.eqb (let '(_, n, _, _) := k in n) l | None => false end)%bool.
Lemma in_zone_atoms_k4 names rd s : in_zone_atoms names rd s = filter (fun a => inz_k4 names rd (key4_of a)) s.
Proof. reflexivity. Qed.

Lemma inz_keys_aligned names rd decoy ref : map key4_of decoy = map key4_of ref ->
  map key3_of (in_zone_atoms names rd decoy) = map key3_of (in_zone_atoms names rd ref).
Proof.
  apply (via_key4 (fun l => map k4_key3 (filter (inz_k4 names rd) l)) (fun s => map key3_of (in_zone_atoms names rd s))).
  intro s. rewrite in_zone_atoms_k4, <- (filter_map_key4 (inz_k4 names rd)), map_map. reflexivity.
Qed.

Lemma key3_eqb_refl k : key3_eqb k k = true.
Proof. destruct k as [[c n] m]. cbn. rewrite !String.eqb_refl, Z.eqb_refl. reflexivity. Qed.
Lemma key3_eqb_eq k k' : key3_eqb k k' = true -> k = k'.
Proof.
  destruct k as [[c n] m]. destruct k' as [[c' n'] m']. cbn. intro H.
  apply andb_prop in H. destruct H as [H Hm]. apply andb_prop in H. destruct H as [Hc Hn].
  apply String.eqb_eq in Hc. apply String.eqb_eq in Hm. apply Z.eqb_eq in Hn. subst. reflexivity.
Qed.
Lemma mem_key3_In k l : mem key3_eqb k l = true <-> In k l.
Proof.
  unfold mem. rewrite existsb_exists. split.
  - intros [x [Hx He]]. apply key3_eqb_eq in He. subst. exact Hx.
  - intro H. exists k. split; [exact H | apply key3_eqb_refl].
Qed.
Lemma inter_keys_self l : inter_keys l l = l.
Proof.
  unfold inter_keys. assert (G : forall l', (forall k, In k l' -> In k l) -> filter (fun k => mem key3_eqb k l) l' = l').
  { induction l' as [|k t IH]; intro H; [reflexivity|]. cbn [filter].
    rewrite (proj2 (mem_key3_In k l) (H k (or_introl eq_refl))). f_equal. apply IH. intros k' Hk'. apply H. right. exact Hk'. }
  apply G. auto.
Qed.

(* the key of an atom is among the keys of the in-zone atoms of a structure exactly when the atom is in the zone —
   for an atom whose identity occurs in that structure *)
Lemma in_zone_key3 names rd (k : key4) : inz_k4 names rd k =
  (let '(c, n, _, m) := k in
   mem String.eqb m names && match in_resdata rd c with Some l => mem Z.eqb n l | None => false end)%bool.
Proof. destruct k as [[[c n] r] m]. reflexivity. Qed.

Lemma get_xyz_by_zone_keys names rd s :
  get_xyz_by_keys s (map key3_of (in_zone_atoms names rd s)) = map pos_of (in_zone_atoms names rd s).
Proof.
  unfold get_xyz_by_keys. f_equal. rewrite in_zone_atoms_k4.
  set (K := map key3_of (filter (fun a => inz_k4 names rd (key4_of a)) s)).
  assert (G : forall l, (forall a, In a l -> In a s) ->
              filter (fun a => mem key3_eqb (key3_of a) K) l = filter (fun a => inz_k4 names rd (key4_of a)) l).
  { induction l as [|a t IH]; intro Hin; [reflexivity|]. cbn [filter].
    assert (E : mem key3_eqb (key3_of a) K = inz_k4 names rd (key4_of a)).
    { destruct (inz_k4 names rd (key4_of a)) eqn:Pa.
      - apply mem_key3_In. unfold K. apply in_map. apply filter_In. split; [apply Hin; left; reflexivity | exact Pa].
      - destruct (mem key3_eqb (key3_of a) K) eqn:M; [|reflexivity]. exfalso.
        apply mem_key3_In in M. unfold K in M. apply in_map_iff in M. destruct M as [b [Kb Hb]].
        apply filter_In in Hb. destruct Hb as [_ Pb].
        (* the zone predicate depends on (chain, resSeq, name) only *)
        rewrite in_zone_key3 in Pa, Pb. destruct a, b. cbn in *. injection Kb as -> -> ->. rewrite Pb in Pa. discriminate Pa. }
    rewrite E. destruct (inz_k4 names rd (key4_of a)); [f_equal|]; apply IH; intros x Hx; apply Hin; right; exact Hx. }
  apply G. auto.
Qed.

(* ---- the fast route on aligned structures ---- *)
Definition bb4 : list string := ["C"; "CA"; "N"; "O"].
Theorem irmsd_fast_aligned rmat z check enforce decoy ref : aligned decoy ref ->
  let xd := map pos_of (in_zone_atoms bb4 (resdata_of z) decoy) in
  let xr := map pos_of (in_zone_atoms bb4 (resdata_of z) ref) in
  irmsd_fast rmat z check enforce decoy ref = msd (superpose_selection rmat xd xr xd) xr.
Proof.
  intros [E _] xd xr. unfold irmsd_fast.
  pose proof (inz_keys_aligned bb4 (resdata_of z) decoy ref E) as Ek. fold bb4.
  assert (Len : List.length xd = List.length xr).
  { unfold xd, xr. rewrite !map_length. apply (f_equal (@List.length _)) in Ek. rewrite !map_length in Ek. exact Ek. }
  destruct (check || enforce)%bool.
  - rewrite (check_residues_aligned enforce None decoy ref E). cbn [bind].
    rewrite Ek, inter_keys_self.
    assert (Xd : get_xyz_by_keys decoy (map key3_of (in_zone_atoms bb4 (resdata_of z) ref)) = xd) by (rewrite <- Ek; apply get_xyz_by_zone_keys).
    assert (Xr : get_xyz_by_keys ref (map key3_of (in_zone_atoms bb4 (resdata_of z) ref)) = xr) by apply get_xyz_by_zone_keys.
    rewrite Xd, Xr, Len, Nat.eqb_refl. reflexivity.
  - cbn [bind]. fold xd xr. rewrite Len, Nat.eqb_refl. reflexivity.
Qed.

(* ---- the SQL route on aligned structures ---- *)
Lemma key4_eqb_refl k : key4_eqb k k = true.
Proof. destruct k as [[[c n] r] m]. cbn. rewrite !String.eqb_refl, Z.eqb_refl. reflexivity. Qed.
Lemma key4_eqb_eq k k' : key4_eqb k k' = true -> k = k'.
Proof.
  destruct k as [[[c n] r] m]. destruct k' as [[[c' n'] r'] m']. cbn. intro H.
  apply andb_prop in H. destruct H as [H Hm]. apply andb_prop in H. destruct H as [H Hr]. apply andb_prop in H. destruct H as [Hc Hn].
  apply String.eqb_eq in Hc. apply String.eqb_eq in Hm. apply String.eqb_eq in Hr. apply Z.eqb_eq in Hn. subst. reflexivity.
Qed.
Lemma find_app_none {A} (f : A -> bool) pre l : (forall a, In a pre -> f a = false) -> find f (pre ++ l) = find f l.
Proof. induction pre as [|x t IH]; intro H; [reflexivity|]. cbn. rewrite (H x (or_introl eq_refl)). apply IH. intros a Ha. apply H. right. exact Ha. Qed.

Lemma sql_pairs_aligned (P : key4 -> bool) : forall dl rl pre,
  map key4_of dl = map key4_of rl -> NoDup (map key4_of (pre ++ dl)) ->
  flat_map (fun r => match first_with_key4 (key4_of r) (pre ++ dl) with Some d => [(pos_of d, pos_of r)] | None => [] end)
           (filter (fun a => P (key4_of a)) rl)
  = combine (map pos_of (filter (fun a => P (key4_of a)) dl)) (map pos_of (filter (fun a => P (key4_of a)) rl)).
Proof.
  induction dl as [|d dt IH]; intros rl pre E ND; destruct rl as [|r rt]; try discriminate E; [reflexivity|].
  cbn [map] in E. pose proof (f_equal (@hd _ (key4_of d)) E) as Ek. pose proof (f_equal (@tl _) E) as Et. cbn [hd tl] in Ek, Et.
  cbn [filter]. rewrite Ek.
  assert (ND' : NoDup (map key4_of ((pre ++ [d]) ++ dt))) by (rewrite <- app_assoc; exact ND).
  assert (Eapp : pre ++ d :: dt = (pre ++ [d]) ++ dt) by (rewrite <- app_assoc; reflexivity).
  destruct (P (key4_of r)) eqn:Pr.
  - cbn [flat_map map combine].
    assert (F : first_with_key4 (key4_of r) (pre ++ d :: dt) = Some d).
    { unfold first_with_key4. rewrite find_app_none.
      - cbn [find]. rewrite Ek, key4_eqb_refl. reflexivity.
      - intros a Ha. destruct (key4_eqb (key4_of a) (key4_of r)) eqn:K; [|reflexivity]. exfalso.
        apply key4_eqb_eq in K. rewrite map_app in ND. cbn [map] in ND. apply NoDup_remove_2 in ND. apply ND.
        apply in_or_app. left. rewrite Ek, <- K. apply in_map. exact Ha. }
    rewrite F. cbn [app]. f_equal. rewrite Eapp. apply (IH rt (pre ++ [d]) Et ND').
  - rewrite Eapp. apply (IH rt (pre ++ [d]) Et ND').
Qed.

Lemma map_fst_combine {A B} (l : list A) (l' : list B) : List.length l = List.length l' -> map fst (combine l l') = l.
Proof. revert l'. induction l as [|x t IH]; destruct l' as [|y t']; cbn; intro H; try discriminate; [reflexivity|]. rewrite IH by lia. reflexivity. Qed.
Lemma map_snd_combine {A B} (l : list A) (l' : list B) : List.length l = List.length l' -> map snd (combine l l') = l'.
Proof. revert l'. induction l as [|x t IH]; destruct l' as [|y t']; cbn; intro H; try discriminate; [reflexivity|]. rewrite IH by lia. reflexivity. Qed.

Theorem irmsd_sql_aligned rmat z decoy ref : aligned decoy ref ->
  let xd := map pos_of (in_zone_atoms bb4 (resdata_of z) decoy) in
  let xr := map pos_of (in_zone_atoms bb4 (resdata_of z) ref) in
  irmsd_sql rmat (izone_rows_from_zone z ref) decoy ref
  = match xd with [] => Err "ValueError" | _ => msd (map (mv rmat) (centred xd)) (centred xr) end.
Proof.
  intros [E ND] xd xr. unfold irmsd_sql.
  rewrite (get_chains_aligned decoy ref E), (list_eqb_refl String.eqb String.eqb_refl). cbn [negb].
  assert (Rows : izone_rows_from_zone z ref = in_zone_atoms bb4 (resdata_of z) ref).
  { unfold izone_rows_from_zone, in_zone_atoms. apply filter_ext. intro a. apply andb_comm. }
  rewrite Rows, in_zone_atoms_k4.
  pose proof (sql_pairs_aligned (inz_k4 bb4 (resdata_of z)) decoy ref [] E ND) as SP. cbn [app] in SP. rewrite SP.
  rewrite <- !in_zone_atoms_k4. fold xd xr.
  assert (Len : List.length xd = List.length xr).
  { unfold xd, xr. rewrite !map_length. pose proof (inz_keys_aligned bb4 (resdata_of z) decoy ref E) as Ek.
    apply (f_equal (@List.length _)) in Ek. rewrite !map_length in Ek. exact Ek. }
  rewrite (map_fst_combine xd xr Len), (map_snd_combine xd xr Len).
  destruct xd as [|x t]; [reflexivity|]. destruct xr as [|y u]; [discriminate Len|]. reflexivity.
Qed.

(* both routes report the same value for the same rotation *)
Theorem irmsd_routes_agree rmat z check enforce decoy ref m m' : aligned decoy ref ->
  irmsd_fast rmat z check enforce decoy ref = Ok m ->
  irmsd_sql rmat (izone_rows_from_zone z ref) decoy ref = Ok m' -> (m == m')%Q.
Proof.
  intros A Hf Hs. rewrite (irmsd_fast_aligned rmat z check enforce decoy ref A) in Hf.
  rewrite (irmsd_sql_aligned rmat z decoy ref A) in Hs.
  set (xd := map pos_of (in_zone_atoms bb4 (resdata_of z) decoy)) in *.
  set (xr := map pos_of (in_zone_atoms bb4 (resdata_of z) ref)) in *.
  rewrite (irmsd_value_is_kernel_residual rmat xd xr m Hf).
  destruct xd as [|x t] eqn:Ex; [discriminate Hs|]. rewrite <- Ex in *.
  rewrite (msd_is_resid _ _ _ Hs). rewrite map_length.
  assert (Lc : List.length (centred xd) = List.length xd) by (unfold centred; apply map_length).
  rewrite Lc. reflexivity.
Qed.

(* non-vacuity: two structures with the same identities in the same order (different coordinates) are aligned *)
Example aligned_example :
  aligned [mkAtom 0 "A" "ALA" 1 "N" 0 0 0; mkAtom 1 "A" "ALA" 1 "CA" 1 0 0; mkAtom 2 "B" "GLY" (-2) "CA" 5 0 0]
          [mkAtom 0 "A" "ALA" 1 "N" 0 1 0; mkAtom 1 "A" "ALA" 1 "CA" 1 1 1; mkAtom 2 "B" "GLY" (-2) "CA" 4 0 3].
Proof.
  split; [reflexivity|]. cbn. repeat constructor; cbn; intuition discriminate.
Qed.
