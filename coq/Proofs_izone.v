(* Proofs_izone.v — C07: the interface zone is exactly the reference residues (with a backbone atom)
   that have an atom within the cutoff of the partner chain *)
From Coq Require Import Lia Lqa.
From Verif Require Import PyLib ModelTypes Generated_parse Generated_contact Model_contact Spec_contact
  Proofs_contact_lists Proofs_contact_spec Proofs_contact_c05 Proofs_contact_c14 Model_superpose Model_rmsd Spec_rmsd.
Open Scope string_scope.
Open Scope Z_scope.
Open Scope list_scope.

Lemma wf_inj s a b : wf s -> In a s -> In b s -> idx a = idx b -> a = b.
Proof. intros W Ha Hb E. apply (NoDup_map_inj idx s a b (wf_NoDup s W) Ha Hb E). Qed.

Lemma mem_In_Z x l : mem Z.eqb x l = true <-> In x l.
Proof.
  unfold mem. rewrite existsb_exists. split.
  - intros [y [Hy E]]. apply Z.eqb_eq in E. subst. exact Hy.
  - intro H. exists x. split; [exact H | apply Z.eqb_refl].
Qed.

Section Zone.
Variables (cutoff : Q) (ref : structure) (c1 c2 : string).
Hypothesis Hc : (0 <= cutoff)%Q.
Hypothesis W : wf ref.
Hypothesis Hch : get_chains ref = [c1; c2].

Lemma c1_ne_c2 : c1 <> c2.
Proof. pose proof (get_chains_NoDup ref) as N. rewrite Hch in N. inversion N as [|x l H _]; subst. intro E. apply H. left. symmetry. exact E. Qed.
Lemma chain_in a : In a ref -> chain a = c1 \/ chain a = c2.
Proof.
  intro Ha. assert (P : present ref (chain a)) by (apply in_map; exact Ha).
  apply get_chains_In in P. rewrite Hch in P. destruct P as [E|[E|[]]]; auto.
Qed.
Lemma present1 : present ref c1.
Proof. apply get_chains_In. rewrite Hch. left. reflexivity. Qed.
Lemma present2 : present ref c2.
Proof. apply get_chains_In. rewrite Hch. right. left. reflexivity. Qed.

(* contact atom of either chain (no filters) <-> interface atom of the specification *)
Lemma contact_is_interface a0 : In a0 ref ->
  ((contact_atom (closeQ cutoff) false false ref [c1; c2] c1 a0 \/ contact_atom (closeQ cutoff) false false ref [c1; c2] c2 a0)
   <-> interface_atom cutoff ref a0 = true).
Proof.
  intro H0. unfold interface_atom. rewrite existsb_exists. split.
  - intros [C|C]; destruct C as [_ [Ec [_ [b [Hb [Nb [_ [_ Hn]]]]]]]]; exists b; (split; [exact Hb|]);
    apply andb_true_intro; split.
    + apply negb_true_iff, String.eqb_neq. rewrite Ec. intro E. apply Nb. symmetry. exact E.
    + apply closeQ_within in Hn. destruct Hn as [_ Hn]. apply Qleb_spec. rewrite dist2_sqdist. exact Hn.
    + apply negb_true_iff, String.eqb_neq. rewrite Ec. intro E. apply Nb. symmetry. exact E.
    + apply closeQ_within in Hn. destruct Hn as [_ Hn]. apply Qleb_spec. rewrite dist2_sqdist. exact Hn.
  - intros [b [Hb Hx]]. apply andb_prop in Hx. destruct Hx as [Hne Hd].
    apply negb_true_iff, String.eqb_neq in Hne. apply Qleb_spec in Hd. rewrite dist2_sqdist in Hd.
    assert (Hn : closeQ cutoff a0 b = true) by (apply closeQ_within; split; assumption).
    destruct (chain_in a0 H0) as [E|E]; [left|right];
      (split; [exact H0|]; split; [exact E|]; split; [reflexivity|]; exists b; split; [exact Hb|];
       split; [rewrite <- E; intro X; apply Hne; symmetry; exact X|]; split;
       [destruct (chain_in b Hb) as [Eb|Eb]; rewrite Eb; cbn; auto | split; [reflexivity | exact Hn]]).
Qed.

Lemma extended_contacts :
  exists pm, get_contact_atoms (closeQ cutoff) false false ref false c1 c2 true
  = Ok (closure_dict ref false (spec_atoms_dict (closeQ cutoff) false false ref [c1; c2]), pm).
Proof.
  pose proof (two_chain_exact (closeQ cutoff) false false ref c1 c2 (closeQ_sym cutoff) W c1_ne_c2 present1 present2) as E.
  destruct (extension_is_closure (closeQ cutoff) false false ref false c1 c2 (closeQ_sym cutoff) W) as [ic [pm [E1 E2]]].
  - constructor; [intros [X|[]]; apply c1_ne_c2; symmetry; exact X | constructor; [intros [] | constructor]].
  - cbn. lia.
  - intros c [<-|[<-|[]]]; [exact present1 | exact present2].
  - rewrite E in E1. injection E1 as <- <-. exists (spec_pairs (closeQ cutoff) false false ref [c1; c2]). exact E2.
Qed.

(* membership of a reference atom in the extended contact rows *)
Lemma in_extended a : In a ref ->
  (In (idx a) (closure ref false (spec_atoms (closeQ cutoff) false false ref [c1; c2] c1)
              ++ closure ref false (spec_atoms (closeQ cutoff) false false ref [c1; c2] c2))
   <-> existsb (fun b => (Spec_rmsd.same_residue a b && interface_atom cutoff ref b)%bool) ref = true).
Proof.
  intro Ha. rewrite in_app_iff, !closure_meaning, existsb_exists. split.
  - intros [[a' [Ei [Ha' [_ [a0 [H0 [Hi Hs]]]]]]]|[a' [Ei [Ha' [_ [a0 [H0 [Hi Hs]]]]]]]];
      assert (a' = a) by (apply (wf_inj ref a' a W Ha' Ha Ei)); subst a';
      apply spec_atoms_In in Hi; destruct Hi as [a1 [E1 C]];
      assert (a1 = a0) by (apply (wf_inj ref a1 a0 W (proj1 C) H0 E1)); subst a1;
      exists a0; (split; [exact H0|]); apply andb_true_intro; (split; [exact Hs|]);
      apply (contact_is_interface a0 H0); [left | right]; exact C.
  - intros [a0 [H0 Hx]]. apply andb_prop in Hx. destruct Hx as [Hs Hi].
    apply (contact_is_interface a0 H0) in Hi. destruct Hi as [C|C]; [left|right];
      (exists a; split; [reflexivity|]; split; [exact Ha|]; split; [intro X; discriminate X|];
       exists a0; split; [exact H0|]; split; [apply spec_atoms_In; exists a0; split; [reflexivity | exact C] | exact Hs]).
Qed.

Theorem izone_exact : compute_izone cutoff ref = Ok (izone_spec cutoff ref).
Proof.
  unfold compute_izone. rewrite Hch. destruct extended_contacts as [pm E]. rewrite E. cbn [bind fst].
  unfold izone_spec. do 3 f_equal.
  apply filter_ext_in. intros a Ha.
  unfold spec_atoms_dict, closure_dict. cbn [map flat_map fst snd]. rewrite app_nil_r.
  assert (E1 : mem String.eqb (name a) backbone4 = is_backbone a) by reflexivity.
  assert (E2 : mem Z.eqb (idx a) (closure ref false (spec_atoms (closeQ cutoff) false false ref [c1; c2] c1)
                                  ++ closure ref false (spec_atoms (closeQ cutoff) false false ref [c1; c2] c2))
               = existsb (fun b => (Spec_rmsd.same_residue a b && interface_atom cutoff ref b)%bool) ref).
  { apply bool_eq_iff. rewrite mem_In_Z. apply (in_extended a Ha). }
  rewrite E1, E2. apply andb_comm.
Qed.
End Zone.
