(* Model_contact.v — hand-written executable model of the contact routines (C05, C14, C08):
     pdb2sql/interface.py            get_contact_atoms, _extend_contact_to_residue, get_contact_residues
     pdb2sql/StructureSimilarity.py  compute_residue_pairs_ref, compute_fnat_fast, compute_fnat_pdb2sql,
                                     compute_clashes
   The loops are mirrored literally (line spans in comments).  Constants, the comparison operator of
   the distance test, the hydrogen character, the fast reader's columns and the flags passed by the
   callers come from Generated_contact.v / Generated_parse.v (regenerated from /repo on every run).
   No proofs here.

   A structure is the content of the ATOM table as the library's own `get` returns it:
   one [atom] per row, in rowid order, idx = rowID as seen from Python (0-based position).

   Outside the model (Run_contact answers "OutOfModel", generators avoid it): an atom whose name is
   empty (the code's `name[0]` raises IndexError depending on which atoms are reached). *)
From Verif Require Import PyLib ModelTypes Generated_parse Generated_contact.
Open Scope string_scope.
Open Scope Z_scope.
Open Scope list_scope.

Record atom := mkAtom {
  idx : Z; chain : string; resName : string; resSeq : Z; name : string; ax : Q; ay : Q; az : Q }.
Definition structure := list atom.

(* ------------------------------------------------------------------ *)
(* Python helpers                                                      *)
Definition is_nil {A} (l : list A) : bool := match l with [] => true | _ => false end.

(* sorted(set(l)) *)
Definition sorted_set_Z (l : list Z) : list Z := sort_by Z.leb (dedup_keep_first Z.eqb l).
Definition sorted_set_str (l : list string) : list string := sort_by String.leb (dedup_keep_first String.eqb l).

(* dict with insertion order; [dupd k f d] is  d[k] = f(d.get(k))  (an existing key keeps its place) *)
Section Dict.
  Context {K V : Type} (eqb : K -> K -> bool).
  Fixpoint dget (k : K) (d : list (K * V)) : option V :=
    match d with
    | [] => None
    | (k', v) :: t => if eqb k k' then Some v else dget k t
    end.
  Fixpoint dupd (k : K) (f : option V -> V) (d : list (K * V)) : list (K * V) :=
    match d with
    | [] => [(k, f None)]
    | (k', v) :: t => if eqb k k' then (k', f (Some v)) :: t else (k', v) :: dupd k f t
    end.
End Dict.
(* d.setdefault(k, []).extend(l)   and   d[k] += l  (k present);  with l = []:  if k not in d: d[k] = [] *)
Definition dext {K A} (eqb : K -> K -> bool) (k : K) (l : list A) (d : list (K * list A)) : list (K * list A) :=
  dupd eqb k (fun o => match o with Some v => v ++ l | None => l end) d.
Definition dlook {K A} (eqb : K -> K -> bool) (k : K) (d : list (K * list A)) : list A :=
  match dget eqb k d with Some v => v | None => [] end.

(* itertools.combinations(l, 2) *)
Fixpoint combinations2 {A} (l : list A) : list (A * A) :=
  match l with
  | [] => []
  | x :: t => map (pair x) t ++ combinations2 t
  end.

(* residue identity, in the two component orders the code uses *)
Definition res3 := (string * Z * string)%type.          (* (chainID, resSeq, resName) *)
Definition res3_of (a : atom) : res3 := (chain a, resSeq a, resName a).
Definition resk_of (a : atom) : string * string * Z := (chain a, resName a, resSeq a).   (* chainID,resName,resSeq *)
Definition res3_eqb (p q : res3) : bool :=
  let '(c, n, r) := p in let '(c', n', r') := q in
  (String.eqb c c' && Z.eqb n n' && String.eqb r r')%bool.
Definition resk_eqb (p q : string * string * Z) : bool :=
  let '(c, r, n) := p in let '(c', r', n') := q in
  (String.eqb c c' && String.eqb r r' && Z.eqb n n')%bool.
(* Python's tuple ordering on (str, int, str): lexicographic, str by code point, int by value *)
Definition res3_leb (p q : res3) : bool :=
  let '(c, n, r) := p in let '(c', n', r') := q in
  match String.compare c c' with
  | Lt => true
  | Gt => false
  | Eq => match Z.compare n n' with
          | Lt => true
          | Gt => false
          | Eq => String.leb r r'
          end
  end.
Definition sorted_set_res3 (l : list res3) : list res3 := sort_by res3_leb (dedup_keep_first res3_eqb l).

(* ------------------------------------------------------------------ *)
(* the part of pdb2sql.get used here                                   *)
(* pdb2sql_base.py:110-120  get_chains: sorted(set(get('chainID'))) *)
Definition get_chains (s : structure) : list string := sorted_set_str (map chain s).
(* get(cols, chainID=c): rows of chain c in rowid order *)
Definition chain_atoms (s : structure) (c : string) : list atom := filter (fun a => String.eqb (chain a) c) s.
(* get(cols, rowID=L): rows whose rowID is in L, in rowid order *)
Definition rows_by_idx (s : structure) (L : list Z) : list atom := filter (fun a => mem Z.eqb (idx a) L) s.
(* get(cols, chainID=c, resName=r, resSeq=n) *)
Definition residue_atoms (s : structure) (k : string * string * Z) : list atom :=
  filter (fun a => resk_eqb (resk_of a) k) s.

Definition is_bb (n : string) : bool := mem String.eqb n backbone_src.     (* name in self.backbone_atoms *)
Definition is_H (n : string) : bool := prefix contact_H_char_src n.        (* name[0] == 'H' (name non-empty) *)

Definition cdict := list (string * list Z).       (* index_contact *)
Definition pmap := list (Z * list Z).             (* index_contact_pairs *)

(* ================================================================== *)
Section Contact.
  (* the distance test `np.sqrt(np.sum((xyz2 - x0)**2, 1)) <= cutoff`, abstract for the theorems *)
  Variable close : atom -> atom -> bool.
  Variables (only_bb exclH : bool).

  (* interface.py:135-139  the condition of the comprehension on an atom k of chain2 *)
  Definition keep2 (b : atom) : bool :=
    ((is_bb (name b) || negb only_bb) && negb (exclH && is_H (name b)))%bool.

  (* interface.py:121-144  body of `for i, x0 in enumerate(xyz1)` *)
  Definition atom_step (c1 c2 : string) (atoms2 : list atom) (st : cdict * pmap) (a : atom) : cdict * pmap :=
    let contacts := filter (close a) atoms2 in                               (* :124-125 *)
    if (exclH && is_H (name a))%bool then st                                 (* :128-129 continue *)
    else if (negb (is_nil contacts) && (negb only_bb || is_bb (name a)))%bool then   (* :131-132 *)
      let pairs := map idx (filter keep2 contacts) in                        (* :134-139 *)
      if negb (is_nil pairs) then                                            (* :140 *)
        (dext String.eqb c2 pairs (dext String.eqb c1 [idx a] (fst st)),     (* :143-144 *)
         dext Z.eqb (idx a) pairs (snd st))                                  (* :141-142 *)
      else st
    else st.

  (* interface.py:107-144  body of `for chain1, chain2 in itertools.combinations(chainIDs, 2)` *)
  Definition pair_step (s : structure) (st : cdict * pmap) (cc : string * string) : cdict * pmap :=
    let '(c1, c2) := cc in
    let ic := dext String.eqb c2 [] (dext String.eqb c1 [] (fst st)) in      (* :115-119 *)
    fold_left (atom_step c1 c2 (chain_atoms s c2)) (chain_atoms s c1) (ic, snd st).

  (* interface.py:151-152  index_contact[chain] = sorted(set(index_contact[chain])) *)
  Fixpoint uniques (chainIDs : list string) (ic : cdict) : res cdict :=
    match chainIDs with
    | [] => Ok ic
    | c :: t =>
      match dget String.eqb c ic with
      | None => Err "KeyError"
      | Some v => uniques t (dupd String.eqb c (fun _ => sorted_set_Z v) ic)
      end
    end.

  (* interface.py:169-213  _extend_contact_to_residue *)
  Definition extend_to_residue (s : structure) (index1 : list Z) : list Z :=
    let dataA := map resk_of (rows_by_idx s index1) in                       (* :172-176 *)
    let resA := dedup_keep_first resk_eqb dataA in                           (* :180 list(set(.)) *)
    let out := flat_map (fun k =>
                 map idx (filter (fun a => (negb only_bb || is_bb (name a))%bool) (residue_atoms s k))) resA in
    sorted_set_Z out.                                                        (* :211 *)

  Fixpoint extend_all (s : structure) (chainIDs : list string) (ic : cdict) : res cdict :=
    match chainIDs with
    | [] => Ok ic
    | c :: t =>
      match dget String.eqb c ic with
      | None => Err "KeyError"
      | Some v => extend_all s t (dupd String.eqb c (fun _ => extend_to_residue s v) ic)
      end
    end.

  (* interface.py:41-166  get_contact_atoms: both possible return values *)
  Definition get_contact_atoms (s : structure) (allchains : bool) (chain1 chain2 : string) (extend : bool)
    : res (cdict * pmap) :=
    let chainIDs := if allchains then get_chains s else [chain1; chain2] in  (* :74-77 *)
    let chains := get_chains s in                                            (* :79 *)
    if negb (forallb (fun c => mem String.eqb c chains) chainIDs) then Err "ValueError"   (* :80-83 *)
    else
      let st := fold_left (pair_step s) (combinations2 chainIDs) ([], []) in (* :104-144 *)
      do ic <- uniques chainIDs (fst st);                                    (* :151-152 *)
      do ic' <- (if extend then extend_all s chainIDs ic else Ok ic);        (* :155-158 *)
      Ok (ic', snd st).

  (* interface.py:216-314  get_contact_residues *)
  Definition add_res (acc : list res3) (r : res3) : list res3 :=
    if mem res3_eqb r acc then acc else acc ++ [r].                          (* set.add *)
  (* :265-283  one item (iat1, atoms2) of the atom pair map *)
  Definition respair_step (s : structure) (rcp : res (list (res3 * list res3))) (item : Z * list Z)
    : res (list (res3 * list res3)) :=
    do d <- rcp;
    let '(iat1, atoms2) := item in
    match rows_by_idx s [iat1] with
    | [] => Err "IndexError"                                                 (* get(...)[0] on an empty answer *)
    | a1 :: _ =>
      let data2 := map res3_of (rows_by_idx s atoms2) in
      Ok (dupd res3_eqb (res3_of a1)
            (fun o => fold_left add_res data2 (match o with Some v => v | None => [] end)) d)
    end.

  Definition get_contact_residue_pairs (s : structure) (allchains : bool) (chain1 chain2 : string)
    : res (list (res3 * list res3)) :=
    do r <- get_contact_atoms s allchains chain1 chain2 false;               (* :255-262 *)
    do d <- fold_left (respair_step s) (snd r) (Ok []);
    Ok (map (fun kv => (fst kv, sort_by res3_leb (snd kv))) d).              (* :285-287 *)

  Definition get_contact_residues (s : structure) (allchains : bool) (chain1 chain2 : string)
    : res (list (string * list res3)) :=
    do r <- get_contact_atoms s allchains chain1 chain2 false;               (* :294-301 *)
    Ok (map (fun kv => (fst kv, sorted_set_res3 (map res3_of (rows_by_idx s (snd kv))))) (fst r)).   (* :307-312 *)
End Contact.

(* ================================================================== *)
(* the distance test over Q: exact, no square root (DESIGN 4.2)        *)
(* a - b and a + b, without cross-multiplication when the denominators coincide (the harness sends
   all coordinates of a structure over one common power-of-two denominator): same rational value as
   Qminus / Qplus (Proofs_contact_spec.v: Qsub_x_eq, Qadd_x_eq), only cheaper to run *)
Definition Qsub_x (a b : Q) : Q :=
  if Pos.eqb (Qden a) (Qden b) then Qmake (Qnum a - Qnum b) (Qden a) else (a - b)%Q.
Definition Qadd_x (a b : Q) : Q :=
  if Pos.eqb (Qden a) (Qden b) then Qmake (Qnum a + Qnum b) (Qden a) else (a + b)%Q.
Definition dist2 (a b : atom) : Q :=
  Qadd_x (Qadd_x (Qsqr (Qsub_x (ax b) (ax a))) (Qsqr (Qsub_x (ay b) (ay a)))) (Qsqr (Qsub_x (az b) (az a))).
Definition closeQ (cutoff : Q) (a b : atom) : bool := contact_test_src (dist2 a b) cutoff.
Definition close_fastQ (cutoff : Q) (a b : atom) : bool := fnat_fast_test_src (dist2 a b) cutoff.

(* ------------------------------------------------------------------ *)
(* StructureSimilarity.py:467-507  compute_residue_pairs_ref (save_file=False) *)
Definition compute_residue_pairs_ref (cutoff : Q) (ref : structure) : res (list (res3 * list res3)) :=
  match get_chains ref with
  | [c1; c2] =>
    get_contact_residue_pairs (closeQ cutoff) pairs_ref_only_backbone_src pairs_ref_excludeH_src ref false c1 c2
  | _ => Err "ValueError"
  end.

(* ------------------------------------------------------------------ *)
(* StructureSimilarity.py:416-442  the fast route's own record reader *)
Definition slice2 (p : nat * nat) (s : string) : string := slice (fst p) (snd p) s.
Definition py_int (s : string) : res Z :=
  match parse_int s with NumOk z => Ok z | NumBad => Err "ValueError" | NumOutOfModel => Err "OutOfModel" end.
Definition py_float (s : string) : res Q :=
  match parse_float s with NumOk q => Ok q | NumBad => Err "ValueError" | NumOutOfModel => Err "OutOfModel" end.

Definition fast_read_line (i : Z) (line : string) : res atom :=
  if (String.length line <=? fast_chain_col_src)%nat then Err "IndexError" else     (* line[21] *)
  let c0 := char_at fast_chain_col_src line in
  do c <- (if String.eqb c0 " " then
             if (String.length line <=? fast_chain_alt_col_src)%nat then Err "IndexError"
             else Ok (char_at fast_chain_alt_col_src line)
           else Ok c0);
  do n <- py_int (slice2 fast_resSeq_src line);
  let rn := strip (slice2 fast_resName_src line) in
  let nm := strip (slice2 fast_name_src line) in
  do x <- py_float (slice2 fast_x_src line);
  do y <- py_float (slice2 fast_y_src line);
  do z <- py_float (slice2 fast_z_src line);
  if negb (str_nonempty nm) then Err "IndexError"                                     (* name[0] *)
  else Ok (mkAtom i c rn n nm x y z).

Fixpoint fast_read_aux (i : Z) (lines : list string) : res (list atom) :=
  match lines with
  | [] => Ok []
  | l :: t =>
    if startswith fast_prefix_src l then
      do a <- fast_read_line i l; do r <- fast_read_aux (i + 1) t; Ok (a :: r)
    else fast_read_aux (i + 1) t
  end.
Definition fast_read (lines : list string) : res (list atom) := fast_read_aux 0 lines.

(* :432-442  residue_xyz: key -> heavy atoms of the residue; a key exists as soon as the residue has a record *)
Definition fast_is_H (n : string) : bool := prefix fast_H_char_src n.
Definition residue_xyz (d : list atom) : list (res3 * list atom) :=
  fold_left (fun acc a =>
    dupd res3_eqb (res3_of a)
      (fun o => (match o with Some v => v | None => [] end) ++ (if fast_is_H (name a) then [] else [a])) acc) d [].

(* :446-461  the counting loop; state = (nCommon, nTotal) *)
Definition fnat_count_B (cutoff : Q) (rx : list (res3 * list atom)) (xyzA : list atom)
  (st : res (Z * Z)) (resB : res3) : res (Z * Z) :=
  do cn <- st;
  let '(nC, nT) := cn in
  match dget res3_eqb resB rx with
  | Some xyzB =>
    if (is_nil xyzA || is_nil xyzB)%bool then Err "ValueError"               (* np.min of an empty array *)
    else
      let hit := existsb (fun p1 => existsb (fun p2 => close_fastQ cutoff p1 p2) xyzB) xyzA in   (* dist_min <= cutoff *)
      Ok ((if hit then nC + 1 else nC), nT + 1)
  | None => Ok (nC, nT + 1)
  end.
Definition fnat_count_A (cutoff : Q) (rx : list (res3 * list atom)) (st : res (Z * Z))
  (item : res3 * list res3) : res (Z * Z) :=
  do cn <- st;
  let '(resA, resB_list) := item in
  match dget res3_eqb resA rx with
  | Some xyzA => fold_left (fnat_count_B cutoff rx xyzA) resB_list (Ok cn)
  | None => Ok (fst cn, snd cn + Z.of_nat (List.length resB_list))           (* :461 *)
  end.

(* round(nCommon / nTotal, k): binary64 quotient, then correctly rounded decimal *)
Definition py_ratio_round (digits : nat) (n d : Z) : res Q :=
  match d with
  | Zpos p => Ok (round_dec digits (b64 (Qmake n p)))
  | _ => Err "ZeroDivisionError"
  end.

(* StructureSimilarity.py:387-464  compute_fnat_fast *)
Definition compute_fnat_fast (cutoff : Q) (ref : structure) (decoy_lines : list string) : res Q :=
  do pairs <- compute_residue_pairs_ref cutoff ref;                          (* :407-408 *)
  do d <- fast_read decoy_lines;                                             (* :416-442 *)
  do cn <- fold_left (fnat_count_A cutoff (residue_xyz d)) pairs (Ok (0, 0));   (* :445-461 *)
  py_ratio_round fnat_fast_digits_src (fst cn) (snd cn).                     (* :464 *)

(* ------------------------------------------------------------------ *)
(* pdb2sqlcore.py:303-327  _fix_chainID *)
Definition ascii_uppercase : list string :=
  ["A";"B";"C";"D";"E";"F";"G";"H";"I";"J";"K";"L";"M";"N";"O";"P";"Q";"R";"S";"T";"U";"V";"W";"X";"Y";"Z"].
Fixpoint index_of (c : string) (l : list string) : nat :=
  match l with [] => O | x :: t => if String.eqb c x then O else S (index_of c t) end.
Definition set_chain (a : atom) (c : string) : atom :=
  mkAtom (idx a) c (resName a) (resSeq a) (name a) (ax a) (ay a) (az a).
Definition fix_chainID (s : structure) : res structure :=
  let chains := get_chains s in
  if (26 <? List.length chains)%nat then Err "SystemExit"
  else Ok (map (fun a => set_chain a (nth (index_of (chain a) chains) ascii_uppercase "")) s).

(* StructureSimilarity.py:917-970  compute_fnat_pdb2sql *)
Definition flat_pairs (d : list (res3 * list res3)) : list (res3 * res3) :=
  flat_map (fun kv => map (pair (fst kv)) (snd kv)) d.                       (* :951-958 *)
Definition respair_eqb (p q : res3 * res3) : bool := (res3_eqb (fst p) (fst q) && res3_eqb (snd p) (snd q))%bool.

Definition compute_fnat_pdb2sql (cutoff : Q) (decoy ref : structure) : res Q :=
  do dec <- (if fnat_sql_fix_chainID_src then fix_chainID decoy else Ok decoy);     (* :935 *)
  do rf <- (if fnat_sql_fix_chainID_src then fix_chainID ref else Ok ref);          (* :936 *)
  match get_chains rf with                                                   (* :937-940 *)
  | [c1; c2] =>
    do pd <- get_contact_residue_pairs (closeQ cutoff) fnat_sql_only_backbone_src fnat_sql_excludeH_src dec false c1 c2;
    do pr <- get_contact_residue_pairs (closeQ cutoff) fnat_sql_only_backbone_src fnat_sql_excludeH_src rf false c1 c2;
    let data_pair_decoy := flat_pairs pd in
    let data_pair_ref := flat_pairs pr in
    let nCommon := List.length (filter (fun p => mem respair_eqb p data_pair_decoy)
                                       (dedup_keep_first respair_eqb data_pair_ref)) in    (* :961-962 *)
    py_ratio_round fnat_sql_digits_src (Z.of_nat nCommon) (Z.of_nat (List.length data_pair_ref))   (* :965, 970 *)
  | _ => Err "ValueError"
  end.

(* ------------------------------------------------------------------ *)
(* StructureSimilarity.py:1245-1271  compute_clashes *)
Definition compute_clashes (s : structure) (chain1 chain2 : string) : res Z :=
  do r <- get_contact_atoms (closeQ clash_cutoff_src) clash_only_backbone_src clash_excludeH_src s false chain1 chain2 false;
  Ok (fold_left (fun n kv => n + Z.of_nat (List.length (snd kv))) (snd r) 0).
