(* Proofs_invariance.v — C11: model-level invariances of the contact test and of everything built
   from it, under rigid motions and under changes of fields the scores do not read *)
From Coq Require Import Lia Lqa.
From Verif Require Import PyLib ModelTypes Generated_parse Generated_contact Model_contact Spec_contact
  Proofs_contact_spec Model_superpose Spec_superpose Proofs_superpose.
Open Scope Q_scope.

(* a rigid motion acting on an atom: coordinates x |-> M x + t, identity fields untouched *)
Definition move (m : mat) (t : vec) (a : atom) : atom :=
  let '(x, y, z) := vadd (mv m (ax a, ay a, az a)) t in
  mkAtom (idx a) (chain a) (resName a) (resSeq a) (name a) x y z.

Lemma move_fields m t a :
  idx (move m t a) = idx a /\ chain (move m t a) = chain a /\ resName (move m t a) = resName a /\
  resSeq (move m t a) = resSeq a /\ name (move m t a) = name a.
Proof. unfold move. destruct (vadd (mv m (ax a, ay a, az a)) t) as [[x y] z]. cbn. repeat split. Qed.

Lemma sqdist_norm2 a b : sqdist a b == norm2 (vsub (ax b, ay b, az b) (ax a, ay a, az a)).
Proof. unfold sqdist, norm2, vsub, vdot. rewrite !Qred_correct. ring. Qed.

(* squared distances are preserved by every rigid motion (orthogonal M, any translation) *)
Theorem sqdist_rigid m t a b : orthogonal m -> sqdist (move m t a) (move m t b) == sqdist a b.
Proof.
  intro Ho. rewrite !sqdist_norm2.
  rewrite <- (orthogonal_preserves_norm m (vsub (ax b, ay b, az b) (ax a, ay a, az a)) Ho).
  apply norm2_veq. unfold move.
  destruct m as [[[[a1 a2] a3] [[b1 b2] b3]] [[c1 c2] c3]]. destruct t as [[t1 t2] t3].
  destruct a as [i c r n nm x y z], b as [i' c' r' n' nm' x' y' z'].
  cbn -[Qred Qplus Qmult Qminus]. rewrite ?Qred_correct. repeat split; ring.
Qed.

(* hence the contact decision — and the clash decision — between two atoms is unchanged *)
Theorem closeQ_rigid c m t a b : orthogonal m -> closeQ c (move m t a) (move m t b) = closeQ c a b.
Proof.
  intro Ho. apply eq_true_iff_eq. rewrite !closeQ_within. unfold within.
  rewrite (sqdist_rigid m t a b Ho). reflexivity.
Qed.

(* ---------------------------------------------------------------------------------------------
   Everything the library computes from contacts depends on the atoms only through their identity
   fields and through the contact decisions: any transformation of the structure that keeps both
   gives exactly the same contact atoms, pair map and residue extension. *)
Section Congruence.
Variables (close close' : atom -> atom -> bool) (f : atom -> atom).
Variables (only_bb exclH : bool).
Hypothesis Hidx : forall a, idx (f a) = idx a.
Hypothesis Hchain : forall a, chain (f a) = chain a.
Hypothesis HresName : forall a, resName (f a) = resName a.
Hypothesis HresSeq : forall a, resSeq (f a) = resSeq a.
Hypothesis Hname : forall a, name (f a) = name a.
Hypothesis Hclose : forall a b, close' (f a) (f b) = close a b.

Lemma filter_map_comm {A B} (g : A -> B) (p : B -> bool) (q : A -> bool) l :
  (forall x, p (g x) = q x) -> filter p (map g l) = map g (filter q l).
Proof.
  intro H. induction l as [|x t IH]; [reflexivity|]. cbn. rewrite H. destruct (q x); cbn; rewrite IH; reflexivity.
Qed.

Lemma get_chains_map s : get_chains (map f s) = get_chains s.
Proof. unfold get_chains. rewrite map_map. f_equal. apply map_ext. exact Hchain. Qed.

Lemma chain_atoms_map s c : chain_atoms (map f s) c = map f (chain_atoms s c).
Proof. unfold chain_atoms. apply filter_map_comm. intro x. rewrite Hchain. reflexivity. Qed.

Lemma keep2_map b : keep2 only_bb exclH (f b) = keep2 only_bb exclH b.
Proof. unfold keep2. rewrite Hname. reflexivity. Qed.

Lemma is_nil_map {A B} (g : A -> B) l : is_nil (map g l) = is_nil l.
Proof. destruct l; reflexivity. Qed.

Lemma atom_step_map c1 c2 atoms2 st a :
  atom_step close' only_bb exclH c1 c2 (map f atoms2) st (f a) = atom_step close only_bb exclH c1 c2 atoms2 st a.
Proof.
  unfold atom_step.
  rewrite (filter_map_comm f (close' (f a)) (close a) atoms2 (fun x => Hclose a x)).
  rewrite Hname, Hidx, is_nil_map.
  rewrite (filter_map_comm f (keep2 only_bb exclH) (keep2 only_bb exclH) _ keep2_map).
  rewrite map_map. rewrite (map_ext (fun x => idx (f x)) idx Hidx). reflexivity.
Qed.

Lemma fold_atom_step_map c1 c2 atoms2 l st :
  fold_left (atom_step close' only_bb exclH c1 c2 (map f atoms2)) (map f l) st
  = fold_left (atom_step close only_bb exclH c1 c2 atoms2) l st.
Proof.
  revert st. induction l as [|a t IH]; intro st; [reflexivity|]. cbn [map fold_left]. rewrite atom_step_map. apply IH.
Qed.

Lemma pair_step_map s st cc :
  pair_step close' only_bb exclH (map f s) st cc = pair_step close only_bb exclH s st cc.
Proof. destruct cc as [c1 c2]. unfold pair_step. rewrite !chain_atoms_map. apply fold_atom_step_map. Qed.

Lemma fold_pair_step_map s l st :
  fold_left (pair_step close' only_bb exclH (map f s)) l st = fold_left (pair_step close only_bb exclH s) l st.
Proof. revert st. induction l as [|c t IH]; intro st; [reflexivity|]. cbn [fold_left]. rewrite pair_step_map. apply IH. Qed.

Lemma extend_to_residue_map s ix : extend_to_residue only_bb (map f s) ix = extend_to_residue only_bb s ix.
Proof.
  unfold extend_to_residue, rows_by_idx, residue_atoms, resk_of.
  rewrite (filter_map_comm f (fun a => mem Z.eqb (idx a) ix) (fun a => mem Z.eqb (idx a) ix) s) by (intro x; rewrite Hidx; reflexivity).
  rewrite map_map.
  rewrite (map_ext (fun x => (chain (f x), resName (f x), resSeq (f x))) (fun x => (chain x, resName x, resSeq x)))
    by (intro x; rewrite Hchain, HresName, HresSeq; reflexivity).
  f_equal. apply flat_map_ext. intro k.
  rewrite (filter_map_comm f (fun a => resk_eqb (chain a, resName a, resSeq a) k) (fun a => resk_eqb (chain a, resName a, resSeq a) k) s)
    by (intro x; rewrite Hchain, HresName, HresSeq; reflexivity).
  rewrite (filter_map_comm f (fun a => (negb only_bb || is_bb (name a))%bool) (fun a => (negb only_bb || is_bb (name a))%bool))
    by (intro x; rewrite Hname; reflexivity).
  rewrite map_map. apply map_ext. exact Hidx.
Qed.

Lemma extend_all_map s cs ic : extend_all only_bb (map f s) cs ic = extend_all only_bb s cs ic.
Proof.
  revert ic. induction cs as [|c t IH]; intro ic; [reflexivity|]. cbn [extend_all].
  destruct (dget String.eqb c ic); [|reflexivity]. rewrite extend_to_residue_map. apply IH.
Qed.

Theorem get_contact_atoms_congruence s allchains c1 c2 ext :
  get_contact_atoms close' only_bb exclH (map f s) allchains c1 c2 ext
  = get_contact_atoms close only_bb exclH s allchains c1 c2 ext.
Proof.
  unfold get_contact_atoms. rewrite !get_chains_map, fold_pair_step_map.
  destruct (negb (forallb _ _)); [reflexivity|].
  destruct (uniques _ _) as [ic|e]; cbn [bind]; [|reflexivity].
  destruct ext; [rewrite extend_all_map|]; reflexivity.
Qed.
End Congruence.

Section Congruence2.
Variables (close close' : atom -> atom -> bool) (f : atom -> atom).
Variables (only_bb exclH : bool).
Hypothesis Hidx : forall a, idx (f a) = idx a.
Hypothesis Hchain : forall a, chain (f a) = chain a.
Hypothesis HresName : forall a, resName (f a) = resName a.
Hypothesis HresSeq : forall a, resSeq (f a) = resSeq a.
Hypothesis Hname : forall a, name (f a) = name a.
Hypothesis Hclose : forall a b, close' (f a) (f b) = close a b.

Lemma rows_by_idx_map s L : rows_by_idx (map f s) L = map f (rows_by_idx s L).
Proof. unfold rows_by_idx. apply filter_map_comm. intro x. rewrite Hidx. reflexivity. Qed.
Lemma res3_of_map a : res3_of (f a) = res3_of a.
Proof. unfold res3_of. rewrite Hchain, HresSeq, HresName. reflexivity. Qed.

Lemma respair_step_map s rcp item : respair_step (map f s) rcp item = respair_step s rcp item.
Proof.
  unfold respair_step. destruct rcp as [d|e]; cbn [bind]; [|reflexivity]. destruct item as [i l].
  rewrite !rows_by_idx_map. destruct (rows_by_idx s [i]) as [|a1 t]; cbn [map]; [reflexivity|].
  rewrite res3_of_map, map_map, (map_ext (fun x => res3_of (f x)) res3_of res3_of_map). reflexivity.
Qed.

Theorem get_contact_residue_pairs_congruence s allchains c1 c2 :
  get_contact_residue_pairs close' only_bb exclH (map f s) allchains c1 c2
  = get_contact_residue_pairs close only_bb exclH s allchains c1 c2.
Proof.
  unfold get_contact_residue_pairs.
  rewrite (get_contact_atoms_congruence close close' f only_bb exclH Hidx Hchain HresName HresSeq Hname Hclose).
  destruct (get_contact_atoms close only_bb exclH s allchains c1 c2 false) as [r|e]; cbn [bind]; [|reflexivity].
  assert (E : forall l acc, fold_left (respair_step (map f s)) l acc = fold_left (respair_step s) l acc).
  { induction l as [|x t IH]; intro acc; [reflexivity|]. cbn [fold_left]. rewrite respair_step_map. apply IH. }
  rewrite E. reflexivity.
Qed.

Theorem get_contact_residues_congruence s allchains c1 c2 :
  get_contact_residues close' only_bb exclH (map f s) allchains c1 c2
  = get_contact_residues close only_bb exclH s allchains c1 c2.
Proof.
  unfold get_contact_residues.
  rewrite (get_contact_atoms_congruence close close' f only_bb exclH Hidx Hchain HresName HresSeq Hname Hclose).
  destruct (get_contact_atoms close only_bb exclH s allchains c1 c2 false) as [r|e]; cbn [bind]; [|reflexivity].
  f_equal. apply map_ext. intro kv. rewrite rows_by_idx_map, map_map.
  rewrite (map_ext (fun x => res3_of (f x)) res3_of res3_of_map). reflexivity.
Qed.
End Congruence2.

(* ---- corollaries: rigid motions ---- *)
Section Rigid.
Variables (m : mat) (t : vec).
Hypothesis Ho : orthogonal m.
Let f := move m t.
Lemma f_idx a : idx (f a) = idx a. Proof. apply (move_fields m t a). Qed.
Lemma f_chain a : chain (f a) = chain a. Proof. apply (move_fields m t a). Qed.
Lemma f_resName a : resName (f a) = resName a. Proof. apply (move_fields m t a). Qed.
Lemma f_resSeq a : resSeq (f a) = resSeq a. Proof. apply (move_fields m t a). Qed.
Lemma f_name a : name (f a) = name a. Proof. apply (move_fields m t a). Qed.

Theorem contacts_rigid c only_bb exclH s allchains c1 c2 ext :
  get_contact_atoms (closeQ c) only_bb exclH (map f s) allchains c1 c2 ext
  = get_contact_atoms (closeQ c) only_bb exclH s allchains c1 c2 ext.
Proof.
  apply (get_contact_atoms_congruence (closeQ c) (closeQ c) f only_bb exclH f_idx f_chain f_resName f_resSeq f_name).
  intros a b. apply closeQ_rigid, Ho.
Qed.

Theorem residue_pairs_rigid c only_bb exclH s allchains c1 c2 :
  get_contact_residue_pairs (closeQ c) only_bb exclH (map f s) allchains c1 c2
  = get_contact_residue_pairs (closeQ c) only_bb exclH s allchains c1 c2.
Proof.
  apply (get_contact_residue_pairs_congruence (closeQ c) (closeQ c) f only_bb exclH f_idx f_chain f_resName f_resSeq f_name).
  intros a b. apply closeQ_rigid, Ho.
Qed.

Theorem clashes_rigid s c1 c2 : compute_clashes (map f s) c1 c2 = compute_clashes s c1 c2.
Proof. unfold compute_clashes. rewrite contacts_rigid. reflexivity. Qed.
End Rigid.

(* ---- Fnat (SQL route) and clashes under independent rigid motions of decoy and reference ---- *)
Lemma set_chain_move m t a c : set_chain (move m t a) c = move m t (set_chain a c).
Proof. unfold set_chain, move. cbn. destruct (vadd (mv m (ax a, ay a, az a)) t) as [[x y] z]. reflexivity. Qed.

Lemma fix_chainID_move m t s :
  fix_chainID (map (move m t) s) = match fix_chainID s with Ok s' => Ok (map (move m t) s') | Err e => Err e end.
Proof.
  unfold fix_chainID.
  rewrite (get_chains_map (move m t) (fun a => proj1 (proj2 (move_fields m t a)))).
  destruct (26 <? List.length (get_chains s))%nat; [reflexivity|].
  f_equal. rewrite !map_map. apply map_ext. intro a.
  rewrite (proj1 (proj2 (move_fields m t a))). apply set_chain_move.
Qed.

Theorem fnat_sql_rigid c m t m' t' decoy ref : orthogonal m -> orthogonal m' ->
  compute_fnat_pdb2sql c (map (move m t) decoy) (map (move m' t') ref) = compute_fnat_pdb2sql c decoy ref.
Proof.
  intros Ho Ho'. unfold compute_fnat_pdb2sql.
  destruct fnat_sql_fix_chainID_src.
  - rewrite !fix_chainID_move.
    destruct (fix_chainID decoy) as [d|e]; cbn [bind]; [|reflexivity].
    destruct (fix_chainID ref) as [r|e]; cbn [bind]; [|reflexivity].
    rewrite (get_chains_map (move m' t') (fun a => proj1 (proj2 (move_fields m' t' a)))).
    destruct (get_chains r) as [|c1 [|c2 [|c3 l]]]; try reflexivity.
    rewrite (residue_pairs_rigid m t Ho), (residue_pairs_rigid m' t' Ho'). reflexivity.
  - cbn [bind].
    rewrite (get_chains_map (move m' t') (fun a => proj1 (proj2 (move_fields m' t' a)))).
    destruct (get_chains ref) as [|c1 [|c2 [|c3 l]]]; try reflexivity.
    rewrite (residue_pairs_rigid m t Ho), (residue_pairs_rigid m' t' Ho'). reflexivity.
Qed.

(* ---- fields the scores never read: a model atom has no serial, occupancy, B-factor or element ---- *)
Definition atom_of_row (i : Z) (r : row) : atom :=
  let txt v := match v with VText s => s | _ => EmptyString end in
  let int v := match v with VInt z => z | _ => 0%Z end in
  let real v := match v with VReal q => q | VInt z => inject_Z z | _ => 0 end in
  mkAtom i (txt (nth 4 r VNull)) (txt (nth 3 r VNull)) (int (nth 5 r VNull)) (txt (nth 1 r VNull))
         (real (nth 7 r VNull)) (real (nth 8 r VNull)) (real (nth 9 r VNull)).
Definition set_cell (r : row) (k : nat) (v : val) : row :=
  map (fun iv => if Nat.eqb (fst iv) k then v else snd iv) (combine (seq 0 (List.length r)) r).

Theorem ignored_fields i r k v :
  In k [0; 2; 6; 10; 11; 12; 13]%nat ->       (* serial, altLoc, iCode, occupancy, B-factor, element, model *)
  atom_of_row i (set_cell r k v) = atom_of_row i r.
Proof.
  intro Hk.
  assert (G : forall j, j <> k -> nth j (set_cell r k v) VNull = nth j r VNull).
  { intros j Hj. unfold set_cell. rewrite (nth_map_combine_seq (fun iv => if Nat.eqb (fst iv) k then v else snd iv) r 0 j).
    cbn [fst snd Nat.add]. destruct (Nat.ltb j (List.length r)) eqn:E.
    - destruct (Nat.eqb_spec j k); [contradiction | reflexivity].
    - apply Nat.ltb_ge in E. symmetry. apply nth_overflow. exact E. }
  unfold atom_of_row.
  cbn in Hk. 
  rewrite (G 4%nat), (G 3%nat), (G 5%nat), (G 1%nat), (G 7%nat), (G 8%nat), (G 9%nat); try reflexivity;
  intro E; subst k; intuition discriminate.
Qed.
