(* Run_many.v — wire entry points of the many2sql model/spec (C19) *)
From Verif Require Import PyLib ModelTypes Model_many Spec_many Run_parse Run_export.
Open Scope string_scope.

Definition tables_of_V (v : V) : list table := map (fun t => map row_of_V (getL t)) (getL v).
Definition nats_of_V (v : V) : list nat := map (fun x => Z.to_nat (getZ x)) (getL v).
Definition Vtables (ts : list (list row)) : V := VL (map Vrows ts).

Definition run_many (cmd : string) (a : list V) : option V :=
  if cmd =? "many.intersection" then       (* match idx, cols, tables *)
    Some (Vtables (get_intersection (nats_of_V (nth 0 a (VZ 0))) (nats_of_V (nth 1 a (VZ 0))) (tables_of_V (nth 2 a (VZ 0)))))
  else if cmd =? "spec.many.intersection" then
    Some (Vtables (spec_intersection (nats_of_V (nth 0 a (VZ 0))) (nats_of_V (nth 1 a (VZ 0))) (tables_of_V (nth 2 a (VZ 0)))))
  else if cmd =? "spec.many.unique" then
    Some (VB (forallb (unique_keys (nats_of_V (nth 0 a (VZ 0)))) (tables_of_V (nth 1 a (VZ 0)))))
  else if cmd =? "many.col_index" then
    Some (match col_index_ci (getS (nth 0 a (VZ 0))) with Some k => VZ (Z.of_nat k) | None => VZ (-1) end)
  else None.
