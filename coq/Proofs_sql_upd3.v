(* Proofs_sql_upd3.v — C04: update_column() (with and without index) and add_column() refine the
   list-of-records specification. *)
From Coq Require Import Lia.
From Verif Require Import PyLib ModelTypes Generated_parse Model_sqlval Model_sql Spec_sql
  Proofs_sql_base Proofs_sql_get Proofs_sql_upd.
Open Scope string_scope.

Lemma set_nth_twice {A} (i : nat) (x y : A) l : set_nth i x (set_nth i y l) = set_nth i x l.
Proof. revert i; induction l as [|a t IH]; intros [|j]; cbn; try reflexivity. rewrite IH. reflexivity. Qed.

Definition one (x : val) : list val := [x].
Definition onep (v : pv) : list pv := [v].
Definition opt_set (ci : nat) (acc : option val) (r : row) : row :=
  match acc with Some x => set_nth ci x r | None => r end.

Lemma row_fold_last ci q : forall zs xs acc r,
  fold_left (fun r (u : Z * list val) => if Z.eqb (fst u) (Z.of_nat q + 1) then write_cells [ci] (snd u) r else r)
            (combine (map (fun z => (z + 1)%Z) zs) (map one xs)) (opt_set ci acc r)
  = opt_set ci (last_for q (combine zs xs) acc) r.
Proof.
  induction zs as [|z zs IH]; intros xs acc r; [reflexivity|].
  destruct xs as [|x xs]; [reflexivity|].
  cbn [map combine fold_left fst snd last_for].
  destruct (Z.eqb_spec (z + 1) (Z.of_nat q + 1)) as [E|E].
  - assert (Z.eqb z (Z.of_nat q) = true) as -> by (apply Z.eqb_eq; lia).
    replace (write_cells [ci] (one x) (opt_set ci acc r)) with (opt_set ci (Some x) r).
    + apply IH.
    + unfold one. cbn [write_cells opt_set]. destruct acc; cbn [opt_set]; [rewrite set_nth_twice|]; reflexivity.
  - assert (Z.eqb z (Z.of_nat q) = false) as -> by (apply Z.eqb_neq; lia).
    apply IH.
Qed.

Lemma enum_idx_combine values : forall i,
  enum_idx values i = combine (map onep values) (map (fun z => (z + 1)%Z) (seqZ i (List.length values))).
Proof. induction values as [|v vs IH]; intro i; [reflexivity|]. cbn. rewrite IH. reflexivity. Qed.

Definition pint_of (v : pv) : res Z := match v with PInt z => Ok z | _ => unspecified end.
Lemma zip_idx_combine : forall values ix zs,
  mapM pint_of (firstn (List.length values) ix) = Ok zs ->
  zip_idx values ix = Ok (combine (map onep values) (map (fun z => (z + 1)%Z) zs)).
Proof.
  induction values as [|v vs IH]; intros ix zs H.
  - cbn in H. apply res_Ok_inj in H; subst. reflexivity.
  - destruct ix as [|i ix'].
    + cbn in H. apply res_Ok_inj in H; subst. reflexivity.
    + cbn [List.length firstn mapM] in H.
      apply bind_Ok_inv in H; destruct H as (z & Hz & H1).
      apply bind_Ok_inv in H1; destruct H1 as (zs' & Hzs & H2). apply res_Ok_inj in H2; subst zs.
      destruct i; cbn in Hz; try discriminate. apply res_Ok_inj in Hz; subst z0.
      cbn [zip_idx index_val bind]. rewrite (IH ix' zs' Hzs). reflexivity.
Qed.

Lemma data_ok_column t ci values xs : forall zs,
  mapM (store_val (col_aff t (CCol ci))) values = Ok xs ->
  data_ok t [ci] (combine (map onep values) (map (fun z => (z + 1)%Z) zs)) (map one (firstn (List.length zs) xs)).
Proof.
  intros zs H. apply mapM_Ok_Forall2 in H. revert zs.
  induction H as [|v x vs xs' Hv _ IH]; intro zs.
  - destruct zs; cbn; constructor.
  - destruct zs as [|z zs']; [cbn; constructor|].
    cbn [map combine List.length firstn]. constructor; [|apply IH].
    cbn [fst]. split; [reflexivity|]. unfold store_row, onep, one. cbn [combine mapM fst snd]. rewrite Hv. reflexivity.
Qed.

Lemma combine_firstn {A B} (a : list A) (b : list B) : combine a (firstn (List.length a) b) = combine a b.
Proof. revert b; induction a as [|x s IH]; intros [|y t]; cbn; try reflexivity. rewrite IH. reflexivity. Qed.
Lemma map_snd_combine_le {A B} (a : list A) (b : list B) :
  (List.length b <= List.length a)%nat -> map snd (combine a b) = b.
Proof.
  revert b; induction a as [|x s IH]; intros [|y t]; cbn; intro H; try reflexivity; try lia.
  f_equal. apply IH. lia.
Qed.

Theorem update_column_refines d colname values index tn d' t :
  find_table tn (tables d) = Some t -> wf_table t = true ->
  spec_update_column d colname values index tn = (d', None) ->
  update_column_model d colname values index tn = (d', None).
Proof.
  intros Ht Hwf Hspec. destruct (wf_split t Hwf) as [Hw Hnd].
  unfold spec_update_column in Hspec. unfold update_column_model.
  destruct (table_name_ok tn); [|discriminate]. cbn [negb] in *.
  rewrite Ht in *.
  destruct (ident_shape colname) eqn:Hsh; [|discriminate]. cbn [negb] in Hspec.
  destruct (is_rowid_alias colname) eqn:Hal; [discriminate|].
  destruct (find_ci colname (tcols t) 0) as [ci|] eqn:Hci; [|discriminate].
  set (idx := match index with
              | None => Ok (seqZ 0 (List.length values))
              | Some ix => mapM (fun v => match v with PInt z => Ok z | _ => unspecified end) (firstn (List.length values) ix)
              end) in *.
  destruct idx as [zs|e] eqn:Hidx; [|inversion Hspec].
  destruct (mapM (store_val (col_aff t (CCol ci))) values) as [xs|e] eqn:Hxs; [|inversion Hspec].
  inversion Hspec as [Hd']. clear Hspec.
  assert (Hlz : (List.length zs <= List.length values)%nat).
  { subst idx. destruct index as [ix|].
    - apply mapM_length in Hidx. rewrite Hidx, firstn_length. lia.
    - apply res_Ok_inj in Hidx. subst zs. clear. generalize 0%Z.
      induction values as [|v vs IH]; intro z; cbn; [lia|]. specialize (IH (z + 1)%Z). lia. }
  assert (Hdata : (match index with None => Ok (enum_idx values 0) | Some ix => zip_idx values ix end)
                  = Ok (combine (map onep values) (map (fun z => (z + 1)%Z) zs))).
  { subst idx. destruct index as [ix|].
    - apply zip_idx_combine. exact Hidx.
    - apply res_Ok_inj in Hidx. subst zs. rewrite enum_idx_combine. reflexivity. }
  rewrite Hdata.
  assert (Hset : set_list t [colname] = Ok [ci]).
  { unfold set_list. cbn [nodup_str existsb negb andb mapM].
    destruct (String.eqb colname "*") eqn:E.
    { apply String.eqb_eq in E. subst colname. cbn in Hsh. discriminate. }
    unfold resolve_name. rewrite Hsh. cbn [negb]. rewrite Hci. reflexivity. }
  rewrite Hset.
  destruct t as [cols rows]. cbn [tcols trows] in *.
  pose proof (exec_many_rowwise (mkTable cols rows) [ci] _ _ rows (data_ok_column (mkTable cols rows) ci values xs zs Hxs)) as EX.
  cbn [tcols] in EX. rewrite EX. f_equal. unfold with_table. f_equal. f_equal. f_equal.
  rewrite map_snd_combine_le by (rewrite !map_length; exact Hlz).
  unfold with_positions.
  transitivity (map_pos (fun q r => match last_for q (combine zs xs) None with
                                    | Some x => set_nth ci x r | None => r end) 0 rows);
    [| symmetry; exact (map_pos_with_positions
                          (fun q r => match last_for q (combine zs xs) None with
                                      | Some x => set_nth ci x r | None => r end) rows 0)].
  apply map_pos_ext. intros q r _. unfold row_fold.
  pose proof (row_fold_last ci q zs (firstn (List.length zs) xs) None r) as X.
  cbn [opt_set] in X. rewrite X. rewrite combine_firstn. reflexivity.
Qed.

(* add_column: the two definitions coincide on the specification's domain *)
Theorem add_column_refines d colname coltype value tn d' :
  spec_add_column d colname coltype value tn = (d', None) ->
  add_column_model d colname coltype value tn = (d', None).
Proof.
  unfold spec_add_column, add_column_model. intro H.
  destruct (negb _); [discriminate|].
  destruct (find_table tn (tables d)) as [t|]; [|discriminate].
  destruct (find_ci colname (tcols t) 0); [discriminate|].
  destruct value as [z|q|s|]; cbn [default_literal bind] in *.
  - destruct (default_store _ _); [exact H|inversion H].
  - destruct (default_store _ _); [exact H|inversion H].
  - destruct (plain_ident s); [|inversion H]. cbn [bind]. destruct (default_store _ _); [exact H|inversion H].
  - inversion H.
Qed.
