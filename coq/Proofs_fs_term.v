(* Proofs_fs_term.v — C16: every script returns within [fuel] actions whatever the file system answers;
   hence under every schedule that is continued until every task had its turns, every task RETURNS, and
   (with noninterference) returns its solo result. *)
From Coq Require Import Lia.
From Verif Require Import PyLib ModelTypes Model_fs Spec_fs Proofs_fs_base Proofs_fs_c16 Proofs_fs_c16_main.
Open Scope string_scope.
Open Scope list_scope.
Open Scope nat_scope.

Inductive bounded {A} : nat -> prog A -> Prop :=
| b_ret n a : bounded n (Ret a)
| b_do n a k : (forall r, bounded n (k r)) -> bounded (S n) (Do a k).

Lemma bounded_mono {A} n m (p : prog A) : bounded n p -> n <= m -> bounded m p.
Proof.
  intro H. revert m. induction H as [n a|n a k Hk IH]; intros m Hm; [constructor|].
  destruct m as [|m]; [lia|]. constructor. intro r. apply IH. lia.
Qed.
Lemma bounded_bindp {A B} n m (p : prog A) (f : A -> prog B) :
  bounded n p -> (forall a, bounded m (f a)) -> bounded (n + m) (bindp p f).
Proof.
  intros Hp Hf. induction Hp as [n a|n a k Hk IH]; simpl.
  - eapply bounded_mono; [apply Hf | lia].
  - constructor. exact IH.
Qed.
Lemma bounded_bindr {A B} n m (p : prog (res A)) (f : A -> prog (res B)) :
  bounded n p -> (forall a, bounded m (f a)) -> bounded (n + m) (bindr p f).
Proof. intros Hp Hf. unfold bindr. apply bounded_bindp; [exact Hp|]. intros [a|e]; [apply Hf | constructor]. Qed.

Lemma bounded_step {A} n a (k : resp -> prog A) r : bounded n (Do a k) -> bounded (n - 1) (k r).
Proof. intro H. inversion H; subst. simpl. rewrite Nat.sub_0_r. auto. Qed.

Lemma bounded_run {A} : forall n fs (p : prog A), bounded n p -> exists a, snd (frun_n n fs p) = Ret a.
Proof.
  induction n as [|n IH]; intros fs p H.
  - inversion H; subst. eexists. reflexivity.
  - destruct p as [a|a k]; [eexists; reflexivity|]. simpl.
    destruct (fstep fs a) as [fs' r]. apply IH. inversion H; subst. auto.
Qed.

(* fragments *)
Lemma b_read_pdb p : bounded 3 (read_pdb p).
Proof.
  unfold read_pdb. constructor. intro r. destruct (resp_true r); [|constructor].
  constructor. intro r2. destruct (resp_true r2); [|constructor]. constructor. intro. constructor.
Qed.
Lemma b_new_db p : bounded 4 (new_db p).
Proof. unfold new_db. constructor. intros _. apply b_read_pdb. Qed.
Lemma b_read_zone z : bounded 2 (read_zone z).
Proof. unfold read_zone. constructor. intro r. destruct (resp_true r); [|constructor]. constructor. intro. constructor. Qed.
Lemma b_write_lines p ls m k : bounded m k -> bounded (List.length ls + m) (write_lines p ls k).
Proof.
  intro Hk. induction ls as [|l ls IH]; simpl; [exact Hk|].
  constructor. intro r. destruct (resp_unit r); [exact IH | constructor].
Qed.
Lemma b_write_zone z lines : forall tmps, bounded (List.length tmps + (List.length lines + 2)) (write_zone z tmps lines).
Proof.
  induction tmps as [|t ts IH]; simpl; [constructor|].
  constructor. intro r.
  assert (Hgo : bounded (List.length ts + (List.length lines + 2))
                  (write_lines t lines (Do (AClose t) (fun _ => Do (ARename t z) (fun r2 => Ret (resp_unit r2)))))).
  { eapply bounded_mono; [apply (b_write_lines t lines 2)|lia].
    constructor. intros _. constructor. intro. constructor. }
  destruct r; try exact Hgo. exact IH.
Qed.
Lemma b_exportpdb f lines : bounded (List.length lines + 2) (exportpdb f lines).
Proof.
  unfold exportpdb. replace (List.length lines + 2) with (S (List.length (map (fun l => l +s+ String nl EmptyString) lines) + 1))
    by (rewrite map_length; lia).
  constructor. intros _. apply b_write_lines. constructor. intros _. constructor.
Qed.
Lemma b_acquire ref zone tmps lines :
  bounded (List.length tmps + List.length lines + 8) (acquire_zone ref zone tmps lines).
Proof.
  unfold acquire_zone. destruct zone as [z|].
  - replace (List.length tmps + List.length lines + 8) with (S (List.length tmps + List.length lines + 7)) by lia.
    constructor. intro r. destruct (resp_true r).
    + eapply bounded_mono; [apply (bounded_bindr 2 0); [apply b_read_zone | intro; constructor] | lia].
    + eapply bounded_mono.
      * apply (bounded_bindr 4 (List.length tmps + (List.length lines + 2) + 0)); [apply b_new_db|]. intro t.
        apply bounded_bindr; [apply b_write_zone | intro; constructor].
      * lia.
  - eapply bounded_mono; [apply (bounded_bindr 4 0); [apply b_new_db | intro; constructor] | lia].
Qed.
Lemma b_rd n m p acc k : bounded n p -> (forall a, bounded m (k a)) -> bounded (n + m) (rd p acc k).
Proof. intros Hp Hk. unfold rd. apply bounded_bindr; [exact Hp | intro t; apply Hk]. Qed.

Ltac bd :=
  repeat first
    [ apply b_rd; [first [apply b_new_db | apply b_read_pdb | apply b_read_zone] | intro]
    | apply bounded_bindr; [first [apply b_exportpdb | apply b_acquire] | intro]
    | apply (b_ret 0) ].

Theorem script_bounded c : bounded (fuel c) (script c).
Proof.
  unfold script, fuel, lrmsd_tail, irmsd_tail.
  destruct (cl_routine c) as [zone|zone|zone export|export| | | |export|export].
  - eapply bounded_mono; [bd | lia].
  - eapply bounded_mono; [bd | lia].
  - destruct zone as [z|]; destruct export as [e|].
    + eapply bounded_mono.
      * apply b_rd; [apply b_new_db | intro]. apply b_rd; [apply b_new_db | intro].
        apply (b_do (2 + (List.length (cl_out1 c) + 2 + (List.length (cl_out2 c) + 2 + 0)))). intro r.
        destruct (resp_true r); [|constructor]. bd.
      * lia.
    + eapply bounded_mono.
      * apply b_rd; [apply b_new_db | intro]. apply b_rd; [apply b_new_db | intro].
        apply (b_do (2 + 0)). intro r. destruct (resp_true r); [|constructor]. bd.
      * lia.
    + eapply bounded_mono; [bd | lia].
    + eapply bounded_mono; [bd | lia].
  - destruct export as [e|]; (eapply bounded_mono; [bd | lia]).
  - eapply bounded_mono; [bd | lia].
  - eapply bounded_mono; [bd | lia].
  - eapply bounded_mono; [bd | lia].
  - destruct export; (eapply bounded_mono; [bd | lia]).
  - destruct export; (eapply bounded_mono; [bd | lia]).
Qed.

(* every routine returns (a value or an error) within [fuel] actions, in every directory *)
Theorem script_terminates c fs : exists r, snd (frun_n (fuel c) fs (script c)) = Ret r.
Proof. apply bounded_run. apply script_bounded. Qed.

(* ---- schedules that let every task have its turns ---- *)
Section Finish.
Context {A : Type}.

Lemma sched_step_other {B} i j (st : fsys * list (prog B)) p :
  i <> j -> nth_error (snd st) i = Some p -> nth_error (snd (sched_step j st)) i = Some p.
Proof.
  intros Hij Hi. destruct st as [fs ts]. unfold sched_step.
  destruct (nth_error ts j) as [[a|a k]|]; try exact Hi.
  destruct (fstep fs a). simpl. rewrite nth_error_replace_neq by congruence. exact Hi.
Qed.

Lemma sched_step_ret {B} i j (st : fsys * list (prog B)) a :
  nth_error (snd st) i = Some (Ret a) -> nth_error (snd (sched_step j st)) i = Some (Ret a).
Proof.
  intro Hi. destruct (Nat.eq_dec i j) as [->|Hij]; [|now apply sched_step_other].
  destruct st as [fs ts]. unfold sched_step. simpl in Hi. rewrite Hi. exact Hi.
Qed.

Lemma run_sched_ret {B} : forall s i (st : fsys * list (prog B)) a,
  nth_error (snd st) i = Some (Ret a) -> nth_error (snd (run_sched s st)) i = Some (Ret a).
Proof. induction s as [|j s IH]; intros i st a H; [exact H|]. simpl. apply IH. now apply sched_step_ret. Qed.

Lemma run_repeat_finishes {B} : forall m i (st : fsys * list (prog B)) p,
  nth_error (snd st) i = Some p -> bounded m p ->
  exists a, nth_error (snd (run_sched (repeat i m) st)) i = Some (Ret a).
Proof.
  induction m as [|m IH]; intros i st p Hi Hb.
  - inversion Hb; subst. eexists. exact Hi.
  - simpl. destruct p as [a|a k].
    + exists a. apply run_sched_ret. now apply sched_step_ret.
    + inversion Hb; subst. destruct st as [fs ts]. simpl in Hi.
      assert (E : sched_step i (fs, ts) = (fst (fstep fs a), replace_nth i (k (snd (fstep fs a))) ts)).
      { unfold sched_step. rewrite Hi. destruct (fstep fs a); reflexivity. }
      rewrite E. apply (IH i _ (k (snd (fstep fs a)))); [|auto].
      simpl. apply (nth_error_replace_eq _ _ _ _ Hi).
Qed.
End Finish.

Lemma bounded_residual {A} : forall n m fs (p : prog A), bounded m p -> bounded m (snd (frun_n n fs p)).
Proof.
  induction n as [|n IH]; intros m fs p H; [exact H|].
  destruct p as [a|a k]; [exact H|]. simpl. destruct (fstep fs a) as [fs' r].
  apply IH. inversion H; subst. eapply bounded_mono; [auto | lia].
Qed.

(* the turns the harness (and c16_sched) appends to every schedule: each task, fuel times *)
Definition turns (cs : list call) : list nat :=
  flat_map (fun i => repeat i (fuel (nth i cs (mkCall "" "" RContacts [] [] [] [])))) (seq 0 (List.length cs)).

Lemma run_sched_app {B} s1 s2 (st : fsys * list (prog B)) : run_sched (s1 ++ s2) st = run_sched s2 (run_sched s1 st).
Proof. revert st. induction s1 as [|j s1 IH]; intro st; [reflexivity|]. simpl. apply IH. Qed.

Lemma flat_map_seq_split {B} (f : nat -> list B) n i : i < n ->
  flat_map f (seq 0 n) = flat_map f (seq 0 i) ++ f i ++ flat_map f (seq (S i) (n - S i)).
Proof.
  intro H. replace n with (i + S (n - S i)) at 1 by lia.
  rewrite seq_app, flat_map_app. simpl (0 + i).
  change (seq i (S (n - S i))) with (i :: seq (S i) (n - S i)). reflexivity.
Qed.

(* Any mix of the library's routines with non-interfering footprints, EVERY schedule, continued until every
   task had its turns: every task RETURNS, and returns exactly what it returns alone. *)
Theorem all_return_solo (cs : list call) (fs0 : fsys) :
  (forall i j ci cj q, i <> j -> nth_error cs i = Some ci -> nth_error cs j = Some cj ->
     may_write ci q -> ~ footprint cj q) ->
  forall (s : list nat) i c,
    nth_error cs i = Some c ->
    exists a, nth_error (snd (run_sched (s ++ turns cs) (fs0, map script cs))) i = Some (Ret a)
              /\ exists n, snd (frun_n n fs0 (script c)) = Ret a.
Proof.
  intros Hdis s i c Hi.
  assert (Hlt : i < List.length cs) by (apply nth_error_Some; rewrite Hi; discriminate).
  unfold turns. rewrite (flat_map_seq_split _ _ i Hlt).
  rewrite (nth_error_nth _ _ (mkCall "" "" RContacts [] [] [] []) Hi).
  set (pre := flat_map _ (seq 0 i)). set (post := flat_map _ (seq (S i) _)).
  replace (s ++ pre ++ repeat i (fuel c) ++ post) with (((s ++ pre) ++ repeat i (fuel c)) ++ post)
    by (now rewrite <- !app_assoc).
  rewrite (run_sched_app ((s ++ pre) ++ repeat i (fuel c)) post).
  (* the state after  s ++ pre : task i is a residual of its script *)
  set (Rf := fun i q => exists c, nth_error cs i = Some c /\ may_read c q).
  set (Wf := fun i q => exists c, nth_error cs i = Some c /\ may_write c q).
  assert (Hw : forall j p, nth_error (map script cs) j = Some p -> within (Rf j) (Wf j) p).
  { intros j p Hj. destruct (nth_error cs j) as [cj|] eqn:Ej.
    - rewrite (map_nth_error script _ _ Ej) in Hj. injection Hj as <-.
      eapply within_weaken; [| |apply script_within]; intros q Hq; exists cj; split; auto.
    - exfalso. apply nth_error_None in Ej.
      assert (nth_error (map script cs) j <> None) by (rewrite Hj; discriminate).
      apply nth_error_Some in H. rewrite map_length in H. lia. }
  assert (Hd : forall j k q, j <> k -> Wf j q -> ~ (Rf k q \/ Wf k q)).
  { intros j k q Hjk [cj [Ej Hwj]] [[ck [Ek Hr']]|[ck [Ek Hw']]].
    - apply (Hdis j k cj ck q Hjk Ej Ek Hwj). left. exact Hr'.
    - apply (Hdis j k cj ck q Hjk Ej Ek Hwj). right. exact Hw'. }
  destruct (noninterference_state fs0 (map script cs) Rf Wf Hw Hd (s ++ pre) i (script c) (map_nth_error script _ _ Hi))
    as [n [Hn _]].
  destruct (run_repeat_finishes (fuel c) i (run_sched (s ++ pre) (fs0, map script cs)) _ Hn
              (bounded_residual n (fuel c) fs0 (script c) (script_bounded c))) as [a Ha].
  exists a. split.
  - apply run_sched_ret. rewrite run_sched_app. exact Ha.
  - apply (noninterference_calls cs fs0 Hdis ((s ++ pre) ++ repeat i (fuel c)) i c a Hi).
    rewrite run_sched_app. exact Ha.
Qed.
