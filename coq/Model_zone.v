(* Model_zone.v — zone files (C09): the writer's line format and the two readers.
   StructureSimilarity.py: _write_zone (format string regenerated as zone_format_src),
   read_zone; get_izone_rowID now delegates to read_zone. *)
From Verif Require Import PyLib ModelTypes Generated_zone.
Open Scope string_scope.

(* one line, as '<fmt>' % (chain, num, chain, num) *)
Fixpoint render_zone (fmt : list zpiece) (chain : string) (num : Z) : string :=
  match fmt with
  | [] => ""
  | ZLit s :: t => s ++ render_zone t chain num
  | ZChain :: t => chain ++ render_zone t chain num
  | ZNum :: t => str_of_Z num ++ render_zone t chain num
  end.
Definition zone_line (chain : string) (num : Z) : string := render_zone zone_format_src chain num.
Definition write_zone (zone : list (string * Z)) : string :=
  fold_right (fun cz acc => zone_line (fst cz) (snd cz) ++ acc) "" zone.

(* str.split() without argument: maximal runs of non-whitespace *)
Fixpoint ws_split_aux (cur : string) (s : string) : list string :=
  match s with
  | EmptyString => match cur with EmptyString => [] | _ => [rev_str "" cur] end
  | String c t =>
    if is_space c then
      match cur with EmptyString => ws_split_aux "" t | _ => rev_str "" cur :: ws_split_aux "" t end
    else ws_split_aux (String c cur) t
  end.
Definition ws_split (s : string) : list string := ws_split_aux "" s.
(* s.split(sep) for a one-character separator *)
Fixpoint split_on_aux (sep : ascii) (cur : string) (s : string) : list string :=
  match s with
  | EmptyString => [rev_str "" cur]
  | String c t => if Ascii.eqb c sep then rev_str "" cur :: split_on_aux sep "" t
                  else split_on_aux sep (String c cur) t
  end.
Definition split_on (sep : ascii) (s : string) : list string := split_on_aux sep "" s.

Definition py_int (s : string) : res Z :=
  match parse_int s with NumOk z => Ok z | NumBad => Err "ValueError" | NumOutOfModel => Err "OutOfModel" end.

(* StructureSimilarity.py read_zone, one line: (chainID, resSeq) *)
Definition read_zone_line (prev : option (string * Z)) (line : string) : res (string * Z) :=
  match ws_split line with
  | _ :: tok :: _ =>
    match split_on "-"%char tok with
    | [a; _] =>
        match a with
        | EmptyString => Err "IndexError"
        | String c rest => do z <- py_int rest; Ok (String c "", z)
        end
    | [a; b; _; _] => do z <- py_int b; Ok (a, (- z)%Z)
    | _ => match prev with Some p => Ok p | None => Err "UnboundLocalError" end
    end
  | _ => Err "IndexError"
  end.

Fixpoint read_zone_lines (prev : option (string * Z)) (lines : list string) : res (list (string * Z)) :=
  match lines with
  | [] => Ok []
  | l :: t => do p <- read_zone_line prev l; do r <- read_zone_lines (Some p) t; Ok (p :: r)
  end.
(* resData: chain -> residue numbers, chains in order of first appearance (dict insertion order) *)
Fixpoint group_add (c : string) (z : Z) (g : list (string * list Z)) : list (string * list Z) :=
  match g with
  | [] => [(c, [z])]
  | (c', zs) :: t => if String.eqb c c' then (c', (zs ++ [z])%list) :: t else (c', zs) :: group_add c z t
  end.
Definition group (l : list (string * Z)) : list (string * list Z) :=
  fold_left (fun g cz => group_add (fst cz) (snd cz) g) l [].
Definition read_zone (content : string) : res (list (string * list Z)) :=
  do l <- read_zone_lines None (readlines content); Ok (group l).
