(* Proofs_rmsd_def4.v — C07: the SQL L-RMSD (compute_lrmsd_pdb2sql) equals the definition of the L-RMSD on structures that
   list the same atoms in the same order, provided it picks the long chain the definition names (it chooses by the number of
   selected decoy atoms, the definition by the reference chain sizes: known finding F5 is the case where they differ).
   Obtained from two results already proved: the fast route equals the definition (Proofs_rmsd_def3) and the two routes
   report the same value (Proofs_routes_l). *)
From Coq Require Import Lia Lqa.
From Verif Require Import PyLib ModelTypes Model_contact Model_many Model_superpose Spec_superpose Model_zone Model_rmsd Spec_rmsd
  Proofs_contact_lists Proofs_contact_spec Proofs_superpose Proofs_rmsd Proofs_routes Proofs_zone_source Proofs_routes_l
  Proofs_rmsd_def2 Proofs_rmsd_def3.
Open Scope string_scope.
Open Scope list_scope.

(* structures listing the same identities in the same order keep, under any selection decided by a fixed key set, the same
   relative order of their common atoms *)
Lemma same_order_aligned (P : atom -> bool) decoy ref :
  map key4_of decoy = map key4_of ref -> same_order_for P decoy ref.
Proof.
  intro E. unfold same_order_for. cbv zeta.
  set (common := inter_keys (map key3_of (filter P ref)) (map key3_of (filter P decoy))).
  apply (via_key4 (fun l => map k4_key3 (filter (fun k => mem key3_eqb (k4_key3 k) common) l))
                  (fun s => map key3_of (filter (fun a => mem key3_eqb (key3_of a) common) s))); [|exact E].
  intro s. rewrite <- (filter_map_key4 (fun k => mem key3_eqb (k4_key3 k) common)), map_map. reflexivity.
Qed.

(* msd is defined exactly on non-empty lists of equal length *)
Lemma msd_defined P Qs : List.length P = List.length Qs -> P <> [] -> exists m, msd P Qs = Ok m.
Proof.
  intros L N. unfold msd. rewrite L, Nat.eqb_refl. cbn [negb]. destruct P as [|p t]; [contradiction N; reflexivity|]. eexists. reflexivity.
Qed.
Lemma msd_ok_shape P Qs m : msd P Qs = Ok m -> List.length P = List.length Qs /\ P <> [].
Proof.
  unfold msd. destruct (Nat.eqb (List.length P) (List.length Qs)) eqn:E; cbn [negb]; [|intro H; discriminate H].
  destruct P as [|p t]; [intro H; discriminate H|]. intros _. split; [apply Nat.eqb_eq; exact E | discriminate].
Qed.

Theorem lrmsd_sql_is_definition_aligned decoy ref c1 c2 names :
  aligned decoy ref -> NoDup (map key3_of decoy) -> get_chains ref = [c1; c2] ->
  Nat.ltb (List.length (sel names decoy c2)) (List.length (sel names decoy c1))
  = negb (Nat.ltb (List.length (chain_atoms ref c1)) (List.length (chain_atoms ref c2))) ->
  forall rmat enforce m',
    lrmsd_sql rmat enforce names decoy ref = Ok m' ->
    exists fit meas m,
      lrmsd_pairs_spec names decoy ref = Some (fit, meas) /\
      msd (superpose_selection rmat (map fst fit) (map snd fit) (map fst meas)) (map snd meas) = Ok m /\ (m == m')%Q.
Proof.
  intros A U H Hl rmat enforce m' Hs. pose proof Hs as Hs0.
  pose proof (proj1 A) as E.
  (* the fast route, with the residue check on, is the definition *)
  destruct (lrmsd_fast_is_definition' decoy ref c1 c2 names rmat true enforce true U H
              (same_order_aligned _ decoy ref E) (same_order_aligned _ decoy ref E) eq_refl
              (check_residues_aligned enforce (Some names) decoy ref E)) as [_ Df].
  (* it is defined whenever the SQL route is *)
  pose proof (lrmsd_fast_aligned decoy ref c1 c2 names A H rmat true enforce) as Nf.
  pose proof (lrmsd_sql_aligned decoy ref c1 c2 names A H Hl rmat enforce) as Ns.
  rewrite Ns in Hs.
  destruct (negb (Nat.eqb (List.length (sel names decoy _)) (List.length (sel names ref _)))) eqn:T; [discriminate Hs|].
  destruct (msd_ok_shape _ _ _ Hs) as [Len Ne]. rewrite !map_length in Len.
  assert (Hf : exists m, lrmsd_fast rmat (lz ref c1 c2) true enforce names decoy ref = Ok m).
  { rewrite Nf. apply msd_defined.
    - unfold superpose_selection. rewrite map_length. exact Len.
    - unfold superpose_selection. intro X. apply Ne. apply map_eq_nil in X. rewrite X. reflexivity. }
  destruct Hf as [m Hf].
  unfold lrmsd_pairs_spec in *. destruct (long_chain_spec ref) as [[lc sc]|] eqn:LC.
  - exists (identity_pairs (fun r => (mem String.eqb (name r) names && String.eqb (chain r) lc)%bool) decoy ref),
           (identity_pairs (fun r => (mem String.eqb (name r) names && String.eqb (chain r) sc)%bool) decoy ref), m.
    split; [reflexivity|]. split.
    + rewrite <- Df. exact Hf.
    + exact (lrmsd_routes_agree decoy ref c1 c2 names A H Hl rmat true enforce m m' Hf Hs0).
  - rewrite Df in Hf. discriminate Hf.
Qed.

(* the hypotheses are satisfiable with a non-trivial outcome: two chains of different sizes, the decoy a displaced copy *)
Definition dA (i : Z) (c : string) (n : Z) (nm : string) (x y z : Q) : atom := mkAtom i c "ALA" n nm x y z.
Definition midentity : mat := ((1, 0, 0), (0, 1, 0), (0, 0, 1))%Q.
Definition ref_ex : structure :=
  [dA 0 "A" 1 "CA" 0 0 0; dA 1 "A" 1 "C" 1 0 0; dA 2 "A" 2 "CA" 0 2 0; dA 3 "B" 1 "CA" 5 0 0; dA 4 "B" 1 "C" 5 1 0].
Definition decoy_ex : structure :=
  [dA 0 "A" 1 "CA" 0 0 0; dA 1 "A" 1 "C" 1 0 0; dA 2 "A" 2 "CA" 0 2 0; dA 3 "B" 1 "CA" 6 0 0; dA 4 "B" 1 "C" 6 1 0].
Example lrmsd_sql_definition_nonvacuous :
  aligned decoy_ex ref_ex /\ NoDup (map key3_of decoy_ex) /\ get_chains ref_ex = ["A"; "B"] /\
  Nat.ltb (List.length (sel ["CA"; "C"] decoy_ex "B")) (List.length (sel ["CA"; "C"] decoy_ex "A"))
  = negb (Nat.ltb (List.length (chain_atoms ref_ex "A")) (List.length (chain_atoms ref_ex "B"))) /\
  lrmsd_sql midentity false ["CA"; "C"] decoy_ex ref_ex = Ok 1%Q.
Proof.
  split; [split; [reflexivity|]|split; [|split; [reflexivity|split; [reflexivity|vm_compute; reflexivity]]]].
  - vm_compute. repeat (constructor; [cbn; intuition congruence|]). constructor.
  - vm_compute. repeat (constructor; [cbn; intuition congruence|]). constructor.
Qed.
