(* PyLib.v — executable models of the CPython / SQLite primitives the library relies on.
   Definitions only (total, computable); lemmas live in PyLibFacts.v.
   Text is Coq [string]; theorems quantify over printable ASCII (DESIGN §4.1). *)
From Verif Require Export Base.
Open Scope string_scope.
Open Scope Z_scope.

(* ------------------------------------------------------------------ *)
(* characters                                                          *)
Definition sp : ascii := " "%char.
Definition nl : ascii := "010"%char.
(* str.strip() with no argument strips ASCII whitespace: \t\n\v\f\r, space, and 0x1c-0x1f *)
Definition is_space (c : ascii) : bool :=
  let n := nat_of_ascii c in
  (Nat.eqb n 32 || (Nat.leb 9 n && Nat.leb n 13) || (Nat.leb 28 n && Nat.leb n 31))%bool.
Definition is_digit (c : ascii) : bool :=
  let n := nat_of_ascii c in (Nat.leb 48 n && Nat.leb n 57)%bool.
Definition digit_val (c : ascii) : Z := Z.of_nat (nat_of_ascii c) - 48.

(* ------------------------------------------------------------------ *)
(* strings                                                             *)
Fixpoint lstrip (s : string) : string :=
  match s with
  | String c t => if is_space c then lstrip t else s
  | EmptyString => EmptyString
  end.
Fixpoint rev_str (acc s : string) : string :=
  match s with String c t => rev_str (String c acc) t | EmptyString => acc end.
Definition rstrip (s : string) : string := rev_str "" (lstrip (rev_str "" s)).
Definition strip (s : string) : string := rstrip (lstrip s).

(* s[a:b] for 0 <= a <= b (Python clips at the end of the string) *)
Definition slice (a b : nat) (s : string) : string := substring a (b - a) s.
(* s[i] as a one-character string; "" when out of range (Python raises IndexError;
   every use in the library is on an 80-column padded line) *)
Definition char_at (i : nat) (s : string) : string := substring i 1 s.

Fixpoint repeat_char (c : ascii) (n : nat) : string :=
  match n with O => "" | S k => String c (repeat_char c k) end.
Definition ljust (w : nat) (s : string) : string := s ++ repeat_char sp (w - length s).
Definition rjust (w : nat) (s : string) : string := repeat_char sp (w - length s) ++ s.
(* '{:^w}'.format(s): the odd blank goes to the right *)
Definition center (w : nat) (s : string) : string :=
  let pad := (w - length s)%nat in
  let l := Nat.div pad 2 in
  repeat_char sp l ++ s ++ repeat_char sp (pad - l).

Definition startswith (p s : string) : bool := prefix p s.
Definition str_nonempty (s : string) : bool :=
  match s with EmptyString => false | _ => true end.
(* Python [a in b] on two strings: substring containment *)
Fixpoint is_substring (a b : string) : bool :=
  (prefix a b || match b with String _ t => is_substring a t | EmptyString => false end)%bool.

(* cut at the first newline: line.split('\n')[0] *)
Fixpoint upto_nl (s : string) : string :=
  match s with
  | EmptyString => ""
  | String c t => if Ascii.eqb c nl then "" else String c (upto_nl t)
  end.
(* s.split('\n') *)
Fixpoint split_nl_aux (cur : string) (s : string) : list string :=
  match s with
  | EmptyString => [rev_str "" cur]
  | String c t => if Ascii.eqb c nl then rev_str "" cur :: split_nl_aux "" t
                  else split_nl_aux (String c cur) t
  end.
Definition split_nl (s : string) : list string := split_nl_aux "" s.
(* file.readlines(): lines keep their terminator; no empty last line *)
Fixpoint readlines_aux (cur : string) (s : string) : list string :=
  match s with
  | EmptyString => match cur with EmptyString => [] | _ => [rev_str "" cur] end
  | String c t => if Ascii.eqb c nl then rev_str "" (String c cur) :: readlines_aux "" t
                  else readlines_aux (String c cur) t
  end.
Definition readlines (s : string) : list string := readlines_aux "" s.
(* non-overlapping count, as str.count *)
Fixpoint count_sub_aux (fuel : nat) (p s : string) : nat :=
  match fuel with
  | O => O
  | S f =>
    match s with
    | EmptyString => O
    | String _ t =>
      if prefix p s then S (count_sub_aux f p (substring (length p) (length s) s))
      else count_sub_aux f p t
    end
  end.
Definition count_sub (p s : string) : nat := count_sub_aux (S (length s)) p s.

(* ------------------------------------------------------------------ *)
(* integers <-> decimal text                                           *)
Fixpoint digits_pos_aux (fuel : nat) (n : Z) (acc : string) : string :=
  match fuel with
  | O => acc
  | S f =>
    let acc' := String (ascii_of_nat (Z.to_nat (n mod 10) + 48)) acc in
    if n <? 10 then acc' else digits_pos_aux f (n / 10) acc'
  end.
(* decimal digits of n >= 0 *)
Definition digits (n : Z) : string := digits_pos_aux (S (Z.to_nat (Z.log2 n))) n "".
Definition str_of_Z (n : Z) : string :=
  if n <? 0 then String "-"%char (digits (- n)) else digits n.

Fixpoint all_digits (s : string) : bool :=
  match s with EmptyString => true | String c t => (is_digit c && all_digits t)%bool end.
Fixpoint digits_val (acc : Z) (s : string) : Z :=
  match s with EmptyString => acc | String c t => digits_val (acc * 10 + digit_val c) t end.

(* Outcome of Python's int()/float() on a text *)
Inductive numparse (A : Type) := NumOk (a : A) | NumBad | NumOutOfModel.
Arguments NumOk {A} a. Arguments NumBad {A}. Arguments NumOutOfModel {A}.

Fixpoint has_char (c : ascii) (s : string) : bool :=
  match s with EmptyString => false | String d t => (Ascii.eqb c d || has_char c t)%bool end.
(* forms int()/float() accept that the model does not cover (DESIGN §4.2) *)
Definition exotic_numeral (s : string) : bool :=
  (has_char "_"%char s || has_char "e"%char s || has_char "E"%char s
   || has_char "n"%char s || has_char "N"%char s || has_char "i"%char s || has_char "I"%char s)%bool.

Definition split_sign (s : string) : bool * string :=
  match s with
  | String "-"%char t => (true, t)
  | String "+"%char t => (false, t)
  | _ => (false, s)
  end.

(* int(text) *)
Definition parse_int (s0 : string) : numparse Z :=
  let s := strip s0 in
  let '(neg, body) := split_sign s in
  if (str_nonempty body && all_digits body)%bool
  then NumOk (if neg then - digits_val 0 body else digits_val 0 body)
  else if exotic_numeral s then NumOutOfModel else NumBad.

(* split at the first '.' *)
Fixpoint split_dot (s : string) : string * option string :=
  match s with
  | EmptyString => ("", None)
  | String c t =>
    if Ascii.eqb c "."%char then ("", Some t)
    else let '(a, b) := split_dot t in (String c a, b)
  end.

(* ------------------------------------------------------------------ *)
(* binary64 rounding of a rational (round-to-nearest-even, normal range) *)
Definition Qfloor' (q : Q) : Z := Qnum q / Zpos (Qden q).
Definition round_half_even (q : Q) : Z :=
  let f := Qfloor' q in
  let r := (q - inject_Z f)%Q in
  match Qcompare r (1 # 2) with
  | Lt => f
  | Gt => f + 1
  | Eq => if Z.even f then f else f + 1
  end.
Definition Qpow2 (e : Z) : Q :=
  match e with
  | Z0 => 1%Q
  | Zpos p => inject_Z (2 ^ Zpos p)
  | Zneg p => (1 # (2 ^ p))%Q
  end.
Definition b64 (q : Q) : Q :=
  if Qeq_bool q 0 then 0%Q else
  let a := Qabs q in
  let e0 := Z.log2 (Qnum a) - Z.log2 (Zpos (Qden a)) - 52 in
  let e := if Qle_bool (inject_Z (2 ^ 52)) (a * Qpow2 (- e0))%Q then e0 else e0 - 1 in
  let m := round_half_even (a * Qpow2 (- e))%Q in
  let v := Qred (inject_Z m * Qpow2 e)%Q in
  if Qle_bool 0 q then v else Qred (- v)%Q.

Definition pow10 (n : nat) : Z := 10 ^ Z.of_nat n.

(* float(text): plain fixed-point forms only *)
Definition parse_float (s0 : string) : numparse Q :=
  let s := strip s0 in
  let '(neg, body) := split_sign s in
  let '(ip, fp) := split_dot body in
  let fpart := match fp with Some f => f | None => "" end in
  if (all_digits ip && all_digits fpart && (str_nonempty ip || str_nonempty fpart))%bool
  then
    let n := digits_val 0 (ip ++ fpart) in
    let q := Qred (Qmake n (Z.to_pos (pow10 (length fpart)))) in
    NumOk (b64 (if neg then Qred (- q) else q))
  else if exotic_numeral s then NumOutOfModel else NumBad.

(* '{:>w.pf}'.format(x) for the exact rational x of a double *)
Definition pad_left_zeros (w : nat) (s : string) : string :=
  repeat_char "0"%char (w - length s) ++ s.
Definition fmt_fixed_body (p : nat) (q : Q) : string :=
  let n := round_half_even (Qabs q * inject_Z (pow10 p))%Q in
  let ip := n / pow10 p in
  let fp := n mod pow10 p in
  let sgn := if Qltb q 0 then "-" else "" in
  match p with
  | O => sgn ++ digits ip
  | _ => sgn ++ digits ip ++ "." ++ pad_left_zeros p (digits fp)
  end.
Definition fmt_fixed (w p : nat) (q : Q) : string := rjust w (fmt_fixed_body p q).

(* round(x, k) as exact half-even on the given rational (used on the binary64 value) *)
Definition round_dec (k : nat) (q : Q) : Q :=
  Qred (Qmake (if Qltb q 0 then - round_half_even (Qabs q * inject_Z (pow10 k))%Q
               else round_half_even (q * inject_Z (pow10 k))%Q)
              (Z.to_pos (pow10 k))).

(* ------------------------------------------------------------------ *)
(* generic list helpers                                                *)
Definition mem {A} (eqb : A -> A -> bool) (x : A) (l : list A) : bool := existsb (eqb x) l.
Fixpoint dedup_aux {A} (eqb : A -> A -> bool) (seen l : list A) : list A :=
  match l with
  | [] => []
  | x :: t => if mem eqb x seen then dedup_aux eqb seen t else x :: dedup_aux eqb (x :: seen) t
  end.
Definition dedup_keep_first {A} (eqb : A -> A -> bool) (l : list A) : list A := dedup_aux eqb [] l.
Fixpoint insert_sorted {A} (leb : A -> A -> bool) (x : A) (l : list A) : list A :=
  match l with
  | [] => [x]
  | y :: t => if leb x y then x :: l else y :: insert_sorted leb x t
  end.
Definition sort_by {A} (leb : A -> A -> bool) (l : list A) : list A :=
  fold_right (insert_sorted leb) [] l.
Fixpoint seqZ (start : Z) (n : nat) : list Z :=
  match n with O => [] | S k => start :: seqZ (start + 1) k end.

Fixpoint repeat_str (s : string) (n : nat) : string :=
  match n with O => "" | S k => s ++ repeat_str s k end.
