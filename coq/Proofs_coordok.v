(* Proofs_coordok.v — C02: "as many decimals as fit": the exported coordinate field satisfies the specification
   predicate coord_ok (8 columns, a plain decimal within half a unit of its last place of the value, with 3 decimals
   in the usual range and otherwise as many as fit, one fewer being tolerated just below a power of ten) *)
From Coq Require Import Lia Lqa Qabs Qround.
From Verif Require Import PyLib PyLibFacts ModelTypes Generated_export Model_export Spec_parse Spec_export
  Proofs_text Proofs_digits Proofs_numtext Proofs_zone Proofs_export Proofs_export2 Proofs_reparse Proofs_roundtrip Proofs_roundtrip2.
Open Scope Q_scope.

Notation blanks n := (repeat_char " "%char n).

Lemma nospace_no_edge_blank s : nospace s = true -> no_edge_blank s.
Proof.
  intro H. assert (G : forall t, nospace t = true -> ltrim t = t).
  { intros t Ht. destruct t as [|c u]; [reflexivity|]. cbn in Ht |- *. apply andb_prop in Ht. destruct Ht as [A _].
    destruct (Ascii.eqb_spec c " ") as [->|]; [discriminate A | reflexivity]. }
  split; [apply G, H | apply G; rewrite nospace_rev; exact H].
Qed.

(* the decimal that a formatted field denotes *)
Theorem decimal_value_fmt_fixed w p q :
  decimal_value (fmt_fixed w p q)
  = Some (let v := Qmake (round_half_even (Qabs q * inject_Z (pow10 p))) (Z.to_pos (pow10 p)) in
          if Qltb q 0 then Qopp v else v, p).
Proof.
  unfold decimal_value, fmt_fixed. destruct (fmt_fixed_body_nospace p q) as [NS _].
  rewrite rjust_blanks, (trim_padded _ _ _ (nospace_no_edge_blank _ NS)).
  destruct (body_shape p q) as [ipart [fpart [dot [EB [Ai' [NEi [Fi' [SD [Af [Lf [V _]]]]]]]]]]].
  rewrite EB. destruct (Qltb q 0) eqn:Neg.
  - cbn [append split_sign]. rewrite SD, Ai', Af, NEi. cbn [andb]. rewrite V, Lf. reflexivity.
  - cbn [append].
    assert (SS : split_sign (ipart ++ dot) = (false, (ipart ++ dot)%string)).
    { destruct ipart as [|c r]; [discriminate NEi|]. destruct (Fi' c r eq_refl) as [N1 N2]. cbn [append split_sign].
      destruct c as [[] [] [] [] [] [] [] []]; try reflexivity; exfalso; first [apply N1; reflexivity | apply N2; reflexivity]. }
    rewrite SS, SD, Ai', Af, NEi. cbn [andb]. rewrite V, Lf. reflexivity.
Qed.

Lemma int_digits_le q K : (1 <= K)%nat -> Qabs q < inject_Z (10 ^ Z.of_nat K) -> (int_digits q <= K)%nat.
Proof.
  intros HK H. unfold int_digits.
  assert (F : (0 <= Qfloor (Qabs q) < 10 ^ Z.of_nat K)%Z).
  { split.
    - rewrite <- (Qfloor_Z 0). apply Qfloor_resp_le. apply Qabs_nonneg.
    - pose proof (Qfloor_le (Qabs q)) as L. rewrite Zlt_Qlt. lra. }
  pose proof (digits_length_le _ K HK F). lia.
Qed.
Lemma int_digits_eq q K : (1 <= K <= 8)%nat -> inject_Z (10 ^ (Z.of_nat K - 1)) <= Qabs q -> Qabs q < inject_Z (10 ^ Z.of_nat K) ->
  int_digits q = K.
Proof.
  intros HK Lo Hi.
  assert (Hi8 : Qabs q < inject_Z (10 ^ 8)).
  { eapply Qlt_le_trans; [exact Hi|]. rewrite <- Zle_Qle. apply Z.pow_le_mono_r; lia. }
  pose proof (int_digits_ge q (10 ^ (Z.of_nat K - 1)) K ltac:(lia) ltac:(lia) Lo Hi8).
  pose proof (int_digits_le q K ltac:(lia) Hi). lia.
Qed.

Lemma printed_rational_eq p q :
  (let v := Qmake (round_half_even (Qabs q * inject_Z (pow10 p))) (Z.to_pos (pow10 p)) in if Qltb q 0 then Qopp v else v)
  == printed_value p q.
Proof. unfold printed_value. cbv zeta. destruct (Qltb q 0); rewrite ?Qred_correct; reflexivity. Qed.

Ltac abs_bounds q a :=
  let H := fresh "Ha" in
  assert (H : Qabs q == q \/ Qabs q == - q) by (apply Qabs_case; intros; [left | right]; reflexivity);
  set (a := Qabs q) in *.

Ltac digits_case q K A :=
  rewrite (int_digits_eq q K); [ | lia | rewrite A; eval_consts; lra | rewrite A; eval_consts; lra ].

Theorem coord_ok_exported q : Qltb coord_lo q && Qltb q coord_hi = true ->
  coord_ok (VReal q) (fmt_fixed 8 (xyz_decimals q) q) = true.
Proof.
  intro R. unfold coord_ok. cbn [real_of]. rewrite decimal_value_fmt_fixed.
  set (r := let v := _ in if Qltb q 0 then Qopp v else v).
  assert (W : String.length (fmt_fixed 8 (xyz_decimals q) q) = 8%nat).
  { apply (format_xyz_width q). destruct (format_xyz_cases q) as [[F _]|[_ F]]; [rewrite F in R; discriminate R | exact F]. }
  rewrite W. cbn [Nat.eqb andb].
  assert (E : Qleb (Qabs (r - q)) ((1 # 2) / inject_Z (pow10 (xyz_decimals q))) = true).
  { apply Qleb_true. pose proof (printed_rational_eq (xyz_decimals q) q) as Er. fold r in Er. rewrite Er. apply printed_value_error. }
  rewrite E. cbn [andb]. clear E W r.
  apply in_range_bounds in R. destruct R as [R1 R2].
  assert (Pos : 0 <= q -> Qabs q == q) by (intro; apply Qabs_pos; assumption).
  assert (Neg : q <= 0 -> Qabs q == - q) by (intro; apply Qabs_neg; assumption).
  unfold xyz_decimals, max_fit, near_power_of_ten.
  destruct (xcell_of q) as [H1|H1 H2|H1 H2|H1 H2|H1 H2|H1 H2|H1 H2|H1 H2|H1 H2|H1];
    try (exfalso; lra); decide_cmp; cbn [andb].
  - (* (-9999999.5, -99999.5] : 0 decimals *)
    pose proof (Neg ltac:(lra)) as A. destruct (Qlt_le_dec (- q) (100000#1)) as [S|S].
    + digits_case q 5%nat A.
      cbn [existsb]. eval_consts. set (a := Qabs q) in *. decide_cmp. reflexivity.
    + destruct (Qlt_le_dec (- q) (1000000#1)) as [S'|S'].
      * digits_case q 6%nat A. reflexivity.
      * digits_case q 7%nat A. reflexivity.
  - pose proof (Neg ltac:(lra)) as A. destruct (Qlt_le_dec (- q) (10000#1)) as [S|S].
    + digits_case q 4%nat A.
      cbn [existsb]. eval_consts. set (a := Qabs q) in *. decide_cmp. reflexivity.
    + digits_case q 5%nat A. reflexivity.
  - pose proof (Neg ltac:(lra)) as A. destruct (Qlt_le_dec (- q) (1000#1)) as [S|S].
    + digits_case q 3%nat A.
      cbn [existsb]. eval_consts. set (a := Qabs q) in *. decide_cmp. reflexivity.
    + digits_case q 4%nat A. reflexivity.
  - reflexivity.
  - reflexivity.
  - pose proof (Pos ltac:(lra)) as A. destruct (Qlt_le_dec q (10000#1)) as [S|S].
    + digits_case q 4%nat A.
      cbn [existsb]. eval_consts. set (a := Qabs q) in *. decide_cmp. reflexivity.
    + digits_case q 5%nat A. reflexivity.
  - pose proof (Pos ltac:(lra)) as A. destruct (Qlt_le_dec q (100000#1)) as [S|S].
    + digits_case q 5%nat A.
      cbn [existsb]. eval_consts. set (a := Qabs q) in *. decide_cmp. reflexivity.
    + digits_case q 6%nat A. reflexivity.
  - pose proof (Pos ltac:(lra)) as A. destruct (Qlt_le_dec q (1000000#1)) as [S|S].
    + digits_case q 6%nat A.
      cbn [existsb]. eval_consts. set (a := Qabs q) in *. decide_cmp. reflexivity.
    + destruct (Qlt_le_dec q (10000000#1)) as [S'|S'].
      * digits_case q 7%nat A. reflexivity.
      * digits_case q 8%nat A. reflexivity.
Qed.
