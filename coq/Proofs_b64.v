(* Proofs_b64.v — the rounding b64 of PyLib (round-to-nearest-even on a 53-bit significand, normal range, no
   overflow/underflow modelled) has relative error at most 2^-53 *)
From Coq Require Import Lia Lqa Qpower Qround Qabs.
From Verif Require Import PyLib PyLibFacts Proofs_text Proofs_digits Proofs_export.
Open Scope Q_scope.

Lemma Qpow2_power e : Qpow2 e == 2 ^ e.
Proof.
  destruct e as [|p|p]; unfold Qpow2.
  - reflexivity.
  - rewrite (Zpower_Qpower 2 (Zpos p)) by lia. reflexivity.
  - change (Z.neg p) with (- Z.pos p)%Z. rewrite Qpower_opp.
    rewrite <- (Zpower_Qpower 2 (Zpos p)) by lia. rewrite <- Pos2Z.inj_pow. reflexivity.
Qed.
Lemma two_ne0 : ~ 2 == 0. Proof. discriminate. Qed.
Lemma Qpow2_pos e : 0 < Qpow2 e.
Proof. rewrite Qpow2_power. apply Qpower_0_lt. reflexivity. Qed.
Lemma Qpow2_add a b : Qpow2 (a + b) == Qpow2 a * Qpow2 b.
Proof. rewrite !Qpow2_power. apply Qpower_plus, two_ne0. Qed.
Lemma Qpow2_cancel e : Qpow2 e * Qpow2 (- e) == 1.
Proof. rewrite <- Qpow2_add. replace (e + - e)%Z with 0%Z by lia. reflexivity. Qed.

(* a positive rational against the powers of two bracketing numerator and denominator *)
Lemma log2_lower (a : Q) : 0 < a ->
  Qpow2 51 <= a * Qpow2 (- (Z.log2 (Qnum a) - Z.log2 (Zpos (Qden a)) - 52)).
Proof.
  intro Ha. destruct a as [n d]. cbn [Qnum Qden].
  assert (Hn : (0 < n)%Z) by (unfold Qlt in Ha; cbn in Ha; lia).
  set (ln := Z.log2 n). set (ld := Z.log2 (Zpos d)).
  pose proof (Z.log2_spec n Hn) as [L1 _]. pose proof (Z.log2_spec (Zpos d) ltac:(lia)) as [_ L2].
  pose proof (Z.log2_nonneg n) as N1. pose proof (Z.log2_nonneg (Zpos d)) as N2. fold ln in L1, N1. fold ld in L2, N2.
  (* n >= 2^ln, d < 2^(ld+1) *)
  assert (A : inject_Z (2 ^ ln) <= inject_Z n) by (rewrite <- Zle_Qle; exact L1).
  assert (B : inject_Z (Zpos d) <= inject_Z (2 ^ Z.succ ld)) by (rewrite <- Zle_Qle; lia).
  rewrite (Zpower_Qpower 2 ln N1) in A. rewrite (Zpower_Qpower 2 (Z.succ ld) ltac:(lia)) in B.
  change (inject_Z 2) with 2 in A, B.
  replace (- (ln - ld - 52))%Z with (51 + (Z.succ ld - ln))%Z by lia.
  rewrite Qpow2_add. rewrite (Qpow2_power (Z.succ ld - ln)).
  unfold Z.sub at 1. rewrite (Qpower_plus 2 (Z.succ ld) (- ln) two_ne0), Qpower_opp.
  pose proof (Qpow2_pos 51) as P51. pose proof (Qpower_0_lt 2 ln ltac:(reflexivity)) as Pn.
  pose proof (Qpower_0_lt 2 (Z.succ ld) ltac:(reflexivity)) as Pd.
  set (X := 2 ^ ln) in *. set (Y := 2 ^ Z.succ ld) in *.
  assert (Hd : 0 < inject_Z (Zpos d)) by reflexivity.
  (* (n/d) * (Y / X) >= 1 *)
  assert (E : (n # d) == inject_Z n / inject_Z (Zpos d)) by (unfold Qeq, Qdiv, Qmult, Qinv, inject_Z; cbn; lia).
  rewrite E.
  assert (G : 1 <= inject_Z n / inject_Z (Z.pos d) * (Y * / X)).
  { setoid_replace (inject_Z n / inject_Z (Z.pos d) * (Y * / X)) with ((inject_Z n / X) * (Y / inject_Z (Z.pos d))) by (field; split; lra).
    assert (G1 : 1 <= inject_Z n / X) by (apply Qle_shift_div_l; lra).
    assert (G2 : 1 <= Y / inject_Z (Z.pos d)) by (apply Qle_shift_div_l; lra).
    setoid_replace 1 with (1 * 1) at 1 by ring. apply Qmult_le_compat_nonneg; split; lra. }
  setoid_replace (inject_Z n / inject_Z (Z.pos d) * (Qpow2 51 * (Y * / X))) with (Qpow2 51 * (inject_Z n / inject_Z (Z.pos d) * (Y * / X))) by ring.
  setoid_replace (Qpow2 51) with (Qpow2 51 * 1) at 1 by ring.
  apply Qmult_le_l; [exact P51 | exact G].
Qed.

Lemma scaled_ge_2_52 a : 0 < a ->
  let e0 := (Z.log2 (Qnum a) - Z.log2 (Zpos (Qden a)) - 52)%Z in
  let e := if Qle_bool (inject_Z (2 ^ 52)) (a * Qpow2 (- e0)) then e0 else (e0 - 1)%Z in
  Qpow2 52 <= a * Qpow2 (- e).
Proof.
  intros Ha e0 e. subst e. destruct (Qle_bool (inject_Z (2 ^ 52)) (a * Qpow2 (- e0))) eqn:C.
  - apply Qle_bool_iff in C. exact C.
  - pose proof (log2_lower a Ha) as L. fold e0 in L.
    replace (- (e0 - 1))%Z with (- e0 + 1)%Z by lia. rewrite Qpow2_add.
    change (Qpow2 1) with 2. change (Qpow2 52) with (Qpow2 51 * 2).
    setoid_replace (a * (Qpow2 (- e0) * 2)) with (a * Qpow2 (- e0) * 2) by ring.
    apply Qmult_le_compat_r; [exact L | discriminate].
Qed.

(* rounding a positive rational: error at most 2^-53 relative *)
Lemma b64_pos_error a e : 0 < a -> Qpow2 52 <= a * Qpow2 (- e) ->
  Qabs (inject_Z (round_half_even (a * Qpow2 (- e))) * Qpow2 e - a) <= a * (1 # 2 ^ 53).
Proof.
  intros Ha L. set (s := a * Qpow2 (- e)) in *. set (m := round_half_even s).
  pose proof (rhe_error s) as R. fold m in R. pose proof (Qpow2_pos e) as Pe.
  assert (Ea : a == s * Qpow2 e).
  { unfold s. rewrite <- Qmult_assoc, (Qmult_comm (Qpow2 (- e))), Qpow2_cancel. ring. }
  assert (E : inject_Z m * Qpow2 e - a == (inject_Z m - s) * Qpow2 e) by (rewrite Ea at 1; ring).
  rewrite E, Qabs_Qmult, (Qabs_pos (Qpow2 e)) by lra.
  apply Qle_trans with ((1#2) * Qpow2 e).
  - apply Qmult_le_compat_r; [exact R | lra].
  - rewrite Ea at 1. (* s * 2^e * 2^-53 >= 2^52 * 2^e * 2^-53 = 2^e / 2 *)
    setoid_replace ((1 # 2) * Qpow2 e) with (Qpow2 52 * (Qpow2 e * (1 # 2 ^ 53))).
    + rewrite <- Qmult_assoc. apply Qmult_le_compat_r; [exact L|].
      apply Qmult_le_0_compat; [lra | discriminate].
    + change (Qpow2 52) with (inject_Z (2 ^ 52)). 
      setoid_replace (inject_Z (2 ^ 52) * (Qpow2 e * (1 # 2 ^ 53))) with (Qpow2 e * (inject_Z (2 ^ 52) * (1 # 2 ^ 53))) by ring.
      setoid_replace (inject_Z (2 ^ 52) * (1 # 2 ^ 53)) with (1 # 2) by reflexivity. ring.
Qed.

Theorem b64_error q : Qabs (b64 q - q) <= Qabs q * (1 # 2 ^ 53).
Proof.
  unfold b64. destruct (Qeq_bool q 0) eqn:Z0.
  - apply Qeq_bool_iff in Z0. rewrite Z0. vm_compute. discriminate.
  - assert (NZ : ~ q == 0) by (intro H; apply Qeq_bool_iff in H; congruence).
    assert (Ha : 0 < Qabs q).
    { destruct (Qlt_le_dec 0 (Qabs q)) as [H|H]; [exact H|]. exfalso. apply NZ.
      pose proof (Qabs_nonneg q) as H0. pose proof (Qle_Qabs q) as H1. pose proof (Qle_Qabs (- q)) as H2.
      rewrite Qabs_opp in H2. lra. }
    cbv zeta.
    set (a := Qabs q) in *.
    set (e0 := (Z.log2 (Qnum a) - Z.log2 (Z.pos (Qden a)) - 52)%Z).
    set (e := if Qle_bool (inject_Z (2 ^ 52)) (a * Qpow2 (- e0)) then e0 else (e0 - 1)%Z).
    pose proof (scaled_ge_2_52 a Ha) as L. cbv zeta in L. fold e0 in L. fold e in L.
    pose proof (b64_pos_error a e Ha L) as B.
    set (v := inject_Z (round_half_even (a * Qpow2 (- e))) * Qpow2 e) in *.
    destruct (Qle_bool 0 q) eqn:S.
    + apply Qle_bool_iff in S. rewrite Qred_correct.
      assert (Eq : q == a) by (unfold a; rewrite Qabs_pos; [reflexivity | exact S]).
      rewrite Eq at 1. exact B.
    + assert (S' : q < 0).
      { destruct (Qlt_le_dec q 0) as [H|H]; [exact H|]. apply Qle_bool_iff in H. congruence. }
      rewrite !Qred_correct.
      assert (Eq : q == - a) by (unfold a; rewrite Qabs_neg; [ring | lra]).
      rewrite Eq at 1. setoid_replace (- v - - a) with (- (v - a)) by ring. rewrite Qabs_opp. exact B.
Qed.
