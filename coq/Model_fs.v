(* Model_fs.v — cluster fs (C20, C16): abstract file system, SQLite connection with a durable image
   and a pending transaction (Python sqlite3 legacy transaction mode), computations as
   resumptions over file-system / connection actions, crash, schedules; and the hand-written
   scripts of the library's file-backed life cycle (C20) and of its public routines (C16).
   Definitions only: every proof lives in Proofs_fs*.v. *)
From Verif Require Import PyLib ModelTypes Generated_parse.
Open Scope string_scope.
Open Scope list_scope.
Infix "+s+" := String.append (at level 60, right associativity).

(* ================================================================== *)
(* 1. Files, tables, the world                                          *)

Definition path := string.            (* a path is an opaque value: never parsed, only compared *)

(* a stored value as a stock sqlite3 reader returns it *)
Inductive cell := CInt (z : Z) | CReal (n : Z) (d : positive) | CText (s : string).
Record table := mkTable { t_cols : list string; t_rows : list (list cell) }.
Definition dbimage := option table.    (* None: a database file without the ATOM table (0 bytes) *)

Inductive content :=
| FText (s : string)                   (* ordinary file *)
| FDb (img : dbimage)                  (* SQLite database file: its DURABLE image *)
| FJournal.                            (* rollback journal next to a database file *)

Definition fsys := path -> option content.
Definition fs_set (fs : fsys) (p : path) (c : option content) : fsys :=
  fun q => if String.eqb q p then c else fs q.
Definition jpath (p : path) : path := p +s+ "-journal".

(* an open sqlite3 connection: process memory, lost at a crash *)
Record conn := mkConn { c_path : option path;      (* None: ':memory:' *)
                        c_view : dbimage;          (* what this connection sees (durable + pending) *)
                        c_intx : bool }.           (* a transaction is open *)
Definition conns := nat -> option conn.
Definition conn_set (cs : conns) (h : nat) (c : option conn) : conns :=
  fun k => if Nat.eqb k h then c else cs k.
Record world := mkWorld { w_fs : fsys; w_conns : conns }.

(* ================================================================== *)
(* 2. Actions and their semantics                                       *)

Inductive stmt_kind := KSelect | KDdl | KDml.

Inductive act :=
| AExists (p : path)                         (* os.path.exists / os.path.isfile *)
| AOpenTrunc (p : path)                      (* open(p, 'w') *)
| AWriteChunk (p : path) (s : string)        (* f.write(s) *)
| AClose (p : path)                          (* f.close() *)
| AReadAll (p : path)                        (* open(p, 'r') ... readlines() *)
| ARemove (p : path)                         (* os.remove(p) *)
| ARename (src dst : path)                   (* os.replace(src, dst) *)
| AMkTemp (p : path)                         (* tempfile.mkstemp: O_EXCL creation of the candidate p *)
| AConnect (h : nat) (p : option path)       (* sqlite3.connect *)
| AExec (h : nat) (k : stmt_kind) (f : dbimage -> dbimage)   (* execute / executemany *)
| ACommit (h : nat)                          (* conn.commit() *)
| ACloseConn (h : nat).                      (* conn.close() *)

Inductive resp := RUnit | RBool (b : bool) | RText (s : string) | RImg (d : dbimage) | RErr (e : string).

Definition is_some {A} (o : option A) : bool := match o with Some _ => true | None => false end.

(* file actions *)
Definition fstep (fs : fsys) (a : act) : fsys * resp :=
  match a with
  | AExists p => (fs, RBool (is_some (fs p)))
  | AOpenTrunc p => (fs_set fs p (Some (FText "")), RUnit)
  | AWriteChunk p s =>
    match fs p with
    | Some (FText t) => (fs_set fs p (Some (FText (t +s+ s))), RUnit)
    | _ => (fs, RErr "OSError")
    end
  | AClose p => (fs, RUnit)
  | AReadAll p =>
    match fs p with
    | Some (FText t) => (fs, RText t)
    | Some _ => (fs, RErr "UnicodeDecodeError")
    | None => (fs, RErr "FileNotFoundError")
    end
  | ARemove p =>
    match fs p with
    | Some _ => (fs_set fs p None, RUnit)
    | None => (fs, RErr "FileNotFoundError")
    end
  | ARename s d =>
    match fs s with
    | Some c => (fs_set (fs_set fs d (Some c)) s None, RUnit)
    | None => (fs, RErr "FileNotFoundError")
    end
  | AMkTemp p =>
    match fs p with
    | Some _ => (fs, RErr "FileExistsError")
    | None => (fs_set fs p (Some (FText "")), RUnit)
    end
  | _ => (fs, RErr "not-a-file-action")
  end.

(* connection actions — Python 3.12 sqlite3, isolation_level '' (legacy mode):
   an implicit BEGIN precedes INSERT/UPDATE/DELETE when no transaction is open; DDL and SELECT never
   open one; SQLite itself autocommits a statement executed outside a transaction.  The journal
   appears next to the file while a write transaction is open and disappears at commit / rollback;
   COMMIT replaces the durable image atomically (SQLite's atomic commit: the named oracle). *)
Definition step (w : world) (a : act) : world * resp :=
  let fs := w_fs w in
  let cs := w_conns w in
  match a with
  | AConnect h None => (mkWorld fs (conn_set cs h (Some (mkConn None None false))), RUnit)
  | AConnect h (Some p) =>
    match fs p with
    | None => (mkWorld (fs_set fs p (Some (FDb None))) (conn_set cs h (Some (mkConn (Some p) None false))), RUnit)
    | Some (FDb img) => (mkWorld fs (conn_set cs h (Some (mkConn (Some p) img false))), RUnit)
    | Some _ => (w, RErr "sqlite3.Error")
    end
  | AExec h k f =>
    match cs h with
    | None => (w, RErr "sqlite3.Error")
    | Some c =>
      match k with
      | KSelect => (w, RImg (c_view c))
      | KDdl =>
        let v := f (c_view c) in
        let fs' := match c_path c with
                   | Some p => if c_intx c then fs else fs_set fs p (Some (FDb v))
                   | None => fs
                   end in
        (mkWorld fs' (conn_set cs h (Some (mkConn (c_path c) v (c_intx c)))), RUnit)
      | KDml =>
        let v := f (c_view c) in
        let fs' := match c_path c with
                   | Some p => if c_intx c then fs else fs_set fs (jpath p) (Some FJournal)
                   | None => fs
                   end in
        (mkWorld fs' (conn_set cs h (Some (mkConn (c_path c) v true))), RUnit)
      end
    end
  | ACommit h =>
    match cs h with
    | None => (w, RErr "sqlite3.Error")
    | Some c =>
      if c_intx c then
        let fs' := match c_path c with
                   | Some p => fs_set (fs_set fs p (Some (FDb (c_view c)))) (jpath p) None
                   | None => fs
                   end in
        (mkWorld fs' (conn_set cs h (Some (mkConn (c_path c) (c_view c) false))), RUnit)
      else (w, RUnit)
    end
  | ACloseConn h =>
    match cs h with
    | None => (w, RErr "sqlite3.Error")
    | Some c =>
      let fs' := match c_path c with
                 | Some p => if c_intx c then fs_set fs (jpath p) None else fs    (* rollback *)
                 | None => fs
                 end in
      (mkWorld fs' (conn_set cs h None), RUnit)
    end
  | _ => let '(fs', r) := fstep fs a in (mkWorld fs' cs, r)
  end.

(* A crash (SIGKILL): process memory is gone, the file system stays. *)
Definition crash (w : world) : fsys := w_fs w.

(* What a fresh stock reader finds at p: a hot journal is rolled back and deleted; the content is
   the durable image. *)
Inductive outcome := ONoFile | ONoTable | OTable (t : table) | ONotDb.
Definition observe (fs : fsys) (p : path) : outcome :=
  match fs p with
  | None => ONoFile
  | Some (FDb None) => ONoTable
  | Some (FDb (Some t)) => OTable t
  | Some _ => ONotDb
  end.
Definition recover (fs : fsys) (p : path) : fsys := fs_set fs (jpath p) None.

(* ================================================================== *)
(* 3. Computations as resumptions                                       *)

Inductive prog (A : Type) : Type :=
| Ret (a : A)
| Do (a : act) (k : resp -> prog A).
Arguments Ret {A} a.
Arguments Do {A} a k.

Fixpoint bindp {A B} (p : prog A) (f : A -> prog B) : prog B :=
  match p with
  | Ret a => f a
  | Do a k => Do a (fun r => bindp (k r) f)
  end.
Definition bindr {A B} (p : prog (res A)) (f : A -> prog (res B)) : prog (res B) :=
  bindp p (fun r => match r with Ok a => f a | Err e => Ret (Err e) end).
Notation "'doP' x <~ p ;; k" := (bindr p (fun x => k)) (at level 200, x name, p at level 100, k at level 200).

Fixpoint seq_acts (l : list act) : prog unit :=
  match l with [] => Ret tt | a :: t => Do a (fun _ => seq_acts t) end.

Definition resp_true (r : resp) : bool := match r with RBool true => true | _ => false end.
Definition resp_text (r : resp) : res string :=
  match r with RText s => Ok s | RErr e => Err e | _ => Err "TypeError" end.
Definition resp_unit (r : resp) : res unit :=
  match r with RErr e => Err e | _ => Ok tt end.

(* run at most n actions *)
Fixpoint run_n {A} (n : nat) (w : world) (p : prog A) : world * prog A :=
  match n with
  | O => (w, p)
  | S n' => match p with
            | Ret _ => (w, p)
            | Do a k => let '(w', r) := step w a in run_n n' w' (k r)
            end
  end.
Fixpoint trace_n {A} (n : nat) (w : world) (p : prog A) : list (act * resp) :=
  match n with
  | O => []
  | S n' => match p with
            | Ret _ => []
            | Do a k => let '(w', r) := step w a in (a, r) :: trace_n n' w' (k r)
            end
  end.

(* file-system-only runs (C16): the state is the file system *)
Fixpoint frun_n {A} (n : nat) (fs : fsys) (p : prog A) : fsys * prog A :=
  match n with
  | O => (fs, p)
  | S n' => match p with
            | Ret _ => (fs, p)
            | Do a k => let '(fs', r) := fstep fs a in frun_n n' fs' (k r)
            end
  end.
Fixpoint ftrace_n {A} (n : nat) (fs : fsys) (p : prog A) : list (act * resp) :=
  match n with
  | O => []
  | S n' => match p with
            | Ret _ => []
            | Do a k => let '(fs', r) := fstep fs a in (a, r) :: ftrace_n n' fs' (k r)
            end
  end.
Definition result_of {A} (p : prog A) : option A := match p with Ret a => Some a | Do _ _ => None end.

(* schedules: a list of task indices; a scheduled task performs one action (a finished or
   unknown task: nothing happens) *)
Fixpoint replace_nth {A} (i : nat) (x : A) (l : list A) : list A :=
  match l, i with
  | [], _ => []
  | _ :: t, O => x :: t
  | y :: t, S j => y :: replace_nth j x t
  end.
Definition sched_step {A} (i : nat) (st : fsys * list (prog A)) : fsys * list (prog A) :=
  let '(fs, ts) := st in
  match nth_error ts i with
  | Some (Do a k) => let '(fs', r) := fstep fs a in (fs', replace_nth i (k r) ts)
  | _ => st
  end.
Fixpoint run_sched {A} (s : list nat) (st : fsys * list (prog A)) : fsys * list (prog A) :=
  match s with
  | [] => st
  | i :: s' => run_sched s' (sched_step i st)
  end.

Fixpoint sched_trace {A} (s : list nat) (st : fsys * list (prog A)) : list (nat * act) :=
  match s with
  | [] => []
  | i :: s' =>
    match nth_error (snd st) i with
    | Some (Do a _) => (i, a) :: sched_trace s' (sched_step i st)
    | _ => sched_trace s' (sched_step i st)
    end
  end.

(* which paths an action may read / may change *)
Definition act_reads (a : act) : list path :=
  match a with
  | AExists p | AReadAll p | AWriteChunk p _ | ARemove p | AMkTemp p => [p]
  | ARename s d => [s]
  | _ => []
  end.
Definition act_writes (a : act) : list path :=
  match a with
  | AOpenTrunc p | AWriteChunk p _ | ARemove p | AMkTemp p => [p]
  | ARename s d => [s; d]
  | _ => []
  end.
Definition file_act (a : act) : bool :=
  match a with
  | AConnect _ (Some _) | AExec _ _ _ | ACommit _ | ACloseConn _ => false
  | _ => true
  end.

(* ================================================================== *)
(* 4. Tables: the logical effect of the library's modifiers             *)

Definition cell_eqb (a b : cell) : bool :=
  match a, b with
  | CInt x, CInt y => Z.eqb x y
  | CReal n d, CReal n' d' => Z.eqb n n' && Pos.eqb d d'
  | CText s, CText t => String.eqb s t
  | _, _ => false
  end.
Fixpoint list_eqb {A} (eqb : A -> A -> bool) (l m : list A) : bool :=
  match l, m with
  | [], [] => true
  | x :: l', y :: m' => eqb x y && list_eqb eqb l' m'
  | _, _ => false
  end.
Definition table_eqb (a b : table) : bool :=
  list_eqb String.eqb (t_cols a) (t_cols b) && list_eqb (list_eqb cell_eqb) (t_rows a) (t_rows b).

Fixpoint index_of (c : string) (cols : list string) : option nat :=
  match cols with
  | [] => None
  | x :: t => if String.eqb x c then Some O else option_map S (index_of c t)
  end.
Fixpoint set_nth {A} (n : nat) (x : A) (l : list A) : list A :=
  match l, n with
  | [], _ => []
  | _ :: t, O => x :: t
  | y :: t, S k => y :: set_nth k x t
  end.
(* UPDATE t SET col=v WHERE rowID=rid  (rowid is 1-based; no such row: nothing) *)
Definition upd_cell (t : table) (rid : Z) (col : string) (v : cell) : table :=
  match index_of col (t_cols t) with
  | None => t
  | Some j =>
    if (1 <=? rid)%Z then
      let i := Z.to_nat (rid - 1) in
      match nth_error (t_rows t) i with
      | Some row => mkTable (t_cols t) (set_nth i (set_nth j v row) (t_rows t))
      | None => t
      end
    else t
  end.
Fixpoint upd_cells (t : table) (rid : Z) (cols : list string) (vs : list cell) : table :=
  match cols, vs with
  | c :: cs, v :: vs' => upd_cells (upd_cell t rid c v) rid cs vs'
  | _, _ => t
  end.
Definition on_table (f : table -> table) (img : dbimage) : dbimage := option_map f img.

(* CREATE TABLE ATOM (<self.col>)   pdb2sqlcore.py:96-114; columns regenerated (col_src) *)
Definition atom_cols : list string := map fst col_src.
Definition ddl_create (img : dbimage) : dbimage :=
  match img with None => Some (mkTable atom_cols []) | Some t => Some t end.
(* executemany('INSERT INTO ATOM VALUES (?,...)', data_atom)   pdb2sqlcore.py:176-178 *)
Definition dml_insert (rows : list (list cell)) : dbimage -> dbimage :=
  on_table (fun t => mkTable (t_cols t) (t_rows t ++ rows)).

(* update_column   pdb2sqlcore.py:671-693 *)
Definition upd_column (col : string) (vals : list cell) (idx : option (list Z)) (t : table) : table :=
  let pairs := match idx with
               | None => combine vals (seqZ 1 (List.length vals))                 (* [v, i+1] *)
               | Some ix => combine vals (map (fun i => (i + 1)%Z) ix)       (* zip(values, index) *)
               end in
  fold_left (fun t' vi => upd_cell t' (snd vi) col (fst vi)) pairs t.

(* the rows update() addresses: get('rowID'[, rowID=ids]) in ascending rowid order, 0-based *)
Definition selected_rows (rowids : option (list Z)) (t : table) : list Z :=
  let all := seqZ 0 (List.length (t_rows t)) in
  match rowids with
  | None => all
  | Some ids => filter (fun r => mem Z.eqb r ids) all
  end.
Definition update_shape_ok (cols : list string) (vals : list (list cell)) : bool :=
  match vals with
  | [] => false                                                      (* len(values[0]): IndexError *)
  | v0 :: _ => Nat.eqb (List.length cols) (List.length v0)                     (* natt != ncol: ValueError *)
  end.
Definition update_count_ok (vals : list (list cell)) (rowids : option (list Z)) (t : table) : bool :=
  Nat.eqb (List.length (selected_rows rowids t)) (List.length vals).           (* nselect != nrow: ValueError *)
(* update   pdb2sqlcore.py:589-669 *)
Definition upd_rows (cols : list string) (vals : list (list cell)) (rowids : option (list Z)) (t : table) : table :=
  fold_left (fun t' vr => upd_cells t' (snd vr + 1)%Z cols (fst vr)) (combine vals (selected_rows rowids t)) t.

(* add_column   pdb2sqlcore.py:695-710 : ALTER TABLE ATOM ADD COLUMN 'name' type DEFAULT value *)
Definition add_col (name : string) (dflt : cell) (t : table) : table :=
  mkTable (t_cols t ++ [name]) (map (fun r => r ++ [dflt]) (t_rows t)).

(* _fix_chainID   pdb2sqlcore.py:303-327 *)
Definition ascii_leb (a b : ascii) : bool := Nat.leb (nat_of_ascii a) (nat_of_ascii b).
Fixpoint string_leb (a b : string) : bool :=
  match a, b with
  | EmptyString, _ => true
  | String _ _, EmptyString => false
  | String x a', String y b' => if Ascii.eqb x y then string_leb a' b' else ascii_leb x y
  end.
Definition chain_col : nat := 4.
Definition cell_text (c : cell) : string := match c with CText s => s | _ => "" end.
Definition chains_of (rows : list (list cell)) : list string :=
  sort_by string_leb (dedup_keep_first String.eqb (map (fun r => cell_text (nth chain_col r (CText ""))) rows)).
Definition uppercase_letter (i : nat) : string :=
  String (ascii_of_nat (65 + i)) EmptyString.
Definition fix_chain_rows (rows : list (list cell)) : list (list cell) :=
  let chs := chains_of rows in
  map (fun r => match index_of (cell_text (nth chain_col r (CText ""))) chs with
                | Some i => set_nth chain_col (CText (uppercase_letter i)) r
                | None => r
                end) rows.

(* ================================================================== *)
(* 5. C20: scenarios  create[, modify][, commit][, modify]..., close(keep|remove)  and their scripts *)

Inductive modify :=
| MUpdCol (col : string) (vals : list cell) (idx : option (list Z))           (* update_column *)
| MUpdate (cols : list string) (vals : list (list cell)) (rowids : option (list Z))   (* update / update_xyz *)
| MAddCol (name ctype : string) (dflt : cell).                                 (* add_column *)
Inductive sstep := SModify (m : modify) | SCommit.
Record scenario := mkSc {
  sc_name : path;                     (* sqlfile *)
  sc_pdb : option path;               (* Some p: the structure is read from file p; None: given as lines *)
  sc_rows : list (list cell);         (* the parsed ATOM rows *)
  sc_fix : bool;                      (* fix_chainID *)
  sc_steps : list sstep;
  sc_keep : bool }.                   (* _close(rmdb = not keep) *)

Definition sel (h : nat) : act := AExec h KSelect (fun x => x).
Definition sels (h n : nat) : list act := repeat (sel h) n.

(* the logical table after the creation *)
Definition created_rows (sc : scenario) : list (list cell) :=
  if sc_fix sc then fix_chain_rows (sc_rows sc) else sc_rows sc.

(* pdb2sql.__init__ after the isfile/remove prelude   pdb2sqlcore.py:15-36, 73-91, 93-178, 181-246 *)
Definition acts_create (sc : scenario) : list act :=
  [AConnect 0 (Some (sc_name sc)); AExec 0 KDdl ddl_create]
  ++ match sc_pdb sc with Some p => [AExists p; AExists p; AReadAll p] | None => [] end
  ++ [AExec 0 KDml (dml_insert (sc_rows sc))]
  ++ (if sc_fix sc then
        (* get('chainID'): 3 statements; per chain get('rowID', chainID=c): 4; update_column: 1 *)
        sels 0 (3 + 4 * List.length (chains_of (sc_rows sc)))
        ++ [AExec 0 KDml (on_table (fun t => mkTable (t_cols t) (fix_chain_rows (t_rows t))))]
      else []).

(* one modifier; the table it sees is needed for update()'s run-time checks *)
Definition acts_modify (m : modify) (t : table) : list act :=
  match m with
  | MUpdCol col vals idx => [AExec 0 KDml (on_table (upd_column col vals idx))]
  | MUpdate cols vals rowids =>
    (* get_colnames(): 2 statements; then len(values[0]) / natt != ncol may raise *)
    sels 0 2 ++
    (if update_shape_ok cols vals then
       (* get('rowID', ...): get_colnames (2) [+ SELECT EXISTS per key (1)] + the query (1) *)
       sels 0 (match rowids with None => 3 | Some _ => 4 end) ++
       (if update_count_ok vals rowids t then [AExec 0 KDml (on_table (upd_rows cols vals rowids))] else [])
     else [])
  | MAddCol name ctype dflt => [AExec 0 KDdl (on_table (add_col name dflt))]
  end.
(* the logical effect of one modifier on the object's table *)
Definition apply_modify (m : modify) (t : table) : table :=
  match m with
  | MUpdCol col vals idx => upd_column col vals idx t
  | MUpdate cols vals rowids =>
    if update_shape_ok cols vals && update_count_ok vals rowids t then upd_rows cols vals rowids t else t
  | MAddCol name ctype dflt => add_col name dflt t
  end.
Definition apply_step (s : sstep) (t : table) : table :=
  match s with SModify m => apply_modify m t | SCommit => t end.
Definition acts_step (s : sstep) (t : table) : list act :=
  match s with SModify m => acts_modify m t | SCommit => [ACommit 0] end.
(* _close   pdb2sql_base.py:273-284 *)
Definition acts_close (sc : scenario) : list act :=
  if sc_keep sc then [ACommit 0; ACloseConn 0] else [ACloseConn 0; ARemove (sc_name sc)].

Fixpoint groups_steps (ss : list sstep) (t : table) : list (list act) :=
  match ss with
  | [] => []
  | s :: ss' => acts_step s t :: groups_steps ss' (apply_step s t)
  end.
Definition table0 (sc : scenario) : table := mkTable atom_cols (created_rows sc).
(* the actions of the scenario, grouped by scenario step: group 0 = creation, then one group per
   step, last group = close.  [ex]: the answer of the initial os.path.isfile(sqlfile). *)
Definition c20_tail_groups (sc : scenario) : list (list act) :=
  groups_steps (sc_steps sc) (table0 sc) ++ [acts_close sc].
Definition c20_prelude (ex : bool) (sc : scenario) : list act :=
  AExists (sc_name sc) :: (if ex then [ARemove (sc_name sc)] else []).
Definition c20_groups (ex : bool) (sc : scenario) : list (list act) :=
  (c20_prelude ex sc ++ acts_create sc) :: c20_tail_groups sc.
Definition c20_flat (ex : bool) (sc : scenario) : list act := List.concat (c20_groups ex sc).
(* the script as the code runs it: the removal depends on what isfile() answers *)
Definition c20_script (sc : scenario) : prog unit :=
  Do (AExists (sc_name sc)) (fun r =>
    seq_acts ((if resp_true r then [ARemove (sc_name sc)] else []) ++ acts_create sc ++ List.concat (c20_tail_groups sc))).

(* in which group the k-th action lies (k = number of actions already executed) *)
Fixpoint group_of (gs : list (list act)) (k : nat) : nat :=
  match gs with
  | [] => O
  | g :: gs' => if Nat.ltb k (List.length g) then O else S (group_of gs' (k - List.length g))
  end.

Definition world0 (fs : fsys) : world := mkWorld fs (fun _ => None).

(* ================================================================== *)
(* 6. C16: the public routines and their scripts                        *)

Definition concat_str (l : list string) : string := fold_right append "" l.

(* pdb2sql.read_pdb on a path   pdb2sqlcore.py:181-246 *)
Definition read_pdb (p : path) : prog (res string) :=
  Do (AExists p) (fun r =>                               (* os.path.exists *)
    if resp_true r then
      Do (AExists p) (fun r2 =>                          (* os.path.isfile *)
        if resp_true r2 then Do (AReadAll p) (fun r3 => Ret (resp_text r3))
        else Ret (Err "FileNotFoundError"))
    else Ret (Err "FileNotFoundError")).
(* pdb2sql(p) / interface(p) with the default in-memory database   pdb2sqlcore.py:15-36,73-91 *)
Definition new_db (p : path) : prog (res string) :=
  Do (AConnect 0 None) (fun _ => read_pdb p).

(* StructureSimilarity._write_zone   StructureSimilarity.py:1069-1087 : mkstemp, lines, os.replace.
   [tmps]: the candidate names drawn by tempfile's RNG (oracle), tried in order with O_EXCL. *)
Fixpoint write_lines (p : path) (lines : list string) (k : prog (res unit)) : prog (res unit) :=
  match lines with
  | [] => k
  | l :: ls => Do (AWriteChunk p l) (fun r => match resp_unit r with Ok _ => write_lines p ls k | Err e => Ret (Err e) end)
  end.
Fixpoint write_zone (z : path) (tmps : list path) (lines : list string) : prog (res unit) :=
  match tmps with
  | [] => Ret (Err "FileExistsError")
  | t :: ts =>
    Do (AMkTemp t) (fun r =>
      match r with
      | RErr _ => write_zone z ts lines
      | _ => write_lines t lines
               (Do (AClose t) (fun _ => Do (ARename t z) (fun r2 => Ret (resp_unit r2))))
      end)
  end.
(* the pre-F9 writer, kept to state what the fix bought (C16_in_place_write_refuted) *)
Definition write_zone_in_place (z : path) (lines : list string) : prog (res unit) :=
  Do (AOpenTrunc z) (fun _ => write_lines z lines (Do (AClose z) (fun _ => Ret (Ok tt)))).

(* StructureSimilarity.read_zone   StructureSimilarity.py:1089-1135 *)
Definition read_zone (z : path) : prog (res string) :=
  Do (AExists z) (fun r =>
    if resp_true r then Do (AReadAll z) (fun r2 => Ret (resp_text r2))
    else Ret (Err "FileNotFoundError")).

(* the three-way zone source selection of compute_lrmsd_fast / compute_irmsd_fast
   StructureSimilarity.py:149-156, 293-300 (compute_lzone 199-253, compute_izone 330-379):
   returns the text of the zone the computation goes on with, and the texts it read *)
Definition acquire_zone (ref : path) (zone : option path) (tmps : list path) (lines : list string)
  : prog (res (string * list string)) :=
  match zone with
  | None => doP t <~ new_db ref ;; Ret (Ok (concat_str lines, [t]))
  | Some z =>
    Do (AExists z) (fun r =>
      if resp_true r then doP zt <~ read_zone z ;; Ret (Ok (zt, [zt]))
      else doP t <~ new_db ref ;; doP _ <~ write_zone z tmps lines ;; Ret (Ok (concat_str lines, [t])))
  end.

(* the same selection with the pre-F9 in-place writer (what a regression to open(filename,'w') is) *)
Definition acquire_zone_in_place (ref z : path) (lines : list string) : prog (res (string * list string)) :=
  Do (AExists z) (fun r =>
    if resp_true r then doP zt <~ read_zone z ;; Ret (Ok (zt, [zt]))
    else doP t <~ new_db ref ;; doP _ <~ write_zone_in_place z lines ;; Ret (Ok (concat_str lines, [t]))).

(* pdb2sql_base.exportpdb   pdb2sql_base.py:136-158 *)
Definition exportpdb (f : path) (lines : list string) : prog (res unit) :=
  Do (AOpenTrunc f) (fun _ => write_lines f (map (fun l => l +s+ String nl EmptyString) lines) (Do (AClose f) (fun _ => Ret (Ok tt)))).

(* os.path.basename and str.rstrip('.pdb')   superpose.py:69-77, align.py:111-121 *)
Fixpoint basename_aux (acc s : string) : string :=
  match s with
  | EmptyString => acc
  | String c t => if Ascii.eqb c "/"%char then basename_aux "" t else basename_aux (acc +s+ String c EmptyString) t
  end.
Definition basename (s : string) : string := basename_aux "" s.
Fixpoint lstrip_chars (cs s : string) : string :=
  match s with
  | String c t => if has_char c cs then lstrip_chars cs t else s
  | EmptyString => EmptyString
  end.
Definition rstrip_chars (cs s : string) : string := rev_str "" (lstrip_chars cs (rev_str "" s)).
Definition superposed_name (mobile target : path) : path :=
  rstrip_chars ".pdb" (basename mobile) +s+ "_superposed_on_" +s+ rstrip_chars ".pdb" (basename target) +s+ ".pdb".
Definition aligned_name (pdb : path) : path := rstrip_chars ".pdb" pdb +s+ "_aligned.pdb".

Inductive routine :=
| RLrmsdFast (zone : option path)                       (* compute_lrmsd_fast(lzone=...) *)
| RIrmsdFast (zone : option path)                       (* compute_irmsd_fast(izone=...) *)
| RIrmsdSql (zone : option path) (export : option path) (* compute_irmsd_pdb2sql(izone=, exportpath=) *)
| RLrmsdSql (export : option path)                      (* compute_lrmsd_pdb2sql(exportpath=) *)
| RFnatFast                                             (* compute_fnat_fast *)
| RFnatSql                                              (* compute_fnat_pdb2sql *)
| RContacts                                             (* interface(ref).get_contact_atoms *)
| RSuperpose (export : bool)                            (* superpose(decoy, ref, export=) *)
| RAlign (export : bool).                               (* align(ref, export=) *)

Record call := mkCall {
  cl_decoy : path;
  cl_ref : path;
  cl_routine : routine;
  cl_tmps : list path;             (* oracle: tempfile's candidate names *)
  cl_zone_lines : list string;     (* oracle: the zone lines the routine computes *)
  cl_out1 : list string;           (* oracle: lines of the first exported file *)
  cl_out2 : list string }.         (* oracle: lines of the second exported file *)

(* The value of a computation is a function of the zone it goes on with and of the input texts it
   reads afterwards (its "basis"); the scripts return that basis and, for the correspondence check,
   every text read in order. *)
Definition obs := (list string * list string)%type.      (* (basis, all texts read) *)
Definition rd (p : prog (res string)) (acc : obs) (k : obs -> prog (res obs)) : prog (res obs) :=
  doP t <~ p ;; k (fst acc ++ [t], snd acc ++ [t]).

(* what compute_lrmsd_fast / compute_irmsd_fast do once they have the zone *)
Definition lrmsd_tail (D R : path) (za : string * list string) : prog (res obs) :=
    rd (new_db R) ([fst za], snd za) (fun a => rd (new_db D) a (fun a =>    (* check_residues *)
    rd (read_pdb D) a (fun a => rd (read_pdb R) a (fun a =>             (* get_data_zone_backbone x2 *)
    rd (read_pdb D) a (fun a => rd (read_pdb R) a (fun a =>             (* _get_xyz long *)
    rd (read_pdb D) a (fun a => rd (read_pdb R) a (fun a => Ret (Ok a))))))))).  (* _get_xyz short *)
Definition irmsd_tail (D R : path) (za : string * list string) : prog (res obs) :=
    rd (new_db R) ([fst za], snd za) (fun a => rd (new_db D) a (fun a =>
    rd (read_pdb D) a (fun a => rd (read_pdb R) a (fun a =>
    rd (read_pdb D) a (fun a => rd (read_pdb R) a (fun a => Ret (Ok a))))))).

Definition script (c : call) : prog (res obs) :=
  let D := cl_decoy c in
  let R := cl_ref c in
  match cl_routine c with
  | RLrmsdFast zone =>                                   (* StructureSimilarity.py:121-196 *)
    doP za <~ acquire_zone R zone (cl_tmps c) (cl_zone_lines c) ;; lrmsd_tail D R za
  | RIrmsdFast zone =>                                   (* StructureSimilarity.py:264-328 *)
    doP za <~ acquire_zone R zone (cl_tmps c) (cl_zone_lines c) ;; irmsd_tail D R za
  | RIrmsdSql zone export =>                             (* StructureSimilarity.py:719-870, 873-909 *)
    rd (new_db D) ([], []) (fun a => rd (new_db R) a (fun a =>
    (match zone with
     | None => fun k => k a
     | Some z => fun k =>
       Do (AExists z) (fun r =>                          (* get_izone_rowID: isfile, then read_zone *)
         if resp_true r then rd (read_zone z) a k else Ret (Err "FileNotFoundError"))
     end) (fun a =>
    match export with
    | None => Ret (Ok a)
    | Some e =>
      doP _ <~ exportpdb (e +s+ "/irmsd_decoy.pdb") (cl_out1 c) ;;
      doP _ <~ exportpdb (e +s+ "/irmsd_ref.pdb") (cl_out2 c) ;; Ret (Ok a)
    end)))
  | RLrmsdSql export =>                                  (* StructureSimilarity.py:519-665 *)
    rd (new_db D) ([], []) (fun a => rd (new_db R) a (fun a =>
    rd (new_db R) a (fun a => rd (new_db D) a (fun a =>                 (* check_residues *)
    match export with
    | None => Ret (Ok a)
    | Some e =>
      doP _ <~ exportpdb (e +s+ "/lrmsd_decoy.pdb") (cl_out1 c) ;;
      doP _ <~ exportpdb (e +s+ "/lrmsd_ref.pdb") (cl_out2 c) ;; Ret (Ok a)
    end))))
  | RFnatFast =>                                         (* StructureSimilarity.py:387-464, 467-507 *)
    rd (new_db R) ([], []) (fun a => rd (read_pdb D) a (fun a => Ret (Ok a)))
  | RFnatSql =>                                          (* StructureSimilarity.py:917-970 *)
    rd (new_db D) ([], []) (fun a => rd (new_db R) a (fun a => Ret (Ok a)))
  | RContacts => rd (new_db R) ([], []) (fun a => Ret (Ok a))  (* interface.py:9-31, 41-... *)
  | RSuperpose export =>                                 (* superpose.py:9-79 *)
    rd (new_db D) ([], []) (fun a => rd (new_db R) a (fun a =>
    if export then doP _ <~ exportpdb (superposed_name D R) (cl_out1 c) ;; Ret (Ok a) else Ret (Ok a)))
  | RAlign export =>                                     (* align.py:7-43, 111-121 *)
    rd (new_db R) ([], []) (fun a =>
    if export then doP _ <~ exportpdb (aligned_name R) (cl_out1 c) ;; Ret (Ok a) else Ret (Ok a))
  end.

(* the same routines with the pre-F9 in-place zone writer: used only to ask the model which schedules a
   regression to in-place writing would hit (those are replayed first) *)
Definition script_in_place (c : call) : prog (res obs) :=
  match cl_routine c with
  | RLrmsdFast (Some z) =>
    doP za <~ acquire_zone_in_place (cl_ref c) z (cl_zone_lines c) ;; lrmsd_tail (cl_decoy c) (cl_ref c) za
  | RIrmsdFast (Some z) =>
    doP za <~ acquire_zone_in_place (cl_ref c) z (cl_zone_lines c) ;; irmsd_tail (cl_decoy c) (cl_ref c) za
  | _ => script c
  end.

(* what the caller asked the routine to produce *)
Definition requested_outputs (c : call) : list path :=
  match cl_routine c with
  | RLrmsdFast (Some z) | RIrmsdFast (Some z) => [z]
  | RIrmsdSql _ (Some e) => [e +s+ "/irmsd_decoy.pdb"; e +s+ "/irmsd_ref.pdb"]
  | RLrmsdSql (Some e) => [e +s+ "/lrmsd_decoy.pdb"; e +s+ "/lrmsd_ref.pdb"]
  | RSuperpose true => [superposed_name (cl_decoy c) (cl_ref c)]
  | RAlign true => [aligned_name (cl_ref c)]
  | _ => []
  end.
(* the files a routine may read: its inputs and a zone file it was given *)
Definition inputs_of (c : call) : list path :=
  [cl_decoy c; cl_ref c] ++
  match cl_routine c with
  | RLrmsdFast (Some z) | RIrmsdFast (Some z) | RIrmsdSql (Some z) _ => [z]
  | _ => []
  end.
(* transient files (exist only between mkstemp and os.replace) *)
Definition transients (c : call) : list path :=
  match cl_routine c with
  | RLrmsdFast (Some _) | RIrmsdFast (Some _) => cl_tmps c
  | _ => []
  end.

(* enough fuel for every script on the given oracle data *)
Definition fuel (c : call) : nat :=
  (100 + 2 * List.length (cl_tmps c) + List.length (cl_zone_lines c) + List.length (cl_out1 c) + List.length (cl_out2 c))%nat.

(* ================================================================== *)
(* 7. The call sites the scripts above were written from.  One entry per file-system / process /
   database-connection call site of the package, in source order: file, enclosing function, kind
   (with the mode for open / fdopen), symbolic path expression (locals replaced by their definition,
   or _local_).  translator/regions_fs.py regenerates the same table from /repo on every run
   (Generated_fs.callsites_src); Proofs_fs_sites.v proves the two equal and derives: no shell call
   site, no fixed-name scratch database, every writing site is one the scripts model. *)
Inductive site_kind :=
| SOpen (mode : string) | SFdopen (mode : string) | SRemove | SReplace | SCopy | SShell
| SIsfile | SExists | SMkdir | SChdir | SListdir | SConnect | SMkstemp
| SPickleDump | SPickleLoad | SUrlopen | SNumpyWrite | SNumpyRead | SExport | SToCsv
| SPathWrite | SPathRead | SSqlfileArg.
Record callsite := mkSite { cs_file : string; cs_func : string; cs_kind : site_kind; cs_path : string }.

Definition model_callsites : list callsite :=
  [mkSite "pdb2sql_base.py" "pdb2sql_base.exportpdb" (SOpen "a") "fname";
   mkSite "pdb2sql_base.py" "pdb2sql_base.exportpdb" (SOpen "w") "fname";
   mkSite "pdb2sql_base.py" "pdb2sql_base._close" (SRemove) "self.sqlfile";
   mkSite "pdb2sqlcore.py" "pdb2sql._create_sql" (SConnect) "':memory:'";
   mkSite "pdb2sqlcore.py" "pdb2sql._create_sql" (SIsfile) "self.sqlfile";
   mkSite "pdb2sqlcore.py" "pdb2sql._create_sql" (SRemove) "self.sqlfile";
   mkSite "pdb2sqlcore.py" "pdb2sql._create_sql" (SConnect) "self.sqlfile";
   mkSite "pdb2sqlcore.py" "pdb2sql.read_pdb" (SExists) "pdbfile";
   mkSite "pdb2sqlcore.py" "pdb2sql.read_pdb" (SIsfile) "pdbfile";
   mkSite "pdb2sqlcore.py" "pdb2sql.read_pdb" (SOpen "r") "pdbfile";
   mkSite "pdb2sqlcore.py" "pdb2sql.read_pdb" (SExists) "pdbfile";
   mkSite "pdb2sqlcore.py" "pdb2sql.read_pdb" (SIsfile) "pdbfile";
   mkSite "pdb2sqlcore.py" "pdb2sql.read_pdb" (SOpen "r") "pdbfile";
   mkSite "superpose.py" "superpose" (SExport) "os.path.basename(_local_.pdbfile).rstrip('.pdb') + '_superposed_on_' + os.path.basename(_local_.pdbfile).rstrip('.pdb') + '.pdb'";
   mkSite "align.py" "export_aligned" (SExport) "_local_";
   mkSite "StructureSimilarity.py" "StructureSimilarity.compute_lrmsd_fast" (SIsfile) "lzone";
   mkSite "StructureSimilarity.py" "StructureSimilarity.compute_irmsd_fast" (SIsfile) "izone";
   mkSite "StructureSimilarity.py" "StructureSimilarity.compute_residue_pairs_ref" (SOpen "wb") "self.ref.split('.')[0] + 'residue_contact_pairs.pckl'";
   mkSite "StructureSimilarity.py" "StructureSimilarity.compute_residue_pairs_ref" (SOpen "wb") "filename";
   mkSite "StructureSimilarity.py" "StructureSimilarity.compute_residue_pairs_ref" (SPickleDump) "_local_";
   mkSite "StructureSimilarity.py" "StructureSimilarity.compute_lrmsd_pdb2sql" (SExport) "exportpath + '/lrmsd_decoy.pdb'";
   mkSite "StructureSimilarity.py" "StructureSimilarity.compute_lrmsd_pdb2sql" (SExport) "exportpath + '/lrmsd_ref.pdb'";
   mkSite "StructureSimilarity.py" "StructureSimilarity.compute_irmsd_pdb2sql" (SExport) "exportpath + '/irmsd_decoy.pdb'";
   mkSite "StructureSimilarity.py" "StructureSimilarity.compute_irmsd_pdb2sql" (SExport) "exportpath + '/irmsd_ref.pdb'";
   mkSite "StructureSimilarity.py" "StructureSimilarity.get_izone_rowID" (SIsfile) "izone";
   mkSite "StructureSimilarity.py" "StructureSimilarity._write_zone" (SMkstemp) "dir=os.path.dirname(filename) or '.', prefix=os.path.basename(filename) + '.'";
   mkSite "StructureSimilarity.py" "StructureSimilarity._write_zone" (SFdopen "w") "_local_";
   mkSite "StructureSimilarity.py" "StructureSimilarity._write_zone" (SReplace) "_local_ -> filename";
   mkSite "StructureSimilarity.py" "StructureSimilarity.read_zone" (SIsfile) "zone_file";
   mkSite "StructureSimilarity.py" "StructureSimilarity.read_zone" (SOpen "r") "zone_file";
   mkSite "utils.py" "fetch" (SUrlopen) "os.path.join('http://files.rcsb.org/download', pdbid + '.pdb')";
   mkSite "utils.py" "fetch" (SUrlopen) "os.path.join('http://files.rcsb.org/download', pdbid + '.cif')";
   mkSite "utils.py" "fetch" (SOpen "wb") "os.path.join(outdir, pdbid + '.pdb')"].
