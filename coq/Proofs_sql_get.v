(* Proofs_sql_get.v — C03: the model of get() equals the specification when no list is
   longer than 950 values (no chunking).  Pieces: name resolution, the keyword loop, the
   rowid shift on conditions, SELECT = filter over positions, the rowid shift on output. *)
From Coq Require Import Lia.
From Verif Require Import PyLib ModelTypes Generated_parse Model_sqlval Model_sql Spec_sql Proofs_sql_base.
Open Scope string_scope.

(* ------------------------------------------------------------------ *)
(* A. requested attributes *)
Lemma wf_split t : wf_table t = true ->
  forallb (fun c : string * string => (ident_shape (fst c) && negb (is_rowid_alias (fst c)))%bool) (tcols t) = true
  /\ nodup_str (map fst (tcols t)) = true.
Proof. unfold wf_table. intro H. apply andb_prop in H. exact H. Qed.

Lemma rowID_resolves t : wf_table t = true -> resolve_name t "rowID" = Ok (Some CRowid).
Proof.
  intro Hwf. destruct (wf_split t Hwf) as [Hw _].
  unfold resolve_name. change (ident_shape "rowID") with true. cbn [negb].
  rewrite (find_ci_alias_none "rowID" (tcols t) 0 Hw) by reflexivity.
  reflexivity.
Qed.

Lemma attr_resolve t n c : wf_table t = true ->
  spec_req_attr t n = Some c -> resolve_name t n = Ok (Some c).
Proof.
  intros Hwf H. destruct (wf_split t Hwf) as [Hw Hnd].
  unfold spec_req_attr in H.
  destruct (String.eqb n "rowID") eqn:E.
  - apply String.eqb_eq in E; subst. inversion H; subst. apply rowID_resolves; exact Hwf.
  - destruct (find_exact n (tcols t) 0) as [i|] eqn:F; [|discriminate]. inversion H; subst.
    unfold resolve_name.
    rewrite (find_ci_ident n (tcols t) 0 i Hw F). cbn [negb].
    rewrite (find_exact_ci n (tcols t) 0 i Hnd F). reflexivity.
Qed.

Lemma sel_list_spec t columns sel : wf_table t = true ->
  spec_attrs t columns = Ok sel -> sel_list t columns = Ok sel.
Proof.
  intros Hwf H. unfold spec_attrs in H. unfold sel_list.
  destruct (String.eqb columns "*"); [exact H|].
  eapply mapM_transfer; [|exact H].
  intros p c _ Hp. cbv beta in Hp |- *.
  destruct (spec_req_attr t (strip p)) as [c'|] eqn:E; [|discriminate].
  apply res_Ok_inj in Hp; subst.
  rewrite (attr_resolve t (strip p) c Hwf E). reflexivity.
Qed.

Lemma spec_req_attr_valid t n c :
  spec_req_attr t n = Some c -> In n ("rowID" :: map fst (tcols t)).
Proof.
  unfold spec_req_attr. destruct (String.eqb n "rowID") eqn:E.
  - apply String.eqb_eq in E; subst. intros _. left; reflexivity.
  - destruct (find_exact n (tcols t) 0) eqn:F; [|discriminate].
    intros _. right. eapply find_exact_In; eauto.
Qed.

Lemma check_columns_ok d t columns sel valid :
  same_colnames d t = true -> valid_colnames d = Ok valid ->
  spec_attrs t columns = Ok sel -> check_columns_get valid columns = Ok tt.
Proof.
  intros Hs Hv H. unfold same_colnames in Hs. unfold valid_colnames in Hv.
  destruct (tables d) as [|[n0 t0] rest]; [discriminate|].
  apply list_beq_str_eq in Hs. apply res_Ok_inj in Hv. subst valid. rewrite Hs.
  unfold check_columns_get. unfold spec_attrs in H.
  destruct (String.eqb columns "*"); [reflexivity|].
  apply mapM_Ok_Forall2 in H.
  assert (X : forallb (fun i => mem_str (strip i) ("rowID" :: map fst (tcols t))) (split_comma columns) = true).
  { apply forallb_forall. intros p Hp.
    assert (Y : exists c, spec_req_attr t (strip p) = Some c).
    { clear - H Hp. induction H; [destruct Hp|]. destruct Hp as [->|Hp]; [|auto].
      destruct (spec_req_attr t (strip p)) as [c|]; [eauto|discriminate]. }
    destruct Y as (c & Y). apply mem_str_In. eapply spec_req_attr_valid; eauto. }
  rewrite X. reflexivity.
Qed.

(* ------------------------------------------------------------------ *)
(* B. condition keywords *)
Lemma key_resolve t k0 cr : wf_table t = true -> key_plain k0 = true ->
  spec_cond_attr t (snd (key_of k0)) = Some cr -> resolve_name t (snd (key_of k0)) = Ok (Some cr).
Proof.
  intros Hwf Hk H. destruct (wf_split t Hwf) as [Hw Hnd].
  unfold key_plain in Hk. set (k := snd (key_of k0)) in *.
  apply andb_prop in Hk; destruct Hk as [Hid Hal].
  unfold spec_cond_attr in H.
  destruct (ci_eqb k "rowID") eqn:E.
  - inversion H; subst cr.
    assert (A : is_rowid_alias k = true) by (rewrite (ci_eqb_alias _ _ E); reflexivity).
    rewrite A in Hal. cbn in Hal. apply String.eqb_eq in Hal. rewrite Hal. apply rowID_resolves; exact Hwf.
  - destruct (find_ci k (tcols t) 0) as [i|] eqn:F; [|discriminate]. inversion H; subst cr.
    unfold resolve_name. rewrite Hid. cbn [negb]. rewrite F. reflexivity.
Qed.

Lemma key_of_snd k0 : key_of k0 = (fst (key_of k0), snd (key_of k0)).
Proof. destruct (key_of k0); reflexivity. Qed.

Lemma check_keys_ok t kw : wf_table t = true -> keys_plain kw = true ->
  spec_names_ok t kw = true -> check_keys (Some t) kw = Ok tt.
Proof.
  intros Hwf. induction kw as [|[k0 v] rest IH]; simpl; intros Hk Hn; [reflexivity|].
  apply andb_prop in Hk; destruct Hk as [Hk Hks].
  apply andb_prop in Hn; destruct Hn as [Hn Hns].
  rewrite (key_of_snd k0). cbn [fst snd] in *.
  destruct (spec_cond_attr t (snd (key_of k0))) as [cr|] eqn:E; [|discriminate].
  rewrite (key_resolve t k0 cr Hwf Hk E). cbn. apply IH; assumption.
Qed.

(* ------------------------------------------------------------------ *)
(* C. the loop over the keywords, without long lists *)
Definition shift1 (v : pv) : pv := match v with PInt z => PInt (z + 1) | o => o end.
Definition item_of (c : string * cval) : string * bool * list pv :=
  let k := snd (key_of (fst c)) in
  (k, fst (key_of (fst c)),
   if String.eqb k "rowID" then map shift1 (spec_values (snd c)) else spec_values (snd c)).

Lemma rowid_shift_all l : forallb is_pint l = true -> mapM rowid_shift l = Ok (map shift1 l).
Proof.
  induction l as [|v t IH]; simpl; intro H; [reflexivity|].
  apply andb_prop in H; destruct H as [Hv Ht].
  destruct v; try discriminate. simpl. rewrite (IH Ht). reflexivity.
Qed.

Definition rowid_vals_int (kw : conds) : Prop :=
  forall c, In c kw -> snd (key_of (fst c)) = "rowID" -> forallb is_pint (spec_values (snd c)) = true.

Lemma cond_loop_done kw : forall acc,
  short_lists kw = true -> rowid_vals_int kw ->
  cond_loop kw acc = LDone (rev acc ++ map item_of kw).
Proof.
  induction kw as [|[k0 v] rest IH]; intros acc Hs Hr.
  - simpl. rewrite app_nil_r. reflexivity.
  - simpl in Hs. apply andb_prop in Hs; destruct Hs as [Hv Hs].
    assert (Hr' : rowid_vals_int rest) by (intros c Hc; apply Hr; right; exact Hc).
    specialize (Hr (k0, v) (or_introl eq_refl)). cbn [fst snd] in Hr.
    cbn [cond_loop]. rewrite (key_of_snd k0).
    cbn [map]. unfold item_of at 1. cbn [fst snd].
    destruct v as [x|l]; cbn [spec_values] in *.
    + destruct (String.eqb (snd (key_of k0)) "rowID") eqn:E.
      * apply String.eqb_eq in E. specialize (Hr E). cbn in Hr.
        destruct x; try discriminate. cbn [rowid_shift].
        rewrite IH by assumption. cbn [rev map shift1]. rewrite <- app_assoc. reflexivity.
      * rewrite IH by assumption. cbn [rev]. rewrite <- app_assoc. reflexivity.
    + cbn [long_list snd] in Hv. apply Bool.negb_true_iff in Hv.
      unfold max_sql_values. rewrite Hv.
      destruct (String.eqb (snd (key_of k0)) "rowID") eqn:E.
      * apply String.eqb_eq in E. specialize (Hr E).
        rewrite (rowid_shift_all l Hr).
        rewrite IH by assumption. cbn [rev]. rewrite <- app_assoc. reflexivity.
      * rewrite IH by assumption. cbn [rev]. rewrite <- app_assoc. reflexivity.
Qed.

Lemma total_vals_items kw : short_lists kw = true -> total_vals (map item_of kw) = spec_total kw.
Proof.
  induction kw as [|[k0 v] rest IH]; simpl; intro Hs; [reflexivity|].
  apply andb_prop in Hs; destruct Hs as [Hv Hs]. rewrite (IH Hs).
  f_equal. unfold item_of. cbn [fst snd].
  assert (L : List.length (if String.eqb (snd (key_of k0)) "rowID" then map shift1 (spec_values v) else spec_values v)
              = List.length (spec_values v)).
  { destruct (String.eqb _ _); [apply map_length|reflexivity]. }
  rewrite L.
  destruct v as [x|l]; cbn [spec_values long_list snd] in *.
  - cbn. reflexivity.
  - apply Bool.negb_true_iff in Hv. apply Z.ltb_ge in Hv. rewrite Z.min_l by exact Hv. reflexivity.
Qed.

(* ------------------------------------------------------------------ *)
(* D. normalised conditions: model (rowid = position + 1) vs specification (position) *)
Definition shiftv (v : val) : val := match v with VInt z => VInt (z + 1) | o => o end.
Definition is_vint (v : val) : bool := match v with VInt _ => true | _ => false end.
Definition cond_rel (m s : scond) : Prop :=
  fst (fst m) = fst (fst s) /\ snd (fst m) = snd (fst s) /\
  match fst (fst s) with
  | CRowid => snd m = map shiftv (snd s) /\ forallb is_vint (snd s) = true
  | CCol _ => snd m = snd s
  end.

Lemma rowid_operands l vs :
  forallb is_pint l = true -> forallb rowid_in_model l = true ->
  mapM (cmp_operand AInt) l = Ok vs ->
  mapM (cmp_operand AInt) (map shift1 l) = Ok (map shiftv vs) /\ forallb is_vint vs = true.
Proof.
  revert vs; induction l as [|v t IH]; simpl; intros vs Hp Hr H.
  - apply res_Ok_inj in H; subst. split; reflexivity.
  - apply andb_prop in Hp; destruct Hp as [Hv Hp]. apply andb_prop in Hr; destruct Hr as [Hrv Hr].
    destruct v as [z| | |]; try discriminate.
    apply bind_Ok_inv in H; destruct H as (y & Hy & H).
    apply bind_Ok_inv in H; destruct H as (ys & Hys & H). apply res_Ok_inj in H; subst vs.
    destruct (IH ys Hp Hr Hys) as [IH1 IH2].
    cbn [cmp_operand] in Hy. destruct (int_in_range z); [|discriminate]. apply res_Ok_inj in Hy; subst y.
    cbn [shift1 cmp_operand]. cbn [rowid_in_model] in Hrv. rewrite Hrv. cbn [bind]. rewrite IH1. cbn [bind].
    split; [reflexivity|]. cbn. exact IH2.
Qed.

Lemma key_rowid_exact k0 : key_plain k0 = true ->
  ci_eqb (snd (key_of k0)) "rowID" = true -> snd (key_of k0) = "rowID".
Proof.
  unfold key_plain. intros Hk E. apply andb_prop in Hk; destruct Hk as [_ Hal].
  rewrite (ci_eqb_alias _ _ E) in Hal. cbn in Hal. apply String.eqb_eq in Hal. exact Hal.
Qed.

Lemma norm_cond_spec t c s : wf_table t = true -> key_plain (fst c) = true ->
  spec_cond t c = Ok s -> exists m, norm_cond t (item_of c) = Ok m /\ cond_rel m s.
Proof.
  intros Hwf Hk H. destruct c as [k0 v]. unfold spec_cond in H. cbn [fst snd] in *.
  rewrite (key_of_snd k0) in H.
  destruct (spec_cond_attr t (snd (key_of k0))) as [cr|] eqn:E; [|discriminate].
  pose proof (key_resolve t k0 cr Hwf Hk E) as R.
  unfold norm_cond, item_of. cbn [fst snd]. rewrite R. cbn [bind].
  destruct cr as [|i].
  - (* rowID *)
    destruct (negb (forallb is_pint (spec_values v))) eqn:P; [discriminate|].
    destruct (negb (forallb rowid_in_model (spec_values v))) eqn:Q; [discriminate|].
    apply Bool.negb_false_iff in P, Q.
    apply bind_Ok_inv in H; destruct H as (vs & Hvs & H). apply res_Ok_inj in H; subst s.
    assert (X : snd (key_of k0) = "rowID").
    { apply key_rowid_exact; [exact Hk|]. unfold spec_cond_attr in E.
      destruct (ci_eqb (snd (key_of k0)) "rowID"); [reflexivity|].
      destruct (find_ci _ _ _); discriminate. }
    rewrite X. cbn [String.eqb Ascii.eqb Bool.eqb]. change (String.eqb "rowID" "rowID") with true. cbv iota.
    cbn [col_aff] in *.
    destruct (rowid_operands _ _ P Q Hvs) as [A B]. rewrite A. cbn [bind].
    eexists; split; [reflexivity|]. unfold cond_rel; cbn. auto.
  - apply bind_Ok_inv in H; destruct H as (vs & Hvs & H). apply res_Ok_inj in H; subst s.
    assert (X : String.eqb (snd (key_of k0)) "rowID" = false).
    { destruct (String.eqb (snd (key_of k0)) "rowID") eqn:X; [|reflexivity].
      apply String.eqb_eq in X. unfold spec_cond_attr in E. rewrite X in E.
      change (ci_eqb "rowID" "rowID") with true in E. discriminate. }
    rewrite X. rewrite Hvs. cbn [bind].
    eexists; split; [reflexivity|]. unfold cond_rel; cbn. auto.
Qed.

Lemma norm_conds_spec t kw cs : wf_table t = true -> keys_plain kw = true ->
  mapM (spec_cond t) kw = Ok cs ->
  exists ms, mapM (norm_cond t) (map item_of kw) = Ok ms /\ Forall2 cond_rel ms cs.
Proof.
  intros Hwf. revert cs. induction kw as [|c rest IH]; intros cs Hk H.
  - cbn in H. apply res_Ok_inj in H; subst. exists []; split; [reflexivity|constructor].
  - unfold keys_plain in Hk. cbn [forallb] in Hk. cbn [mapM] in H. cbn [map mapM].
    apply andb_prop in Hk; destruct Hk as [Hc Hk].
    apply bind_Ok_inv in H; destruct H as (s & Hs & H).
    apply bind_Ok_inv in H; destruct H as (ss & Hss & H). apply res_Ok_inj in H; subst cs.
    destruct (norm_cond_spec t c s Hwf Hc Hs) as (m & Hm & Rm).
    destruct (IH ss Hk Hss) as (ms & Hms & Rms).
    exists (m :: ms). rewrite Hm. cbn [bind]. rewrite Hms. cbn [bind]. split; [reflexivity|constructor; assumption].
Qed.

(* ------------------------------------------------------------------ *)
(* E. one row: the WHERE clause at rowid pos+1 is the specification's predicate at position pos *)
Lemma existsb_shift x vs : forallb is_vint vs = true ->
  existsb (val_sql_eq (VInt (x + 1))) (map shiftv vs) = existsb (val_sql_eq (VInt x)) vs.
Proof.
  induction vs as [|v t IH]; simpl; intro H; [reflexivity|].
  apply andb_prop in H; destruct H as [Hv Ht]. rewrite (IH Ht). f_equal.
  destruct v; try discriminate. cbn. 
  destruct (Z.eqb_spec (x + 1) (z + 1)), (Z.eqb_spec x z); try reflexivity; lia.
Qed.
Lemma existsb_null_vint vs : forallb is_vint vs = true -> existsb is_null vs = false.
Proof.
  induction vs as [|v t IH]; simpl; intro H; [reflexivity|].
  apply andb_prop in H; destruct H as [Hv Ht]. rewrite (IH Ht). destruct v; try discriminate. reflexivity.
Qed.
Lemma forallb_vint_shift vs : forallb is_vint vs = true -> forallb is_vint (map shiftv vs) = true.
Proof.
  induction vs as [|v t IH]; simpl; intro H; [reflexivity|].
  apply andb_prop in H; destruct H as [Hv Ht]. rewrite (IH Ht). destruct v; try discriminate. reflexivity.
Qed.

Lemma cond_true_rel m s pos r : cond_rel m s ->
  (let '(cr, neg, vs) := m in cond_true neg (cell (Z.of_nat pos + 1) r cr) vs) = spec_holds pos r s.
Proof.
  destruct m as [[crm negm] vm], s as [[crs negs] vs]. unfold cond_rel; cbn [fst snd].
  intros (E1 & E2 & E3). subst crm negm. unfold spec_holds.
  destruct crs as [|i].
  - destruct E3 as [E3 Hv]. subst vm. cbn [cell spec_cell].
    unfold cond_true, in_true, not_in_true.
    destruct negs.
    + destruct vs as [|v0 vt]; [reflexivity|].
      change (map shiftv (v0 :: vt)) with (shiftv v0 :: map shiftv vt).
      change (shiftv v0 :: map shiftv vt) with (map shiftv (v0 :: vt)).
      rewrite (existsb_shift _ _ Hv).
      rewrite (existsb_null_vint _ Hv), (existsb_null_vint _ (forallb_vint_shift _ Hv)).
      reflexivity.
    + apply existsb_shift; exact Hv.
  - subst vm. reflexivity.
Qed.

Lemma row_ok_rel ms cs pos r : Forall2 cond_rel ms cs ->
  row_ok ms (Z.of_nat pos + 1) r = spec_matches cs (pos, r).
Proof.
  unfold row_ok, spec_matches. cbn [fst snd].
  induction 1 as [|m s ms' cs' Hms _ IH]; [reflexivity|].
  cbn [forallb]. rewrite IH. f_equal.
  pose proof (cond_true_rel m s pos r Hms) as X. destruct m as [[cr neg] vs]. exact X.
Qed.

(* ------------------------------------------------------------------ *)
(* F. SELECT ... WHERE = filter over the rows with their positions *)
Definition model_project (sel : list cref) (pr : nat * row) : row :=
  map (cell (Z.of_nat (fst pr) + 1) (snd pr)) sel.

Lemma select_from_spec sel ms cs : Forall2 cond_rel ms cs -> forall rows pos,
  select_from (Z.of_nat pos + 1) rows sel ms =
  map (model_project sel) (filter (spec_matches cs) (combine (seq pos (List.length rows)) rows)).
Proof.
  intros R. induction rows as [|r t IH]; intro pos; [reflexivity|].
  cbn [select_from List.length seq combine filter].
  rewrite (row_ok_rel ms cs pos r R).
  replace (Z.of_nat pos + 1 + 1)%Z with (Z.of_nat (S pos) + 1)%Z by lia.
  rewrite IH.
  destruct (spec_matches cs (pos, r)); reflexivity.
Qed.

Lemma sql_select_spec t sel ms cs : Forall2 cond_rel ms cs ->
  sql_select t sel ms = map (model_project sel) (spec_select t cs).
Proof.
  intro R. unfold sql_select, spec_select, with_positions.
  exact (select_from_spec sel ms cs R (trows t) 0).
Qed.

(* ------------------------------------------------------------------ *)
(* G. output: rowid - 1 on the rowID column, flattening *)
Lemma index_of_ge x l k i : index_of x l k = Some i -> (k <= i)%nat.
Proof.
  revert k; induction l as [|y t IH]; simpl; intros k H; [discriminate|].
  destruct (String.eqb x y); [inversion H; lia|]. apply IH in H. lia.
Qed.
Lemma index_of_none x l k : filter (String.eqb x) l = [] -> index_of x l k = None.
Proof.
  revert k; induction l as [|y t IH]; simpl; intros k H; [reflexivity|].
  destruct (String.eqb x y); [discriminate|]. apply IH; exact H.
Qed.
Lemma index_of_some x l k : filter (String.eqb x) l <> [] -> exists i, index_of x l k = Some i.
Proof.
  revert k; induction l as [|y t IH]; simpl; intros k H; [congruence|].
  destruct (String.eqb x y); [eauto|]. apply IH; exact H.
Qed.

Definition name_sel (n : string) (c : cref) : Prop := n = "rowID" <-> c = CRowid.

Lemma dec_fix names sel pos r : Forall2 name_sel names sel -> forall k,
  (List.length (filter (String.eqb "rowID") names) <= 1)%nat ->
  match index_of "rowID" names k with
  | Some i => dec_at (i - k) (map (cell (Z.of_nat pos + 1) r) sel) = map (spec_cell pos r) sel
  | None => map (cell (Z.of_nat pos + 1) r) sel = map (spec_cell pos r) sel
  end.
Proof.
  induction 1 as [|n c ns cs Hnc _ IH]; intros k Hc; [reflexivity|].
  cbn [index_of filter] in *.
  destruct (String.eqb "rowID" n) eqn:E.
  - apply String.eqb_eq in E. subst n.
    assert (c = CRowid) by (apply Hnc; reflexivity). subst c.
    cbn [List.length] in Hc.
    assert (Z : filter (String.eqb "rowID") ns = []).
    { destruct (filter (String.eqb "rowID") ns); [reflexivity|cbn in Hc; lia]. }
    specialize (IH (S k)). rewrite Z in IH. rewrite (index_of_none _ _ (S k) Z) in IH.
    rewrite Nat.sub_diag. cbn [map cell spec_cell dec_at].
    rewrite (IH (Nat.le_0_l _)). f_equal. f_equal. lia.
  - assert (c <> CRowid).
    { intro X. apply Hnc in X. subst n. cbn in E. discriminate. }
    specialize (IH (S k) Hc).
    destruct (index_of "rowID" ns (S k)) as [i|] eqn:F.
    + pose proof (index_of_ge _ _ _ _ F).
      replace (i - k)%nat with (S (i - S k)) by lia.
      cbn [map dec_at]. rewrite IH. destruct c; [congruence|reflexivity].
    + cbn [map]. rewrite IH. destruct c; [congruence|reflexivity].
Qed.

Lemma cells_no_rowid sel pos r : Forall (fun c => c <> CRowid) sel ->
  map (cell (Z.of_nat pos + 1) r) sel = map (spec_cell pos r) sel.
Proof.
  induction 1 as [|c cs Hc _ IH]; [reflexivity|]. cbn [map]. rewrite IH.
  destruct c; [congruence|reflexivity].
Qed.

Lemma spec_attrs_names t columns sel : String.eqb columns "*" = false ->
  spec_attrs t columns = Ok sel -> Forall2 name_sel (map strip (split_comma columns)) sel.
Proof.
  intros E H. unfold spec_attrs in H. rewrite E in H.
  apply mapM_Ok_Forall2 in H. induction H as [|p c ps cs Hp _ IH]; [constructor|].
  cbn [map]. constructor; [|exact IH].
  unfold name_sel. destruct (spec_req_attr t (strip p)) as [c'|] eqn:F; [|discriminate].
  apply res_Ok_inj in Hp; subst c'. unfold spec_req_attr in F.
  destruct (String.eqb (strip p) "rowID") eqn:G.
  - apply String.eqb_eq in G. inversion F; subst. tauto.
  - destruct (find_exact _ _ _); [|discriminate]. inversion F; subst.
    split; [intro X; rewrite X in G; cbn in G; discriminate | discriminate].
Qed.

Lemma spec_shape_flat sel (L : list (list val)) :
  (if Nat.eqb (List.length sel) 1 then map (fun r => PV (hd VNull r)) L else map (fun r => PL (map PV r)) L)
  = spec_shape sel L.
Proof. destruct sel as [|c [|c2 rest]]; reflexivity. Qed.

Lemma post_spec t columns sel (L : list (nat * row)) :
  cols_rowid_ok columns = true -> spec_attrs t columns = Ok sel ->
  post columns (map (model_project sel) L) = Ok (spec_shape sel (map (spec_project sel) L)).
Proof.
  intros Hc Ha. destruct L as [|pr0 L'].
  - cbn. destruct sel as [|c [|c2 rest]]; reflexivity.
  - assert (D : exists data1,
      (if is_substring "rowID" columns then
         match index_of "rowID" (map strip (split_comma columns)) 0 with
         | Some i => Ok (map (dec_at i) (map (model_project sel) (pr0 :: L')))
         | None => Err "ValueError"
         end
       else Ok (map (model_project sel) (pr0 :: L'))) = Ok data1
      /\ data1 = map (spec_project sel) (pr0 :: L')).
    { unfold cols_rowid_ok in Hc. destruct (String.eqb columns "*") eqn:E.
      - apply String.eqb_eq in E. subst columns. change (is_substring "rowID" "*") with false. cbv iota.
        eexists; split; [reflexivity|]. apply map_ext. intros [pos r]. unfold model_project, spec_project. cbn [fst snd].
        apply cells_no_rowid. unfold spec_attrs in Ha. cbn in Ha. apply res_Ok_inj in Ha. subst sel.
        apply Forall_forall. intros c Hin. apply in_map_iff in Hin. destruct Hin as (i & <- & _). discriminate.
      - pose proof (spec_attrs_names t columns sel E Ha) as N.
        apply andb_prop in Hc. destruct Hc as [Hle Hsub]. apply Nat.leb_le in Hle.
        apply Bool.eqb_prop in Hsub. unfold count_rowid in *.
        destruct (Nat.eqb (List.length (filter (String.eqb "rowID") (map strip (split_comma columns)))) 1) eqn:C.
        + rewrite Hsub. apply Nat.eqb_eq in C.
          destruct (index_of_some "rowID" (map strip (split_comma columns)) 0) as (i & Hi).
          { intro Z. rewrite Z in C. discriminate. }
          rewrite Hi. eexists; split; [reflexivity|]. rewrite map_map. apply map_ext. intros [pos r].
          unfold model_project, spec_project. cbn [fst snd].
          pose proof (dec_fix _ _ pos r N 0 Hle) as X. rewrite Hi in X. rewrite Nat.sub_0_r in X. exact X.
        + rewrite Hsub. apply Nat.eqb_neq in C.
          assert (Z : filter (String.eqb "rowID") (map strip (split_comma columns)) = []).
          { destruct (filter (String.eqb "rowID") (map strip (split_comma columns))) as [|a [|b l]]; [reflexivity| |]; cbn in *; lia. }
          eexists; split; [reflexivity|]. apply map_ext. intros [pos r].
          unfold model_project, spec_project. cbn [fst snd].
          pose proof (dec_fix _ _ pos r N 0 Hle) as X. rewrite (index_of_none _ _ 0 Z) in X. exact X. }
    destruct D as (data1 & D1 & D2).
    unfold post. cbn [map]. cbn [map] in D1. rewrite D1. cbn [bind].
    f_equal. unfold model_project at 1. rewrite map_length.
    rewrite D2. apply spec_shape_flat.
Qed.

(* ------------------------------------------------------------------ *)
(* H. assembly *)
Lemma spec_conds_inv d tablename kw tc :
  spec_conds d tablename kw = Ok tc ->
  table_name_ok tablename = true /\
  exists t cs, tc = (t, cs) /\ find_table tablename (tables d) = Some t /\
               spec_names_ok t kw = true /\ nmodel d = 0%nat /\ mapM (spec_cond t) kw = Ok cs.
Proof.
  unfold spec_conds. intro H.
  destruct (table_name_ok tablename); [|discriminate]. split; [reflexivity|]. cbn [negb] in H.
  destruct (find_table tablename (tables d)) as [t|] eqn:Hft; [|discriminate].
  destruct (spec_names_ok t kw) eqn:Hn; [|discriminate]. cbn [negb] in H.
  destruct (nmodel d) as [|n]; [|discriminate]. cbn in H.
  apply bind_Ok_inv in H; destruct H as (cs & Hcs & H). apply res_Ok_inj in H.
  exists t, cs. repeat split; auto.
Qed.

Lemma rowid_vals_int_of_spec t kw cs : mapM (spec_cond t) kw = Ok cs -> rowid_vals_int kw.
Proof.
  intro H. apply mapM_Ok_Forall2 in H. intros c Hc Hk.
  assert (X : exists s, spec_cond t c = Ok s).
  { clear Hk. induction H; [destruct Hc|]. destruct Hc as [->|Hc]; eauto. }
  destruct X as (s & X). unfold spec_cond in X. rewrite (key_of_snd (fst c)) in X. rewrite Hk in X.
  unfold spec_cond_attr in X. change (ci_eqb "rowID" "rowID") with true in X. cbv iota in X.
  destruct (forallb is_pint (spec_values (snd c))); [reflexivity|discriminate].
Qed.

Theorem get_simple d columns tablename kw out t f :
  find_table tablename (tables d) = Some t ->
  wf_table t = true -> same_colnames d t = true ->
  cols_rowid_ok columns = true -> keys_plain kw = true -> short_lists kw = true ->
  spec_get d columns tablename kw = Ok out ->
  get_model (S f) d columns tablename kw = Ok out.
Proof.
  intros Ht Hwf Hsame Hcols Hkeys Hshort Hspec.
  unfold spec_get in Hspec.
  destruct (table_name_ok tablename) eqn:Htn; [|discriminate]. cbn [negb] in Hspec.
  rewrite Ht in Hspec.
  apply bind_Ok_inv in Hspec; destruct Hspec as (sel & Hsel & Hspec).
  apply bind_Ok_inv in Hspec; destruct Hspec as (tc & Htc & Hspec).
  destruct (spec_conds_inv _ _ _ _ Htc) as (_ & t' & cs & -> & Ht' & Hnames & Hnm & Hcs).
  rewrite Ht in Ht'. inversion Ht'; subst t'. clear Ht'.
  destruct (Z.ltb sql_limit_src (spec_total kw)) eqn:Hlim; [discriminate|].
  apply res_Ok_inj in Hspec. cbn [snd] in Hspec. subst out.
  (* the model *)
  cbn [get_model]. rewrite Htn. cbn [negb].
  assert (Hv : exists valid, valid_colnames d = Ok valid).
  { unfold valid_colnames. unfold same_colnames in Hsame. destruct (tables d) as [|[n0 t0] r]; [discriminate|eauto]. }
  destruct Hv as (valid & Hv). rewrite Hv. cbn [bind].
  rewrite (check_columns_ok d t columns sel valid Hsame Hv Hsel). cbn [bind].
  rewrite Hnm. rewrite Bool.andb_false_r.
  rewrite Ht.
  destruct (wf_split t Hwf) as [Hw Hnd].
  destruct kw as [|c0 kw'].
  - (* no condition *)
    cbn in Hcs. apply res_Ok_inj in Hcs. subst cs.
    rewrite (sel_list_spec t columns sel Hwf Hsel). cbn [bind].
    rewrite (sql_select_spec t sel [] [] (Forall2_nil _)).
    apply (post_spec t); assumption.
  - set (kw := c0 :: kw') in *.
    rewrite (check_keys_ok t kw Hwf Hkeys Hnames). cbn [bind].
    rewrite (cond_loop_done kw [] Hshort (rowid_vals_int_of_spec t kw cs Hcs)). cbn [rev app].
    rewrite (total_vals_items kw Hshort).
    unfold sql_limit. rewrite Hlim.
    destruct (norm_conds_spec t kw cs Hwf Hkeys Hcs) as (ms & Hms & R).
    rewrite Hms. cbn [bind].
    rewrite (sel_list_spec t columns sel Hwf Hsel). cbn [bind].
    rewrite (sql_select_spec t sel ms cs R).
    apply (post_spec t); assumption.
Qed.

(* the public entry point *)
Corollary get_exact d columns tablename kw out t :
  find_table tablename (tables d) = Some t ->
  wf_table t = true -> same_colnames d t = true ->
  cols_rowid_ok columns = true -> keys_plain kw = true -> short_lists kw = true ->
  spec_get d columns tablename kw = Ok out ->
  get_top d columns tablename kw = Ok out.
Proof.
  intros. unfold get_top, get_fuel. rewrite Nat.add_comm. cbn [Nat.add].
  eapply get_simple; eassumption.
Qed.
