(* Proofs_routes_l.v — C09: the fast and the SQL route of the L-RMSD use the same coordinate lists, and report the same
   value for the same rotation, on structures listing the same atoms in the same order — provided both routes pick the
   same long chain (they choose it by different counts: known finding F5 is exactly the case where they do not) *)
From Coq Require Import Lia Lqa.
From Verif Require Import PyLib ModelTypes Model_contact Model_many Model_superpose Spec_superpose Model_zone Model_rmsd Spec_rmsd
  Proofs_contact_lists Proofs_contact_spec Proofs_superpose Proofs_rmsd Proofs_routes Proofs_zone_source.
Open Scope string_scope.
Open Scope list_scope.

(* the value: moving by R about the centroids and comparing, or comparing in the centred frames *)
Lemma resid_moved rmat cm ct ds rs :
  (resid (map (fun x => vadd (mv rmat (vsub x cm)) ct) ds) rs
   == resid (map (fun x => mv rmat (vsub x cm)) ds) (map (fun y => vsub y ct) rs))%Q.
Proof.
  unfold resid. revert rs. induction ds as [|p ps IH]; intro rs; [reflexivity|].
  destruct rs as [|q qs]; [reflexivity|].
  cbn [map combine fold_right fst snd]. rewrite (IH qs).
  apply Qplus_comp; [|reflexivity].
  apply norm2_veq. dmat rmat. dvec p. dvec q. dvec cm. dvec ct. cbn -[Qred Qplus Qmult Qminus Qopp Qdiv Qinv]. rewrite ?Qred_correct. repeat split; ring.
Qed.

Section LRoutes.
Variables (decoy ref : structure) (c1 c2 : string) (names : list string).
Hypothesis Hal : aligned decoy ref.
Hypothesis Hch : get_chains ref = [c1; c2].
Let L : string := if Nat.ltb (List.length (chain_atoms ref c1)) (List.length (chain_atoms ref c2)) then c2 else c1.
Let S : string := if Nat.ltb (List.length (chain_atoms ref c1)) (List.length (chain_atoms ref c2)) then c1 else c2.

Definition sel (s : structure) (c : string) : list vec :=
  map pos_of (filter (fun a => (String.eqb (chain a) c && mem String.eqb (name a) names)%bool) s).

Lemma c1_ne_c2' : c1 <> c2.
Proof. pose proof (Proofs_contact_c05.get_chains_NoDup ref) as N. rewrite Hch in N. inversion N as [|x l H _]; subst. intro E. apply H. left. symmetry. exact E. Qed.
Lemma chain_12 s a : map key4_of s = map key4_of ref -> In a s -> chain a = c1 \/ chain a = c2.
Proof.
  intros E Ha. assert (In (chain a) (map chain s)) by (apply in_map; exact Ha).
  assert (Em : map chain s = map chain ref).
  { apply (via_key4 (fun l => map k4_chain l) (fun s => map chain s)); [|exact E]. intro s0. rewrite map_map. reflexivity. }
  rewrite Em in H. apply Proofs_contact_c05.get_chains_In in H. rewrite Hch in H. destruct H as [X|[X|[]]]; auto.
Qed.

(* the ligand zone is the set of (chain, number) of the long chain of the reference *)
Definition lz : zone := sorted_set_cz (map (fun a => (chain a, resSeq a)) (chain_atoms ref L)).
Lemma compute_lzone_is : compute_lzone ref = Ok lz.
Proof. unfold compute_lzone. rewrite Hch. reflexivity. Qed.

Lemma memG_lz s a : map key4_of s = map key4_of ref -> In a s ->
  memG (resdata_of lz) (chain a) (resSeq a) = String.eqb (chain a) L.
Proof.
  intros E Ha. unfold resdata_of. rewrite memG_group. apply bool_eq_iff. rewrite mem_cz_In. unfold lz. rewrite sorted_set_cz_In, in_map_iff, String.eqb_eq. split.
  - intros [b [Eb Hb]]. unfold chain_atoms in Hb. apply filter_In in Hb. destruct Hb as [_ Hb]. apply String.eqb_eq in Hb.
    injection Eb as Ec _. congruence.
  - intro Ec.
    (* the record of ref at the same position has the same identity *)
    assert (Hk : In (key4_of a) (map key4_of ref)) by (rewrite <- E; apply in_map; exact Ha).
    apply in_map_iff in Hk. destruct Hk as [b [Ek Hb]]. exists b. split.
    + unfold key4_of in Ek. injection Ek as E1 E2 _ _. rewrite E1, E2. reflexivity.
    + unfold chain_atoms. apply filter_In. split; [exact Hb|]. apply String.eqb_eq. unfold key4_of in Ek. injection Ek as E1 _ _ _. congruence.
Qed.

Lemma noneG_group_add c' z' G c :
  (match in_resdata (group_add c' z' G) c with None => true | Some _ => false end)
  = ((match in_resdata G c with None => true | Some _ => false end) && negb (String.eqb c c'))%bool.
Proof.
  unfold in_resdata. induction G as [|[k zs] t IH]; cbn [group_add find fst snd].
  - rewrite (String.eqb_sym c' c). destruct (String.eqb c c'); reflexivity.
  - destruct (String.eqb c' k) eqn:E1.
    + apply String.eqb_eq in E1. subst k. cbn [find fst snd]. rewrite (String.eqb_sym c' c). destruct (String.eqb c c'); [reflexivity|].
      rewrite andb_true_r. reflexivity.
    + cbn [find fst snd]. destruct (String.eqb k c) eqn:E2; [reflexivity | exact IH].
Qed.
Lemma noneG_fold l : forall G c,
  (match in_resdata (fold_left (fun g cz => group_add (fst cz) (snd cz) g) l G) c with None => true | Some _ => false end)
  = ((match in_resdata G c with None => true | Some _ => false end) && forallb (fun cz => negb (String.eqb c (fst cz))) l)%bool.
Proof.
  induction l as [|[c' z'] t IH]; intros G c; cbn [fold_left forallb fst snd]; [rewrite andb_true_r; reflexivity|].
  rewrite IH, noneG_group_add, andb_assoc. reflexivity.
Qed.

Lemma lz_chain cz : In cz lz -> fst cz = L.
Proof.
  unfold lz. rewrite sorted_set_cz_In, in_map_iff. intros [b [<- Hb]]. unfold chain_atoms in Hb. apply filter_In in Hb.
  destruct Hb as [_ Hb]. apply String.eqb_eq in Hb. exact Hb.
Qed.
Lemma in_resdata_lz_none c : c <> L -> in_resdata (resdata_of lz) c = None.
Proof.
  intro N. unfold resdata_of, group. pose proof (noneG_fold lz [] c) as H.
  assert (F : forallb (fun cz => negb (String.eqb c (fst cz))) lz = true).
  { apply forallb_forall. intros cz Hcz. apply negb_true_iff, String.eqb_neq. rewrite (lz_chain cz Hcz). exact N. }
  rewrite F in H. change (in_resdata [] c) with (@None (list Z)) in H. cbn [andb] in H.
  destruct (in_resdata (fold_left (fun g cz => group_add (fst cz) (snd cz) g) lz []) c); [discriminate H | reflexivity].
Qed.

(* the two selections of the fast route *)
Lemma in_zone_lz s : map key4_of s = map key4_of ref ->
  in_zone_atoms names (resdata_of lz) s = filter (fun a => (String.eqb (chain a) L && mem String.eqb (name a) names)%bool) s.
Proof.
  intro E. unfold in_zone_atoms. apply filter_ext_in. intros a Ha.
  change (match in_resdata (resdata_of lz) (chain a) with Some l => mem Z.eqb (resSeq a) l | None => false end)
    with (memG (resdata_of lz) (chain a) (resSeq a)).
  rewrite (memG_lz s a E Ha). apply andb_comm.
Qed.
Lemma not_in_zone_lz s : map key4_of s = map key4_of ref ->
  not_in_zone_atoms names (resdata_of lz) s = filter (fun a => (String.eqb (chain a) S && mem String.eqb (name a) names)%bool) s.
Proof.
  intro E. unfold not_in_zone_atoms. apply filter_ext_in. intros a Ha.
  assert (X : (match in_resdata (resdata_of lz) (chain a) with Some _ => false | None => true end) = String.eqb (chain a) S).
  { destruct (String.eqb_spec (chain a) L) as [EL|NL].
    - pose proof (memG_lz s a E Ha) as M. rewrite EL, String.eqb_refl in M. unfold memG in M. rewrite <- EL in M.
      destruct (in_resdata (resdata_of lz) (chain a)); [|discriminate M].
      symmetry. apply String.eqb_neq. rewrite EL. unfold L, S. destruct (Nat.ltb _ _); [intro X; apply c1_ne_c2'; symmetry; exact X | apply c1_ne_c2'].
    - rewrite (in_resdata_lz_none (chain a) NL). symmetry. apply String.eqb_eq.
      destruct (chain_12 s a E Ha) as [X|X]; rewrite X in NL |- *; unfold L, S in *; destruct (Nat.ltb _ _); congruence. }
  rewrite X. apply andb_comm.
Qed.

Lemma get_xyz_by_pred (P : key3 -> bool) s :
  get_xyz_by_keys s (map key3_of (filter (fun a => P (key3_of a)) s)) = map pos_of (filter (fun a => P (key3_of a)) s).
Proof.
  unfold get_xyz_by_keys. f_equal.
  set (K := map key3_of (filter (fun a => P (key3_of a)) s)).
  assert (G : forall l, (forall a, In a l -> In a s) ->
              filter (fun a => mem key3_eqb (key3_of a) K) l = filter (fun a => P (key3_of a)) l).
  { induction l as [|a t IH]; intro Hin; [reflexivity|]. cbn [filter].
    assert (E : mem key3_eqb (key3_of a) K = P (key3_of a)).
    { destruct (P (key3_of a)) eqn:Pa.
      - apply mem_key3_In. unfold K. apply in_map. apply filter_In. split; [apply Hin; left; reflexivity | exact Pa].
      - destruct (mem key3_eqb (key3_of a) K) eqn:M; [|reflexivity]. exfalso.
        apply mem_key3_In in M. unfold K in M. apply in_map_iff in M. destruct M as [b [Kb Hb]].
        apply filter_In in Hb. destruct Hb as [_ Pb]. rewrite Kb in Pb. congruence. }
    rewrite E. destruct (P (key3_of a)); [f_equal|]; apply IH; intros x Hx; apply Hin; right; exact Hx. }
  apply G. auto.
Qed.

Definition nz3 (k : key3) : bool :=
  let '(c, _, m) := k in
  (mem String.eqb m names && match in_resdata (resdata_of lz) c with Some _ => false | None => true end)%bool.
Lemma not_in_zone_nz3 s : not_in_zone_atoms names (resdata_of lz) s = filter (fun a => nz3 (key3_of a)) s.
Proof. reflexivity. Qed.

Theorem lrmsd_fast_aligned rmat check enforce :
  lrmsd_fast rmat lz check enforce names decoy ref
  = (if negb (Nat.eqb (List.length (sel decoy L)) (List.length (sel ref L))) then Err "ValueError"
     else msd (superpose_selection rmat (sel decoy L) (sel ref L) (sel decoy S)) (sel ref S)).
Proof.
  destruct Hal as [E _]. unfold lrmsd_fast.
  pose proof (in_zone_lz decoy E) as Zd. pose proof (in_zone_lz ref eq_refl) as Zr.
  pose proof (not_in_zone_lz decoy E) as Nd. pose proof (not_in_zone_lz ref eq_refl) as Nr.
  destruct (check || enforce)%bool.
  - rewrite (check_residues_aligned enforce (Some names) decoy ref E). cbn [bind].
    assert (Kin : map key3_of (in_zone_atoms names (resdata_of lz) decoy) = map key3_of (in_zone_atoms names (resdata_of lz) ref))
      by (apply inz_keys_aligned; exact E).
    assert (Kout : map key3_of (not_in_zone_atoms names (resdata_of lz) decoy) = map key3_of (not_in_zone_atoms names (resdata_of lz) ref)).
    { apply (via_key4 (fun l => map k4_key3 (filter (fun k => nz3 (k4_key3 k)) l))
                      (fun s => map key3_of (not_in_zone_atoms names (resdata_of lz) s))); [|exact E].
      intro s. rewrite not_in_zone_nz3.
      rewrite <- (filter_map_key4 (fun k => nz3 (k4_key3 k))), map_map. reflexivity. }
    rewrite Kin, Kout, !inter_keys_self.
    assert (X1 : get_xyz_by_keys decoy (map key3_of (in_zone_atoms names (resdata_of lz) ref)) = sel decoy L)
      by (rewrite <- Kin, get_xyz_by_zone_keys, Zd; reflexivity).
    assert (X2 : get_xyz_by_keys ref (map key3_of (in_zone_atoms names (resdata_of lz) ref)) = sel ref L)
      by (rewrite get_xyz_by_zone_keys, Zr; reflexivity).
    assert (X3 : get_xyz_by_keys decoy (map key3_of (not_in_zone_atoms names (resdata_of lz) ref)) = sel decoy S).
    { rewrite <- Kout, not_in_zone_nz3, get_xyz_by_pred, <- not_in_zone_nz3, Nd. reflexivity. }
    assert (X4 : get_xyz_by_keys ref (map key3_of (not_in_zone_atoms names (resdata_of lz) ref)) = sel ref S).
    { rewrite not_in_zone_nz3, get_xyz_by_pred, <- not_in_zone_nz3, Nr. reflexivity. }
    rewrite X1, X2, X3, X4. reflexivity.
  - cbn [bind]. rewrite Zd, Zr, Nd, Nr. reflexivity.
Qed.

(* both routes pick the same long chain (the fast one by the reference atom counts, the SQL one by the numbers of selected
   decoy atoms, a tie going to the second chain): the hypothesis whose failure is known finding F5 *)
Hypothesis Hlong : Nat.ltb (List.length (sel decoy c2)) (List.length (sel decoy c1))
                   = negb (Nat.ltb (List.length (chain_atoms ref c1)) (List.length (chain_atoms ref c2))).

Theorem lrmsd_sql_aligned rmat enforce :
  lrmsd_sql rmat enforce names decoy ref
  = (if negb (Nat.eqb (List.length (sel decoy L)) (List.length (sel ref L))) then Err "ValueError"
     else msd (map (fun x => mv rmat (vsub x (mean (sel decoy L)))) (sel decoy S)) (map (fun x => vsub x (mean (sel ref L))) (sel ref S))).
Proof.
  destruct Hal as [E _]. unfold lrmsd_sql.
  rewrite (get_chains_aligned decoy ref E), (list_eqb_refl String.eqb String.eqb_refl), Hch. cbn [negb].
  rewrite (check_residues_aligned enforce (Some names) decoy ref E). cbn [bind].
  fold (sel decoy c1) (sel ref c1) (sel decoy c2) (sel ref c2). rewrite Hlong. unfold L, S.
  destruct (Nat.ltb (List.length (chain_atoms ref c1)) (List.length (chain_atoms ref c2))); cbn [negb]; reflexivity.
Qed.

Theorem lrmsd_routes_agree rmat check enforce m m' :
  lrmsd_fast rmat lz check enforce names decoy ref = Ok m -> lrmsd_sql rmat enforce names decoy ref = Ok m' -> (m == m')%Q.
Proof.
  rewrite lrmsd_fast_aligned, lrmsd_sql_aligned.
  destruct (negb (Nat.eqb (List.length (sel decoy L)) (List.length (sel ref L)))); [discriminate|].
  intros Hf Hs. rewrite (msd_is_resid _ _ _ Hf), (msd_is_resid _ _ _ Hs).
  unfold superpose_selection. rewrite resid_moved, !map_length. reflexivity.
Qed.
End LRoutes.

Theorem lrmsd_routes_agree_full decoy ref c1 c2 names : aligned decoy ref -> get_chains ref = [c1; c2] ->
  Nat.ltb (List.length (sel names decoy c2)) (List.length (sel names decoy c1))
  = negb (Nat.ltb (List.length (chain_atoms ref c1)) (List.length (chain_atoms ref c2))) ->
  compute_lzone ref = Ok (lz ref c1 c2) /\
  forall rmat check enforce m m',
    lrmsd_fast rmat (lz ref c1 c2) check enforce names decoy ref = Ok m ->
    lrmsd_sql rmat enforce names decoy ref = Ok m' -> (m == m')%Q.
Proof.
  intros A H L. split; [exact (compute_lzone_is ref c1 c2 H) | exact (lrmsd_routes_agree decoy ref c1 c2 names A H L)].
Qed.
