(* Proofs_geom_psd.v — soundness of the run-time certificate: the division-free symmetric elimination
   psd_check (Spec_geom.v) only accepts matrices whose (upper-triangle) quadratic form is non-negative,
   and the enclosure computed from it brackets the minimum of the residual over all rotations. *)
From Coq Require Import Reals Lra Psatz Lia.
From Verif Require Import Base Model_geom_num Generated_geom Model_geom Spec_geom Spec_geom_R
  Proofs_geom_alg Proofs_geom_C06 Proofs_geom_quat Proofs_geom_C06b.
Open Scope R_scope.

Fixpoint dotl (a b : list R) : R :=
  match a, b with x :: a', y :: b' => x * y + dotl a' b' | _, _ => 0 end.
(* quadratic form of the symmetric matrix whose upper triangle is the upper triangle of M *)
Fixpoint qfu (M : list (list R)) (v : list R) : R :=
  match v with
  | [] => 0
  | x :: v' =>
    match M with
    | (a :: b) :: rest => a * x * x + 2 * x * dotl b v' + qfu (map (@tl R) rest) v'
    | _ => 0
    end
  end.

(* n x n *)
Definition square (n : nat) (M : list (list R)) : Prop :=
  List.length M = n /\ Forall (fun r => List.length r = n) M.

Lemma square_tl n r rest : square (S n) (r :: rest) -> square n (map (@tl R) rest).
Proof.
  intros [Hl Hr]. split.
  - rewrite map_length. simpl in Hl. lia.
  - inversion Hr as [| ? ? _ Hrest]; subst. apply Forall_map. eapply Forall_impl; [| exact Hrest].
    intros row Hrow. destruct row; simpl in *; lia.
Qed.

Lemma dotl_nil_r a : dotl a [] = 0.
Proof. destruct a; reflexivity. Qed.

Lemma dotl_schur_row a b0 : forall b d v, List.length b = List.length d ->
  dotl (map (fun bc' : R * R => nsub Nr (nmul Nr a (snd bc')) (nmul Nr b0 (fst bc'))) (combine b d)) v
  = a * dotl d v - b0 * dotl b v.
Proof.
  induction b as [| x b IH]; intros [| y d] v Hl; try discriminate; cbn [combine map dotl].
  - ring.
  - destruct v as [| z v]; cbn [dotl fst snd nsub nmul NumR]; [ring |].
    rewrite IH by (simpl in Hl; lia). ring.
Qed.

Lemma schur_tails a b0 b' : forall restC bb, Forall (fun r : list R => r <> []) restC ->
  map (@tl R)
      (map (fun bc : R * list R =>
              map (fun bc' : R * R => nsub Nr (nmul Nr a (snd bc')) (nmul Nr (fst bc) (fst bc')))
                  (combine (b0 :: b') (snd bc))) (combine bb restC))
  = map (fun bc : R * list R =>
              map (fun bc' : R * R => nsub Nr (nmul Nr a (snd bc')) (nmul Nr (fst bc) (fst bc')))
                  (combine b' (snd bc))) (combine bb (map (@tl R) restC)).
Proof.
  induction restC as [| r1 rs IHr]; intros bb Hne.
  - destruct bb; reflexivity.
  - destruct bb as [| b1 b'']; [reflexivity |]. inversion Hne as [| ? ? H1 Hrs]; subst.
    cbn [combine map fst snd]. f_equal.
    + destruct r1 as [| c1 d1]; [contradiction |]. reflexivity.
    + apply IHr, Hrs.
Qed.

Lemma schur_cons a b0 b' c d restC :
  schur Nr a (b0 :: b') ((c :: d) :: restC) =
  (nsub Nr (nmul Nr a c) (nmul Nr b0 b0)
     :: map (fun bc' : R * R => nsub Nr (nmul Nr a (snd bc')) (nmul Nr b0 (fst bc'))) (combine b' d))
  :: map (fun bc : R * list R =>
            map (fun bc' : R * R => nsub Nr (nmul Nr a (snd bc')) (nmul Nr (fst bc) (fst bc')))
                (combine (b0 :: b') (snd bc))) (combine b' restC).
Proof. reflexivity. Qed.

(* the Schur step on the quadratic forms *)
Lemma qfu_schur a : forall v b C, square (List.length b) C ->
  qfu (schur Nr a b C) v = a * qfu C v - dotl b v * dotl b v.
Proof.
  induction v as [| y v IH]; intros b C HC.
  - cbn. rewrite dotl_nil_r. ring.
  - destruct b as [| b0 b'].
    + destruct HC as [Hl _]. destruct C; [| discriminate]. cbn. ring.
    + destruct C as [| r restC]; [destruct HC; discriminate |].
      pose proof (square_tl _ _ _ HC) as HC'.
      destruct HC as [Hl Hr]. inversion Hr as [| ? ? Hr0 Hrest]; subst.
      destruct r as [| c d]; [discriminate |].
      rewrite schur_cons. cbn [qfu dotl].
      assert (Hne : Forall (fun r : list R => r <> []) restC).
      { eapply Forall_impl; [| exact Hrest]. intros r1 H1 E. subst r1. discriminate. }
      rewrite (schur_tails a b0 b' restC b' Hne). fold (schur Nr a b' (map (@tl R) restC)).
      cbn [map tl].
      rewrite IH by (cbn [List.length] in HC'; exact HC').
      rewrite dotl_schur_row by (cbn [List.length] in *; lia).
      cbn [nsub nmul NumR]. ring.
Qed.

Lemma square_schur a b C : square (List.length b) C -> square (List.length b) (schur Nr a b C).
Proof.
  intros [Hl Hr]. unfold schur. split.
  - rewrite map_length, combine_length, Hl. lia.
  - apply Forall_map. rewrite Forall_forall. intros [bi Ci] Hin.
    rewrite map_length, combine_length. cbn [snd].
    apply in_combine_r in Hin. rewrite Forall_forall in Hr. rewrite (Hr Ci Hin). lia.
Qed.

Lemma row_zero_dotl b v : row_zero Nr b = true -> dotl b v = 0.
Proof.
  revert v. induction b as [| x b IH]; intros v H; [reflexivity |].
  cbn [row_zero forallb] in H. apply andb_prop in H as [Hx Hb]. destruct v as [| y v]; [reflexivity |].
  cbn [dotl]. fold (row_zero Nr b) in Hb. rewrite (IH v Hb).
  apply Bool.negb_true_iff, Bool.orb_false_iff in Hx as [H1 H2]. cbn [nltb NumR n0 nofZ] in H1, H2.
  apply Rltb_false in H1. apply Rltb_false in H2. assert (x = 0) by lra. subst. ring.
Qed.

Theorem psd_check_sound : forall k n M, square n M -> psd_check Nr k M = true -> forall v, 0 <= qfu M v.
Proof.
  induction k as [| k IH]; intros n M HM H v; [discriminate |].
  destruct v as [| x v]; [cbn; lra |].
  destruct M as [| r rest]; [cbn; lra |].
  destruct r as [| a b]; [discriminate |].
  destruct n as [| n]; [destruct HM; discriminate |].
  pose proof (square_tl _ _ _ HM) as HC.
  assert (Hb : List.length b = n) by (destruct HM as [_ Hr]; inversion Hr; subst; cbn [List.length] in *; lia).
  cbn [psd_check] in H. cbn [nltb NumR n0 nofZ] in H. cbn [qfu].
  set (C := map (@tl R) rest) in *.
  destruct (Rltb a 0) eqn:Ea; [discriminate |]. apply Rltb_false in Ea.
  destruct (Rltb 0 a) eqn:Ep.
  - apply Rltb_true in Ep. rewrite <- Hb in HC.
    pose proof (IH _ _ (square_schur a b C HC) H v) as Hs. rewrite (qfu_schur a v b C HC) in Hs.
    assert (Hsq : 0 <= (a * x + dotl b v) * (a * x + dotl b v)) by (apply Rle_0_sqr).
    assert (Hm : 0 <= a * (a * x * x + 2 * x * dotl b v + qfu C v)) by nra.
    apply Rmult_le_reg_l with (r := a); [exact Ep | lra].
  - apply Rltb_false in Ep. assert (a = 0) by lra. subst a.
    apply andb_prop in H as [Hz Hc]. rewrite (row_zero_dotl b v Hz).
    pose proof (IH _ _ HC Hc v). lra.
Qed.

(* ---- 4x4: lam I - H positive semi-definite bounds the quadratic form of Horn's matrix ---------- *)
Lemma m4rows_square F : square 4 (m4rows F).
Proof. destruct F. split; [reflexivity | repeat constructor]. Qed.
Lemma qfu_shift4_horn lam C q :
  qfu (m4rows (shift4 Nr lam (horn Nr C))) [w0 q; w1 q; w2 q; w3 q] = lam * dot4 Nr q q - quadform4 Nr (horn Nr C) q.
Proof. destruct C, q. unfold shift4, m4rows. gunf. cbn [qfu dotl map tl]. ring. Qed.

Lemma psd_bounds_quadform lam C : psd_check Nr 5 (m4rows (shift4 Nr lam (horn Nr C))) = true ->
  forall q, quadform4 Nr (horn Nr C) q <= lam * dot4 Nr q q.
Proof.
  intros H q. pose proof (psd_check_sound 5 4 _ (m4rows_square _) H [w0 q; w1 q; w2 q; w3 q]) as Hq.
  rewrite qfu_shift4_horn in Hq. lra.
Qed.

Lemma pairs_sumsq_split : forall P Q, List.length P = List.length Q ->
  pairs_sumsq (combine P Q) = nadd Nr (sumsq Nr P) (sumsq Nr Q).
Proof.
  induction P as [| p P IH]; intros [| q Q] Hl; try discriminate; cbn [combine pairs_sumsq sumsq fold_right fst snd].
  - gunf. ring.
  - fold (pairs_sumsq (combine P Q)). fold (sumsq Nr P). fold (sumsq Nr Q). rewrite IH by (simpl in Hl; lia).
    cbn [nadd NumR]. ring.
Qed.

(* the enclosure returned to the harness brackets the residual of EVERY rotation from below, and its upper
   end is attained by a rotation *)
Theorem enclosure_sound P Q q lam :
  List.length P = List.length Q -> dot4 Nr q q <> 0 ->
  fst (fst (enclosure Nr P Q q lam)) = true ->
  (forall R', is_rotation R' -> snd (fst (enclosure Nr P Q q lam)) <= resid Nr R' P Q) /\
  (exists R', is_rotation R' /\ resid Nr R' P Q = snd (enclosure Nr P Q q lam)).
Proof.
  intros Hl Hq Hpsd. unfold enclosure in *. cbv zeta in *. cbn [fst snd] in *.
  rewrite <- (pairs_sumsq_split P Q Hl). cbn [nsub nmul ndiv nofZ NumR].
  split.
  - intros R' HR'. destruct (quat_surjective R' HR') as (q' & Hu' & <-).
    rewrite (resid_as_trace _ (proj1 (quat_rot_is_rotation q' Hu'))), quat_trace_identity, quat_F_is_horn.
    pose proof (psd_bounds_quadform lam _ Hpsd q') as Hb. unfold unit4 in Hu'. rewrite Hu' in Hb. lra.
  - (* normalise q *)
    assert (Hpos : 0 < dot4 Nr q q).
    { destruct q as [a b c d]. gunf_in Hq. gunf.
      assert (0 <= a * a + b * b + c * c + d * d) by nra. lra. }
    set (n := sqrt (dot4 Nr q q)).
    assert (Hn : n * n = dot4 Nr q q) by (apply sqrt_sqrt; lra).
    assert (Hn0 : n <> 0) by (intros E; rewrite E in Hn; lra).
    set (q1 := V4 (w0 q / n) (w1 q / n) (w2 q / n) (w3 q / n)).
    assert (Hu : unit4 q1).
    { unfold q1. destruct q as [a b c d]. gunf_in Hn. gunf. 
      replace (a / n * (a / n) + b / n * (b / n) + c / n * (c / n) + d / n * (d / n))
        with ((a * a + b * b + c * c + d * d) / (n * n)) by (field; exact Hn0).
      rewrite Hn. field. gunf_in Hpos. lra. }
    exists (quat_rot_src Nr q1). split; [apply quat_rot_is_rotation, Hu |].
    rewrite (resid_as_trace _ (proj1 (quat_rot_is_rotation q1 Hu))), quat_trace_identity, quat_F_is_horn.
    assert (Hq1 : quadform4 Nr (horn Nr (ptq Nr P Q)) q1 = quadform4 Nr (horn Nr (ptq Nr P Q)) q / dot4 Nr q q).
    { rewrite <- Hn. unfold q1. generalize (horn Nr (ptq Nr P Q)). intros F. destruct F, q. gunf. field. exact Hn0. }
    rewrite Hq1. reflexivity.
Qed.

(* ---- 3x3: the C18 run-time check ------------------------------------------------------------------ *)
From Verif Require Import Proofs_geom_C10 Proofs_geom_C18.
Lemma m3rows_square A : square 3 (m3rows A).
Proof. destruct A. split; [reflexivity | repeat constructor]. Qed.
Lemma scatter_about_symmetric mu l : mtrans (scatter_about mu l) = scatter_about mu l.
Proof.
  induction l as [| p l IH]; [reflexivity |].
  cbn [scatter_about fold_right]. fold (scatter_about mu l). rewrite <- IH at 2.
  generalize (scatter_about mu l). intros S. gring.
Qed.
Lemma sample_cov_symmetric xyz : symmetric3 (sample_cov Nr xyz).
Proof.
  unfold symmetric3, sample_cov. rewrite scatter_is.
  rewrite <- (scatter_about_symmetric (mean Nr xyz) xyz) at 2.
  generalize (scatter_about (mean Nr xyz) xyz) (nsub Nr (nlen Nr xyz) (n1 Nr)). intros S k. destruct S. reflexivity.
Qed.
Lemma qfu_shift3 lam C w : symmetric3 C ->
  qfu (m3rows (shift3 Nr lam C)) [vx w; vy w; vz w] = lam * norm2 Nr w - dot Nr w (mvmul Nr C w).
Proof.
  intros Hs. destruct C as [a b c d e f g h i], w as [x y z]. gunf_in Hs. apply M3_inj in Hs.
  destruct Hs as (_ & Hdb & Hgc & _ & _ & Hhf & _ & _ & _). subst d g h.
  unfold shift3, m3rows. gunf. cbn [qfu dotl map tl]. ring.
Qed.
(* largest variance: if the check accepts lam, no direction has a variance above lam *)
Theorem principal_check_sound xyz e lam :
  fst (principal_check Nr xyz e lam) = true -> forall w, unit3 w -> var_along Nr xyz w <= lam.
Proof.
  unfold principal_check. cbn [fst]. intros H w Hw.
  pose proof (psd_check_sound 4 3 _ (m3rows_square _) H [vx w; vy w; vz w]) as Hq.
  rewrite qfu_shift3 in Hq by (rewrite spec_cov_is_sample_cov; apply sample_cov_symmetric).
  unfold var_along. unfold unit3 in Hw. rewrite Hw in Hq. lra.
Qed.
(* least variance *)
Theorem least_check_sound xyz e lam :
  fst (least_check Nr xyz e lam) = true -> forall w, unit3 w -> lam <= var_along Nr xyz w.
Proof.
  unfold least_check. cbv zeta. cbn [fst]. intros H w Hw.
  pose proof (psd_check_sound 4 3 _ (m3rows_square _) H [vx w; vy w; vz w]) as Hq.
  assert (Hs : symmetric3 (mscale Nr (nsub Nr (n0 Nr) (n1 Nr)) (spec_cov Nr xyz))).
  { pose proof (sample_cov_symmetric xyz) as S. rewrite <- spec_cov_is_sample_cov in S.
    revert S. generalize (spec_cov Nr xyz). intros C S. destruct C. gunf_in S. apply M3_inj in S.
    destruct S as (_ & -> & -> & _ & _ & -> & _ & _ & _). reflexivity. }
  rewrite (qfu_shift3 _ _ w Hs) in Hq. unfold var_along. unfold unit3 in Hw. rewrite Hw in Hq.
  revert Hq. generalize (spec_cov Nr xyz). intros C. destruct C, w. gunf. intros Hq. lra.
Qed.
