(* Proofs_sql_chunk2.v — C17: outside the finding classes F10 (negated long list) and F11 (pieces
   of a long list not separated), get() equals the row-by-row specification for every list
   length.  Induction on the number of long lists. *)
From Coq Require Import Lia.
From Verif Require Import PyLib ModelTypes Generated_parse Model_sqlval Model_sql Spec_sql
  Proofs_sql_base Proofs_sql_get Proofs_sql_chunk.
Open Scope string_scope.
Open Scope list_scope.

Definition n950 : nat := Z.to_nat max_sql_values_src.
Lemma n950_pos : (0 < n950)%nat. Proof. unfold n950. vm_compute. lia. Qed.

(* ------------------------------------------------------------------ *)
(* facts that depend on the keys only *)
Lemma keys_plain_app a b : keys_plain (a ++ b) = (keys_plain a && keys_plain b)%bool.
Proof. unfold keys_plain. apply forallb_app. Qed.
Lemma keys_plain_replace kw1 kw2 k v v' :
  keys_plain (kw1 ++ (k, v) :: kw2) = keys_plain (kw1 ++ (k, v') :: kw2).
Proof. rewrite !keys_plain_app. reflexivity. Qed.
Lemma has_key_replace x kw1 kw2 k v v' :
  has_key x (kw1 ++ (k, v) :: kw2) = has_key x (kw1 ++ (k, v') :: kw2).
Proof. rewrite !has_key_app. reflexivity. Qed.
Lemma nodup_keys_replace kw1 kw2 k v v' :
  nodup_keys (kw1 ++ (k, v) :: kw2) = nodup_keys (kw1 ++ (k, v') :: kw2).
Proof.
  induction kw1 as [|[k1 v1] t IH]; cbn [app nodup_keys]; [reflexivity|].
  rewrite IH. rewrite (has_key_replace k1 t kw2 k v v'). reflexivity.
Qed.
Lemma f10_class_app a b : f10_class (a ++ b) = (f10_class a || f10_class b)%bool.
Proof. unfold f10_class. apply existsb_app. Qed.
Lemma nlong_app a b : nlong (a ++ b) = (nlong a + nlong b)%nat.
Proof. induction a as [|[k v] t IH]; cbn; [reflexivity|]. rewrite IH. lia. Qed.
Lemma short_nlong kw : short_lists kw = true -> nlong kw = 0%nat.
Proof.
  induction kw as [|[k v] t IH]; cbn; intro H; [reflexivity|].
  apply andb_prop in H. destruct H as [H1 H2]. apply Bool.negb_true_iff in H1. rewrite H1. rewrite (IH H2). reflexivity.
Qed.
Lemma no_first_long_short kw : first_long kw = None -> f10_class kw = false -> short_lists kw = true.
Proof.
  induction kw as [|[k v] t IH]; cbn [first_long f10_class short_lists existsb forallb fst snd]; intros H F; [reflexivity|].
  apply Bool.orb_false_iff in F. destruct F as [F1 F2].
  destruct (long_list v) eqn:L.
  - destruct (fst (key_of k)); [cbn in F1; discriminate|discriminate].
  - cbn. apply IH; assumption.
Qed.

(* ------------------------------------------------------------------ *)
(* the loop over the keywords stops at the first long list *)
Lemma cond_loop_chunk kw1 k l kw2 : forall acc,
  short_lists kw1 = true -> rowid_vals_int kw1 -> fst (key_of k) = false -> long_list (CList l) = true ->
  cond_loop (kw1 ++ (k, CList l) :: kw2) acc = LChunk k (chunks n950 l).
Proof.
  induction kw1 as [|[k0 v] rest IH]; intros acc Hs Hr Hk Hl.
  - cbn [app cond_loop]. rewrite (key_of_pos k Hk). cbn [long_list] in Hl.
    unfold max_sql_values. rewrite Hl. reflexivity.
  - cbn [short_lists forallb snd] in Hs. apply andb_prop in Hs. destruct Hs as [Hv Hs].
    assert (Hr' : rowid_vals_int rest) by (intros c Hc; apply Hr; right; exact Hc).
    specialize (Hr (k0, v) (or_introl eq_refl)). cbn [fst snd] in Hr.
    cbn [app cond_loop]. rewrite (key_of_snd k0).
    destruct v as [x|l0]; cbn [spec_values] in *.
    + destruct (String.eqb (snd (key_of k0)) "rowID") eqn:E.
      * apply String.eqb_eq in E. specialize (Hr E). cbn in Hr. destruct x; try discriminate.
        cbn [rowid_shift]. apply IH; assumption.
      * apply IH; assumption.
    + cbn [long_list] in Hv. apply Bool.negb_true_iff in Hv. unfold max_sql_values. rewrite Hv.
      destruct (String.eqb (snd (key_of k0)) "rowID") eqn:E.
      * apply String.eqb_eq in E. specialize (Hr E). rewrite (rowid_shift_all l0 Hr). apply IH; assumption.
      * apply IH; assumption.
Qed.

(* ------------------------------------------------------------------ *)
(* output shape distributes over the concatenation of selections *)
Lemma spec_shape_concat sel (Ss : list (list (nat * row))) :
  List.concat (map (fun S => spec_shape sel (map (spec_project sel) S)) Ss)
  = spec_shape sel (map (spec_project sel) (List.concat Ss)).
Proof.
  induction Ss as [|S rest IH]; cbn [map List.concat].
  - destruct sel as [|c [|c2 r]]; reflexivity.
  - rewrite IH. rewrite map_app. destruct sel as [|c [|c2 r]]; cbn [spec_shape]; rewrite map_app; reflexivity.
Qed.

Lemma spec_cond_neg t c s : spec_cond t c = Ok s -> snd (fst s) = fst (key_of (fst c)).
Proof.
  unfold spec_cond. rewrite (key_of_snd (fst c)).
  destruct (spec_cond_attr t _) as [cr|]; [|discriminate].
  destruct (match cr with CRowid => _ | CCol _ => false end); [discriminate|].
  destruct (match cr with CRowid => _ | CCol _ => false end); [discriminate|].
  intro H. apply bind_Ok_inv in H. destruct H as (vs & _ & H). apply res_Ok_inj in H. subst s. reflexivity.
Qed.

Lemma Forall2_map_r {A B C} (P : A -> C -> Prop) (g : B -> C) l l' :
  Forall2 (fun a b => P a (g b)) l l' -> Forall2 P l (map g l').
Proof. induction 1; cbn; constructor; assumption. Qed.
Lemma Forall2_impl {A B} (P Q : A -> B -> Prop) l l' :
  (forall a b, P a b -> Q a b) -> Forall2 P l l' -> Forall2 Q l l'.
Proof. intros H F. induction F; constructor; auto. Qed.
Lemma Forall2_with_In {A B} (P : A -> B -> Prop) l l' :
  Forall2 P l l' -> Forall2 (fun a b => In a l /\ P a b) l l'.
Proof.
  induction 1 as [|a b l l' H _ IH]; constructor.
  - split; [left; reflexivity|exact H].
  - eapply Forall2_impl; [|exact IH]. intros x y [Hin Hp]. split; [right; exact Hin|exact Hp].
Qed.

Lemma f11_safe_S f d tn kw :
  f11_safe (S f) d tn kw =
  match first_long kw with
  | None => true
  | Some (k, l) =>
    match find_table tn (tables d),
          mapM (fun c => spec_conds d tn (dict_set k (CList c) kw)) (chunks n950 l) with
    | Some t, Ok tcs =>
      (seps (with_positions (trows t)) (map (fun tc : table * list scond => spec_matches (snd tc)) tcs)
       && forallb (fun c => f11_safe f d tn (dict_set k (CList c) kw)) (chunks n950 l))%bool
    | _, _ => true
    end
  end.
Proof. reflexivity. Qed.

(* ------------------------------------------------------------------ *)
Section Chunked.
Variables (d : db) (columns tn : string) (t : table).
Hypothesis Ht : find_table tn (tables d) = Some t.
Hypothesis Hwf : wf_table t = true.
Hypothesis Hsame : same_colnames d t = true.
Hypothesis Hcols : cols_rowid_ok columns = true.

Lemma get_chunked : forall n kw out f,
  (nlong kw <= n)%nat -> (n <= f)%nat ->
  keys_plain kw = true -> nodup_keys kw = true -> f10_class kw = false ->
  f11_safe (S n) d tn kw = true ->
  spec_get d columns tn kw = Ok out ->
  get_model (S f) d columns tn kw = Ok out.
Proof.
  induction n as [|n' IH]; intros kw out f Hnl Hnf Hkeys Hnd Hf10 Hf11 Hspec;
    destruct (first_long kw) as [[k l]|] eqn:FL;
    try (eapply get_simple; try eassumption; apply no_first_long_short; assumption).
  - (* n = 0 but a long list: impossible *)
    exfalso. destruct (first_long_split kw k l FL Hnd) as (kw1 & kw2 & -> & _ & _ & Hlong & _).
    rewrite nlong_app in Hnl. cbn [nlong] in Hnl. rewrite Hlong in Hnl. lia.
  - destruct (first_long_split kw k l FL Hnd) as (kw1 & kw2 & Ekw & Hs1 & Hkpos & Hlong & Hh1).
    set (pieces := chunks n950 l).
    assert (Hconcat : List.concat pieces = l) by (apply chunks_concat, n950_pos).
    set (kwc := fun c => kw1 ++ (k, CList c) :: kw2).
    assert (Hdict : forall c, dict_set k (CList c) kw = kwc c).
    { intro c. rewrite Ekw. apply dict_set_split. exact Hh1. }
    (* the specification *)
    unfold spec_get in Hspec.
    destruct (table_name_ok tn) eqn:Htn; [|discriminate]. cbn [negb] in Hspec. rewrite Ht in Hspec.
    apply bind_Ok_inv in Hspec; destruct Hspec as (sel & Hsel & Hspec).
    apply bind_Ok_inv in Hspec; destruct Hspec as (tc & Htc & Hspec).
    destruct (spec_conds_inv _ _ _ _ Htc) as (_ & t' & cs & -> & Ht' & Hnames & Hnm & Hcs).
    rewrite Ht in Ht'. inversion Ht'; subst t'. clear Ht'.
    destruct (Z.ltb sql_limit_src (spec_total kw)) eqn:Hlim; [discriminate|].
    apply res_Ok_inj in Hspec. cbn [snd] in Hspec. subst out.
    rewrite Ekw in Hcs. apply mapM_app in Hcs. destruct Hcs as (cs1 & cs' & Hcs1 & Hcs' & ->).
    cbn [mapM] in Hcs'. apply bind_Ok_inv in Hcs'. destruct Hcs' as (s & Hs & Hcs').
    apply bind_Ok_inv in Hcs'. destruct Hcs' as (cs2 & Hcs2 & Hcs'). apply res_Ok_inj in Hcs'. subst cs'.
    pose proof (spec_cond_neg t _ s Hs) as Hneg. cbn [fst] in Hneg. rewrite Hkpos in Hneg.
    rewrite <- Hconcat in Hs. apply spec_cond_pieces in Hs. destruct Hs as (vss & Fv & Es).
    destruct s as [[cr neg] vs]. cbn [fst snd] in *. subst neg vs.
    set (csc := fun vc : list val => cs1 ++ (cr, false, vc) :: cs2).
    assert (Hnamesc : forall c, spec_names_ok t (kwc c) = true).
    { intro c. unfold kwc. rewrite Ekw in Hnames. rewrite spec_names_ok_app in *. exact Hnames. }
    assert (Hconds : Forall2 (fun c vc => spec_conds d tn (kwc c) = Ok (t, csc vc)) pieces vss).
    { eapply Forall2_impl; [|exact Fv]. intros c vc Hc. cbv beta in Hc.
      unfold spec_conds. rewrite Htn, Ht. cbn [negb]. rewrite (Hnamesc c). cbn [negb]. rewrite Hnm. cbn.
      unfold kwc, csc. rewrite (mapM_app_ok _ _ _ cs1 ((cr, false, vc) :: cs2) Hcs1); [reflexivity|].
      cbn [mapM]. rewrite Hc. cbn [bind]. rewrite Hcs2. reflexivity. }
    assert (Hlimc : forall c, In c pieces -> Z.ltb sql_limit_src (spec_total (kwc c)) = false).
    { intros c Hc. apply Z.ltb_ge. apply Z.ltb_ge in Hlim. rewrite Ekw in Hlim. unfold kwc.
      rewrite spec_total_app in *. unfold spec_total at 2. unfold spec_total at 2 in Hlim.
      cbn [fold_right snd spec_values] in *. fold (spec_total kw2) in *.
      pose proof (chunks_small _ _ _ Hc) as Hsm. cbn [long_list] in Hlong. apply Z.ltb_lt in Hlong.
      unfold n950 in Hsm. lia. }
    assert (Hgetc : Forall2 (fun c vc => In c pieces /\
               spec_get d columns tn (kwc c) = Ok (spec_shape sel (map (spec_project sel) (spec_select t (csc vc)))))
               pieces vss).
    { eapply Forall2_impl; [|exact (Forall2_with_In _ _ _ Hconds)]. intros c vc [Hin Hc]. split; [exact Hin|].
      unfold spec_get. rewrite Htn, Ht. cbn [negb]. rewrite Hsel. cbn [bind]. rewrite Hc. cbn [bind].
      rewrite (Hlimc c Hin). reflexivity. }
    (* what F11-safety says *)
    rewrite f11_safe_S in Hf11. rewrite FL, Ht in Hf11. fold pieces in Hf11.
    assert (Htcs : mapM (fun c => spec_conds d tn (dict_set k (CList c) kw)) pieces
                   = Ok (map (fun vc => (t, csc vc)) vss)).
    { rewrite (mapM_ext _ (fun c => spec_conds d tn (kwc c))) by (intro c; rewrite Hdict; reflexivity).
      apply Forall2_mapM_Ok. apply Forall2_map_r. exact Hconds. }
    rewrite Htcs in Hf11. apply andb_prop in Hf11. destruct Hf11 as [Hseps Hrec].
    rewrite map_map in Hseps. cbn [snd] in Hseps.
    (* the model *)
    cbn [get_model]. rewrite Htn. cbn [negb].
    assert (Hv : exists valid, valid_colnames d = Ok valid).
    { unfold valid_colnames. unfold same_colnames in Hsame. destruct (tables d) as [|[n0 t0] r]; [discriminate|eauto]. }
    destruct Hv as (valid & Hv). rewrite Hv. cbn [bind].
    rewrite (check_columns_ok d t columns sel valid Hsame Hv Hsel). cbn [bind].
    rewrite Hnm. rewrite Bool.andb_false_r. rewrite Ht.
    destruct kw as [|c0 kwr] eqn:Ekw0; [destruct kw1; discriminate|]. rewrite <- Ekw0 in *. clear Ekw0 c0 kwr.
    rewrite (check_keys_ok t kw Hwf Hkeys Hnames). cbn [bind].
    rewrite Ekw at 1.
    rewrite (cond_loop_chunk kw1 k l kw2 [] Hs1 (rowid_vals_int_of_spec t kw1 cs1 Hcs1) Hkpos Hlong).
    fold pieces.
    destruct f as [|f']; [lia|].
    assert (Hparts : mapM (fun c => get_model (S f') d columns tn (dict_set k (CList c) kw)) pieces
                     = Ok (map (fun vc => spec_shape sel (map (spec_project sel) (spec_select t (csc vc)))) vss)).
    { apply Forall2_mapM_Ok. apply Forall2_map_r.
      eapply Forall2_impl; [|exact Hgetc]. intros c vc [Hin Hc]. cbv beta. rewrite Hdict.
      assert (Hshort : long_list (CList c) = false).
      { cbn [long_list]. apply Z.ltb_ge. pose proof (chunks_small _ _ _ Hin) as Hsm. unfold n950, max_sql_values_src in *. lia. }
      apply (IH (kwc c) _ f').
      - rewrite Ekw in Hnl. unfold kwc. rewrite nlong_app in *. cbn [nlong] in *. rewrite Hlong in Hnl. rewrite Hshort. lia.
      - lia.
      - unfold kwc. rewrite <- (keys_plain_replace kw1 kw2 k (CList l)). rewrite <- Ekw. exact Hkeys.
      - unfold kwc. rewrite <- (nodup_keys_replace kw1 kw2 k (CList l)). rewrite <- Ekw. exact Hnd.
      - rewrite Ekw in Hf10. unfold kwc. rewrite f10_class_app in *. unfold f10_class at 2. unfold f10_class at 2 in Hf10.
        cbn [existsb fst snd] in *. rewrite Hkpos in *. cbn [andb] in *. exact Hf10.
      - rewrite forallb_forall in Hrec. specialize (Hrec c Hin). rewrite Hdict in Hrec. exact Hrec.
      - exact Hc. }
    rewrite Hparts. cbn [bind]. f_equal.
    rewrite <- (map_map (fun vc => spec_select t (csc vc)) (fun S => spec_shape sel (map (spec_project sel) S))).
    rewrite spec_shape_concat. f_equal. f_equal.
    unfold spec_select.
    rewrite (filter_ext (spec_matches (cs1 ++ (cr, false, List.concat vss) :: cs2))
                        (any_of (map (fun vc => spec_matches (csc vc)) vss)))
      by (intro pr; apply matches_pieces).
    rewrite (filter_seps_concat _ _ Hseps). rewrite map_map. reflexivity.
Qed.
End Chunked.

Lemma nlong_le_length kw : (nlong kw <= List.length kw)%nat.
Proof. induction kw as [|[k v] t IH]; cbn; [lia|]. destruct (long_list v); lia. Qed.

(* C17, full statement on the Ok side: for every list length, outside F10 and F11 *)
Theorem outside_findings_ok d columns tn kw out t :
  find_table tn (tables d) = Some t ->
  wf_table t = true -> same_colnames d t = true -> cols_rowid_ok columns = true ->
  keys_plain kw = true -> nodup_keys kw = true ->
  f10_class kw = false -> f11_class d tn kw = false ->
  spec_get d columns tn kw = Ok out ->
  get_top d columns tn kw = Ok out.
Proof.
  intros Ht Hwf Hs Hc Hk Hnd H10 H11 Hspec.
  unfold get_top, get_fuel. replace (List.length kw + 3)%nat with (S (List.length kw + 2)) by lia.
  unfold f11_class in H11. apply Bool.negb_false_iff in H11.
  eapply (get_chunked d columns tn t Ht Hwf Hs Hc (List.length kw)); try eassumption.
  - apply nlong_le_length.
  - lia.
Qed.
