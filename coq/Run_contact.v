(* Run_contact.v — wire entry points of the contact cluster (model commands "contact.*",
   specification commands "spec.contact.*").  Decoding only; imports no Proofs_*.v. *)
From Verif Require Import PyLib ModelTypes Generated_parse Generated_contact Model_contact Spec_contact.
Open Scope string_scope.
Open Scope Z_scope.
Open Scope list_scope.

Definition arg (n : nat) (a : list V) : V := nth n a (VZ 0).

(* atom on the wire: (idx chain resName resSeq name x y z) *)
Definition atom_of_V (v : V) : atom :=
  mkAtom (getZ (nthV 0 v)) (getS (nthV 1 v)) (getS (nthV 2 v)) (getZ (nthV 3 v)) (getS (nthV 4 v))
         (getQ (nthV 5 v)) (getQ (nthV 6 v)) (getQ (nthV 7 v)).
Definition struct_of_V (v : V) : structure := map atom_of_V (getL v).

Definition V_of_Zs (l : list Z) : V := VL (map VZ l).
Definition V_of_res3 (r : res3) : V := let '(c, n, rn) := r in VL [VS c; VZ n; VS rn].
Definition V_of_cdict (d : list (string * list Z)) : V := VL (map (fun kv => VL [VS (fst kv); V_of_Zs (snd kv)]) d).
Definition V_of_pmap (d : list (Z * list Z)) : V := VL (map (fun kv => VL [VZ (fst kv); V_of_Zs (snd kv)]) d).
Definition V_of_resdict (d : list (string * list res3)) : V :=
  VL (map (fun kv => VL [VS (fst kv); VL (map V_of_res3 (snd kv))]) d).
Definition V_of_respairs (d : list (res3 * list res3)) : V :=
  VL (map (fun kv => VL [V_of_res3 (fst kv); VL (map V_of_res3 (snd kv))]) d).
Definition cdict_of_V (v : V) : list (string * list Z) :=
  map (fun kv => (getS (nthV 0 kv), map getZ (getL (nthV 1 kv)))) (getL v).
Definition pmap_of_V (v : V) : list (Z * list Z) :=
  map (fun kv => (getZ (nthV 0 kv), map getZ (getL (nthV 1 kv)))) (getL v).

Definition VresQ (r : res Q) : V := match r with Ok q => VOk (VQ q) | Err e => VErr e end.

(* inputs outside the model (Model_contact header): an atom with an empty name *)
Definition in_model (s : structure) : bool := forallb (fun a => str_nonempty (name a)) s.
Definition guard (ss : list structure) (v : V) : V :=
  if forallb in_model ss then v else VErr "OutOfModel".

Definition run_contact (cmd : string) (a : list V) : option V :=
  (* ---- model ---- *)
  if String.eqb cmd "contact.atoms" then
    (* struct cutoff allchains chain1 chain2 extend only_bb exclH pairs *)
    let s := struct_of_V (arg 0 a) in
    let r := get_contact_atoms (closeQ (getQ (arg 1 a))) (getB (arg 6 a)) (getB (arg 7 a)) s
               (getB (arg 2 a)) (getS (arg 3 a)) (getS (arg 4 a)) (getB (arg 5 a)) in
    Some (guard [s] (Vres (do x <- r; Ok (if getB (arg 8 a) then V_of_pmap (snd x) else V_of_cdict (fst x)))))
  else if String.eqb cmd "contact.residues" then
    (* struct cutoff allchains chain1 chain2 only_bb exclH pairs *)
    let s := struct_of_V (arg 0 a) in
    let cl := closeQ (getQ (arg 1 a)) in
    Some (guard [s]
      (if getB (arg 7 a) then
         Vres (do x <- get_contact_residue_pairs cl (getB (arg 5 a)) (getB (arg 6 a)) s (getB (arg 2 a)) (getS (arg 3 a)) (getS (arg 4 a));
               Ok (V_of_respairs x))
       else
         Vres (do x <- get_contact_residues cl (getB (arg 5 a)) (getB (arg 6 a)) s (getB (arg 2 a)) (getS (arg 3 a)) (getS (arg 4 a));
               Ok (V_of_resdict x))))
  else if String.eqb cmd "contact.pairs_ref" then
    let s := struct_of_V (arg 0 a) in
    Some (guard [s] (Vres (do x <- compute_residue_pairs_ref (getQ (arg 1 a)) s; Ok (V_of_respairs x))))
  else if String.eqb cmd "contact.fnat_fast" then
    (* ref-struct decoy-lines cutoff *)
    let s := struct_of_V (arg 0 a) in
    Some (guard [s] (VresQ (compute_fnat_fast (getQ (arg 2 a)) s (map getS (getL (arg 1 a))))))
  else if String.eqb cmd "contact.fast_read" then
    Some (Vres (do d <- fast_read (map getS (getL (arg 0 a)));
                Ok (VL (map (fun x => VL [VZ (idx x); VS (chain x); VS (resName x); VZ (resSeq x); VS (name x);
                                          VQ (ax x); VQ (ay x); VQ (az x)]) d))))
  else if String.eqb cmd "contact.fnat_sql" then
    (* decoy-struct ref-struct cutoff *)
    let d := struct_of_V (arg 0 a) in
    let r := struct_of_V (arg 1 a) in
    Some (guard [d; r] (VresQ (compute_fnat_pdb2sql (getQ (arg 2 a)) d r)))
  else if String.eqb cmd "contact.clashes" then
    let s := struct_of_V (arg 0 a) in
    Some (guard [s] (Vres (do n <- compute_clashes s (getS (arg 1 a)) (getS (arg 2 a)); Ok (VZ n))))
  else if String.eqb cmd "contact.constants" then
    Some (VL [VQ contact_cutoff_default_src; VS contact_chain1_default_src; VS contact_chain2_default_src;
              VL (map (fun kv => VL [VS (fst kv); VB (snd kv)]) contact_flag_defaults_src);
              VQ residues_cutoff_default_src;
              VL (map (fun kv => VL [VS (fst kv); VB (snd kv)]) residues_flag_defaults_src);
              VQ fnat_fast_cutoff_default_src; VQ fnat_sql_cutoff_default_src; VQ pairs_ref_cutoff_default_src;
              VQ clash_cutoff_src; VS clash_chain1_default_src; VS clash_chain2_default_src])
  (* ---- specification ---- *)
  else if String.eqb cmd "spec.contact.atoms" then
    (* struct cutoff chains(list) only_bb exclH *)
    let s := struct_of_V (arg 0 a) in
    Some (V_of_cdict (spec_atoms_dict (withinb (getQ (arg 1 a))) (getB (arg 3 a)) (getB (arg 4 a)) s
                                      (map getS (getL (arg 2 a)))))
  else if String.eqb cmd "spec.contact.pairs" then
    let s := struct_of_V (arg 0 a) in
    Some (V_of_pmap (spec_pairs (withinb (getQ (arg 1 a))) (getB (arg 3 a)) (getB (arg 4 a)) s
                                (map getS (getL (arg 2 a)))))
  else if String.eqb cmd "spec.contact.project" then
    (* struct atom-dict *)
    Some (V_of_resdict (project_dict (struct_of_V (arg 0 a)) (cdict_of_V (arg 1 a))))
  else if String.eqb cmd "spec.contact.project_pairs" then
    Some (V_of_respairs (project_pairs (struct_of_V (arg 0 a)) (pmap_of_V (arg 1 a))))
  else if String.eqb cmd "spec.contact.closure" then
    (* struct atom-dict only_bb *)
    Some (V_of_cdict (closure_dict (struct_of_V (arg 0 a)) (getB (arg 2 a)) (cdict_of_V (arg 1 a))))
  else if String.eqb cmd "spec.contact.fnat" then
    (* ref decoy cutoff *)
    Some (match fnat_spec (withinb (getQ (arg 2 a))) (struct_of_V (arg 0 a)) (struct_of_V (arg 1 a)) with
          | Some q => VOk (VL [VQ (reported q); VQ q])
          | None => VErr "undefined"
          end)
  else if String.eqb cmd "spec.contact.clashes" then
    Some (VZ (clash_spec (struct_of_V (arg 0 a)) (getS (arg 1 a)) (getS (arg 2 a))))
  else None.
