(* Proofs_fs_base.v — elementary facts about the file-system model: lookups, straight-line runs,
   groups of actions.  Used by Proofs_fs_c20.v and Proofs_fs_c16.v. *)
From Coq Require Import Lia.
From Verif Require Import PyLib ModelTypes Model_fs Spec_fs.
Open Scope string_scope.
Open Scope list_scope.
Open Scope nat_scope.

(* ------------------------------------------------------------------ *)
(* lookups *)
Lemma fs_set_eq fs p c : fs_set fs p c p = c.
Proof. unfold fs_set. now rewrite String.eqb_refl. Qed.
Lemma fs_set_neq fs p c q : q <> p -> fs_set fs p c q = fs q.
Proof. intro H. unfold fs_set. destruct (String.eqb_spec q p); [contradiction | reflexivity]. Qed.
Lemma conn_set_eq cs h c : conn_set cs h c h = c.
Proof. unfold conn_set. now rewrite Nat.eqb_refl. Qed.

Lemma append_length a b : String.length (a +s+ b) = (String.length a + String.length b)%nat.
Proof. induction a as [|c a IH]; simpl; [reflexivity | now rewrite IH]. Qed.
(* the journal of a file is never that file: names are compared, never parsed *)
Lemma jpath_neq p : jpath p <> p.
Proof.
  unfold jpath. intro H. apply (f_equal String.length) in H.
  rewrite append_length in H. simpl in H. lia.
Qed.

Lemma observe_recover fs p : observe (recover fs p) p = observe fs p.
Proof. unfold observe, recover. rewrite fs_set_neq; [reflexivity | intro H; symmetry in H; exact (jpath_neq p H)]. Qed.

(* ------------------------------------------------------------------ *)
(* straight-line programs *)
Definition exec (l : list act) (w : world) : world := fold_left (fun w a => fst (step w a)) l w.

Lemma exec_app l1 l2 w : exec (l1 ++ l2) w = exec l2 (exec l1 w).
Proof. unfold exec. apply fold_left_app. Qed.
Lemma exec_cons a l w : exec (a :: l) w = exec l (fst (step w a)).
Proof. reflexivity. Qed.

Lemma run_n_seq : forall l k w, run_n k w (seq_acts l) = (exec (firstn k l) w, seq_acts (skipn k l)).
Proof.
  induction l as [|a l IH]; intros k w.
  - destruct k; reflexivity.
  - destruct k; [reflexivity|]. simpl run_n. destruct (step w a) as [w' r] eqn:E.
    rewrite IH. simpl firstn. simpl skipn. rewrite exec_cons, E. reflexivity.
Qed.

(* a property that holds BEFORE every action of a straight-line run *)
Fixpoint always_before (P : world -> Prop) (w : world) (l : list act) : Prop :=
  match l with
  | [] => True
  | a :: l' => P w /\ always_before P (fst (step w a)) l'
  end.

Lemma always_before_app (P : world -> Prop) l1 l2 w :
  always_before P w (l1 ++ l2) <-> always_before P w l1 /\ always_before P (exec l1 w) l2.
Proof.
  revert w. induction l1 as [|a l1 IH]; intro w.
  - simpl. tauto.
  - change ((a :: l1) ++ l2) with (a :: (l1 ++ l2)). cbn [always_before].
    rewrite IH. rewrite exec_cons. tauto.
Qed.

Lemma always_before_point (P : world -> Prop) : forall l w k,
  always_before P w l -> k < List.length l -> P (exec (firstn k l) w).
Proof.
  induction l as [|a l IH]; intros w k H Hk; simpl in Hk; [lia|].
  destruct H as [H0 H1]. destruct k; [exact H0|].
  simpl firstn. rewrite exec_cons. apply IH; [exact H1 | lia].
Qed.

Lemma always_before_weaken (P Q : world -> Prop) l : forall w,
  (forall w', P w' -> Q w') -> always_before P w l -> always_before Q w l.
Proof.
  induction l as [|a l IH]; intros w HPQ H; simpl in *; [exact I|].
  destruct H as [H0 H1]. split; [apply HPQ, H0 | apply IH; assumption].
Qed.

(* SELECT statements change nothing *)
Lemma step_sel w h : fst (step w (sel h)) = w.
Proof. unfold sel, step. destruct (w_conns w h); reflexivity. Qed.
Lemma exec_sels h n l w : exec (sels h n ++ l) w = exec l w.
Proof.
  unfold sels. induction n as [|n IH]; [reflexivity|].
  change (repeat (sel h) (S n) ++ l) with (sel h :: (repeat (sel h) n ++ l)).
  rewrite exec_cons, step_sel. exact IH.
Qed.
Lemma always_before_sels (P : world -> Prop) h n l w :
  P w -> always_before P w l -> always_before P w (sels h n ++ l).
Proof.
  intros HP Hl. unfold sels. induction n as [|n IH]; [exact Hl|].
  change (repeat (sel h) (S n) ++ l) with (sel h :: (repeat (sel h) n ++ l)).
  cbn [always_before]. rewrite step_sel. split; assumption.
Qed.
Lemma always_before_sels_only (P : world -> Prop) h n w : P w -> always_before P w (sels h n).
Proof.
  intro HP. rewrite <- (app_nil_r (sels h n)). apply always_before_sels; [exact HP | exact I].
Qed.
Lemma exec_sels_only h n w : exec (sels h n) w = w.
Proof. rewrite <- (app_nil_r (sels h n)). now rewrite exec_sels. Qed.

(* ------------------------------------------------------------------ *)
(* groups *)
Lemma firstn_app_le {A} (l1 l2 : list A) k : k <= List.length l1 -> firstn k (l1 ++ l2) = firstn k l1.
Proof. intro H. rewrite firstn_app. replace (k - List.length l1) with 0 by lia. simpl. apply app_nil_r. Qed.
Lemma firstn_app_ge {A} (l1 l2 : list A) k : List.length l1 <= k -> firstn k (l1 ++ l2) = l1 ++ firstn (k - List.length l1) l2.
Proof. intro H. rewrite firstn_app. now rewrite firstn_all2 by lia. Qed.

Lemma groups_points : forall gs (P : nat -> world -> Prop) w,
  (forall g, g < List.length gs ->
     always_before (P g) (exec (List.concat (firstn g gs)) w) (nth g gs [])) ->
  forall k, k < List.length (List.concat gs) -> P (group_of gs k) (exec (firstn k (List.concat gs)) w).
Proof.
  induction gs as [|g gs IH]; intros P w H k Hk; simpl in Hk; [lia|].
  simpl List.concat. simpl group_of. destruct (Nat.ltb_spec k (List.length g)) as [Hlt|Hge].
  - rewrite firstn_app_le by lia.
    apply always_before_point; [|exact Hlt]. exact (H 0 ltac:(simpl; lia)).
  - rewrite firstn_app_ge by lia. rewrite exec_app.
    apply (IH (fun n => P (S n)) (exec g w)).
    + intros g' Hg'. specialize (H (S g') ltac:(simpl; lia)). simpl in H. rewrite exec_app in H. exact H.
    + rewrite app_length in Hk. lia.
Qed.

Lemma group_of_end : forall gs k, List.length (List.concat gs) <= k -> group_of gs k = List.length gs.
Proof.
  induction gs as [|g gs IH]; intros k H; simpl; [reflexivity|].
  simpl in H. rewrite app_length in H.
  destruct (Nat.ltb_spec k (List.length g)); [lia|]. f_equal. apply IH. lia.
Qed.
