(* Base.v — generic value type used on the wire between the harness and the
   executable model, plus small total helpers.  No proofs about the model here. *)
From Coq Require Export ZArith QArith Qabs Qround List Bool String Ascii.
Export ListNotations.
Open Scope Z_scope.

(* ------------------------------------------------------------------ *)
(* Wire values: what driver.ml parses / prints, and what cases_*.v use  *)
Inductive V : Type :=
| VZ (z : Z)
| VS (s : string)
| VL (l : list V).

Definition VB (b : bool) : V := VZ (if b then 1 else 0).
Definition VQ (q : Q) : V := VL [VZ (Qnum q); VZ (Zpos (Qden q))].
Definition VErr (s : string) : V := VL [VS "ERR"; VS s].
Definition VOk (v : V) : V := VL [VS "OK"; v].

Definition getZ (v : V) : Z := match v with VZ z => z | _ => 0 end.
Definition getS (v : V) : string := match v with VS s => s | _ => EmptyString end.
Definition getL (v : V) : list V := match v with VL l => l | _ => [] end.
Definition getB (v : V) : bool := negb (getZ v =? 0).
Definition getQ (v : V) : Q :=
  match v with
  | VL [VZ n; VZ d] => match d with Zpos p => Qmake n p | _ => 0%Q end
  | VZ n => inject_Z n
  | _ => 0%Q
  end.
Definition nthV (n : nat) (v : V) : V := nth n (getL v) (VZ 0).

(* ------------------------------------------------------------------ *)
(* Result type of model functions: errors are a small enum, as the      *)
(* harness canonicalises Python exceptions to the same names.           *)
Inductive res (A : Type) : Type :=
| Ok (a : A)
| Err (e : string).
Arguments Ok {A} a.
Arguments Err {A} e.

Definition bind {A B} (r : res A) (f : A -> res B) : res B :=
  match r with Ok a => f a | Err e => Err e end.
Notation "'do' x <- r ; k" := (bind r (fun x => k))
  (at level 200, x name, r at level 100, k at level 200).

Fixpoint mapM {A B} (f : A -> res B) (l : list A) : res (list B) :=
  match l with
  | [] => Ok []
  | x :: t => do y <- f x; do ys <- mapM f t; Ok (y :: ys)
  end.

Definition Vres (r : res V) : V :=
  match r with Ok v => VOk v | Err e => VErr e end.

(* ------------------------------------------------------------------ *)
(* Q helpers                                                            *)
Definition Qltb (a b : Q) : bool := (Qnum a * Zpos (Qden b) <? Qnum b * Zpos (Qden a))%Z.
Definition Qleb (a b : Q) : bool := Qle_bool a b.
Definition Qeqb (a b : Q) : bool := Qeq_bool a b.

Lemma Qltb_spec a b : Qltb a b = true <-> (a < b)%Q.
Proof. unfold Qltb, Qlt. apply Z.ltb_lt. Qed.
Lemma Qleb_spec a b : Qleb a b = true <-> (a <= b)%Q.
Proof. apply Qle_bool_iff. Qed.
Lemma Qeqb_spec a b : Qeqb a b = true <-> (a == b)%Q.
Proof. apply Qeq_bool_iff. Qed.

Definition Qsqr (a : Q) : Q := (a * a)%Q.
