(* Extract.v — extraction of the executable model and specification.
   ExtrOcamlBasic only (bool, option, unit, prod, list, sumbool, sumor -> OCaml twins);
   Z, positive, nat, Q, ascii, string keep their extracted inductive datatypes. *)
Require Extraction.
Require Import ExtrOcamlBasic.
From Verif Require Import Run.
Extraction "model.ml" run.
