(* Proofs_reread.v — C02: the parser (C01's model, regenerated column table) applied to an exported line reads,
   in each numeric field, exactly the printed decimal of the value that was written (rounded once to binary64) *)
From Coq Require Import Lia Lqa.
From Verif Require Import PyLib PyLibFacts ModelTypes Generated_parse Model_parse Generated_export Model_export Spec_parse Spec_export
  Proofs_text Proofs_digits Proofs_numtext Proofs_export Proofs_export2 Proofs_reparse.
Open Scope Q_scope.

Lemma fits_parts d : fits d = true ->
  coord_in_range (nth 7 d VNull) = true /\ coord_in_range (nth 8 d VNull) = true /\ coord_in_range (nth 9 d VNull) = true
  /\ fits_real (-(9999#100)) (99999#100) (nth 10 d VNull) = true /\ fits_real (-(9999#100)) (99999#100) (nth 11 d VNull) = true.
Proof.
  unfold fits. intro H. repeat (apply andb_prop in H; destruct H as [H ?]). repeat split; assumption.
Qed.

Lemma real_branch body v :
  str_nonempty body = true -> parse_float body = NumOk v ->
  (do data' <- (if str_nonempty body then Ok (inl body) else @Err (string + Q) "unreachable");
   if String.eqb "REAL" int_tag_src then Err "int"
   else if String.eqb "REAL" real_tag_src then
     match data' with
     | inl s => match parse_float s with NumOk q => Ok (Some (VReal q)) | NumBad => Err "ValueError" | NumOutOfModel => Err "OutOfModel" end
     | inr q => Ok (Some (VReal q))
     end
   else Err "text") = Ok (Some (VReal v)).
Proof. intros NE PF. rewrite NE. cbn [bind]. change (String.eqb "REAL" int_tag_src) with false. change (String.eqb "REAL" real_tag_src) with true. cbn iota. rewrite PF. reflexivity. Qed.

(* reading one numeric field of an exported line *)
Lemma numeric_field_reread line col a b s w p q :
  assoc col delimiter_src = Some (a, b) -> substring a (b - a) line = s -> s = fmt_fixed w p q ->
  parse_field line col "REAL" = Ok (Some (VReal (b64 (printed_value p q)))).
Proof.
  intros Hd Hs ->. unfold parse_field. rewrite Hd. unfold slice. rewrite Hs, strip_fmt_fixed.
  destruct (fmt_fixed_body_nospace p q) as [NS NE]. rewrite NE. cbn [bind].
  change (String.eqb "REAL" int_tag_src) with false. change (String.eqb "REAL" real_tag_src) with true. cbn iota.
  rewrite (parse_float_printed (fmt_fixed_body p q) p q (strip_nospace _ NS)). reflexivity.
Qed.

Lemma xyz_piece_text d i s : coord_in_range (nth i d VNull) = true -> render_piece d (PXyz i) = Ok s ->
  exists q, real_of (nth i d VNull) = Some q /\ s = fmt_fixed 8 (xyz_decimals q) q.
Proof.
  unfold coord_in_range, render_piece. intros R E.
  destruct (nth i d VNull) as [z | q | t | | ] eqn:Ev; cbn [real_of] in R |- *; try discriminate R.
  - exists (inject_Z z). split; [reflexivity|].
    destruct (format_xyz_cases (inject_Z z)) as [[F _]|[_ F]]; [rewrite F in R; discriminate R|]. rewrite F in E. inversion E. reflexivity.
  - exists q. split; [reflexivity|].
    destruct (format_xyz_cases q) as [[F _]|[_ F]]; [rewrite F in R; discriminate R|]. rewrite F in E. inversion E. reflexivity.
Qed.

Lemma fixed_piece_text d i s lo hi : fits_real lo hi (nth i d VNull) = true -> render_piece d (PFixed i ARight 6 2) = Ok s ->
  exists q, real_of (nth i d VNull) = Some q /\ s = fmt_fixed 6 2 q.
Proof.
  unfold fits_real, render_piece, num_of. intros R E.
  destruct (nth i d VNull) as [z | q | t | | ] eqn:Ev; cbn [real_of] in R |- *; try discriminate R; cbn [bind] in E; inversion E; eexists; split; reflexivity.
Qed.

Theorem coordinates_reread d line : fits d = true -> line_of_row d = Ok line ->
  forall col k i, In (col, k, i) [("x"%string, 11%nat, 7%nat); ("y"%string, 12%nat, 8%nat); ("z"%string, 13%nat, 9%nat)] ->
  exists q, real_of (nth i d VNull) = Some q
    /\ parse_field line col "REAL" = Ok (Some (VReal (b64 (printed_value (xyz_decimals q) q))))
    /\ Qabs (printed_value (xyz_decimals q) q - q) <= (1#2) / inject_Z (pow10 (xyz_decimals q)).
Proof.
  intros Hf Hl col k i Hin. destruct (fits_parts d Hf) as [R7 [R8 [R9 _]]].
  cbn [In] in Hin. destruct Hin as [E|[E|[E|[]]]]; inversion E; subst col k i; clear E.
  - destruct (piece_in_its_columns d line 11 (PXyz 7) Hf Hl eq_refl) as [s [Er [_ Es]]].
    destruct (xyz_piece_text d 7 s R7 Er) as [q [Eq Et]]. exists q. split; [exact Eq|]. split; [|apply printed_value_error].
    apply (numeric_field_reread line "x" 30 38 s 8 _ q eq_refl Es Et).
  - destruct (piece_in_its_columns d line 12 (PXyz 8) Hf Hl eq_refl) as [s [Er [_ Es]]].
    destruct (xyz_piece_text d 8 s R8 Er) as [q [Eq Et]]. exists q. split; [exact Eq|]. split; [|apply printed_value_error].
    apply (numeric_field_reread line "y" 38 46 s 8 _ q eq_refl Es Et).
  - destruct (piece_in_its_columns d line 13 (PXyz 9) Hf Hl eq_refl) as [s [Er [_ Es]]].
    destruct (xyz_piece_text d 9 s R9 Er) as [q [Eq Et]]. exists q. split; [exact Eq|]. split; [|apply printed_value_error].
    apply (numeric_field_reread line "z" 46 54 s 8 _ q eq_refl Es Et).
Qed.

Theorem occupancy_bfactor_reread d line : fits d = true -> line_of_row d = Ok line ->
  forall col k i, In (col, k, i) [("occ"%string, 14%nat, 10%nat); ("temp"%string, 15%nat, 11%nat)] ->
  exists q, real_of (nth i d VNull) = Some q
    /\ parse_field line col "REAL" = Ok (Some (VReal (b64 (printed_value 2 q))))
    /\ Qabs (printed_value 2 q - q) <= 5#1000.
Proof.
  intros Hf Hl col k i Hin. destruct (fits_parts d Hf) as [_ [_ [_ [R10 R11]]]].
  cbn [In] in Hin. destruct Hin as [E|[E|[]]]; inversion E; subst col k i; clear E.
  - destruct (piece_in_its_columns d line 14 (PFixed 10 ARight 6 2) Hf Hl eq_refl) as [s [Er [_ Es]]].
    destruct (fixed_piece_text d 10 s _ _ R10 Er) as [q [Eq Et]]. exists q. split; [exact Eq|]. split; [|eapply Qle_trans; [apply (printed_value_error 2 q) | vm_compute; discriminate]].
    apply (numeric_field_reread line "occ" 54 60 s 6 2 q eq_refl Es Et).
  - destruct (piece_in_its_columns d line 15 (PFixed 11 ARight 6 2) Hf Hl eq_refl) as [s [Er [_ Es]]].
    destruct (fixed_piece_text d 11 s _ _ R11 Er) as [q [Eq Et]]. exists q. split; [exact Eq|]. split; [|eapply Qle_trans; [apply (printed_value_error 2 q) | vm_compute; discriminate]].
    apply (numeric_field_reread line "temp" 60 66 s 6 2 q eq_refl Es Et).
Qed.


(* a table row whose chain identifier is the empty string fits its field widths and is exported, but the exported
   line cannot be read back: the parser rejects a blank chain with a blank segID (as C01 requires) *)
Definition blank_chain_row : row :=
  [VInt 1; VText "CA"; VText ""; VText "ALA"; VText ""; VInt 1; VText ""; VReal (1#1); VReal (2#1); VReal (3#1);
   VReal (1#1); VReal 0; VText "C"; VInt 0].
Definition blank_chain_line : string :=
  "ATOM      1  CA  ALA     1       1.000   2.000   3.000  1.00  0.00           C  ".
Lemma blank_chain_not_rereadable : exists d line,
  fits d = true /\ line_of_row d = Ok line /\ parse_record 0 line = Err "ValueError".
Proof.
  exists blank_chain_row, blank_chain_line. split; [|split].
  - vm_compute. reflexivity.
  - vm_compute. reflexivity.
  - vm_compute. reflexivity.
Qed.
