(* Proofs_contact_c14.v — contact residues / residue pair map are projections of the atom-level answers,
   residue extension is the closure under "same residue". *)
From Coq Require Import Lia Sorted Permutation.
From Verif Require Import PyLib Generated_parse Generated_contact Model_contact Spec_contact
  Proofs_contact_lists Proofs_contact_spec Proofs_contact_c05.
Open Scope Z_scope.
Open Scope list_scope.

(* ------------------------------------------------------------------ *)
(* the two descriptions of Python's tuple order agree                  *)
Lemma string_compare_refl s : String.compare s s = Eq.
Proof.
  induction s as [|c t IH]; simpl; [reflexivity|].
  assert (E : Ascii.compare c c = Eq).
  { unfold Ascii.compare. apply N.compare_refl. }
  rewrite E. exact IH.
Qed.
Lemma string_eqb_compare a b : String.eqb a b = match String.compare a b with Eq => true | _ => false end.
Proof.
  destruct (String.eqb a b) eqn:E.
  - apply String.eqb_eq in E; subst. rewrite string_compare_refl. reflexivity.
  - destruct (String.compare a b) eqn:C; try reflexivity.
    apply String.compare_eq_iff in C. subst. rewrite String.eqb_refl in E. discriminate.
Qed.
Lemma res3_leb_le p q : res3_leb p q = res3_le p q.
Proof.
  destruct p as [[c n] r], q as [[c' n'] r']. unfold res3_leb, res3_le.
  rewrite string_eqb_compare. unfold String.ltb.
  destruct (String.compare c c'); simpl; try reflexivity.
  rewrite Z.eqb_compare. unfold Z.ltb. destruct (Z.compare n n'); reflexivity.
Qed.
Lemma sorted_set_res3_spec l : sorted_set_res3 l = distinct_sorted l.
Proof. unfold sorted_set_res3, distinct_sorted. apply sort_by_ext. exact res3_leb_le. Qed.

Lemma rows_selected s L : rows_by_idx s L = selected s L.
Proof. reflexivity. Qed.

(* ------------------------------------------------------------------ *)
(* C14.1  contact residues = projection of the contact atoms (no hypothesis at all) *)
Lemma residues_are_projection close obb exh s allch c1 c2 :
  get_contact_residues close obb exh s allch c1 c2 =
  match get_contact_atoms close obb exh s allch c1 c2 false with
  | Ok r => Ok (project_dict s (fst r))
  | Err e => Err e
  end.
Proof.
  unfold get_contact_residues. destruct (get_contact_atoms close obb exh s allch c1 c2 false) as [r|e]; simpl; [|reflexivity].
  f_equal. unfold project_dict. apply map_ext. intro kv. f_equal.
  unfold project_atoms. rewrite sorted_set_res3_spec. reflexivity.
Qed.

(* what the projection contains: exactly the distinct (chain, number, name) triples of the selected atoms *)
Lemma project_atoms_In s L r :
  In r (project_atoms s L) <-> exists a, In a s /\ In (idx a) L /\ res3_of a = r.
Proof.
  unfold project_atoms, distinct_sorted. rewrite sort_by_In, (dedup_In res3_eqb res3_eqb_ok), in_map_iff.
  unfold selected. split.
  - intros [a [E H]]. apply filter_In in H. destruct H as [Ha H]. exists a. split; [exact Ha | split; [|exact E]].
    apply (mem_In Z.eqb Zeqb_ok). exact H.
  - intros [a [Ha [Hi E]]]. exists a; split; [exact E|]. apply filter_In. split; [exact Ha|].
    apply (mem_In Z.eqb Zeqb_ok (idx a) L). exact Hi.
Qed.
Lemma project_atoms_NoDup s L : NoDup (project_atoms s L).
Proof. unfold project_atoms, distinct_sorted. apply sort_by_NoDup, (dedup_NoDup res3_eqb res3_eqb_ok). Qed.

(* ------------------------------------------------------------------ *)
(* C14.3  extension to residues = closure                              *)
Lemma same_residue_resk a b : same_residue a b = resk_eqb (resk_of a) (resk_of b).
Proof.
  unfold same_residue, resk_eqb, resk_of.
  destruct (String.eqb (chain a) (chain b)), (Z.eqb (resSeq a) (resSeq b)), (String.eqb (resName a) (resName b)); reflexivity.
Qed.

Lemma in_closureb_iff s obb L a :
  in_closureb s obb L a = true <->
  (obb = true -> is_backbone a = true) /\ exists a0, In a0 s /\ In (idx a0) L /\ same_residue a a0 = true.
Proof.
  unfold in_closureb. rewrite Bool.andb_true_iff, existsb_exists. split.
  - intros [A [a0 [H0 S]]]. unfold selected in H0. apply filter_In in H0. destruct H0 as [H0 M].
    split; [intro O; subst; exact A|]. exists a0. split; [exact H0 | split; [|exact S]].
    apply (mem_In Z.eqb Zeqb_ok). exact M.
  - intros [A [a0 [H0 [Hi S]]]]. split.
    + destruct obb; [apply A; reflexivity | reflexivity].
    + exists a0. split; [|exact S]. unfold selected. apply filter_In. split; [exact H0|].
      apply (mem_In Z.eqb Zeqb_ok (idx a0) L). exact Hi.
Qed.
Lemma in_closureb_spec s obb L a : In a s -> (in_closureb s obb L a = true <-> in_closure s obb L a).
Proof. intro Ha. rewrite in_closureb_iff. unfold in_closure. tauto. Qed.

Lemma closure_meaning s only_bb L i :
  In i (closure s only_bb L) <-> exists a, idx a = i /\ in_closure s only_bb L a.
Proof.
  unfold closure. rewrite in_map_iff. split.
  - intros [a [E H]]. apply filter_In in H. destruct H as [Ha H]. exists a. split; [exact E|]. apply in_closureb_spec; assumption.
  - intros [a [E H]]. exists a. split; [exact E|]. apply filter_In. split; [apply H | apply in_closureb_spec; [apply H | exact H]].
Qed.

Lemma extend_is_closure obb s L : wf s -> extend_to_residue obb s L = closure s obb L.
Proof.
  intro W. unfold extend_to_residue, closure. apply sorted_set_Z_eq.
  - apply sorted_map_filter. exact W.
  - intro i. rewrite in_flat_map, in_map_iff. split.
    + intros [k [Hk H]]. apply (proj1 (dedup_In resk_eqb resk_eqb_ok _ _)) in Hk. apply in_map_iff in Hk.
      destruct Hk as [a0 [E0 H0]]. unfold rows_by_idx in H0. apply filter_In in H0. destruct H0 as [H0 M].
      apply in_map_iff in H. destruct H as [a [Ei Ha]]. apply filter_In in Ha. destruct Ha as [Ha B].
      unfold residue_atoms in Ha. apply filter_In in Ha. destruct Ha as [Ha R].
      exists a. split; [exact Ei|]. apply filter_In. split; [exact Ha|].
      apply in_closureb_iff. split.
      * intro O; subst obb. simpl in B. rewrite is_bb_spec in B. exact B.
      * exists a0. split; [exact H0 | split; [apply (mem_In Z.eqb Zeqb_ok); exact M|]].
        rewrite same_residue_resk, E0. exact R.
    + intros [a [Ei Ha]]. apply filter_In in Ha. destruct Ha as [Ha C]. apply in_closureb_iff in C.
      destruct C as [B [a0 [H0 [Hi S]]]].
      exists (resk_of a0). split.
      * apply (proj2 (dedup_In resk_eqb resk_eqb_ok _ _)). apply in_map. unfold rows_by_idx. apply filter_In.
        split; [exact H0 | apply (mem_In Z.eqb Zeqb_ok (idx a0) L); exact Hi].
      * apply in_map_iff. exists a. split; [exact Ei|]. apply filter_In. split.
        -- unfold residue_atoms. apply filter_In. split; [exact Ha|]. rewrite <- same_residue_resk. exact S.
        -- rewrite is_bb_spec. destruct obb; [apply B; reflexivity | reflexivity].
Qed.

Lemma dupd_app_notin {V} (c : string) (f : option V -> V) pre v post :
  ~ In c (map fst pre) ->
  dupd String.eqb c f (pre ++ (c, v) :: post) = pre ++ (c, f (Some v)) :: post.
Proof.
  induction pre as [|[k w] t IH]; simpl; intro H.
  - rewrite String.eqb_refl. reflexivity.
  - destruct (String.eqb c k) eqn:E.
    + apply String.eqb_eq in E; subst. exfalso; apply H; left; reflexivity.
    + rewrite IH; [reflexivity|]. intro F; apply H; right; exact F.
Qed.
Lemma dget_app_notin {V} (c : string) (pre : list (string * V)) v post :
  ~ In c (map fst pre) -> dget String.eqb c (pre ++ (c, v) :: post) = Some v.
Proof.
  induction pre as [|[k w] t IH]; simpl; intro H.
  - rewrite String.eqb_refl. reflexivity.
  - destruct (String.eqb c k) eqn:E.
    + apply String.eqb_eq in E; subst. exfalso; apply H; left; reflexivity.
    + apply IH. intro F; apply H; right; exact F.
Qed.

Lemma extend_all_map obb s pre post :
  NoDup (map fst (pre ++ post)) ->
  extend_all obb s (map fst post) (pre ++ post) =
  Ok (pre ++ map (fun kv => (fst kv, extend_to_residue obb s (snd kv))) post).
Proof.
  revert pre; induction post as [|[c v] t IH]; intros pre ND; simpl.
  - rewrite app_nil_r. reflexivity.
  - assert (Hn : ~ In c (map fst pre)).
    { rewrite map_app in ND. simpl in ND. apply NoDup_remove_2 in ND. intro F. apply ND. apply in_app_iff. left; exact F. }
    rewrite (dget_app_notin c pre v t Hn). rewrite (dupd_app_notin c _ pre v t Hn).
    change (pre ++ (c, extend_to_residue obb s v) :: t) with (pre ++ [(c, extend_to_residue obb s v)] ++ t).
    rewrite app_assoc. rewrite IH.
    + rewrite <- app_assoc. reflexivity.
    + rewrite <- app_assoc. simpl. rewrite !map_app in *. simpl in *. exact ND.
Qed.

Lemma get_contact_atoms_extend close obb exh s (allch : bool) c1 c2 ic pm :
  get_contact_atoms close obb exh s allch c1 c2 false = Ok (ic, pm) ->
  get_contact_atoms close obb exh s allch c1 c2 true =
  match extend_all obb s (if allch then get_chains s else [c1; c2]) ic with
  | Ok ic' => Ok (ic', pm)
  | Err e => Err e
  end.
Proof.
  unfold get_contact_atoms.
  destruct (negb (forallb (fun c => mem String.eqb c (get_chains s)) (if allch then get_chains s else [c1; c2]))); [discriminate|].
  destruct (uniques _ _) as [u|e]; simpl; [|discriminate].
  intro H. inversion H; subst. destruct (extend_all obb s _ ic); reflexivity.
Qed.

Lemma extension_is_closure close obb exh s (allch : bool) c1 c2 :
  let cs := if allch then get_chains s else [c1; c2] in
  symmetric close -> wf s -> NoDup cs -> (2 <= List.length cs)%nat -> (forall c, In c cs -> present s c) ->
  exists ic pm,
    get_contact_atoms close obb exh s allch c1 c2 false = Ok (ic, pm) /\
    get_contact_atoms close obb exh s allch c1 c2 true = Ok (closure_dict s obb ic, pm).
Proof.
  intros cs Sy W ND L Hp.
  pose proof (get_contact_atoms_eq close Sy obb exh s allch c1 c2 W ND L Hp) as E.
  exists (spec_atoms_dict close obb exh s cs), (snd (final_state close obb exh s cs)).
  split; [exact E|].
  rewrite (get_contact_atoms_extend close obb exh s allch c1 c2 _ _ E). fold cs.
  assert (K : map fst (spec_atoms_dict close obb exh s cs) = cs).
  { unfold spec_atoms_dict. rewrite map_map. simpl. apply map_id. }
  pose proof (extend_all_map obb s [] (spec_atoms_dict close obb exh s cs)) as X.
  simpl in X. rewrite K in X. rewrite (X ND).
  f_equal. f_equal. unfold closure_dict. apply map_ext. intro kv. f_equal. apply extend_is_closure. exact W.
Qed.

(* ------------------------------------------------------------------ *)
(* C14.2  the residue pair map is the projection of the atom pair map  *)
Lemma add_res_In data acc x : In x (fold_left add_res data acc) <-> In x acc \/ In x data.
Proof.
  revert acc; induction data as [|r t IH]; intro acc; simpl; [tauto|].
  rewrite IH. unfold add_res. destruct (mem res3_eqb r acc) eqn:E.
  - apply (mem_In res3_eqb res3_eqb_ok) in E. split; [intros [H|H]; auto | intros [H|[H|H]]; subst; auto].
  - rewrite in_app_iff; simpl. split; [intros [[H|[H|[]]]|H]; auto | intros [H|[H|H]]; auto].
Qed.
Lemma add_res_NoDup data acc : NoDup acc -> NoDup (fold_left add_res data acc).
Proof.
  revert acc; induction data as [|r t IH]; intros acc ND; simpl; [exact ND|].
  apply IH. unfold add_res. destruct (mem res3_eqb r acc) eqn:E; [exact ND|].
  apply NoDup_app_fresh; [exact ND | apply (mem_false res3_eqb res3_eqb_ok); exact E].
Qed.

Lemma get_contact_atoms_pm close obb exh s (allch : bool) c1 c2 ext ic pm :
  get_contact_atoms close obb exh s allch c1 c2 ext = Ok (ic, pm) ->
  pm = snd (final_state close obb exh s (if allch then get_chains s else [c1; c2])).
Proof.
  unfold get_contact_atoms, final_state.
  destruct (negb (forallb (fun c => mem String.eqb c (get_chains s)) (if allch then get_chains s else [c1; c2]))); [discriminate|].
  destruct (uniques _ _) as [u|e]; simpl; [|discriminate].
  destruct ext.
  - destruct (extend_all obb s _ u); simpl; [|discriminate]. intro H; inversion H; reflexivity.
  - simpl. intro H; inversion H; reflexivity.
Qed.

Lemma final_keys_atoms close obb exh s cs k :
  In k (map fst (snd (final_state close obb exh s cs))) -> exists a, In a s /\ idx a = k.
Proof.
  intro Hk. destruct (final_inv close obb exh s cs) as [NDk NE].
  set (pm := snd (final_state close obb exh s cs)) in *.
  destruct (dget Z.eqb k pm) as [l|] eqn:G.
  2:{ apply (dget_None_keys Z.eqb Zeqb_ok) in G. contradiction. }
  pose proof (NE k l G) as Hl. apply not_nil_ex in Hl. destruct Hl as [i Hi].
  assert (Hd : In i (dlook Z.eqb k pm)) by (unfold dlook; rewrite G; exact Hi).
  unfold pm, final_state in Hd.
  destruct (fold_pairs_look close obb exh s (combinations2 cs) ([], [])) as [_ [B _]]. rewrite B in Hd.
  cbn [snd dlook dget app] in Hd.
  apply in_flat_map in Hd. destruct Hd as [cc [_ Hd]]. unfold pcontrib in Hd.
  apply in_flat_map in Hd. destruct Hd as [a [Ha Hd]]. apply chain_atoms_In in Ha.
  destruct (Z.eqb k (idx a)) eqn:E; [|rewrite Bool.andb_false_r in Hd; destruct Hd].
  apply Z.eqb_eq in E. exists a; split; [apply Ha | symmetry; exact E].
Qed.

Section PairProjection.
  Variable s : structure.
  Hypothesis W : wf s.

  (* what one pass over the atom pair map has recorded *)
  Definition recorded (items : list (Z * list Z)) (rA rB : res3) : Prop :=
    exists i l a b, In (i, l) items /\ In a s /\ idx a = i /\ res3_of a = rA /\ In b s /\ In (idx b) l /\ res3_of b = rB.
  Definition owner_of (items : list (Z * list Z)) (rA : res3) : Prop :=
    exists i l a, In (i, l) items /\ In a s /\ idx a = i /\ res3_of a = rA.

  Definition rp_inv (d : list (res3 * list res3)) : Prop :=
    NoDup (map fst d) /\ forall k l, dget res3_eqb k d = Some l -> NoDup l.

  Lemma rows_single i : (exists a, In a s /\ idx a = i) ->
    exists a1 rest, rows_by_idx s [i] = a1 :: rest /\ In a1 s /\ idx a1 = i.
  Proof.
    intros [a [Ha E]]. destruct (rows_by_idx s [i]) as [|a1 rest] eqn:R.
    - exfalso. assert (In a (rows_by_idx s [i])).
      { unfold rows_by_idx. apply filter_In. split; [exact Ha|]. apply (mem_In Z.eqb Zeqb_ok). left; symmetry; exact E. }
      rewrite R in H. destruct H.
    - exists a1, rest. split; [reflexivity|].
      assert (H : In a1 (rows_by_idx s [i])) by (rewrite R; left; reflexivity).
      unfold rows_by_idx in H. apply filter_In in H. destruct H as [H1 M]. split; [exact H1|].
      apply (mem_In Z.eqb Zeqb_ok) in M. destruct M as [M|[]]. symmetry; exact M.
  Qed.

  Lemma respair_fold items d0 :
    (forall i l, In (i, l) items -> exists a, In a s /\ idx a = i) -> rp_inv d0 ->
    exists d1, fold_left (respair_step s) items (Ok d0) = Ok d1 /\ rp_inv d1 /\
      (forall rA rB, In rB (dlook res3_eqb rA d1) <-> In rB (dlook res3_eqb rA d0) \/ recorded items rA rB) /\
      (forall rA, In rA (map fst d1) <-> In rA (map fst d0) \/ owner_of items rA).
  Proof.
    revert d0; induction items as [|[i l] t IH]; intros d0 HK Inv; cbn [fold_left].
    - exists d0. split; [reflexivity | split; [exact Inv | split]].
      + intros rA rB. split; [intro H; left; exact H | intros [H|[i [l [a [b [[] _]]]]]]; exact H].
      + intro rA. split; [intro H; left; exact H | intros [H|[i [l [a [[] _]]]]]; exact H].
    - destruct (rows_single i (HK i l (or_introl eq_refl))) as [a1 [rest [R [H1 E1]]]].
      unfold respair_step at 2. cbn [bind]. rewrite R.
      set (data2 := map res3_of (rows_by_idx s l)).
      set (d' := dupd res3_eqb (res3_of a1) (fun o => fold_left add_res data2 match o with Some v => v | None => [] end) d0).
      assert (Inv' : rp_inv d').
      { destruct Inv as [ND NV]. split; [apply (NoDup_keys_dupd res3_eqb res3_eqb_ok); exact ND|].
        intros k v. unfold d'. rewrite (dget_dupd res3_eqb res3_eqb_ok). destruct (res3_eqb k (res3_of a1)); [|apply NV].
        intro E; inversion E; subst. apply add_res_NoDup.
        destruct (dget res3_eqb (res3_of a1) d0) eqn:G; [apply (NV _ _ G) | constructor]. }
      destruct (IH d' (fun i' l' H => HK i' l' (or_intror H)) Inv') as [d1 [F [Inv1 [L1 K1]]]].
      exists d1. split; [exact F | split; [exact Inv1 | split]].
      + intros rA rB. rewrite L1. unfold d' at 1. unfold dlook at 1. rewrite (dget_dupd res3_eqb res3_eqb_ok).
        destruct (res3_eqb rA (res3_of a1)) eqn:EA.
        * apply res3_eqb_ok in EA. subst rA. rewrite add_res_In.
          fold (dlook res3_eqb (res3_of a1) d0).
          assert (D2 : In rB data2 <-> exists b, In b s /\ In (idx b) l /\ res3_of b = rB).
          { unfold data2. rewrite in_map_iff. split.
            - intros [b [Eb Hb]]. unfold rows_by_idx in Hb. apply filter_In in Hb. destruct Hb as [Hb M].
              exists b. split; [exact Hb | split; [apply (mem_In Z.eqb Zeqb_ok); exact M | exact Eb]].
            - intros [b [Hb [M Eb]]]. exists b. split; [exact Eb|]. unfold rows_by_idx. apply filter_In.
              split; [exact Hb | apply (mem_In Z.eqb Zeqb_ok (idx b) l); exact M]. }
          rewrite D2. split.
          -- intros [[H|[b [Hb [M Eb]]]]|[i' [l' [a [b [Hin R']]]]]].
             ++ left; exact H.
             ++ right. exists i, l, a1, b. split; [left; reflexivity | tauto].
             ++ right. exists i', l', a, b. split; [right; exact Hin | exact R'].
          -- intros [H|[i' [l' [a [b [[Hin|Hin] [Ha [Ei [Er [Hb [M Eb]]]]]]]]]]].
             ++ left; left; exact H.
             ++ inversion Hin; subst i' l'. left; right. exists b; tauto.
             ++ right. exists i', l', a, b. tauto.
        * fold (dlook res3_eqb rA d0). split.
          -- intros [H|[i' [l' [a [b [Hin R']]]]]]; [left; exact H | right; exists i', l', a, b; split; [right; exact Hin | exact R']].
          -- intros [H|[i' [l' [a [b [[Hin|Hin] [Ha [Ei [Er R']]]]]]]]].
             ++ left; exact H.
             ++ inversion Hin; subst i' l'. assert (a = a1) by (apply (wf_inj s); try assumption; congruence). subst a.
                subst rA. rewrite (eqb_ok_refl _ res3_eqb_ok) in EA. discriminate.
             ++ right. exists i', l', a, b. tauto.
      + intro rA. rewrite K1. unfold d'. rewrite (keys_In_dupd res3_eqb res3_eqb_ok). split.
        * intros [[H|H]|[i' [l' [a [Hin R']]]]].
          -- left; exact H.
          -- right. exists i, l, a1. split; [left; reflexivity | subst rA; tauto].
          -- right. exists i', l', a. split; [right; exact Hin | exact R'].
        * intros [H|[i' [l' [a [[Hin|Hin] [Ha [Ei Er]]]]]]].
          -- left; left; exact H.
          -- inversion Hin; subst i' l'. assert (a = a1) by (apply (wf_inj s); try assumption; congruence). subst a.
             left; right. symmetry; exact Er.
          -- right. exists i', l', a. tauto.
  Qed.
End PairProjection.

Lemma dlook_map_values {K A} (eqb : K -> K -> bool) (g : list A -> list A) (d : list (K * list A)) k :
  g [] = [] -> dlook eqb k (map (fun kv => (fst kv, g (snd kv))) d) = g (dlook eqb k d).
Proof.
  intro G. unfold dlook. induction d as [|[k0 v] t IH]; simpl; [symmetry; exact G|].
  destruct (eqb k k0); [reflexivity | exact IH].
Qed.

Lemma pair_projection close obb exh s (allch : bool) c1 c2 ic pm :
  wf s -> get_contact_atoms close obb exh s allch c1 c2 false = Ok (ic, pm) ->
  exists rp, get_contact_residue_pairs close obb exh s allch c1 c2 = Ok rp /\
    NoDup (map fst rp) /\
    (forall rA l, In (rA, l) rp -> NoDup l) /\
    (forall rA rB, In rB (dlook res3_eqb rA rp) <-> pair_projects s pm rA rB) /\
    (forall rA, In rA (map fst rp) <-> exists i l a, In (i, l) pm /\ In a s /\ idx a = i /\ res3_of a = rA).
Proof.
  intros W E. unfold get_contact_residue_pairs. rewrite E. cbn [bind snd].
  assert (HK : forall i l, In (i, l) pm -> exists a, In a s /\ idx a = i).
  { intros i l H. rewrite (get_contact_atoms_pm _ _ _ _ _ _ _ _ _ _ E) in H.
    eapply final_keys_atoms. apply (in_map fst) in H. exact H. }
  destruct (respair_fold s W pm [] HK) as [d1 [F [[ND NV] [L K]]]].
  { split; [constructor | intros k l; discriminate]. }
  rewrite F. cbn [bind]. eexists. split; [reflexivity|].
  split; [|split; [|split]].
  - rewrite map_map. simpl. exact ND.
  - intros rA l H. apply in_map_iff in H. destruct H as [[k0 v0] [Ekv H]]. simpl in Ekv.
    inversion Ekv as [[Ek El]]. apply sort_by_NoDup. apply (NV k0 v0). apply (In_dget res3_eqb res3_eqb_ok); assumption.
  - intros rA rB. rewrite (dlook_map_values res3_eqb (sort_by res3_leb)) by reflexivity.
    rewrite sort_by_In, L. unfold recorded, pair_projects. cbn [dlook dget]. split.
    + intros [[]|[i [l [a [b H]]]]]. exists i, l, (idx b), a, b. tauto.
    + intros [i [l [j [a [b [H1 [H2 [H3 [H4 [H5 [H6 [H7 H8]]]]]]]]]]]]. right. exists i, l, a, b. subst j. tauto.
  - intro rA. rewrite map_map. simpl. rewrite K. unfold owner_of. simpl. tauto.
Qed.


(* the executable specification [project_pairs] has the same reading *)
Lemma dlook_map_keys {A} (V : res3 -> list A) (l : list res3) k :
  dlook res3_eqb k (map (fun r => (r, V r)) l) = if mem res3_eqb k l then V k else [].
Proof.
  unfold dlook, mem. induction l as [|r t IH]; simpl; [reflexivity|].
  destruct (res3_eqb k r) eqn:E; simpl; [apply res3_eqb_ok in E; subst; reflexivity | exact IH].
Qed.
Lemma selected_In s L a : In a (selected s L) <-> In a s /\ In (idx a) L.
Proof.
  unfold selected. rewrite filter_In. split; intros [H M]; (split; [exact H|]).
  - apply (mem_In Z.eqb Zeqb_ok (idx a) L). exact M.
  - apply (mem_In Z.eqb Zeqb_ok (idx a) L). exact M.
Qed.

Lemma project_pairs_meaning s pm :
  NoDup (map fst (project_pairs s pm)) /\
  (forall rA rB, In rB (dlook res3_eqb rA (project_pairs s pm)) <-> pair_projects s pm rA rB) /\
  (forall rA, In rA (map fst (project_pairs s pm)) <-> exists i l a, In (i, l) pm /\ In a s /\ idx a = i /\ res3_of a = rA).
Proof.
  unfold project_pairs.
  set (owners := dedup_keep_first res3_eqb (flat_map (fun kv => map res3_of (selected s [fst kv])) pm)).
  set (V := fun rA => distinct_sorted (flat_map (fun kv : Z * list Z =>
                 if existsb (fun a => res3_eqb (res3_of a) rA) (selected s [fst kv]) then map res3_of (selected s (snd kv)) else []) pm)).
  assert (OW : forall rA, In rA owners <-> exists i l a, In (i, l) pm /\ In a s /\ idx a = i /\ res3_of a = rA).
  { intro rA. unfold owners. rewrite (dedup_In res3_eqb res3_eqb_ok), in_flat_map. split.
    - intros [[i l] [Hin H]]. apply in_map_iff in H. destruct H as [a [Er Ha]]. apply selected_In in Ha.
      destruct Ha as [Ha [M|[]]]. simpl in M. exists i, l, a. split; [exact Hin | split; [exact Ha | split; [symmetry; exact M | exact Er]]].
    - intros [i [l [a [Hin [Ha [Ei Er]]]]]]. exists (i, l). split; [exact Hin|]. apply in_map_iff. exists a. split; [exact Er|].
      apply selected_In. split; [exact Ha | left; symmetry; exact Ei]. }
  assert (KM : map fst (map (fun rA => (rA, V rA)) owners) = owners) by (rewrite map_map; simpl; apply map_id).
  change (map (fun rA => (rA, distinct_sorted _)) owners) with (map (fun rA => (rA, V rA)) owners).
  split; [rewrite KM; apply (dedup_NoDup res3_eqb res3_eqb_ok) | split].
  - intros rA rB. rewrite dlook_map_keys.
    assert (VM : In rB (V rA) <-> pair_projects s pm rA rB).
    { unfold V, distinct_sorted. rewrite sort_by_In, (dedup_In res3_eqb res3_eqb_ok), in_flat_map. unfold pair_projects. split.
      - intros [[i l] [Hin H]]. cbn [fst snd] in H.
        destruct (existsb (fun a => res3_eqb (res3_of a) rA) (selected s [i])) eqn:Ex; [|destruct H].
        apply existsb_exists in Ex. destruct Ex as [a [Ha Er]]. apply res3_eqb_ok in Er. apply selected_In in Ha.
        destruct Ha as [Ha [M|[]]]. simpl in M. apply in_map_iff in H. destruct H as [b [Eb Hb]]. apply selected_In in Hb.
        destruct Hb as [Hb Hj]. exists i, l, (idx b), a, b.
        split; [exact Hin | split; [exact Hj | split; [exact Ha | split; [exact Hb | split; [symmetry; exact M | split; [reflexivity | split; assumption]]]]]].
      - intros [i [l [j [a [b [Hin [Hj [Ha [Hb [Ei [Ej [Er Eb]]]]]]]]]]]]. exists (i, l). split; [exact Hin|]. cbn [fst snd].
        assert (Ex : existsb (fun a0 => res3_eqb (res3_of a0) rA) (selected s [i]) = true).
        { apply existsb_exists. exists a. split; [apply selected_In; split; [exact Ha | left; symmetry; exact Ei] | apply res3_eqb_ok; exact Er]. }
        rewrite Ex. apply in_map_iff. exists b. split; [exact Eb|]. apply selected_In. split; [exact Hb | rewrite Ej; exact Hj]. }
    destruct (mem res3_eqb rA owners) eqn:M; [exact VM|].
    split; [intros [] | intro H; exfalso].
    apply (mem_false res3_eqb res3_eqb_ok) in M. apply M. apply OW.
    destruct H as [i [l [j [a [b H]]]]]. exists i, l, a. tauto.
  - intro rA. rewrite KM. apply OW.
Qed.
