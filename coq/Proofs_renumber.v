(* Proofs_renumber.v — C11: renumbering.  Adding the same constant to all residue numbers (more generally: any strictly
   increasing renumbering g) of a structure changes nothing in the contact atoms / pair map / residue extension, maps
   the residue pairs key by key, and — applied to decoy and reference alike — leaves Fnat unchanged. *)
From Coq Require Import Lia.
From Verif Require Import PyLib ModelTypes Generated_contact Model_contact Proofs_invariance.
Open Scope Z_scope.

(* ---- generic: mapping a list through a function that preserves an equality test / an order test ---- *)
Section MapEq.
Context {A B : Type} (h : A -> B) (eqA : A -> A -> bool) (eqB : B -> B -> bool).
Hypothesis Heq : forall x y, eqB (h x) (h y) = eqA x y.
Lemma mem_map x l : mem eqB (h x) (map h l) = mem eqA x l.
Proof. unfold mem. induction l as [|y t IH]; [reflexivity|]. cbn [map existsb]. rewrite Heq, IH. reflexivity. Qed.
Lemma dedup_aux_map seen l : dedup_aux eqB (map h seen) (map h l) = map h (dedup_aux eqA seen l).
Proof.
  revert seen. induction l as [|x t IH]; intro seen; [reflexivity|]. cbn [map dedup_aux]. rewrite mem_map.
  destruct (mem eqA x seen); [apply IH|]. cbn [map]. f_equal. apply (IH (x :: seen)).
Qed.
Lemma dedup_map l : dedup_keep_first eqB (map h l) = map h (dedup_keep_first eqA l).
Proof. apply (dedup_aux_map []). Qed.
End MapEq.
Section MapLe.
Context {A B : Type} (h : A -> B) (leA : A -> A -> bool) (leB : B -> B -> bool).
Hypothesis Hle : forall x y, leB (h x) (h y) = leA x y.
Lemma insert_sorted_map x l : insert_sorted leB (h x) (map h l) = map h (insert_sorted leA x l).
Proof. induction l as [|y t IH]; [reflexivity|]. cbn [map insert_sorted]. rewrite Hle. destruct (leA x y); cbn [map]; [reflexivity | rewrite IH; reflexivity]. Qed.
Lemma sort_by_map l : sort_by leB (map h l) = map h (sort_by leA l).
Proof. unfold sort_by. induction l as [|x t IH]; [reflexivity|]. cbn [map fold_right]. rewrite IH. apply insert_sorted_map. Qed.
End MapLe.

Section Renumber.
Variable g : Z -> Z.
Hypothesis g_mono : forall x y, x < y -> g x < g y.
Lemma g_eqb x y : (g x =? g y) = (x =? y).
Proof.
  destruct (Z.eqb_spec x y) as [->|N]; [apply Z.eqb_refl|]. apply Z.eqb_neq. intro E.
  destruct (Z.lt_trichotomy x y) as [L|[L|L]]; [pose proof (g_mono _ _ L); lia | contradiction | pose proof (g_mono _ _ L); lia].
Qed.
Lemma g_compare x y : (g x ?= g y) = (x ?= y).
Proof.
  destruct (Z.compare_spec x y) as [->|L|L].
  - apply Z.compare_refl.
  - apply Z.compare_lt_iff. apply g_mono. exact L.
  - apply Z.compare_gt_iff. apply g_mono. exact L.
Qed.

Definition h3 (r : res3) : res3 := let '(c, n, rn) := r in (c, g n, rn).
Definition hk (k : string * string * Z) : string * string * Z := let '(c, rn, n) := k in (c, rn, g n).
Lemma h3_eqb p q : res3_eqb (h3 p) (h3 q) = res3_eqb p q.
Proof. destruct p as [[c n] r]. destruct q as [[c' n'] r']. cbn. rewrite g_eqb. reflexivity. Qed.
Lemma h3_leb p q : res3_leb (h3 p) (h3 q) = res3_leb p q.
Proof. destruct p as [[c n] r]. destruct q as [[c' n'] r']. cbn. rewrite g_compare. reflexivity. Qed.
Lemma hk_eqb p q : resk_eqb (hk p) (hk q) = resk_eqb p q.
Proof. destruct p as [[c r] n]. destruct q as [[c' r'] n']. cbn. rewrite g_eqb. reflexivity. Qed.

(* the renumbered structure *)
Variables (close close' : atom -> atom -> bool) (f : atom -> atom) (only_bb exclH : bool).
Hypothesis Hidx : forall a, idx (f a) = idx a.
Hypothesis Hchain : forall a, chain (f a) = chain a.
Hypothesis HresName : forall a, resName (f a) = resName a.
Hypothesis HresSeq : forall a, resSeq (f a) = g (resSeq a).
Hypothesis Hname : forall a, name (f a) = name a.
Hypothesis Hclose : forall a b, close' (f a) (f b) = close a b.

Lemma resk_of_f a : resk_of (f a) = hk (resk_of a).
Proof. unfold resk_of, hk. rewrite Hchain, HresName, HresSeq. reflexivity. Qed.
Lemma res3_of_f a : res3_of (f a) = h3 (res3_of a).
Proof. unfold res3_of, h3. rewrite Hchain, HresName, HresSeq. reflexivity. Qed.

Lemma residue_atoms_f s k : residue_atoms (map f s) (hk k) = map f (residue_atoms s k).
Proof. unfold residue_atoms. apply filter_map_comm. intro x. rewrite resk_of_f. apply hk_eqb. Qed.

Lemma flat_map_map {X Y W} (u : X -> Y) (F : Y -> list W) l : flat_map F (map u l) = flat_map (fun x => F (u x)) l.
Proof. induction l as [|x t IH]; [reflexivity|]. cbn. rewrite IH. reflexivity. Qed.

Lemma extend_to_residue_f s ix : extend_to_residue only_bb (map f s) ix = extend_to_residue only_bb s ix.
Proof.
  unfold extend_to_residue. rewrite (rows_by_idx_map f Hidx), map_map.
  rewrite (map_ext (fun x => resk_of (f x)) (fun x => hk (resk_of x)) resk_of_f), <- (map_map resk_of hk).
  rewrite (dedup_map hk resk_eqb resk_eqb hk_eqb), flat_map_map. f_equal. apply flat_map_ext. intro k.
  rewrite residue_atoms_f.
  rewrite (filter_map_comm f (fun a => (negb only_bb || is_bb (name a))%bool) (fun a => (negb only_bb || is_bb (name a))%bool))
    by (intro x; rewrite Hname; reflexivity).
  rewrite map_map. apply map_ext. exact Hidx.
Qed.
Lemma extend_all_f s cs ic : extend_all only_bb (map f s) cs ic = extend_all only_bb s cs ic.
Proof.
  revert ic. induction cs as [|c t IH]; intro ic; [reflexivity|]. cbn [extend_all].
  destruct (dget String.eqb c ic); [|reflexivity]. rewrite extend_to_residue_f. apply IH.
Qed.

(* contact atoms, pair map and residue extension are index lists: unchanged *)
Theorem contact_atoms_renumbered s allchains c1 c2 ext :
  get_contact_atoms close' only_bb exclH (map f s) allchains c1 c2 ext
  = get_contact_atoms close only_bb exclH s allchains c1 c2 ext.
Proof.
  unfold get_contact_atoms. rewrite !(get_chains_map f Hchain), (fold_pair_step_map close close' f only_bb exclH Hidx Hchain Hname Hclose).
  destruct (negb (forallb _ _)); [reflexivity|].
  destruct (uniques _ _) as [ic|e]; cbn [bind]; [|reflexivity].
  destruct ext; [rewrite extend_all_f|]; reflexivity.
Qed.

(* ---- residue pairs: mapped key by key ---- *)
Definition mapd (d : list (res3 * list res3)) : list (res3 * list res3) := map (fun kv => (h3 (fst kv), map h3 (snd kv))) d.
Definition map_res {X Y} (u : X -> Y) (r : res X) : res Y := match r with Ok x => Ok (u x) | Err e => Err e end.

Lemma add_res_h3 acc r : add_res (map h3 acc) (h3 r) = map h3 (add_res acc r).
Proof.
  unfold add_res. rewrite (mem_map h3 res3_eqb res3_eqb h3_eqb). destruct (mem res3_eqb r acc); [reflexivity|].
  rewrite map_app. reflexivity.
Qed.
Lemma fold_add_res_h3 l acc : fold_left add_res (map h3 l) (map h3 acc) = map h3 (fold_left add_res l acc).
Proof. revert acc. induction l as [|x t IH]; intro acc; [reflexivity|]. cbn [map fold_left]. rewrite add_res_h3. apply IH. Qed.

Lemma dupd_h3 k (F F' : option (list res3) -> list res3) d :
  (forall o, F' (option_map (map h3) o) = map h3 (F o)) ->
  dupd res3_eqb (h3 k) F' (mapd d) = mapd (dupd res3_eqb k F d).
Proof.
  intro HF. induction d as [|[k' v] t IH]; cbn [mapd map dupd fst snd].
  - pose proof (HF None) as H0. cbn [option_map] in H0. rewrite H0. reflexivity.
  - rewrite h3_eqb. destruct (res3_eqb k k').
    + pose proof (HF (Some v)) as H1. cbn [option_map] in H1. rewrite H1. reflexivity.
    + cbn [map fst snd]. f_equal. exact IH.
Qed.

Lemma respair_step_f s rcp item :
  respair_step (map f s) (map_res mapd rcp) item = map_res mapd (respair_step s rcp item).
Proof.
  unfold respair_step. destruct rcp as [d|e]; cbn [map_res bind]; [|reflexivity]. destruct item as [i l].
  rewrite !(rows_by_idx_map f Hidx). destruct (rows_by_idx s [i]) as [|a1 t]; cbn [map map_res]; [reflexivity|].
  f_equal. rewrite res3_of_f, map_map, (map_ext (fun x => res3_of (f x)) (fun x => h3 (res3_of x)) res3_of_f), <- (map_map res3_of h3).
  apply dupd_h3. intros [v|]; cbn [option_map].
  - apply fold_add_res_h3.
  - apply (fold_add_res_h3 _ []).
Qed.

Theorem residue_pairs_renumbered s allchains c1 c2 :
  get_contact_residue_pairs close' only_bb exclH (map f s) allchains c1 c2
  = map_res mapd (get_contact_residue_pairs close only_bb exclH s allchains c1 c2).
Proof.
  unfold get_contact_residue_pairs. rewrite contact_atoms_renumbered.
  destruct (get_contact_atoms close only_bb exclH s allchains c1 c2 false) as [r|e]; cbn [bind map_res]; [|reflexivity].
  assert (E : forall l acc, fold_left (respair_step (map f s)) l (map_res mapd acc) = map_res mapd (fold_left (respair_step s) l acc)).
  { induction l as [|x t IH]; intro acc; [reflexivity|]. cbn [fold_left]. rewrite respair_step_f. apply IH. }
  pose proof (E (snd r) (Ok [])) as E0. cbn [map_res mapd map] in E0. rewrite E0. clear E E0.
  destruct (fold_left (respair_step s) (snd r) (Ok [])) as [d|e]; cbn [map_res bind]; [|reflexivity].
  f_equal. unfold mapd. rewrite !map_map. apply map_ext. intro kv. cbn [fst snd]. f_equal.
  apply (sort_by_map h3 res3_leb res3_leb h3_leb).
Qed.

(* ---- the Fnat counts ---- *)
Definition hh (p : res3 * res3) : res3 * res3 := (h3 (fst p), h3 (snd p)).
Lemma hh_eqb p q : respair_eqb (hh p) (hh q) = respair_eqb p q.
Proof. unfold respair_eqb, hh. cbn [fst snd]. rewrite !h3_eqb. reflexivity. Qed.
Lemma flat_pairs_mapd d : flat_pairs (mapd d) = map hh (flat_pairs d).
Proof.
  unfold flat_pairs, mapd. induction d as [|[k v] t IH]; [reflexivity|]. cbn [map flat_map fst snd].
  rewrite IH, map_app, !map_map. reflexivity.
Qed.
Lemma common_count_hh (ld lr : list (res3 * res3)) :
  List.length (filter (fun p => mem respair_eqb p (map hh ld)) (dedup_keep_first respair_eqb (map hh lr)))
  = List.length (filter (fun p => mem respair_eqb p ld) (dedup_keep_first respair_eqb lr)).
Proof.
  rewrite (dedup_map hh respair_eqb respair_eqb hh_eqb).
  rewrite (filter_map_comm hh (fun p => mem respair_eqb p (map hh ld)) (fun p => mem respair_eqb p ld))
    by (intro x; apply (mem_map hh respair_eqb respair_eqb hh_eqb)).
  apply map_length.
Qed.
End Renumber.

(* ---- the concrete renumbering of a structure ---- *)
Definition renum (g : Z -> Z) (a : atom) : atom :=
  mkAtom (idx a) (chain a) (resName a) (g (resSeq a)) (name a) (ax a) (ay a) (az a).

Section RenumFnat.
Variable g : Z -> Z.
Hypothesis g_mono : forall x y, x < y -> g x < g y.

Lemma renum_close c a b : closeQ c (renum g a) (renum g b) = closeQ c a b.
Proof. reflexivity. Qed.
Lemma set_chain_renum a c : set_chain (renum g a) c = renum g (set_chain a c).
Proof. reflexivity. Qed.
Lemma fix_chainID_renum s : fix_chainID (map (renum g) s) = map_res (map (renum g)) (fix_chainID s).
Proof.
  unfold fix_chainID. rewrite (get_chains_map (renum g) (fun a => eq_refl)).
  destruct (26 <? List.length (get_chains s))%nat; [reflexivity|]. cbn [map_res].
  f_equal. rewrite !map_map. apply map_ext. intro a. reflexivity.
Qed.

Lemma pairs_renum c bb eh s c1 c2 :
  get_contact_residue_pairs (closeQ c) bb eh (map (renum g) s) false c1 c2
  = map_res (mapd g) (get_contact_residue_pairs (closeQ c) bb eh s false c1 c2).
Proof.
  apply (residue_pairs_renumbered g g_mono (closeQ c) (closeQ c) (renum g) bb eh); intros; reflexivity.
Qed.

Lemma fnat_core c dec rf :
  match get_chains (map (renum g) rf) with
  | [c1; c2] =>
    do pd <- get_contact_residue_pairs (closeQ c) fnat_sql_only_backbone_src fnat_sql_excludeH_src (map (renum g) dec) false c1 c2;
    do pr <- get_contact_residue_pairs (closeQ c) fnat_sql_only_backbone_src fnat_sql_excludeH_src (map (renum g) rf) false c1 c2;
    py_ratio_round fnat_sql_digits_src
      (Z.of_nat (List.length (filter (fun p => mem respair_eqb p (flat_pairs pd)) (dedup_keep_first respair_eqb (flat_pairs pr)))))
      (Z.of_nat (List.length (flat_pairs pr)))
  | _ => Err "ValueError"
  end
  = match get_chains rf with
  | [c1; c2] =>
    do pd <- get_contact_residue_pairs (closeQ c) fnat_sql_only_backbone_src fnat_sql_excludeH_src dec false c1 c2;
    do pr <- get_contact_residue_pairs (closeQ c) fnat_sql_only_backbone_src fnat_sql_excludeH_src rf false c1 c2;
    py_ratio_round fnat_sql_digits_src
      (Z.of_nat (List.length (filter (fun p => mem respair_eqb p (flat_pairs pd)) (dedup_keep_first respair_eqb (flat_pairs pr)))))
      (Z.of_nat (List.length (flat_pairs pr)))
  | _ => Err "ValueError"
  end.
Proof.
  rewrite (get_chains_map (renum g) (fun a => eq_refl)).
  destruct (get_chains rf) as [|c1 [|c2 [|c3 l]]]; try reflexivity.
  rewrite !pairs_renum.
  destruct (get_contact_residue_pairs (closeQ c) fnat_sql_only_backbone_src fnat_sql_excludeH_src dec false c1 c2) as [pd|e]; cbn [map_res bind]; [|reflexivity].
  destruct (get_contact_residue_pairs (closeQ c) fnat_sql_only_backbone_src fnat_sql_excludeH_src rf false c1 c2) as [pr|e]; cbn [map_res bind]; [|reflexivity].
  rewrite !(flat_pairs_mapd g), (common_count_hh g g_mono), map_length. reflexivity.
Qed.

(* Fnat does not change when decoy and reference are renumbered alike *)
Theorem fnat_renumbered c decoy ref :
  compute_fnat_pdb2sql c (map (renum g) decoy) (map (renum g) ref) = compute_fnat_pdb2sql c decoy ref.
Proof.
  unfold compute_fnat_pdb2sql. destruct fnat_sql_fix_chainID_src.
  - rewrite !fix_chainID_renum.
    destruct (fix_chainID decoy) as [d|e]; cbn [map_res bind]; [|reflexivity].
    destruct (fix_chainID ref) as [r|e]; cbn [map_res bind]; [|reflexivity].
    apply fnat_core.
  - cbn [bind]. apply fnat_core.
Qed.
End RenumFnat.

(* the shift by a constant — the renumbering of the property — is strictly increasing *)
Corollary fnat_shifted k c decoy ref :
  compute_fnat_pdb2sql c (map (renum (fun n => n + k)) decoy) (map (renum (fun n => n + k)) ref) = compute_fnat_pdb2sql c decoy ref.
Proof. apply fnat_renumbered. intros x y H. lia. Qed.

Lemma shift_mono k : forall x y, x < y -> (fun n => n + k) x < (fun n => n + k) y.
Proof. intros x y H. cbv beta. lia. Qed.

Corollary contact_atoms_shifted k c bb eh s allchains c1 c2 ext :
  get_contact_atoms (closeQ c) bb eh (map (renum (fun n => n + k)) s) allchains c1 c2 ext
  = get_contact_atoms (closeQ c) bb eh s allchains c1 c2 ext.
Proof.
  apply (contact_atoms_renumbered (fun n => n + k) (shift_mono k) (closeQ c) (closeQ c) (renum (fun n => n + k)) bb eh); intros; reflexivity.
Qed.
Corollary clashes_shifted k s c1 c2 :
  compute_clashes (map (renum (fun n => n + k)) s) c1 c2 = compute_clashes s c1 c2.
Proof. unfold compute_clashes. rewrite contact_atoms_shifted. reflexivity. Qed.
