(* Spec_geom.v — specifications of C10 / C06 / C18, written from the property statements and the
   textbook definitions, NOT from the code.  Polymorphic in the number dictionary so that the same
   text is executable over Q (the harness verdict) and is what the theorems over R talk about
   (Spec_geom_R.v gives the Prop-level statements).  Only vector algebra from Model_geom_num is
   shared with the model (dot, cross, mean ...); no matrix formula of the code is used. *)
From Verif Require Import Base Model_geom_num.
Open Scope string_scope.

Section Spec.
Context {T : Type} (N : Num T).
Local Notation "a + b" := (nadd N a b).
Local Notation "a - b" := (nsub N a b).
Local Notation "a * b" := (nmul N a b).
Local Notation pts := (list (vec3 T)).

(* ---- C10 ------------------------------------------------------------------------------- *)
(* right-handed rotation of the point p by the angle with cosine c and sine s about the axis
   through ctr with unit direction u (Rodrigues' rotation formula, vector form) *)
Definition spec_rot_point (u : vec3 T) (c s : T) (ctr p : vec3 T) : vec3 T :=
  let w := vsub N p ctr in
  vadd N ctr (vadd N (vadd N (vscale N c w) (vscale N s (cross N u w)))
                     (vscale N ((n1 N - c) * dot N u w) u)).

(* elementary right-handed rotations about the coordinate axes *)
Definition spec_rot_x (c s : T) (p : vec3 T) : vec3 T := V3 (vx p) (c * vy p - s * vz p) (s * vy p + c * vz p).
Definition spec_rot_y (c s : T) (p : vec3 T) : vec3 T := V3 (c * vx p + s * vz p) (vy p) (c * vz p - s * vx p).
Definition spec_rot_z (c s : T) (p : vec3 T) : vec3 T := V3 (c * vx p - s * vy p) (s * vx p + c * vy p) (vz p).
(* "rotating about x by alpha, then about y by beta, then about z by gamma", about ctr *)
Definition spec_euler_point (ca sa cb sb cg sg : T) (ctr p : vec3 T) : vec3 T :=
  vadd N ctr (spec_rot_z cg sg (spec_rot_y cb sb (spec_rot_x ca sa (vsub N p ctr)))).
(* an explicit matrix: rows applied to p - ctr *)
Definition spec_mat_point (M : mat3 T) (ctr p : vec3 T) : vec3 T :=
  let w := vsub N p ctr in
  vadd N ctr (V3 (dot N (mrow0 M) w) (dot N (mrow1 M) w) (dot N (mrow2 M) w)).

Inductive sop :=
| STranslate (v : vec3 T)
| SRotAxis (u : vec3 T) (c s : T)
| SRotEuler (ca sa cb sb cg sg : T)
| SRotMat (M : mat3 T).

Definition sop_point (o : sop) (ctr : vec3 T) (p : vec3 T) : vec3 T :=
  match o with
  | STranslate v => vadd N p v
  | SRotAxis u c s => spec_rot_point u c s ctr p
  | SRotEuler ca sa cb sb cg sg => spec_euler_point ca sa cb sb cg sg ctr p
  | SRotMat M => spec_mat_point M ctr p
  end.

(* the selected atoms (a set of row positions) are moved by the isometry about their centroid,
   every other row and every non-coordinate attribute stays *)
Fixpoint memb (i : nat) (l : list nat) : bool :=
  match l with [] => false | j :: t => (Nat.eqb i j || memb i t)%bool end.
Fixpoint select_rows {A} (i : nat) (sel : list nat) (tb : list (A * vec3 T)) : pts :=
  match tb with
  | [] => []
  | r :: t => if memb i sel then snd r :: select_rows (S i) sel t else select_rows (S i) sel t
  end.
Fixpoint map_selected {A} (f : vec3 T -> vec3 T) (i : nat) (sel : list nat) (tb : list (A * vec3 T)) :=
  match tb with
  | [] => []
  | r :: t => (if memb i sel then (fst r, f (snd r)) else r) :: map_selected f (S i) sel t
  end.
Definition spec_db_apply {A} (tb : list (A * vec3 T)) (sel : list nat) (o : sop) : list (A * vec3 T) :=
  let ctr := mean N (select_rows 0 sel tb) in
  map_selected (sop_point o ctr) 0 sel tb.
Definition spec_db_history {A} (tb : list (A * vec3 T)) (h : list (list nat * sop)) : list (A * vec3 T) :=
  fold_left (fun t so => spec_db_apply t (fst so) (snd so)) h tb.

(* squared distance, triple product of three displacement vectors: the invariants of an isometry *)
Definition dist2 (a b : vec3 T) : T := norm2 N (vsub N a b).

(* ---- C06 ------------------------------------------------------------------------------- *)
(* sum of squared deviations after applying U to the first set *)
Definition resid (U : mat3 T) (P Q : pts) : T :=
  fold_right (fun pq acc => dist2 (mvmul N U (fst pq)) (snd pq) + acc) (n0 N) (combine P Q).
(* how far U is from a proper rotation: the nine entries of U^T U - I, and det U - 1 *)
Definition rot_defect (U : mat3 T) : list T :=
  let G := mmul N (mtrans U) U in
  [m00 G - n1 N; m01 G; m02 G; m10 G; m11 G - n1 N; m12 G; m20 G; m21 G; m22 G - n1 N; mdet N U - n1 N].
Definition sumsq (P : pts) : T := fold_right (fun p acc => norm2 N p + acc) (n0 N) P.

(* Horn's symmetric 4x4 matrix of a 3x3 correlation matrix C = sum_k p_k q_k^T, written from
   Horn (1987) eq. (N); used only for the run-time enclosure of the minimum *)
Definition horn (C : mat3 T) : mat4 T :=
  M4 (m00 C + m11 C + m22 C) (m12 C - m21 C) (m20 C - m02 C) (m01 C - m10 C)
     (m12 C - m21 C) (m00 C - m11 C - m22 C) (m01 C + m10 C) (m20 C + m02 C)
     (m20 C - m02 C) (m01 C + m10 C) (m11 C - m00 C - m22 C) (m12 C + m21 C)
     (m01 C - m10 C) (m20 C + m02 C) (m12 C + m21 C) (m22 C - m00 C - m11 C).

(* positive semi-definiteness of a symmetric matrix given by its rows, by symmetric Gaussian
   elimination without division:  [[a, b^T], [b, C]] >= 0  iff  a > 0 and a C - b b^T >= 0,
   or a = 0, b = 0 and C >= 0 *)
Definition row_zero (r : list T) : bool := forallb (fun x => negb (nltb N x (n0 N) || nltb N (n0 N) x)) r.
Definition schur (a : T) (b : list T) (C : list (list T)) : list (list T) :=
  map (fun bc => map (fun bc' => a * snd bc' - fst bc * fst bc') (combine b (snd bc)))
      (combine b C).
Fixpoint psd_check (fuel : nat) (M : list (list T)) : bool :=
  match fuel with
  | O => false
  | S k =>
    match M with
    | [] => true
    | [] :: _ => false
    | (a :: b) :: rest =>
      let C := map (fun r => tl r) rest in
      if nltb N a (n0 N) then false
      else if nltb N (n0 N) a then psd_check k (schur a b C)
      else (row_zero b && psd_check k C)%bool
    end
  end.
Definition m4rows (F : mat4 T) : list (list T) :=
  [[f00 F; f01 F; f02 F; f03 F]; [f10 F; f11 F; f12 F; f13 F];
   [f20 F; f21 F; f22 F; f23 F]; [f30 F; f31 F; f32 F; f33 F]].
Definition m3rows (A : mat3 T) : list (list T) :=
  [[m00 A; m01 A; m02 A]; [m10 A; m11 A; m12 A]; [m20 A; m21 A; m22 A]].
Definition shift4 (lam : T) (F : mat4 T) : mat4 T :=        (* lam I - F *)
  M4 (lam - f00 F) (n0 N - f01 F) (n0 N - f02 F) (n0 N - f03 F)
     (n0 N - f10 F) (lam - f11 F) (n0 N - f12 F) (n0 N - f13 F)
     (n0 N - f20 F) (n0 N - f21 F) (lam - f22 F) (n0 N - f23 F)
     (n0 N - f30 F) (n0 N - f31 F) (n0 N - f32 F) (lam - f33 F).
Definition shift3 (lam : T) (A : mat3 T) : mat3 T :=
  M3 (lam - m00 A) (n0 N - m01 A) (n0 N - m02 A)
     (n0 N - m10 A) (lam - m11 A) (n0 N - m12 A)
     (n0 N - m20 A) (n0 N - m21 A) (lam - m22 A).

(* enclosure of  min over rotations of resid:  with G = sum |p|^2 + sum |q|^2 and H = horn(P^T Q),
   resid(rot q) = G - 2 q^T H q for unit q, so
     lam I - H  positive semi-definite   ==>   min >= G - 2 lam
     any non-zero q                       ==>   min <= G - 2 (q^T H q)/(q^T q)                 *)
Definition enclosure (P Q : pts) (q : vec4 T) (lam : T) : bool * T * T :=
  let H := horn (ptq N P Q) in
  let G := sumsq P + sumsq Q in
  let two := nofZ N 2 in
  (psd_check 5 (m4rows (shift4 lam H)), G - two * lam, G - two * ndiv N (quadform4 N H q) (dot4 N q q)).

(* ---- C18 ------------------------------------------------------------------------------- *)
(* unit vector with polar angle theta and azimuth phi *)
Definition sph (cphi sphi cth sth : T) : vec3 T := V3 (sth * cphi) (sth * sphi) cth.
Definition unit_axis (axis : string) : option (vec3 T) :=
  if String.eqb axis "x" then Some (V3 (n1 N) (n0 N) (n0 N))
  else if String.eqb axis "y" then Some (V3 (n0 N) (n1 N) (n0 N))
  else if String.eqb axis "z" then Some (V3 (n0 N) (n0 N) (n1 N))
  else None.
(* sample covariance (n - 1 in the denominator) of a point set, from its definition *)
Definition spec_cov (xyz : pts) : mat3 T :=
  let mu := mean N xyz in
  let d := map (fun p => vsub N p mu) xyz in
  let s := fun (f g : vec3 T -> T) => fold_right (fun p acc => f p * g p + acc) (n0 N) d in
  let k := nlen N xyz - n1 N in
  M3 (ndiv N (s vx vx) k) (ndiv N (s vx vy) k) (ndiv N (s vx vz) k)
     (ndiv N (s vy vx) k) (ndiv N (s vy vy) k) (ndiv N (s vy vz) k)
     (ndiv N (s vz vx) k) (ndiv N (s vz vy) k) (ndiv N (s vz vz) k).
(* variance of the set along the direction w *)
Definition var_along (xyz : pts) (w : vec3 T) : T := dot N w (mvmul N (spec_cov xyz) w).
(* e is a direction of largest variance up to the slack lam >= var_e:  lam I - Cov >= 0 *)
Definition principal_check (xyz : pts) (e : vec3 T) (lam : T) : bool * T :=
  (psd_check 4 (m3rows (shift3 lam (spec_cov xyz))), var_along xyz e).
(* ... and of least variance:  Cov - lam I >= 0 *)
Definition least_check (xyz : pts) (e : vec3 T) (lam : T) : bool * T :=
  let C := spec_cov xyz in
  (psd_check 4 (m3rows (shift3 (n0 N - lam) (mscale N (n0 N - n1 N) C))), var_along xyz e).
End Spec.
Arguments STranslate {T} _. Arguments SRotAxis {T} _ _ _. Arguments SRotEuler {T} _ _ _ _ _ _. Arguments SRotMat {T} _.
