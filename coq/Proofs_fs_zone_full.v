(* Proofs_fs_zone_full.v — C16, the decoy-ranking loop with the FULL routines: n tasks running
   compute_lrmsd_fast / compute_irmsd_fast on their own decoys, one shared reference and one shared zone
   file.  Under EVERY schedule every task that returns returns the basis (zone + input texts) that its
   value is a function of — the same as alone — and none fails. *)
From Coq Require Import Lia.
From Verif Require Import PyLib ModelTypes Model_fs Spec_fs Proofs_fs_base Proofs_fs_c16 Proofs_fs_zone.
Open Scope string_scope.
Open Scope list_scope.
Open Scope nat_scope.

Section ZoneFull.
Variable Z : path.
Variable lines : list string.
Let zt := concat_str lines.
Variables ref dec tmp : nat -> path.
Variable rest : nat -> list path.
Variables rtext dtext : nat -> string.
Variable fast_l : nat -> bool.          (* task i runs compute_lrmsd_fast (true) or compute_irmsd_fast (false) *)
Hypothesis tmp_inj : forall i j, i <> j -> tmp i <> tmp j.
Hypothesis tmp_Z : forall i, tmp i <> Z.
Hypothesis tmp_ref : forall i j, tmp i <> ref j.
Hypothesis tmp_dec : forall i j, tmp i <> dec j.
Hypothesis ref_Z : forall i, ref i <> Z.
Hypothesis dec_Z : forall i, dec i <> Z.

Definition Iz' (fs : fsys) : Prop := fs Z = None \/ fs Z = Some (FText zt).
Definition relyF (i : nat) (fs fs' : fsys) : Prop :=
  fs' (tmp i) = fs (tmp i) /\ fs' (ref i) = fs (ref i) /\ fs' (dec i) = fs (dec i) /\ (Iz' fs -> Iz' fs') /\
  (fs Z = Some (FText zt) -> fs' Z = Some (FText zt)).
Definition guarF (i : nat) (fs fs' : fsys) : Prop :=
  (forall q, q <> tmp i -> q <> Z -> fs' q = fs q) /\ (fs' Z = fs Z \/ fs' Z = Some (FText zt)).

Lemma relyF_refl i fs : relyF i fs fs.
Proof. repeat split; auto. Qed.
Lemma relyF_trans i a b c : relyF i a b -> relyF i b c -> relyF i a c.
Proof. intros [A1 [A2 [A3 [A4 A5]]]] [B1 [B2 [B3 [B4 B5]]]]. repeat split; try congruence; auto. Qed.
Lemma guarF_relyF i j a b : i <> j -> guarF i a b -> relyF j a b.
Proof.
  intros Hij [G1 G2]. repeat split.
  - apply G1; [apply tmp_inj; congruence | apply tmp_Z].
  - apply G1; [intro E; symmetry in E; exact (tmp_ref i j E) | apply ref_Z].
  - apply G1; [intro E; symmetry in E; exact (tmp_dec i j E) | apply dec_Z].
  - intros [H|H]; destruct G2 as [G|G]; unfold Iz'; rewrite G; auto.
  - intro H. destruct G2 as [G|G]; rewrite G; auto.
Qed.
Lemma guarF_id i fs : guarF i fs fs.
Proof. split; auto. Qed.

Definition KF (i : nat) (X : option content) (zk : bool) (fs : fsys) : Prop :=
  fs (tmp i) = X /\ fs (ref i) = Some (FText (rtext i)) /\ fs (dec i) = Some (FText (dtext i)) /\ Iz' fs /\
  (zk = true -> fs Z = Some (FText zt)).
Lemma KF_rely i X zk fs fs' : KF i X zk fs -> relyF i fs fs' -> KF i X zk fs'.
Proof. intros [K1 [K2 [K3 [K4 K5]]]] [R1 [R2 [R3 [R4 R5]]]]. repeat split; try congruence; auto. Qed.

Notation safeF' := (safe relyF guarF).

(* reading a file whose content the task knows and nobody else writes *)
Lemma safe_read_known (Post : fsys -> res string -> Prop) i X zk fs p t :
  KF i X zk fs ->
  (forall fs', KF i X zk fs' -> fs' p = Some (FText t)) ->
  (forall fs', KF i X zk fs' -> Post fs' (Ok t)) ->
  safeF' Post i fs (read_pdb p).
Proof.
  intros HK Hp HP. unfold read_pdb.
  constructor; intros fs1 H1; pose proof (KF_rely _ _ _ _ _ HK H1) as K1; [apply guarF_id|].
  simpl. rewrite (Hp fs1 K1). simpl.
  constructor; intros fs2 H2; pose proof (KF_rely _ _ _ _ _ K1 H2) as K2; [apply guarF_id|].
  simpl. rewrite (Hp fs2 K2). simpl.
  constructor; intros fs3 H3; pose proof (KF_rely _ _ _ _ _ K2 H3) as K3.
  - simpl. destruct (fs3 p) as [[| |]|]; apply guarF_id.
  - simpl. rewrite (Hp fs3 K3). simpl. constructor. now apply HP.
Qed.
Lemma safe_new_known (Post : fsys -> res string -> Prop) i X zk fs p t :
  KF i X zk fs ->
  (forall fs', KF i X zk fs' -> fs' p = Some (FText t)) ->
  (forall fs', KF i X zk fs' -> Post fs' (Ok t)) ->
  safeF' Post i fs (new_db p).
Proof.
  intros HK Hp HP. unfold new_db.
  constructor; intros fs1 H1; pose proof (KF_rely _ _ _ _ _ HK H1) as K1; [apply guarF_id|].
  simpl. eapply safe_read_known; eassumption.
Qed.
Lemma KF_ref i X zk fs : KF i X zk fs -> fs (ref i) = Some (FText (rtext i)).
Proof. intros [_ [H _]]. exact H. Qed.
Lemma KF_dec i X zk fs : KF i X zk fs -> fs (dec i) = Some (FText (dtext i)).
Proof. intros [_ [_ [H _]]]. exact H. Qed.

Lemma safe_read_zoneF (Post : fsys -> res string -> Prop) i X fs :
  KF i X true fs ->
  (forall fs', KF i X true fs' -> Post fs' (Ok zt)) ->
  safeF' Post i fs (read_zone Z).
Proof.
  intros HK HP. unfold read_zone.
  constructor; intros fs1 H1; pose proof (KF_rely _ _ _ _ _ HK H1) as K1; [apply guarF_id|].
  destruct K1 as [_ [_ [_ [_ K14]]]]. simpl. rewrite (K14 eq_refl). simpl.
  pose proof (KF_rely _ _ _ _ _ HK H1) as K1.
  constructor; intros fs2 H2; pose proof (KF_rely _ _ _ _ _ K1 H2) as K2.
  - simpl. destruct (fs2 Z) as [[| |]|]; apply guarF_id.
  - destruct K2 as [_ [_ [_ [_ K24]]]]. simpl. rewrite (K24 eq_refl). simpl. constructor.
    apply HP. exact (KF_rely _ _ _ _ _ K1 H2).
Qed.

Lemma guarF_tmp i fs c : guarF i fs (fs_set fs (tmp i) c).
Proof.
  split; [intros q Hq _; now apply fs_set_neq | left; apply fs_set_neq; intro E; symmetry in E; exact (tmp_Z i E)].
Qed.
Lemma KF_set_tmp i X c zk fs : KF i X zk fs -> KF i c zk (fs_set fs (tmp i) c).
Proof.
  intros [K1 [K2 [K3 [K4 K5]]]]. repeat split.
  - apply fs_set_eq.
  - rewrite fs_set_neq; [exact K2 | intro E; symmetry in E; exact (tmp_ref i i E)].
  - rewrite fs_set_neq; [exact K3 | intro E; symmetry in E; exact (tmp_dec i i E)].
  - unfold Iz' in *. rewrite fs_set_neq by (intro E; symmetry in E; exact (tmp_Z i E)). exact K4.
  - intro H. rewrite fs_set_neq by (intro E; symmetry in E; exact (tmp_Z i E)). now apply K5.
Qed.

Lemma safe_write_linesF (Post : fsys -> res unit -> Prop) i zk kont : forall ls pre fs,
  KF i (Some (FText pre)) zk fs ->
  (forall fs', KF i (Some (FText (pre +s+ concat_str ls))) zk fs' -> safeF' Post i fs' kont) ->
  safeF' Post i fs (write_lines (tmp i) ls kont).
Proof.
  induction ls as [|l ls IH]; intros pre fs HK HP.
  - simpl. apply HP. simpl. now rewrite append_empty_r.
  - simpl write_lines.
    constructor; intros fs1 H1; pose proof (KF_rely _ _ _ _ _ HK H1) as K1;
      pose proof K1 as [K11 _]; simpl; rewrite K11; simpl; [apply guarF_tmp|].
    apply (IH (pre +s+ l)); [eapply KF_set_tmp; exact K1|].
    intros fs' HK'. apply HP. simpl concat_str. now rewrite <- append_assoc.
Qed.

(* after the publication the task knows: its temp file is gone, Z holds the zone *)
Lemma safe_write_zoneF (Post : fsys -> res unit -> Prop) i fs :
  KF i None false fs ->
  (forall fs', KF i None true fs' -> Post fs' (Ok tt)) ->
  safeF' Post i fs (write_zone Z (tmp i :: rest i) lines).
Proof.
  intros HK HP. simpl write_zone.
  constructor; intros fs1 H1; pose proof (KF_rely _ _ _ _ _ HK H1) as K1;
    pose proof K1 as [K11 _]; simpl; rewrite K11; simpl; [apply guarF_tmp|].
  apply (safe_write_linesF Post i false _ lines ""); [eapply KF_set_tmp; exact K1|].
  intros fs2 K2. simpl append in K2. fold zt in K2.
  constructor; intros fs3 H3; pose proof (KF_rely _ _ _ _ _ K2 H3) as K3; [apply guarF_id|].
  simpl.
  constructor; intros fs4 H4; pose proof (KF_rely _ _ _ _ _ K3 H4) as K4;
    pose proof K4 as [K41 [K42 [K43 [K44 K45]]]]; simpl; rewrite K41; simpl.
  - split.
    + intros q Hq HqZ. rewrite fs_set_neq by exact Hq. now apply fs_set_neq.
    + right. rewrite fs_set_neq by (intro E; symmetry in E; exact (tmp_Z i E)). apply fs_set_eq.
  - constructor. apply HP. repeat split.
    + apply fs_set_eq.
    + rewrite fs_set_neq by (intro E; symmetry in E; exact (tmp_ref i i E)).
      rewrite fs_set_neq by (apply ref_Z). exact K42.
    + rewrite fs_set_neq by (intro E; symmetry in E; exact (tmp_dec i i E)).
      rewrite fs_set_neq by (apply dec_Z). exact K43.
    + right. rewrite fs_set_neq by (intro E; symmetry in E; exact (tmp_Z i E)). apply fs_set_eq.
    + intros _. rewrite fs_set_neq by (intro E; symmetry in E; exact (tmp_Z i E)). apply fs_set_eq.
Qed.

(* the acquisition, with what the task knows afterwards *)
Lemma acquire_safeF (Post : fsys -> res (string * list string) -> Prop) i fs :
  KF i None false fs ->
  (forall fs' rs, KF i None true fs' -> Post fs' (Ok (zt, rs))) ->
  safeF' Post i fs (acquire_zone (ref i) (Some Z) (tmp i :: rest i) lines).
Proof.
  intros HK HP. unfold acquire_zone.
  constructor; intros fs1 H1; pose proof (KF_rely _ _ _ _ _ HK H1) as K1; [apply guarF_id|].
  simpl. destruct K1 as [K11 [K12 [K13 [[K14|K14] K15]]]]; rewrite K14; simpl.
  - unfold bindr. apply safe_bindp. apply (safe_new_known _ i None false _ (ref i) (rtext i)).
    + repeat split; auto. left. exact K14.
    + intros fs' HK'. eapply KF_ref; exact HK'.
    + intros fs2 K2. apply safe_bindp. apply safe_write_zoneF; [exact K2|].
      intros fs3 K3. constructor. apply HP. exact K3.
  - unfold bindr. apply safe_bindp. apply (safe_read_zoneF _ i None).
    + repeat split; auto. right. exact K14.
    + intros fs2 K2. constructor. apply HP. exact K2.
Qed.

Definition task_call (i : nat) : call :=
  mkCall (dec i) (ref i) (if fast_l i then RLrmsdFast (Some Z) else RIrmsdFast (Some Z)) (tmp i :: rest i) lines [] [].

(* what the value of task i is a function of: the zone, then the texts of reference and decoy in the
   order the routine reads them *)
Definition basis_of_task (i : nat) : list string :=
  let R := rtext i in let D := dtext i in
  if fast_l i then [zt; R; D; D; R; D; R; D; R] else [zt; R; D; D; R; D; R].
Definition QF (i : nat) (a : res obs) : Prop := exists rs, a = Ok (basis_of_task i, rs).

Ltac read_step HK :=
  unfold rd at 1; unfold bindr; apply safe_bindp;
  first [ eapply (safe_new_known _ _ None true); [exact HK | intros ? HK'; first [eapply KF_ref; exact HK' | eapply KF_dec; exact HK'] | ]
        | eapply (safe_read_known _ _ None true); [exact HK | intros ? HK'; first [eapply KF_ref; exact HK' | eapply KF_dec; exact HK'] | ] ];
  clear HK; intros ? HK.

Lemma task_safe i fs :
  KF i None false fs -> safeF' (fun _ a => QF i a) i fs (script (task_call i)).
Proof.
  intro HK. unfold script, task_call. simpl cl_routine. simpl cl_decoy. simpl cl_ref. simpl cl_tmps. simpl cl_zone_lines.
  unfold QF, basis_of_task.
  destruct (fast_l i).
  - unfold bindr. apply safe_bindp. apply acquire_safeF; [exact HK|].
    intros fs1 rs K1. unfold lrmsd_tail. simpl fst. simpl snd.
    do 8 (read_step K1).
    constructor. eexists. reflexivity.
  - unfold bindr. apply safe_bindp. apply acquire_safeF; [exact HK|].
    intros fs1 rs K1. unfold irmsd_tail. simpl fst. simpl snd.
    do 6 (read_step K1).
    constructor. eexists. reflexivity.
Qed.

Theorem shared_zone_cache_full : forall (n : nat) (fs0 : fsys) (s : list nat) i a,
  Iz' fs0 ->
  (forall j, j < n -> fs0 (tmp j) = None /\ fs0 (ref j) = Some (FText (rtext j)) /\ fs0 (dec j) = Some (FText (dtext j))) ->
  nth_error (snd (run_sched s (fs0, map (fun j => script (task_call j)) (seq 0 n)))) i = Some (Ret a) ->
  exists rs, a = Ok (basis_of_task i, rs).
Proof.
  intros n fs0 s i a HI Hinit Hr.
  apply (rg_results relyF guarF relyF_refl relyF_trans guarF_relyF QF s
           (fs0, map (fun j => script (task_call j)) (seq 0 n)) i a); [|exact Hr].
  intros j p Hj. simpl in Hj. simpl fst.
  destruct (nth_error (seq 0 n) j) as [m|] eqn:Em.
  - rewrite (map_nth_error (fun j => script (task_call j)) _ _ Em) in Hj. injection Hj as <-.
    assert (m = j /\ j < n) as [-> Hlt].
    { assert (Hjn : j < List.length (seq 0 n)) by (apply nth_error_Some; rewrite Em; discriminate).
      rewrite seq_length in Hjn. split; [|exact Hjn].
      pose proof (nth_error_nth _ _ 0 Em) as E. rewrite seq_nth in E by exact Hjn. simpl in E. congruence. }
    apply task_safe. destruct (Hinit j Hlt) as [H1 [H2 H3]]. repeat split; auto. discriminate.
  - exfalso. apply nth_error_None in Em.
    assert (nth_error (map (fun j => script (task_call j)) (seq 0 n)) j <> None) by (rewrite Hj; discriminate).
    apply nth_error_Some in H. rewrite map_length in H. lia.
Qed.
End ZoneFull.
