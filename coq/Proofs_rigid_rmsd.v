(* Proofs_rigid_rmsd.v — C11: the residuals attainable by rotations are the same for a point set and for
   any rigidly displaced copy of it, so the minimum-RMSD scores are invariant under rigid motions *)
From Coq Require Import Lia Lqa.
From Verif Require Import PyLib ModelTypes Model_many Model_superpose Spec_superpose Proofs_superpose.
Open Scope Q_scope.

Definition mmul (a b : mat) : mat :=
  let '(a1, a2, a3) := a in
  let bt := mT b in let '(c1, c2, c3) := bt in
  ((vdot a1 c1, vdot a1 c2, vdot a1 c3), (vdot a2 c1, vdot a2 c2, vdot a2 c3), (vdot a3 c1, vdot a3 c2, vdot a3 c3)).
Definition affine (m : mat) (t : vec) (p : vec) : vec := vadd (mv m p) t.

Ltac dv v := let a := fresh "x" in let b := fresh "y" in let c := fresh "z" in destruct v as [[a b] c].
Ltac dm m := let r1 := fresh "r" in let r2 := fresh "r" in let r3 := fresh "r" in destruct m as [[r1 r2] r3]; dv r1; dv r2; dv r3.
Ltac vring := cbn -[Qred Qplus Qmult Qminus Qopp Qdiv Qinv]; rewrite ?Qred_correct; repeat split; ring.

Lemma veq_refl v : veq v v. Proof. dv v. cbn. repeat split; reflexivity. Qed.
Lemma veq_sym a b : veq a b -> veq b a.
Proof. dv a. dv b. cbn. intros [A [B C]]. repeat split; symmetry; assumption. Qed.
Lemma veq_trans a b c : veq a b -> veq b c -> veq a c.
Proof. dv a. dv b. dv c. cbn. intros [A [B C]] [D [E F]]. repeat split; etransitivity; eassumption. Qed.

Lemma vadd_veq a a' b b' : veq a a' -> veq b b' -> veq (vadd a b) (vadd a' b').
Proof. dv a. dv a'. dv b. dv b'. cbn -[Qred]. intros [A [B C]] [D [E F]]. rewrite ?Qred_correct, A, B, C, D, E, F. repeat split; reflexivity. Qed.
Lemma vsub_veq a a' b b' : veq a a' -> veq b b' -> veq (vsub a b) (vsub a' b').
Proof. dv a. dv a'. dv b. dv b'. cbn -[Qred]. intros [A [B C]] [D [E F]]. rewrite ?Qred_correct, A, B, C, D, E, F. repeat split; reflexivity. Qed.
Lemma mv_veq m a a' : veq a a' -> veq (mv m a) (mv m a').
Proof. dm m. dv a. dv a'. cbn -[Qred]. intros [A [B C]]. rewrite ?Qred_correct, A, B, C. repeat split; reflexivity. Qed.
Lemma vscale_veq k a a' : veq a a' -> veq (vscale k a) (vscale k a').
Proof. dv a. dv a'. cbn -[Qred]. intros [A [B C]]. rewrite ?Qred_correct, A, B, C. repeat split; reflexivity. Qed.

(* sums and means under an affine map *)
Lemma vsum_affine m t P :
  veq (vsum (map (affine m t) P)) (vadd (mv m (vsum P)) (vscale (inject_Z (Z.of_nat (List.length P))) t)).
Proof.
  induction P as [|p ps IH].
  - dm m. dv t. vring.
  - cbn [map vsum fold_right List.length]. fold (vsum (map (affine m t) ps)). fold (vsum ps).
    eapply veq_trans; [apply vadd_veq; [apply veq_refl | exact IH]|].
    rewrite Nat2Z.inj_succ. unfold Z.succ. rewrite inject_Z_plus.
    set (n := inject_Z (Z.of_nat (List.length ps))). set (s := vsum ps).
    unfold affine. dm m. dv t. dv p. dv s. vring.
Qed.

Lemma mean_affine m t P : P <> [] -> veq (mean (map (affine m t) P)) (affine m t (mean P)).
Proof.
  intro Hne. unfold mean. rewrite map_length.
  eapply veq_trans; [apply vscale_veq, vsum_affine|].
  assert (Hn : ~ inject_Z (Z.of_nat (List.length P)) == 0).
  { destruct P as [|p ps]; [contradiction|]. cbn [List.length]. rewrite Nat2Z.inj_succ.
    intro E. assert (inject_Z 0 < inject_Z (Z.succ (Z.of_nat (List.length ps)))) by (rewrite <- Zlt_Qlt; lia).
      change (inject_Z 0) with 0 in H. lra. }
  set (n := inject_Z (Z.of_nat (List.length P))) in *. set (s := vsum P).
  unfold affine. dm m. dv t. dv s.
  cbn -[Qred Qplus Qmult Qminus Qopp Qdiv Qinv]. rewrite ?Qred_correct. repeat split; field; exact Hn.
Qed.

Lemma centred_affine m t P : P <> [] ->
  Forall2 veq (centred (map (affine m t) P)) (map (mv m) (centred P)).
Proof.
  intro Hne. unfold centred. rewrite !map_map.
  pose proof (mean_affine m t P Hne) as Hm.
  set (c' := mean (map (affine m t) P)) in *. set (c := mean P) in *. clearbody c c'.
  induction P as [|p ps IH]; [constructor|]. cbn [map]. constructor.
  - eapply veq_trans; [apply vsub_veq; [apply veq_refl | exact Hm]|].
    unfold affine. dm m. dv t. dv p. dv c. vring.
  - destruct ps as [|q qs]; [constructor|]. apply IH. discriminate.
Qed.

Lemma resid_veq A A' B : Forall2 veq A A' -> resid A B == resid A' B.
Proof.
  unfold resid. intro H. revert B. induction H as [|a a' l l' Ha _ IH]; intro B; [reflexivity|].
  destruct B as [|b bs]; [reflexivity|]. cbn [combine map fold_right fst snd]. rewrite (IH bs).
  rewrite (norm2_veq _ _ (vsub_veq a a' b b Ha (veq_refl b))). reflexivity.
Qed.

Lemma Forall2_map_veq f g l l' : (forall a a', veq a a' -> veq (f a) (g a')) -> Forall2 veq l l' -> Forall2 veq (map f l) (map g l').
Proof. intros H F. induction F; cbn; constructor; auto. Qed.

(* R·M^T undoes M when M is orthogonal *)
Lemma mmul_mv a b v : veq (mv (mmul a b) v) (mv a (mv b v)).
Proof. dm a. dm b. dv v. vring. Qed.

Lemma mT_mv_orthogonal m v : orthogonal m -> veq (mv (mT m) (mv m v)) v.
Proof.
  destruct m as [[[[a b] c] [[d e] f]] [[g h] i]]. destruct v as [[v1 v2] v3].
  cbn -[Qred Qplus Qmult Qminus Qopp Qdiv Qinv]. rewrite ?Qred_correct.
  intros [H1 [H2 [H3 [H4 [H5 H6]]]]].
  repeat split.
  - setoid_replace (a * (a * v1 + b * v2 + c * v3) + d * (d * v1 + e * v2 + f * v3) + g * (g * v1 + h * v2 + i * v3))
      with ((a*a + d*d + g*g) * v1 + (a*b + d*e + g*h) * v2 + (a*c + d*f + g*i) * v3) by ring.
    rewrite H1, H4, H5. ring.
  - setoid_replace (b * (a * v1 + b * v2 + c * v3) + e * (d * v1 + e * v2 + f * v3) + h * (g * v1 + h * v2 + i * v3))
      with ((a*b + d*e + g*h) * v1 + (b*b + e*e + h*h) * v2 + (b*c + e*f + h*i) * v3) by ring.
    rewrite H2, H4, H6. ring.
  - setoid_replace (c * (a * v1 + b * v2 + c * v3) + f * (d * v1 + e * v2 + f * v3) + i * (g * v1 + h * v2 + i * v3))
      with ((a*c + d*f + g*i) * v1 + (b*c + e*f + h*i) * v2 + (c*c + f*f + i*i) * v3) by ring.
    rewrite H3, H5, H6. ring.
Qed.

Lemma mmul_mT_mv r m v : orthogonal m -> veq (mv (mmul r (mT m)) (mv m v)) (mv r v).
Proof.
  intro Ho. eapply veq_trans; [apply mmul_mv|]. apply mv_veq, mT_mv_orthogonal, Ho.
Qed.

(* the residual of the candidate rotation R on (P, Q) is the residual of R·M^T on (M P + t, Q):
   rotations of the displaced copy attain exactly the residuals attained on the original *)
Theorem residuals_of_displaced_copy m t r P Qs : orthogonal m -> P <> [] ->
  resid (map (mv (mmul r (mT m))) (centred (map (affine m t) P))) (centred Qs)
  == resid (map (mv r) (centred P)) (centred Qs).
Proof.
  intros Ho Hne. apply resid_veq.
  pose proof (centred_affine m t P Hne) as H.
  assert (G : Forall2 veq (map (mv (mmul r (mT m))) (centred (map (affine m t) P)))
                          (map (mv (mmul r (mT m))) (map (mv m) (centred P)))).
  { apply Forall2_map_veq; [intros a a' E; apply mv_veq, E | exact H]. }
  clear H. rewrite map_map in G.
  set (L := centred P) in *. clearbody L.
  set (L' := map (mv (mmul r (mT m))) (centred (map (affine m t) P))) in *. clearbody L'.
  revert L' G. induction L as [|x xs IH]; intros L' G; inversion G as [|a b la lb Hab Hl]; subst; cbn [map]; constructor.
  - eapply veq_trans; [exact Hab | apply mmul_mT_mv, Ho].
  - apply IH, Hl.
Qed.

From Coq Require Import Nsatz.
Lemma orthogonal_mmul a b : orthogonal a -> orthogonal b -> orthogonal (mmul a b).
Proof.
  destruct a as [[[[a1 a2] a3] [[a4 a5] a6]] [[a7 a8] a9]].
  destruct b as [[[[b1 b2] b3] [[b4 b5] b6]] [[b7 b8] b9]].
  cbn -[Qred Qplus Qmult Qminus Qopp Qdiv Qinv]. rewrite ?Qred_correct.
  intros [A1 [A2 [A3 [A4 [A5 A6]]]]] [B1 [B2 [B3 [B4 [B5 B6]]]]].
  repeat split; nsatz.
Qed.
