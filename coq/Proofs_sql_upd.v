(* Proofs_sql_upd.v — C04: executemany of UPDATE ... WHERE rowID=? over a list of parameter
   rows equals a row-by-row fold (each record sees exactly the updates addressed to it), and
   from there the pointwise list-of-records specification. *)
From Coq Require Import Lia.
From Verif Require Import PyLib ModelTypes Generated_parse Model_sqlval Model_sql Spec_sql Proofs_sql_base.
Open Scope string_scope.

(* ------------------------------------------------------------------ *)
(* lists with positions *)
Fixpoint map_pos {A B} (g : nat -> A -> B) (k : nat) (l : list A) : list B :=
  match l with [] => [] | x :: t => g k x :: map_pos g (S k) t end.

Lemma map_pos_with_positions {A B} (g : nat -> A -> B) (l : list A) k :
  map (fun pr : nat * A => g (fst pr) (snd pr)) (combine (seq k (List.length l)) l) = map_pos g k l.
Proof. revert k; induction l as [|x t IH]; intro k; [reflexivity|]. cbn. rewrite IH. reflexivity. Qed.

Lemma map_pos_ext {A B} (g h : nat -> A -> B) l k :
  (forall q x, (k <= q < k + List.length l)%nat -> g q x = h q x) -> map_pos g k l = map_pos h k l.
Proof.
  revert k; induction l as [|x t IH]; intros k H; [reflexivity|]. cbn.
  rewrite H by (cbn; lia). rewrite IH; [reflexivity|]. intros; apply H; cbn; lia.
Qed.
Lemma map_pos_map_pos {A B C} (h : nat -> B -> C) (g : nat -> A -> B) l k :
  map_pos h k (map_pos g k l) = map_pos (fun q x => h q (g q x)) k l.
Proof. revert k; induction l as [|x t IH]; intro k; [reflexivity|]. cbn. rewrite IH. reflexivity. Qed.
Lemma map_pos_id {A} (l : list A) k : map_pos (fun _ x => x) k l = l.
Proof. revert k; induction l as [|x t IH]; intro k; [reflexivity|]. cbn. rewrite IH. reflexivity. Qed.
Lemma map_pos_length {A B} (g : nat -> A -> B) l k : List.length (map_pos g k l) = List.length l.
Proof. revert k; induction l as [|x t IH]; intro k; [reflexivity|]. cbn. rewrite IH. reflexivity. Qed.

(* replacing the i-th element = a positional map *)
Lemma set_nth_map_pos {A} (f : A -> A) (l : list A) : forall i k r,
  nth_error l i = Some r ->
  set_nth i (f r) l = map_pos (fun q x => if Nat.eqb q (k + i) then f x else x) k l.
Proof.
  induction l as [|x t IH]; intros i k r H; [destruct i; discriminate|].
  destruct i as [|j]; cbn in H |- *.
  - inversion H; subst. rewrite Nat.add_0_r, Nat.eqb_refl. f_equal.
    rewrite <- (map_pos_id t (S k)) at 1. apply map_pos_ext. intros q y Hq.
    destruct (Nat.eqb_spec q k); [lia|reflexivity].
  - destruct (Nat.eqb_spec k (k + S j)); [lia|]. f_equal.
    rewrite (IH j (S k) r H). apply map_pos_ext. intros q y _.
    replace (S k + j)%nat with (k + S j)%nat by lia. reflexivity.
Qed.

(* ------------------------------------------------------------------ *)
(* one parameter row of the UPDATE *)
Definition store_row (t : table) (cis : list nat) (vals : list pv) : res (list val) :=
  mapM (fun cv : nat * pv => store_val (col_aff t (CCol (fst cv))) (snd cv)) (combine cis vals).

Lemma col_aff_cols t rows c : col_aff (mkTable (tcols t) rows) c = col_aff t c.
Proof. destruct c; reflexivity. Qed.

Lemma store_cells_write t cis : forall vals xs r,
  List.length vals = List.length cis -> store_row t cis vals = Ok xs ->
  store_cells t cis vals r = Ok (write_cells cis xs r).
Proof.
  unfold store_row. induction cis as [|ci cis' IH]; intros vals xs r Hl H.
  - destruct vals; [|discriminate]. cbn in H. apply res_Ok_inj in H; subst. reflexivity.
  - destruct vals as [|v vals']; [discriminate|]. cbn [combine mapM fst snd] in H.
    apply bind_Ok_inv in H; destruct H as (x & Hx & H1).
    apply bind_Ok_inv in H1; destruct H1 as (xs' & Hxs & H2). apply res_Ok_inj in H2; subst xs.
    cbn [store_cells write_cells]. rewrite Hx. cbn [bind].
    apply IH; [cbn in Hl; lia | exact Hxs].
Qed.

(* what one record becomes under a sequence of (rowid, values) updates *)
Definition row_fold (cis : list nat) (ups : list (Z * list val)) (q : nat) (r : row) : row :=
  fold_left (fun r (u : Z * list val) => if Z.eqb (fst u) (Z.of_nat q + 1) then write_cells cis (snd u) r else r) ups r.

Definition data_ok (t : table) (cis : list nat) (data : list (list pv * Z)) (xss : list (list val)) : Prop :=
  Forall2 (fun (dv : list pv * Z) xs => List.length (fst dv) = List.length cis /\ store_row t cis (fst dv) = Ok xs) data xss.

Lemma rid_index_some rid i : rid_index rid = Some i -> rid = (Z.of_nat i + 1)%Z.
Proof. unfold rid_index. destruct (Z.ltb_spec 0 rid) as [L|L]; [|discriminate]. intro E; inversion E. lia. Qed.
Lemma rid_index_none rid q : rid_index rid = None -> Z.eqb rid (Z.of_nat q + 1) = false.
Proof. unfold rid_index. destruct (Z.ltb_spec 0 rid) as [L|L]; [discriminate|]. intros _. apply Z.eqb_neq. lia. Qed.

Lemma exec_many_rowwise t cis : forall data xss rows,
  data_ok t cis data xss ->
  exec_many (mkTable (tcols t) rows) cis data =
  (mkTable (tcols t) (map_pos (row_fold cis (combine (map snd data) xss)) 0 rows), None).
Proof.
  induction data as [|[vals rid] rest IH]; intros xss rows Hd.
  - inversion Hd; subst. cbn. unfold row_fold. cbn. rewrite map_pos_id. reflexivity.
  - inversion Hd as [|dv xs data' xss' [Hl Hs] Hrest]; subst. cbn [fst snd] in *.
    cbn [exec_many]. rewrite Hl, Nat.eqb_refl. cbn [negb].
    cbn [map combine snd].
    destruct (rid_index rid) as [i|] eqn:Hi.
    + cbn [trows]. destruct (nth_error rows i) as [r|] eqn:Hr.
      * assert (S1 : store_cells (mkTable (tcols t) rows) cis vals r = Ok (write_cells cis xs r)).
        { apply store_cells_write; [exact Hl|]. unfold store_row in *.
          rewrite <- Hs. apply mapM_ext. intros cv. rewrite col_aff_cols. reflexivity. }
        rewrite S1. cbn [tcols trows].
        rewrite (IH xss' _ Hrest). f_equal. f_equal.
        rewrite (set_nth_map_pos (write_cells cis xs) rows i 0 r Hr).
        rewrite map_pos_map_pos. apply map_pos_ext. intros q x _.
        unfold row_fold. cbn [fold_left fst snd]. apply rid_index_some in Hi. subst rid.
        destruct (Nat.eqb_spec q (0 + i)) as [->|N].
        -- cbn [Nat.add]. rewrite Z.eqb_refl. reflexivity.
        -- destruct (Z.eqb_spec (Z.of_nat i + 1) (Z.of_nat q + 1)); [lia|reflexivity].
      * rewrite (IH xss' _ Hrest). f_equal. f_equal. apply map_pos_ext. intros q x Hq.
        unfold row_fold. cbn [fold_left fst snd]. apply rid_index_some in Hi. subst rid.
        apply nth_error_None in Hr.
        destruct (Z.eqb_spec (Z.of_nat i + 1) (Z.of_nat q + 1)); [lia|reflexivity].
    + rewrite (IH xss' _ Hrest). f_equal. f_equal. apply map_pos_ext. intros q x _.
      unfold row_fold. cbn [fold_left fst snd]. rewrite (rid_index_none rid q Hi). reflexivity.
Qed.

(* ------------------------------------------------------------------ *)
(* update(): distinct positions -> each record is written at most once *)
Lemma index_of_nat_ge q ps k i : index_of_nat q ps k = Some i -> (k <= i)%nat.
Proof.
  revert k; induction ps as [|p t IH]; simpl; intros k H; [discriminate|].
  destruct (Nat.eqb q p); [inversion H; lia|]. apply IH in H. lia.
Qed.
Lemma index_of_nat_notin q ps k : ~ In q ps -> index_of_nat q ps k = None.
Proof.
  revert k; induction ps as [|p t IH]; simpl; intros k H; [reflexivity|].
  destruct (Nat.eqb_spec q p); [exfalso; apply H; left; auto|]. apply IH. intro X; apply H; right; exact X.
Qed.

Definition rids_of (ps : list nat) : list Z := map (fun p => (Z.of_nat p + 1)%Z) ps.

Lemma row_fold_notin cis ps : forall xss q r, ~ In q ps -> row_fold cis (combine (rids_of ps) xss) q r = r.
Proof.
  induction ps as [|p t IH]; intros xss q r H; [reflexivity|].
  destruct xss as [|xs xss']; [reflexivity|].
  unfold row_fold. cbn [rids_of map combine fold_left fst snd].
  destruct (Z.eqb_spec (Z.of_nat p + 1) (Z.of_nat q + 1)) as [E|E].
  - exfalso. apply H. left. lia.
  - apply IH. intro X; apply H; right; exact X.
Qed.

Lemma row_fold_update cis ps : forall xss k q r,
  NoDup ps -> List.length xss = List.length ps ->
  row_fold cis (combine (rids_of ps) xss) q r =
  match index_of_nat q ps k with
  | Some i => write_cells cis (nth (i - k) xss []) r
  | None => r
  end.
Proof.
  induction ps as [|p t IH]; intros xss k q r Hnd Hl; [reflexivity|].
  destruct xss as [|xs xss']; [discriminate|].
  inversion Hnd as [|p' t' Hnotin Hnd']; subst.
  cbn [index_of_nat].
  destruct (Nat.eqb_spec q p) as [->|N].
  - rewrite Nat.sub_diag. cbn [nth].
    unfold row_fold. cbn [rids_of map combine fold_left fst snd]. rewrite Z.eqb_refl.
    apply (row_fold_notin cis t xss' p _ Hnotin).
  - unfold row_fold. cbn [rids_of map combine fold_left fst snd].
    destruct (Z.eqb_spec (Z.of_nat p + 1) (Z.of_nat q + 1)) as [E|E]; [lia|].
    change (fold_left _ (combine (map (fun p0 : nat => (Z.of_nat p0 + 1)%Z) t) xss') r)
      with (row_fold cis (combine (rids_of t) xss') q r).
    rewrite (IH xss' (S k) q r Hnd') by (cbn in Hl; lia).
    destruct (index_of_nat q t (S k)) as [i|] eqn:F; [|reflexivity].
    apply index_of_nat_ge in F. replace (i - k)%nat with (S (i - S k)) by lia. reflexivity.
Qed.

(* positions selected by a filter over the rows with positions: distinct, inside the table *)
Lemma filter_positions_bound {A} (f : nat * A -> bool) (l : list A) : forall k p,
  In p (map fst (filter f (combine (seq k (List.length l)) l))) -> (k <= p < k + List.length l)%nat.
Proof.
  induction l as [|x t IH]; intros k p H; [destruct H|].
  cbn [List.length seq combine filter] in H.
  destruct (f (k, x)).
  - destruct H as [H|H]; [cbn in H; subst; cbn; lia|]. apply IH in H. cbn; lia.
  - apply IH in H. cbn; lia.
Qed.
Lemma filter_positions_nodup {A} (f : nat * A -> bool) (l : list A) : forall k,
  NoDup (map fst (filter f (combine (seq k (List.length l)) l))).
Proof.
  induction l as [|x t IH]; intro k; [constructor|].
  cbn [List.length seq combine filter].
  destruct (f (k, x)); [|apply IH].
  cbn [map fst]. constructor; [|apply IH].
  intro H. apply filter_positions_bound in H. lia.
Qed.
