(* Spec_many.v — C19: the intersection is exactly the common atoms, row-aligned *)
From Verif Require Import PyLib ModelTypes Model_many.

(* executable specification (keys unique within each structure): for every atom of the first
   structure whose key occurs in all others, the aligned tuple of the atoms carrying that key *)
Definition find_key (idx : list nat) (r : row) (t : table) : option row :=
  find (same_key idx r) t.
Fixpoint find_all (idx : list nat) (r : row) (ts : list table) : option (list row) :=
  match ts with
  | [] => Some []
  | t :: rest =>
    match find_key idx r t, find_all idx r rest with
    | Some x, Some xs => Some (x :: xs)
    | _, _ => None
    end
  end.
Definition spec_tuples (idx : list nat) (tables : list table) : list (list row) :=
  match tables with
  | [] => [[]]
  | t0 :: rest =>
    flat_map (fun r => match find_all idx r rest with Some xs => [r :: xs] | None => [] end) t0
  end.
Definition spec_intersection (idx cols : list nat) (tables : list table) : list (list row) :=
  let tuples := spec_tuples idx tables in
  map (fun it => map (fun tup => project cols (nth it tup [])) tuples) (seq 0 (List.length tables)).

(* keys are unique within a table *)
Fixpoint unique_keys (idx : list nat) (t : table) : bool :=
  match t with
  | [] => true
  | r :: rest => negb (existsb (same_key idx r) rest) && unique_keys idx rest
  end.
