(* Proofs_rmsd_def3.v — C07: the fast L-RMSD is its definition (same conditions as the fast i-RMSD): fit on the common atoms
   (names given) of the longer chain of the reference, measure on those of the other chain, atoms paired by identity.
   Generic part: for any selection that is a function of the identity, "all records whose key is common, in file order"
   on both sides IS the list of identity pairs, when the common identities come in the same relative order. *)
From Coq Require Import Lia.
From Verif Require Import PyLib ModelTypes Model_contact Model_many Model_superpose Spec_superpose Model_zone Model_rmsd Spec_rmsd
  Proofs_contact_spec Proofs_contact_c05 Proofs_superpose Proofs_rmsd Proofs_routes Proofs_zone_source Proofs_rmsd_def Proofs_rmsd_def2 Proofs_routes_l.
Open Scope string_scope.
Open Scope list_scope.

Section Generic.
Variables (decoy ref : structure) (P : atom -> bool).
Hypothesis Ud : NoDup (map key3_of decoy).
Hypothesis P_key : forall a b, key3_of a = key3_of b -> P a = P b.

Let common := inter_keys (map key3_of (filter P ref)) (map key3_of (filter P decoy)).
Let Rside := filter (fun a => mem key3_eqb (key3_of a) common) ref.
Let Dside := filter (fun a => mem key3_eqb (key3_of a) common) decoy.

Lemma in_common_g a :
  mem key3_eqb (key3_of a) common = (P a && mem key3_eqb (key3_of a) (map key3_of ref) && mem key3_eqb (key3_of a) (map key3_of decoy))%bool.
Proof.
  apply bool_eq_iff. unfold common, inter_keys. rewrite mem_key3_In, filter_In. cbv beta. rewrite !andb_true_iff, !mem_key3_In. split.
  - intros [Hr Hd]. apply in_map_iff in Hr. destruct Hr as [r [Er Hr]]. apply filter_In in Hr. destruct Hr as [Hr Pr].
    apply in_map_iff in Hd. destruct Hd as [d [Ed Hd]]. apply filter_In in Hd. destruct Hd as [Hd _].
    split; [split|].
    + rewrite <- (P_key r a Er). exact Pr.
    + rewrite <- Er. apply in_map. exact Hr.
    + rewrite <- Ed. apply in_map. exact Hd.
  - intros [[Pa Hr] Hd]. apply in_map_iff in Hr. destruct Hr as [r [Er Hr]]. apply in_map_iff in Hd. destruct Hd as [d [Ed Hd]]. split.
    + rewrite <- Er. apply in_map. apply filter_In. split; [exact Hr | rewrite (P_key r a Er); exact Pa].
    + rewrite <- Ed. apply in_map. apply filter_In. split; [exact Hd | rewrite (P_key d a Ed); exact Pa].
Qed.

Lemma pairs_over_sublist_g l : (forall a, In a l -> In a ref) ->
  flat_map (fun r => match find (same_atom r) decoy with Some d => [(pos_of d, pos_of r)] | None => [] end) (filter P l)
  = flat_map (fun r => match find (same_atom r) decoy with Some d => [(pos_of d, pos_of r)] | None => [] end)
             (filter (fun a => mem key3_eqb (key3_of a) common) l).
Proof.
  induction l as [|r t IH]; intro Hin; [reflexivity|]. cbn [filter].
  assert (Hr : In r ref) by (apply Hin; left; reflexivity).
  assert (IHt := IH (fun a Ha => Hin a (or_intror Ha))).
  rewrite (in_common_g r).
  assert (Mr : mem key3_eqb (key3_of r) (map key3_of ref) = true) by (apply mem_key3_In, in_map, Hr).
  rewrite Mr, andb_true_r.
  destruct (P r) eqn:Pr; cbn [andb]; [|exact IHt].
  destruct (mem key3_eqb (key3_of r) (map key3_of decoy)) eqn:Md.
  - cbn [flat_map]. rewrite IHt. reflexivity.
  - cbn [flat_map]. rewrite IHt.
    rewrite (find_none decoy r) by (intro X; apply mem_key3_In in X; congruence). reflexivity.
Qed.

Hypothesis Horder : map key3_of Dside = map key3_of Rside.

Theorem common_lists_are_identity_pairs :
  let pairs := identity_pairs P decoy ref in
  map pos_of Dside = map fst pairs /\ map pos_of Rside = map snd pairs.
Proof.
  cbv zeta. rewrite identity_pairs_filter, (pairs_over_sublist_g ref (fun a H => H)). fold Rside.
  assert (F : Forall2 (fun d r => key3_of d = key3_of r) Dside Rside) by (apply map_eq_Forall2; exact Horder).
  assert (G : Forall (fun d => In d decoy) Dside) by (apply Forall_forall; intros d Hd; unfold Dside in Hd; apply filter_In in Hd; exact (proj1 Hd)).
  pose proof (Forall2_and_left (fun d => In d decoy) (fun d r => key3_of d = key3_of r) Dside Rside F G) as FP.
  rewrite (pairs_of_Forall2 decoy Ud Dside Rside FP).
  assert (Len : List.length (map pos_of Dside) = List.length (map pos_of Rside)).
  { rewrite !map_length. apply (f_equal (@List.length _)) in Horder. rewrite !map_length in Horder. exact Horder. }
  rewrite (map_fst_combine' _ _ Len), (map_snd_combine' _ _ Len). split; reflexivity.
Qed.
End Generic.

Lemma identity_pairs_ext_in sel sel' decoy ref : (forall r, In r ref -> sel r = sel' r) ->
  identity_pairs sel decoy ref = identity_pairs sel' decoy ref.
Proof.
  unfold identity_pairs. intro H. induction ref as [|r t IH]; [reflexivity|]. cbn [flat_map].
  rewrite (H r (or_introl eq_refl)), IH; [reflexivity|]. intros r' Hr'. apply H. right. exact Hr'.
Qed.

Section LDef.
Variables (decoy ref : structure) (c1 c2 : string) (names : list string).
Hypothesis Ud : NoDup (map key3_of decoy).
Hypothesis Hch : get_chains ref = [c1; c2].
Let L : string := if Nat.ltb (List.length (chain_atoms ref c1)) (List.length (chain_atoms ref c2)) then c2 else c1.
Let S : string := if Nat.ltb (List.length (chain_atoms ref c1)) (List.length (chain_atoms ref c2)) then c1 else c2.
Let zl : zone := lz ref c1 c2.
Let rd := resdata_of zl.

(* the two selections of the fast route, as functions of the identity *)
Definition Pin (a : atom) : bool :=
  (mem String.eqb (name a) names && match in_resdata rd (chain a) with Some l => mem Z.eqb (resSeq a) l | None => false end)%bool.
Definition Pout (a : atom) : bool :=
  (mem String.eqb (name a) names && match in_resdata rd (chain a) with Some _ => false | None => true end)%bool.
Lemma Pin_key a b : key3_of a = key3_of b -> Pin a = Pin b.
Proof. unfold Pin, key3_of. intro E. injection E as E1 E2 E3. rewrite E1, E2, E3. reflexivity. Qed.
Lemma Pout_key a b : key3_of a = key3_of b -> Pout a = Pout b.
Proof. unfold Pout, key3_of. intro E. injection E as E1 E2 E3. rewrite E1, E3. reflexivity. Qed.

(* on the reference they are "atom of the long chain" / "atom of the short chain" *)
Lemma Pin_ref r : In r ref -> Pin r = (mem String.eqb (name r) names && String.eqb (chain r) L)%bool.
Proof.
  intro Hr. unfold Pin.
  change (match in_resdata rd (chain r) with Some l => mem Z.eqb (resSeq r) l | None => false end) with (memG rd (chain r) (resSeq r)).
  unfold rd, zl. rewrite (memG_lz ref c1 c2 ref r eq_refl Hr). reflexivity.
Qed.
Lemma Pout_ref r : In r ref -> Pout r = (mem String.eqb (name r) names && String.eqb (chain r) S)%bool.
Proof.
  intro Hr. pose proof (not_in_zone_lz ref c1 c2 names Hch ref eq_refl) as N. unfold not_in_zone_atoms in N.
  (* pointwise version of the filter equality *)
  unfold Pout. f_equal.
  destruct (String.eqb_spec (chain r) L) as [EL|NL].
  - pose proof (memG_lz ref c1 c2 ref r eq_refl Hr) as M. rewrite EL, String.eqb_refl in M. unfold memG in M. rewrite <- EL in M.
    fold zl in M. fold rd in M. destruct (in_resdata rd (chain r)); [|discriminate M].
    symmetry. apply String.eqb_neq. rewrite EL. unfold L, S. destruct (Nat.ltb _ _); [intro X; apply (c1_ne_c2' ref c1 c2 Hch); symmetry; exact X | apply (c1_ne_c2' ref c1 c2 Hch)].
  - unfold rd, zl. rewrite (in_resdata_lz_none ref c1 c2 (chain r) NL). symmetry. apply String.eqb_eq.
    destruct (chain_12 ref c1 c2 Hch ref r eq_refl Hr) as [X|X]; rewrite X in NL |- *; unfold L, S in *; destruct (Nat.ltb _ _); congruence.
Qed.

Let common_in := inter_keys (map key3_of (filter Pin ref)) (map key3_of (filter Pin decoy)).
Let common_out := inter_keys (map key3_of (filter Pout ref)) (map key3_of (filter Pout decoy)).
Hypothesis Order_in : map key3_of (filter (fun a => mem key3_eqb (key3_of a) common_in) decoy)
                      = map key3_of (filter (fun a => mem key3_eqb (key3_of a) common_in) ref).
Hypothesis Order_out : map key3_of (filter (fun a => mem key3_eqb (key3_of a) common_out) decoy)
                       = map key3_of (filter (fun a => mem key3_eqb (key3_of a) common_out) ref).

Theorem lrmsd_fast_is_definition rmat check enforce b :
  (check || enforce)%bool = true -> check_residues enforce (Some names) decoy ref = Ok b ->
  lrmsd_fast rmat zl check enforce names decoy ref
  = match lrmsd_pairs_spec names decoy ref with
    | Some (fit, meas) => msd (superpose_selection rmat (map fst fit) (map snd fit) (map fst meas)) (map snd meas)
    | None => Err "unreachable"
    end.
Proof.
  intros Hce Hcr. unfold lrmsd_fast. rewrite Hce, Hcr. cbn [bind].
  change (in_zone_atoms names (resdata_of zl)) with (fun s => filter Pin s).
  change (not_in_zone_atoms names (resdata_of zl)) with (fun s => filter Pout s). cbv beta.
  fold common_in common_out. unfold get_xyz_by_keys.
  destruct (common_lists_are_identity_pairs decoy ref Pin Ud Pin_key Order_in) as [Din Rin].
  destruct (common_lists_are_identity_pairs decoy ref Pout Ud Pout_key Order_out) as [Dout Rout].
  cbv zeta in Din, Rin, Dout, Rout. fold common_in in Din, Rin. fold common_out in Dout, Rout.
  rewrite Din, Rin, Dout, Rout.
  rewrite (identity_pairs_ext_in Pin (fun r => (mem String.eqb (name r) names && String.eqb (chain r) L)%bool) decoy ref Pin_ref).
  rewrite (identity_pairs_ext_in Pout (fun r => (mem String.eqb (name r) names && String.eqb (chain r) S)%bool) decoy ref Pout_ref).
  rewrite !map_length, Nat.eqb_refl. cbn [negb].
  unfold lrmsd_pairs_spec, long_chain_spec. rewrite Hch. unfold L, S.
  destruct (Nat.ltb (List.length (chain_atoms ref c1)) (List.length (chain_atoms ref c2))); reflexivity.
Qed.
End LDef.

Definition same_order_for (P : atom -> bool) (decoy ref : structure) : Prop :=
  let common := inter_keys (map key3_of (filter P ref)) (map key3_of (filter P decoy)) in
  map key3_of (filter (fun a => mem key3_eqb (key3_of a) common) decoy)
  = map key3_of (filter (fun a => mem key3_eqb (key3_of a) common) ref).

Theorem lrmsd_fast_is_definition' decoy ref c1 c2 names rmat check enforce b :
  NoDup (map key3_of decoy) -> get_chains ref = [c1; c2] ->
  same_order_for (Pin ref c1 c2 names) decoy ref -> same_order_for (Pout ref c1 c2 names) decoy ref ->
  (check || enforce)%bool = true -> check_residues enforce (Some names) decoy ref = Ok b ->
  compute_lzone ref = Ok (lz ref c1 c2) /\
  lrmsd_fast rmat (lz ref c1 c2) check enforce names decoy ref
  = match lrmsd_pairs_spec names decoy ref with
    | Some (fit, meas) => msd (superpose_selection rmat (map fst fit) (map snd fit) (map fst meas)) (map snd meas)
    | None => Err "unreachable"
    end.
Proof.
  intros U H O1 O2 Hce Hcr. split; [exact (compute_lzone_is ref c1 c2 H)|].
  exact (lrmsd_fast_is_definition decoy ref c1 c2 names U H O1 O2 rmat check enforce b Hce Hcr).
Qed.
