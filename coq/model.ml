
type nat =
| O
| S of nat

(** val snd : ('a1 * 'a2) -> 'a2 **)

let snd = function
| (_, y) -> y

type comparison =
| Eq
| Lt
| Gt

(** val compOpp : comparison -> comparison **)

let compOpp = function
| Eq -> Eq
| Lt -> Gt
| Gt -> Lt

module Coq__1 = struct
 (** val add : nat -> nat -> nat **)
 let rec add n m =
   match n with
   | O -> m
   | S p -> S (add p m)
end
include Coq__1

type positive =
| XI of positive
| XO of positive
| XH

type z =
| Z0
| Zpos of positive
| Zneg of positive

(** val eqb : bool -> bool -> bool **)

let eqb b1 b2 =
  if b1 then b2 else if b2 then false else true

module Pos =
 struct
  type mask =
  | IsNul
  | IsPos of positive
  | IsNeg
 end

module Coq_Pos =
 struct
  (** val succ : positive -> positive **)

  let rec succ = function
  | XI p -> XO (succ p)
  | XO p -> XI p
  | XH -> XO XH

  (** val add : positive -> positive -> positive **)

  let rec add x y =
    match x with
    | XI p ->
      (match y with
       | XI q0 -> XO (add_carry p q0)
       | XO q0 -> XI (add p q0)
       | XH -> XO (succ p))
    | XO p ->
      (match y with
       | XI q0 -> XI (add p q0)
       | XO q0 -> XO (add p q0)
       | XH -> XI p)
    | XH -> (match y with
             | XI q0 -> XO (succ q0)
             | XO q0 -> XI q0
             | XH -> XO XH)

  (** val add_carry : positive -> positive -> positive **)

  and add_carry x y =
    match x with
    | XI p ->
      (match y with
       | XI q0 -> XI (add_carry p q0)
       | XO q0 -> XO (add_carry p q0)
       | XH -> XI (succ p))
    | XO p ->
      (match y with
       | XI q0 -> XO (add_carry p q0)
       | XO q0 -> XI (add p q0)
       | XH -> XO (succ p))
    | XH ->
      (match y with
       | XI q0 -> XI (succ q0)
       | XO q0 -> XO (succ q0)
       | XH -> XI XH)

  (** val pred_double : positive -> positive **)

  let rec pred_double = function
  | XI p -> XI (XO p)
  | XO p -> XI (pred_double p)
  | XH -> XH

  type mask = Pos.mask =
  | IsNul
  | IsPos of positive
  | IsNeg

  (** val succ_double_mask : mask -> mask **)

  let succ_double_mask = function
  | IsNul -> IsPos XH
  | IsPos p -> IsPos (XI p)
  | IsNeg -> IsNeg

  (** val double_mask : mask -> mask **)

  let double_mask = function
  | IsPos p -> IsPos (XO p)
  | x0 -> x0

  (** val double_pred_mask : positive -> mask **)

  let double_pred_mask = function
  | XI p -> IsPos (XO (XO p))
  | XO p -> IsPos (XO (pred_double p))
  | XH -> IsNul

  (** val sub_mask : positive -> positive -> mask **)

  let rec sub_mask x y =
    match x with
    | XI p ->
      (match y with
       | XI q0 -> double_mask (sub_mask p q0)
       | XO q0 -> succ_double_mask (sub_mask p q0)
       | XH -> IsPos (XO p))
    | XO p ->
      (match y with
       | XI q0 -> succ_double_mask (sub_mask_carry p q0)
       | XO q0 -> double_mask (sub_mask p q0)
       | XH -> IsPos (pred_double p))
    | XH -> (match y with
             | XH -> IsNul
             | _ -> IsNeg)

  (** val sub_mask_carry : positive -> positive -> mask **)

  and sub_mask_carry x y =
    match x with
    | XI p ->
      (match y with
       | XI q0 -> succ_double_mask (sub_mask_carry p q0)
       | XO q0 -> double_mask (sub_mask p q0)
       | XH -> IsPos (pred_double p))
    | XO p ->
      (match y with
       | XI q0 -> double_mask (sub_mask_carry p q0)
       | XO q0 -> succ_double_mask (sub_mask_carry p q0)
       | XH -> double_pred_mask p)
    | XH -> IsNeg

  (** val sub : positive -> positive -> positive **)

  let sub x y =
    match sub_mask x y with
    | IsPos z0 -> z0
    | _ -> XH

  (** val mul : positive -> positive -> positive **)

  let rec mul x y =
    match x with
    | XI p -> add y (XO (mul p y))
    | XO p -> XO (mul p y)
    | XH -> y

  (** val iter : ('a1 -> 'a1) -> 'a1 -> positive -> 'a1 **)

  let rec iter f x = function
  | XI n' -> f (iter f (iter f x n') n')
  | XO n' -> iter f (iter f x n') n'
  | XH -> f x

  (** val pow : positive -> positive -> positive **)

  let pow x =
    iter (mul x) XH

  (** val size_nat : positive -> nat **)

  let rec size_nat = function
  | XI p0 -> S (size_nat p0)
  | XO p0 -> S (size_nat p0)
  | XH -> S O

  (** val size : positive -> positive **)

  let rec size = function
  | XI p0 -> succ (size p0)
  | XO p0 -> succ (size p0)
  | XH -> XH

  (** val compare_cont : comparison -> positive -> positive -> comparison **)

  let rec compare_cont r x y =
    match x with
    | XI p ->
      (match y with
       | XI q0 -> compare_cont r p q0
       | XO q0 -> compare_cont Gt p q0
       | XH -> Gt)
    | XO p ->
      (match y with
       | XI q0 -> compare_cont Lt p q0
       | XO q0 -> compare_cont r p q0
       | XH -> Gt)
    | XH -> (match y with
             | XH -> r
             | _ -> Lt)

  (** val compare : positive -> positive -> comparison **)

  let compare =
    compare_cont Eq

  (** val ggcdn :
      nat -> positive -> positive -> positive * (positive * positive) **)

  let rec ggcdn n a b =
    match n with
    | O -> (XH, (a, b))
    | S n0 ->
      (match a with
       | XI a' ->
         (match b with
          | XI b' ->
            (match compare a' b' with
             | Eq -> (a, (XH, XH))
             | Lt ->
               let (g, p) = ggcdn n0 (sub b' a') a in
               let (ba, aa) = p in (g, (aa, (add aa (XO ba))))
             | Gt ->
               let (g, p) = ggcdn n0 (sub a' b') b in
               let (ab, bb) = p in (g, ((add bb (XO ab)), bb)))
          | XO b0 ->
            let (g, p) = ggcdn n0 a b0 in
            let (aa, bb) = p in (g, (aa, (XO bb)))
          | XH -> (XH, (a, XH)))
       | XO a0 ->
         (match b with
          | XI _ ->
            let (g, p) = ggcdn n0 a0 b in
            let (aa, bb) = p in (g, ((XO aa), bb))
          | XO b0 -> let (g, p) = ggcdn n0 a0 b0 in ((XO g), p)
          | XH -> (XH, (a, XH)))
       | XH -> (XH, (XH, b)))

  (** val ggcd : positive -> positive -> positive * (positive * positive) **)

  let ggcd a b =
    ggcdn (Coq__1.add (size_nat a) (size_nat b)) a b

  (** val of_succ_nat : nat -> positive **)

  let rec of_succ_nat = function
  | O -> XH
  | S x -> succ (of_succ_nat x)
 end

module Z =
 struct
  (** val double : z -> z **)

  let double = function
  | Z0 -> Z0
  | Zpos p -> Zpos (XO p)
  | Zneg p -> Zneg (XO p)

  (** val succ_double : z -> z **)

  let succ_double = function
  | Z0 -> Zpos XH
  | Zpos p -> Zpos (XI p)
  | Zneg p -> Zneg (Coq_Pos.pred_double p)

  (** val pred_double : z -> z **)

  let pred_double = function
  | Z0 -> Zneg XH
  | Zpos p -> Zpos (Coq_Pos.pred_double p)
  | Zneg p -> Zneg (XI p)

  (** val pos_sub : positive -> positive -> z **)

  let rec pos_sub x y =
    match x with
    | XI p ->
      (match y with
       | XI q0 -> double (pos_sub p q0)
       | XO q0 -> succ_double (pos_sub p q0)
       | XH -> Zpos (XO p))
    | XO p ->
      (match y with
       | XI q0 -> pred_double (pos_sub p q0)
       | XO q0 -> double (pos_sub p q0)
       | XH -> Zpos (Coq_Pos.pred_double p))
    | XH ->
      (match y with
       | XI q0 -> Zneg (XO q0)
       | XO q0 -> Zneg (Coq_Pos.pred_double q0)
       | XH -> Z0)

  (** val add : z -> z -> z **)

  let add x y =
    match x with
    | Z0 -> y
    | Zpos x' ->
      (match y with
       | Z0 -> x
       | Zpos y' -> Zpos (Coq_Pos.add x' y')
       | Zneg y' -> pos_sub x' y')
    | Zneg x' ->
      (match y with
       | Z0 -> x
       | Zpos y' -> pos_sub y' x'
       | Zneg y' -> Zneg (Coq_Pos.add x' y'))

  (** val opp : z -> z **)

  let opp = function
  | Z0 -> Z0
  | Zpos x0 -> Zneg x0
  | Zneg x0 -> Zpos x0

  (** val sub : z -> z -> z **)

  let sub m n =
    add m (opp n)

  (** val mul : z -> z -> z **)

  let mul x y =
    match x with
    | Z0 -> Z0
    | Zpos x' ->
      (match y with
       | Z0 -> Z0
       | Zpos y' -> Zpos (Coq_Pos.mul x' y')
       | Zneg y' -> Zneg (Coq_Pos.mul x' y'))
    | Zneg x' ->
      (match y with
       | Z0 -> Z0
       | Zpos y' -> Zneg (Coq_Pos.mul x' y')
       | Zneg y' -> Zpos (Coq_Pos.mul x' y'))

  (** val pow_pos : z -> positive -> z **)

  let pow_pos z0 =
    Coq_Pos.iter (mul z0) (Zpos XH)

  (** val pow : z -> z -> z **)

  let pow x = function
  | Z0 -> Zpos XH
  | Zpos p -> pow_pos x p
  | Zneg _ -> Z0

  (** val compare : z -> z -> comparison **)

  let compare x y =
    match x with
    | Z0 -> (match y with
             | Z0 -> Eq
             | Zpos _ -> Lt
             | Zneg _ -> Gt)
    | Zpos x' -> (match y with
                  | Zpos y' -> Coq_Pos.compare x' y'
                  | _ -> Gt)
    | Zneg x' ->
      (match y with
       | Zneg y' -> compOpp (Coq_Pos.compare x' y')
       | _ -> Lt)

  (** val sgn : z -> z **)

  let sgn = function
  | Z0 -> Z0
  | Zpos _ -> Zpos XH
  | Zneg _ -> Zneg XH

  (** val leb : z -> z -> bool **)

  let leb x y =
    match compare x y with
    | Gt -> false
    | _ -> true

  (** val ltb : z -> z -> bool **)

  let ltb x y =
    match compare x y with
    | Lt -> true
    | _ -> false

  (** val abs : z -> z **)

  let abs = function
  | Zneg p -> Zpos p
  | x -> x

  (** val of_nat : nat -> z **)

  let of_nat = function
  | O -> Z0
  | S n0 -> Zpos (Coq_Pos.of_succ_nat n0)

  (** val to_pos : z -> positive **)

  let to_pos = function
  | Zpos p -> p
  | _ -> XH

  (** val pos_div_eucl : positive -> z -> z * z **)

  let rec pos_div_eucl a b =
    match a with
    | XI a' ->
      let (q0, r) = pos_div_eucl a' b in
      let r' = add (mul (Zpos (XO XH)) r) (Zpos XH) in
      if ltb r' b
      then ((mul (Zpos (XO XH)) q0), r')
      else ((add (mul (Zpos (XO XH)) q0) (Zpos XH)), (sub r' b))
    | XO a' ->
      let (q0, r) = pos_div_eucl a' b in
      let r' = mul (Zpos (XO XH)) r in
      if ltb r' b
      then ((mul (Zpos (XO XH)) q0), r')
      else ((add (mul (Zpos (XO XH)) q0) (Zpos XH)), (sub r' b))
    | XH -> if leb (Zpos (XO XH)) b then (Z0, (Zpos XH)) else ((Zpos XH), Z0)

  (** val div_eucl : z -> z -> z * z **)

  let div_eucl a b =
    match a with
    | Z0 -> (Z0, Z0)
    | Zpos a' ->
      (match b with
       | Z0 -> (Z0, a)
       | Zpos _ -> pos_div_eucl a' b
       | Zneg b' ->
         let (q0, r) = pos_div_eucl a' (Zpos b') in
         (match r with
          | Z0 -> ((opp q0), Z0)
          | _ -> ((opp (add q0 (Zpos XH))), (add b r))))
    | Zneg a' ->
      (match b with
       | Z0 -> (Z0, a)
       | Zpos _ ->
         let (q0, r) = pos_div_eucl a' b in
         (match r with
          | Z0 -> ((opp q0), Z0)
          | _ -> ((opp (add q0 (Zpos XH))), (sub b r)))
       | Zneg b' -> let (q0, r) = pos_div_eucl a' (Zpos b') in (q0, (opp r)))

  (** val div : z -> z -> z **)

  let div a b =
    let (q0, _) = div_eucl a b in q0

  (** val even : z -> bool **)

  let even = function
  | Z0 -> true
  | Zpos p -> (match p with
               | XO _ -> true
               | _ -> false)
  | Zneg p -> (match p with
               | XO _ -> true
               | _ -> false)

  (** val log2 : z -> z **)

  let log2 = function
  | Zpos p0 ->
    (match p0 with
     | XI p -> Zpos (Coq_Pos.size p)
     | XO p -> Zpos (Coq_Pos.size p)
     | XH -> Z0)
  | _ -> Z0

  (** val ggcd : z -> z -> z * (z * z) **)

  let ggcd a b =
    match a with
    | Z0 -> ((abs b), (Z0, (sgn b)))
    | Zpos a0 ->
      (match b with
       | Z0 -> ((abs a), ((sgn a), Z0))
       | Zpos b0 ->
         let (g, p) = Coq_Pos.ggcd a0 b0 in
         let (aa, bb) = p in ((Zpos g), ((Zpos aa), (Zpos bb)))
       | Zneg b0 ->
         let (g, p) = Coq_Pos.ggcd a0 b0 in
         let (aa, bb) = p in ((Zpos g), ((Zpos aa), (Zneg bb))))
    | Zneg a0 ->
      (match b with
       | Z0 -> ((abs a), ((sgn a), Z0))
       | Zpos b0 ->
         let (g, p) = Coq_Pos.ggcd a0 b0 in
         let (aa, bb) = p in ((Zpos g), ((Zneg aa), (Zpos bb)))
       | Zneg b0 ->
         let (g, p) = Coq_Pos.ggcd a0 b0 in
         let (aa, bb) = p in ((Zpos g), ((Zneg aa), (Zneg bb))))
 end

(** val zeq_bool : z -> z -> bool **)

let zeq_bool x y =
  match Z.compare x y with
  | Eq -> true
  | _ -> false

(** val nth : nat -> 'a1 list -> 'a1 -> 'a1 **)

let rec nth n l default =
  match n with
  | O -> (match l with
          | [] -> default
          | x :: _ -> x)
  | S m -> (match l with
            | [] -> default
            | _ :: t -> nth m t default)

type ascii =
| Ascii of bool * bool * bool * bool * bool * bool * bool * bool

(** val eqb0 : ascii -> ascii -> bool **)

let eqb0 a b =
  let Ascii (a0, a1, a2, a3, a4, a5, a6, a7) = a in
  let Ascii (b0, b1, b2, b3, b4, b5, b6, b7) = b in
  if if if if if if if eqb a0 b0 then eqb a1 b1 else false
                 then eqb a2 b2
                 else false
              then eqb a3 b3
              else false
           then eqb a4 b4
           else false
        then eqb a5 b5
        else false
     then eqb a6 b6
     else false
  then eqb a7 b7
  else false

type string =
| EmptyString
| String of ascii * string

(** val eqb1 : string -> string -> bool **)

let rec eqb1 s1 s2 =
  match s1 with
  | EmptyString ->
    (match s2 with
     | EmptyString -> true
     | String (_, _) -> false)
  | String (c1, s1') ->
    (match s2 with
     | EmptyString -> false
     | String (c2, s2') -> if eqb0 c1 c2 then eqb1 s1' s2' else false)

type q = { qnum : z; qden : positive }

(** val inject_Z : z -> q **)

let inject_Z x =
  { qnum = x; qden = XH }

(** val qcompare : q -> q -> comparison **)

let qcompare p q0 =
  Z.compare (Z.mul p.qnum (Zpos q0.qden)) (Z.mul q0.qnum (Zpos p.qden))

(** val qeq_bool : q -> q -> bool **)

let qeq_bool x y =
  zeq_bool (Z.mul x.qnum (Zpos y.qden)) (Z.mul y.qnum (Zpos x.qden))

(** val qle_bool : q -> q -> bool **)

let qle_bool x y =
  Z.leb (Z.mul x.qnum (Zpos y.qden)) (Z.mul y.qnum (Zpos x.qden))

(** val qplus : q -> q -> q **)

let qplus x y =
  { qnum = (Z.add (Z.mul x.qnum (Zpos y.qden)) (Z.mul y.qnum (Zpos x.qden)));
    qden = (Coq_Pos.mul x.qden y.qden) }

(** val qmult : q -> q -> q **)

let qmult x y =
  { qnum = (Z.mul x.qnum y.qnum); qden = (Coq_Pos.mul x.qden y.qden) }

(** val qopp : q -> q **)

let qopp x =
  { qnum = (Z.opp x.qnum); qden = x.qden }

(** val qminus : q -> q -> q **)

let qminus x y =
  qplus x (qopp y)

(** val qinv : q -> q **)

let qinv x =
  match x.qnum with
  | Z0 -> { qnum = Z0; qden = XH }
  | Zpos p -> { qnum = (Zpos x.qden); qden = p }
  | Zneg p -> { qnum = (Zneg x.qden); qden = p }

(** val qdiv : q -> q -> q **)

let qdiv x y =
  qmult x (qinv y)

(** val qred : q -> q **)

let qred q0 =
  let { qnum = q1; qden = q2 } = q0 in
  let (r1, r2) = snd (Z.ggcd q1 (Zpos q2)) in
  { qnum = r1; qden = (Z.to_pos r2) }

(** val qabs : q -> q **)

let qabs x =
  let { qnum = n; qden = d } = x in { qnum = (Z.abs n); qden = d }

type v =
| VZ of z
| VS of string
| VL of v list

(** val vQ : q -> v **)

let vQ q0 =
  VL ((VZ q0.qnum) :: ((VZ (Zpos q0.qden)) :: []))

(** val vErr : string -> v **)

let vErr s =
  VL ((VS (String ((Ascii (true, false, true, false, false, false, true,
    false)), (String ((Ascii (false, true, false, false, true, false, true,
    false)), (String ((Ascii (false, true, false, false, true, false, true,
    false)), EmptyString))))))) :: ((VS s) :: []))

(** val vOk : v -> v **)

let vOk v0 =
  VL ((VS (String ((Ascii (true, true, true, true, false, false, true,
    false)), (String ((Ascii (true, true, false, true, false, false, true,
    false)), EmptyString))))) :: (v0 :: []))

(** val getS : v -> string **)

let getS = function
| VS s -> s
| _ -> EmptyString

(** val getQ : v -> q **)

let getQ = function
| VZ n -> inject_Z n
| VS _ -> { qnum = Z0; qden = XH }
| VL l ->
  (match l with
   | [] -> { qnum = Z0; qden = XH }
   | v1 :: l0 ->
     (match v1 with
      | VZ n ->
        (match l0 with
         | [] -> { qnum = Z0; qden = XH }
         | v2 :: l1 ->
           (match v2 with
            | VZ d ->
              (match l1 with
               | [] ->
                 (match d with
                  | Zpos p -> { qnum = n; qden = p }
                  | _ -> { qnum = Z0; qden = XH })
               | _ :: _ -> { qnum = Z0; qden = XH })
            | _ -> { qnum = Z0; qden = XH }))
      | _ -> { qnum = Z0; qden = XH }))

type 'a res =
| Ok of 'a
| Err of string

(** val qltb : q -> q -> bool **)

let qltb a b =
  Z.ltb (Z.mul a.qnum (Zpos b.qden)) (Z.mul b.qnum (Zpos a.qden))

(** val qleb : q -> q -> bool **)

let qleb =
  qle_bool

(** val qsqr : q -> q **)

let qsqr a =
  qmult a a

(** val qfloor' : q -> z **)

let qfloor' q0 =
  Z.div q0.qnum (Zpos q0.qden)

(** val round_half_even : q -> z **)

let round_half_even q0 =
  let f = qfloor' q0 in
  let r = qminus q0 (inject_Z f) in
  (match qcompare r { qnum = (Zpos XH); qden = (XO XH) } with
   | Eq -> if Z.even f then f else Z.add f (Zpos XH)
   | Lt -> f
   | Gt -> Z.add f (Zpos XH))

(** val qpow2 : z -> q **)

let qpow2 = function
| Z0 -> { qnum = (Zpos XH); qden = XH }
| Zpos p -> inject_Z (Z.pow (Zpos (XO XH)) (Zpos p))
| Zneg p -> { qnum = (Zpos XH); qden = (Coq_Pos.pow (XO XH) p) }

(** val b64 : q -> q **)

let b64 q0 =
  if qeq_bool q0 { qnum = Z0; qden = XH }
  then { qnum = Z0; qden = XH }
  else let a = qabs q0 in
       let e0 =
         Z.sub (Z.sub (Z.log2 a.qnum) (Z.log2 (Zpos a.qden))) (Zpos (XO (XO
           (XI (XO (XI XH))))))
       in
       let e =
         if qle_bool
              (inject_Z
                (Z.pow (Zpos (XO XH)) (Zpos (XO (XO (XI (XO (XI XH))))))))
              (qmult a (qpow2 (Z.opp e0)))
         then e0
         else Z.sub e0 (Zpos XH)
       in
       let m = round_half_even (qmult a (qpow2 (Z.opp e))) in
       let v0 = qred (qmult (inject_Z m) (qpow2 e)) in
       if qle_bool { qnum = Z0; qden = XH } q0 then v0 else qred (qopp v0)

(** val pow10 : nat -> z **)

let pow10 n =
  Z.pow (Zpos (XO (XI (XO XH)))) (Z.of_nat n)

(** val round_dec : nat -> q -> q **)

let round_dec k q0 =
  qred { qnum =
    (if qltb q0 { qnum = Z0; qden = XH }
     then Z.opp (round_half_even (qmult (qabs q0) (inject_Z (pow10 k))))
     else round_half_even (qmult q0 (inject_Z (pow10 k)))); qden =
    (Z.to_pos (pow10 k)) }

(** val capri_src : q -> q -> q -> string -> string res **)

let capri_src fnat_1 lrmsd_2 irmsd_3 system_4 =
  if eqb1 system_4 (String ((Ascii (false, false, false, false, true, true,
       true, false)), (String ((Ascii (false, true, false, false, true, true,
       true, false)), (String ((Ascii (true, true, true, true, false, true,
       true, false)), (String ((Ascii (false, false, true, false, true, true,
       true, false)), (String ((Ascii (true, false, true, false, false, true,
       true, false)), (String ((Ascii (true, false, false, true, false, true,
       true, false)), (String ((Ascii (false, true, true, true, false, true,
       true, false)), (String ((Ascii (true, false, true, true, false, true,
       false, false)), (String ((Ascii (false, false, false, false, true,
       true, true, false)), (String ((Ascii (false, true, false, false, true,
       true, true, false)), (String ((Ascii (true, true, true, true, false,
       true, true, false)), (String ((Ascii (false, false, true, false, true,
       true, true, false)), (String ((Ascii (true, false, true, false, false,
       true, true, false)), (String ((Ascii (true, false, false, true, false,
       true, true, false)), (String ((Ascii (false, true, true, true, false,
       true, true, false)), EmptyString))))))))))))))))))))))))))))))
  then if (||)
            (qltb fnat_1 { qnum = (Zpos (XI (XO (XI (XI (XO (XO (XI (XI (XO
              (XO (XI (XI (XO (XO (XI (XI (XO (XO (XI (XI (XO (XO (XI (XI (XO
              (XO (XI (XI (XO (XO (XI (XI (XO (XO (XI (XI (XO (XO (XI (XI (XO
              (XO (XI (XI (XO (XO (XI (XI (XO (XO (XI
              XH)))))))))))))))))))))))))))))))))))))))))))))))))))); qden =
              (XO (XO (XO (XO (XO (XO (XO (XO (XO (XO (XO (XO (XO (XO (XO (XO
              (XO (XO (XO (XO (XO (XO (XO (XO (XO (XO (XO (XO (XO (XO (XO (XO
              (XO (XO (XO (XO (XO (XO (XO (XO (XO (XO (XO (XO (XO (XO (XO (XO
              (XO (XO (XO (XO (XO (XO (XO
              XH))))))))))))))))))))))))))))))))))))))))))))))))))))))) })
            ((&&)
              (qltb { qnum = (Zpos (XO (XI (XO XH)))); qden = XH } lrmsd_2)
              (qltb { qnum = (Zpos (XO (XO XH))); qden = XH } irmsd_3))
       then let label_5 = String ((Ascii (true, false, false, true, false,
              true, true, false)), (String ((Ascii (false, true, true, true,
              false, true, true, false)), (String ((Ascii (true, true, false,
              false, false, true, true, false)), (String ((Ascii (true, true,
              true, true, false, true, true, false)), (String ((Ascii (false,
              true, false, false, true, true, true, false)), (String ((Ascii
              (false, true, false, false, true, true, true, false)), (String
              ((Ascii (true, false, true, false, false, true, true, false)),
              (String ((Ascii (true, true, false, false, false, true, true,
              false)), (String ((Ascii (false, false, true, false, true,
              true, true, false)), EmptyString)))))))))))))))))
            in
            Ok label_5
       else if (||)
                 ((&&)
                   ((&&)
                     (qleb { qnum = (Zpos (XI (XO (XI (XI (XO (XO (XI (XI (XO
                       (XO (XI (XI (XO (XO (XI (XI (XO (XO (XI (XI (XO (XO
                       (XI (XI (XO (XO (XI (XI (XO (XO (XI (XI (XO (XO (XI
                       (XI (XO (XO (XI (XI (XO (XO (XI (XI (XO (XO (XI (XI
                       (XO (XO (XI
                       XH))))))))))))))))))))))))))))))))))))))))))))))))))));
                       qden = (XO (XO (XO (XO (XO (XO (XO (XO (XO (XO (XO (XO
                       (XO (XO (XO (XO (XO (XO (XO (XO (XO (XO (XO (XO (XO
                       (XO (XO (XO (XO (XO (XO (XO (XO (XO (XO (XO (XO (XO
                       (XO (XO (XO (XO (XO (XO (XO (XO (XO (XO (XO (XO (XO
                       (XO (XO (XO (XO
                       XH))))))))))))))))))))))))))))))))))))))))))))))))))))))) }
                       fnat_1)
                     (qltb fnat_1 { qnum = (Zpos (XI (XI (XO (XO (XI (XI (XO
                       (XO (XI (XI (XO (XO (XI (XI (XO (XO (XI (XI (XO (XO
                       (XI (XI (XO (XO (XI (XI (XO (XO (XI (XI (XO (XO (XI
                       (XI (XO (XO (XI (XI (XO (XO (XI (XI (XO (XO (XI (XI
                       (XO (XO (XI (XI (XO (XO
                       XH)))))))))))))))))))))))))))))))))))))))))))))))))))));
                       qden = (XO (XO (XO (XO (XO (XO (XO (XO (XO (XO (XO (XO
                       (XO (XO (XO (XO (XO (XO (XO (XO (XO (XO (XO (XO (XO
                       (XO (XO (XO (XO (XO (XO (XO (XO (XO (XO (XO (XO (XO
                       (XO (XO (XO (XO (XO (XO (XO (XO (XO (XO (XO (XO (XO
                       (XO (XO (XO
                       XH)))))))))))))))))))))))))))))))))))))))))))))))))))))) }))
                   ((||)
                     (qleb lrmsd_2 { qnum = (Zpos (XO (XI (XO XH)))); qden =
                       XH })
                     (qleb irmsd_3 { qnum = (Zpos (XO (XO XH))); qden = XH })))
                 ((&&)
                   ((&&)
                     (qleb { qnum = (Zpos (XI (XI (XO (XO (XI (XI (XO (XO (XI
                       (XI (XO (XO (XI (XI (XO (XO (XI (XI (XO (XO (XI (XI
                       (XO (XO (XI (XI (XO (XO (XI (XI (XO (XO (XI (XI (XO
                       (XO (XI (XI (XO (XO (XI (XI (XO (XO (XI (XI (XO (XO
                       (XI (XI (XO (XO
                       XH)))))))))))))))))))))))))))))))))))))))))))))))))))));
                       qden = (XO (XO (XO (XO (XO (XO (XO (XO (XO (XO (XO (XO
                       (XO (XO (XO (XO (XO (XO (XO (XO (XO (XO (XO (XO (XO
                       (XO (XO (XO (XO (XO (XO (XO (XO (XO (XO (XO (XO (XO
                       (XO (XO (XO (XO (XO (XO (XO (XO (XO (XO (XO (XO (XO
                       (XO (XO (XO
                       XH)))))))))))))))))))))))))))))))))))))))))))))))))))))) }
                       fnat_1)
                     (qltb { qnum = (Zpos (XI (XO XH))); qden = XH } lrmsd_2))
                   (qltb { qnum = (Zpos (XO XH)); qden = XH } irmsd_3))
            then let label_6 = String ((Ascii (true, false, false, false,
                   false, true, true, false)), (String ((Ascii (true, true,
                   false, false, false, true, true, false)), (String ((Ascii
                   (true, true, false, false, false, true, true, false)),
                   (String ((Ascii (true, false, true, false, false, true,
                   true, false)), (String ((Ascii (false, false, false,
                   false, true, true, true, false)), (String ((Ascii (false,
                   false, true, false, true, true, true, false)), (String
                   ((Ascii (true, false, false, false, false, true, true,
                   false)), (String ((Ascii (false, true, false, false,
                   false, true, true, false)), (String ((Ascii (false, false,
                   true, true, false, true, true, false)), (String ((Ascii
                   (true, false, true, false, false, true, true, false)),
                   EmptyString)))))))))))))))))))
                 in
                 Ok label_6
            else if (||)
                      ((&&)
                        ((&&)
                          (qleb { qnum = (Zpos (XI (XI (XO (XO (XI (XI (XO
                            (XO (XI (XI (XO (XO (XI (XI (XO (XO (XI (XI (XO
                            (XO (XI (XI (XO (XO (XI (XI (XO (XO (XI (XI (XO
                            (XO (XI (XI (XO (XO (XI (XI (XO (XO (XI (XI (XO
                            (XO (XI (XI (XO (XO (XI (XI (XO (XO
                            XH)))))))))))))))))))))))))))))))))))))))))))))))))))));
                            qden = (XO (XO (XO (XO (XO (XO (XO (XO (XO (XO
                            (XO (XO (XO (XO (XO (XO (XO (XO (XO (XO (XO (XO
                            (XO (XO (XO (XO (XO (XO (XO (XO (XO (XO (XO (XO
                            (XO (XO (XO (XO (XO (XO (XO (XO (XO (XO (XO (XO
                            (XO (XO (XO (XO (XO (XO (XO (XO
                            XH)))))))))))))))))))))))))))))))))))))))))))))))))))))) }
                            fnat_1)
                          (qltb fnat_1 { qnum = (Zpos XH); qden = (XO XH) }))
                        ((||)
                          (qleb lrmsd_2 { qnum = (Zpos (XI (XO XH))); qden =
                            XH })
                          (qleb irmsd_3 { qnum = (Zpos (XO XH)); qden = XH })))
                      ((&&)
                        ((&&)
                          (qleb { qnum = (Zpos XH); qden = (XO XH) } fnat_1)
                          (qltb { qnum = (Zpos XH); qden = XH } lrmsd_2))
                        (qltb { qnum = (Zpos XH); qden = XH } irmsd_3))
                 then let label_7 = String ((Ascii (true, false, true, true,
                        false, true, true, false)), (String ((Ascii (true,
                        false, true, false, false, true, true, false)),
                        (String ((Ascii (false, false, true, false, false,
                        true, true, false)), (String ((Ascii (true, false,
                        false, true, false, true, true, false)), (String
                        ((Ascii (true, false, true, false, true, true, true,
                        false)), (String ((Ascii (true, false, true, true,
                        false, true, true, false)), EmptyString)))))))))))
                      in
                      Ok label_7
                 else if (&&)
                           (qleb { qnum = (Zpos XH); qden = (XO XH) } fnat_1)
                           ((||)
                             (qleb lrmsd_2 { qnum = (Zpos XH); qden = XH })
                             (qleb irmsd_3 { qnum = (Zpos XH); qden = XH }))
                      then let label_8 = String ((Ascii (false, false, false,
                             true, false, true, true, false)), (String
                             ((Ascii (true, false, false, true, false, true,
                             true, false)), (String ((Ascii (true, true,
                             true, false, false, true, true, false)), (String
                             ((Ascii (false, false, false, true, false, true,
                             true, false)), EmptyString)))))))
                           in
                           Ok label_8
                      else Err (String ((Ascii (true, false, true, false,
                             true, false, true, false)), (String ((Ascii
                             (false, true, true, true, false, true, true,
                             false)), (String ((Ascii (false, true, false,
                             false, false, true, true, false)), (String
                             ((Ascii (true, true, true, true, false, true,
                             true, false)), (String ((Ascii (true, false,
                             true, false, true, true, true, false)), (String
                             ((Ascii (false, true, true, true, false, true,
                             true, false)), (String ((Ascii (false, false,
                             true, false, false, true, true, false)), (String
                             ((Ascii (false, false, true, true, false, false,
                             true, false)), (String ((Ascii (true, true,
                             true, true, false, true, true, false)), (String
                             ((Ascii (true, true, false, false, false, true,
                             true, false)), (String ((Ascii (true, false,
                             false, false, false, true, true, false)),
                             (String ((Ascii (false, false, true, true,
                             false, true, true, false)), (String ((Ascii
                             (true, false, true, false, false, false, true,
                             false)), (String ((Ascii (false, true, false,
                             false, true, true, true, false)), (String
                             ((Ascii (false, true, false, false, true, true,
                             true, false)), (String ((Ascii (true, true,
                             true, true, false, true, true, false)), (String
                             ((Ascii (false, true, false, false, true, true,
                             true, false)),
                             EmptyString))))))))))))))))))))))))))))))))))
  else Err (String ((Ascii (true, false, true, false, true, false, true,
         false)), (String ((Ascii (false, true, true, true, false, true,
         true, false)), (String ((Ascii (false, true, false, false, false,
         true, true, false)), (String ((Ascii (true, true, true, true, false,
         true, true, false)), (String ((Ascii (true, false, true, false,
         true, true, true, false)), (String ((Ascii (false, true, true, true,
         false, true, true, false)), (String ((Ascii (false, false, true,
         false, false, true, true, false)), (String ((Ascii (false, false,
         true, true, false, false, true, false)), (String ((Ascii (true,
         true, true, true, false, true, true, false)), (String ((Ascii (true,
         true, false, false, false, true, true, false)), (String ((Ascii
         (true, false, false, false, false, true, true, false)), (String
         ((Ascii (false, false, true, true, false, true, true, false)),
         (String ((Ascii (true, false, true, false, false, false, true,
         false)), (String ((Ascii (false, true, false, false, true, true,
         true, false)), (String ((Ascii (false, true, false, false, true,
         true, true, false)), (String ((Ascii (true, true, true, true, false,
         true, true, false)), (String ((Ascii (false, true, false, false,
         true, true, true, false)),
         EmptyString))))))))))))))))))))))))))))))))))

(** val scale_rms_src : q -> q -> q **)

let scale_rms_src rms_1 d_2 =
  qdiv { qnum = (Zpos XH); qden = XH }
    (qplus { qnum = (Zpos XH); qden = XH } (qsqr (qdiv rms_1 d_2)))

(** val dockq_raw_src : q -> q -> q -> q -> q -> q **)

let dockq_raw_src fnat_1 lrmsd_2 irmsd_3 d1_4 d2_5 =
  qmult
    (qdiv { qnum = (Zpos XH); qden = XH } { qnum = (Zpos (XI XH)); qden =
      XH })
    (qplus (qplus fnat_1 (scale_rms_src lrmsd_2 d1_4))
      (scale_rms_src irmsd_3 d2_5))

(** val dockq_digits_src : nat **)

let dockq_digits_src =
  S (S (S (S (S (S O)))))

(** val dockq_d1_src : q **)

let dockq_d1_src =
  { qnum = (Zpos (XI (XO (XO (XO XH))))); qden = (XO XH) }

(** val dockq_d2_src : q **)

let dockq_d2_src =
  { qnum = (Zpos (XI XH)); qden = (XO XH) }

(** val capri : q -> q -> q -> string res **)

let capri f l i =
  capri_src f l i (String ((Ascii (false, false, false, false, true, true,
    true, false)), (String ((Ascii (false, true, false, false, true, true,
    true, false)), (String ((Ascii (true, true, true, true, false, true,
    true, false)), (String ((Ascii (false, false, true, false, true, true,
    true, false)), (String ((Ascii (true, false, true, false, false, true,
    true, false)), (String ((Ascii (true, false, false, true, false, true,
    true, false)), (String ((Ascii (false, true, true, true, false, true,
    true, false)), (String ((Ascii (true, false, true, true, false, true,
    false, false)), (String ((Ascii (false, false, false, false, true, true,
    true, false)), (String ((Ascii (false, true, false, false, true, true,
    true, false)), (String ((Ascii (true, true, true, true, false, true,
    true, false)), (String ((Ascii (false, false, true, false, true, true,
    true, false)), (String ((Ascii (true, false, true, false, false, true,
    true, false)), (String ((Ascii (true, false, false, true, false, true,
    true, false)), (String ((Ascii (false, true, true, true, false, true,
    true, false)), EmptyString))))))))))))))))))))))))))))))

(** val dockq : q -> q -> q -> q -> q -> q **)

let dockq f l i d1 d2 =
  round_dec dockq_digits_src (dockq_raw_src f l i d1 d2)

type capri_class =
| Incorrect
| Acceptable
| Medium
| High

(** val class_name : capri_class -> string **)

let class_name = function
| Incorrect ->
  String ((Ascii (true, false, false, true, false, true, true, false)),
    (String ((Ascii (false, true, true, true, false, true, true, false)),
    (String ((Ascii (true, true, false, false, false, true, true, false)),
    (String ((Ascii (true, true, true, true, false, true, true, false)),
    (String ((Ascii (false, true, false, false, true, true, true, false)),
    (String ((Ascii (false, true, false, false, true, true, true, false)),
    (String ((Ascii (true, false, true, false, false, true, true, false)),
    (String ((Ascii (true, true, false, false, false, true, true, false)),
    (String ((Ascii (false, false, true, false, true, true, true, false)),
    EmptyString)))))))))))))))))
| Acceptable ->
  String ((Ascii (true, false, false, false, false, true, true, false)),
    (String ((Ascii (true, true, false, false, false, true, true, false)),
    (String ((Ascii (true, true, false, false, false, true, true, false)),
    (String ((Ascii (true, false, true, false, false, true, true, false)),
    (String ((Ascii (false, false, false, false, true, true, true, false)),
    (String ((Ascii (false, false, true, false, true, true, true, false)),
    (String ((Ascii (true, false, false, false, false, true, true, false)),
    (String ((Ascii (false, true, false, false, false, true, true, false)),
    (String ((Ascii (false, false, true, true, false, true, true, false)),
    (String ((Ascii (true, false, true, false, false, true, true, false)),
    EmptyString)))))))))))))))))))
| Medium ->
  String ((Ascii (true, false, true, true, false, true, true, false)),
    (String ((Ascii (true, false, true, false, false, true, true, false)),
    (String ((Ascii (false, false, true, false, false, true, true, false)),
    (String ((Ascii (true, false, false, true, false, true, true, false)),
    (String ((Ascii (true, false, true, false, true, true, true, false)),
    (String ((Ascii (true, false, true, true, false, true, true, false)),
    EmptyString)))))))))))
| High ->
  String ((Ascii (false, false, false, true, false, true, true, false)),
    (String ((Ascii (true, false, false, true, false, true, true, false)),
    (String ((Ascii (true, true, true, false, false, true, true, false)),
    (String ((Ascii (false, false, false, true, false, true, true, false)),
    EmptyString)))))))

(** val t01 : q **)

let t01 =
  b64 { qnum = (Zpos XH); qden = (XO (XI (XO XH))) }

(** val t03 : q **)

let t03 =
  b64 { qnum = (Zpos (XI XH)); qden = (XO (XI (XO XH))) }

(** val t05 : q **)

let t05 =
  b64 { qnum = (Zpos (XI (XO XH))); qden = (XO (XI (XO XH))) }

(** val levelb : nat -> q -> q -> q -> bool **)

let levelb k f l i =
  match k with
  | O -> true
  | S n ->
    (match n with
     | O ->
       (&&) (qleb t01 f)
         ((||) (qleb l { qnum = (Zpos (XO (XI (XO XH)))); qden = XH })
           (qleb i { qnum = (Zpos (XO (XO XH))); qden = XH }))
     | S n0 ->
       (match n0 with
        | O ->
          (&&) (qleb t03 f)
            ((||) (qleb l { qnum = (Zpos (XI (XO XH))); qden = XH })
              (qleb i { qnum = (Zpos (XO XH)); qden = XH }))
        | S _ ->
          (&&) (qleb t05 f)
            ((||) (qleb l { qnum = (Zpos XH); qden = XH })
              (qleb i { qnum = (Zpos XH); qden = XH }))))

(** val capri_spec : q -> q -> q -> capri_class **)

let capri_spec f l i =
  if levelb (S (S (S O))) f l i
  then High
  else if levelb (S (S O)) f l i
       then Medium
       else if levelb (S O) f l i then Acceptable else Incorrect

(** val dockq_formula : q -> q -> q -> q -> q -> q **)

let dockq_formula f l i d1 d2 =
  qdiv
    (qplus
      (qplus f
        (qdiv { qnum = (Zpos XH); qden = XH }
          (qplus { qnum = (Zpos XH); qden = XH }
            (qmult (qdiv l d1) (qdiv l d1)))))
      (qdiv { qnum = (Zpos XH); qden = XH }
        (qplus { qnum = (Zpos XH); qden = XH }
          (qmult (qdiv i d2) (qdiv i d2))))) { qnum = (Zpos (XI XH)); qden =
    XH }

(** val vresS : string res -> v **)

let vresS = function
| Ok s -> vOk (VS s)
| Err e -> vErr e

(** val run_scores : string -> v list -> v option **)

let run_scores cmd a =
  if eqb1 cmd (String ((Ascii (true, true, false, false, false, true, true,
       false)), (String ((Ascii (true, false, false, false, false, true,
       true, false)), (String ((Ascii (false, false, false, false, true,
       true, true, false)), (String ((Ascii (false, true, false, false, true,
       true, true, false)), (String ((Ascii (true, false, false, true, false,
       true, true, false)), EmptyString))))))))))
  then Some
         (vresS
           (capri (getQ (nth O a (VZ Z0))) (getQ (nth (S O) a (VZ Z0)))
             (getQ (nth (S (S O)) a (VZ Z0)))))
  else if eqb1 cmd (String ((Ascii (true, true, false, false, false, true,
            true, false)), (String ((Ascii (true, false, false, false, false,
            true, true, false)), (String ((Ascii (false, false, false, false,
            true, true, true, false)), (String ((Ascii (false, true, false,
            false, true, true, true, false)), (String ((Ascii (true, false,
            false, true, false, true, true, false)), (String ((Ascii (true,
            true, true, true, true, false, true, false)), (String ((Ascii
            (true, true, false, false, true, true, true, false)), (String
            ((Ascii (true, false, false, true, true, true, true, false)),
            (String ((Ascii (true, true, false, false, true, true, true,
            false)), EmptyString))))))))))))))))))
       then Some
              (vresS
                (capri_src (getQ (nth O a (VZ Z0)))
                  (getQ (nth (S O) a (VZ Z0)))
                  (getQ (nth (S (S O)) a (VZ Z0)))
                  (getS (nth (S (S (S O))) a (VZ Z0)))))
       else if eqb1 cmd (String ((Ascii (true, true, false, false, true,
                 true, true, false)), (String ((Ascii (false, false, false,
                 false, true, true, true, false)), (String ((Ascii (true,
                 false, true, false, false, true, true, false)), (String
                 ((Ascii (true, true, false, false, false, true, true,
                 false)), (String ((Ascii (false, true, true, true, false,
                 true, false, false)), (String ((Ascii (true, true, false,
                 false, false, true, true, false)), (String ((Ascii (true,
                 false, false, false, false, true, true, false)), (String
                 ((Ascii (false, false, false, false, true, true, true,
                 false)), (String ((Ascii (false, true, false, false, true,
                 true, true, false)), (String ((Ascii (true, false, false,
                 true, false, true, true, false)),
                 EmptyString))))))))))))))))))))
            then Some
                   (vOk (VS
                     (class_name
                       (capri_spec (getQ (nth O a (VZ Z0)))
                         (getQ (nth (S O) a (VZ Z0)))
                         (getQ (nth (S (S O)) a (VZ Z0)))))))
            else if eqb1 cmd (String ((Ascii (false, false, true, false,
                      false, true, true, false)), (String ((Ascii (true,
                      true, true, true, false, true, true, false)), (String
                      ((Ascii (true, true, false, false, false, true, true,
                      false)), (String ((Ascii (true, true, false, true,
                      false, true, true, false)), (String ((Ascii (true,
                      false, false, false, true, true, true, false)),
                      EmptyString))))))))))
                 then Some
                        (vQ
                          (dockq (getQ (nth O a (VZ Z0)))
                            (getQ (nth (S O) a (VZ Z0)))
                            (getQ (nth (S (S O)) a (VZ Z0)))
                            (getQ (nth (S (S (S O))) a (VZ Z0)))
                            (getQ (nth (S (S (S (S O)))) a (VZ Z0)))))
                 else if eqb1 cmd (String ((Ascii (false, false, true, false,
                           false, true, true, false)), (String ((Ascii (true,
                           true, true, true, false, true, true, false)),
                           (String ((Ascii (true, true, false, false, false,
                           true, true, false)), (String ((Ascii (true, true,
                           false, true, false, true, true, false)), (String
                           ((Ascii (true, false, false, false, true, true,
                           true, false)), (String ((Ascii (true, true, true,
                           true, true, false, true, false)), (String ((Ascii
                           (false, true, false, false, true, true, true,
                           false)), (String ((Ascii (true, false, false,
                           false, false, true, true, false)), (String ((Ascii
                           (true, true, true, false, true, true, true,
                           false)), EmptyString))))))))))))))))))
                      then Some
                             (vQ
                               (qred
                                 (dockq_raw_src (getQ (nth O a (VZ Z0)))
                                   (getQ (nth (S O) a (VZ Z0)))
                                   (getQ (nth (S (S O)) a (VZ Z0)))
                                   (getQ (nth (S (S (S O))) a (VZ Z0)))
                                   (getQ (nth (S (S (S (S O)))) a (VZ Z0))))))
                      else if eqb1 cmd (String ((Ascii (true, true, false,
                                false, true, true, true, false)), (String
                                ((Ascii (false, false, false, false, true,
                                true, true, false)), (String ((Ascii (true,
                                false, true, false, false, true, true,
                                false)), (String ((Ascii (true, true, false,
                                false, false, true, true, false)), (String
                                ((Ascii (false, true, true, true, false,
                                true, false, false)), (String ((Ascii (false,
                                false, true, false, false, true, true,
                                false)), (String ((Ascii (true, true, true,
                                true, false, true, true, false)), (String
                                ((Ascii (true, true, false, false, false,
                                true, true, false)), (String ((Ascii (true,
                                true, false, true, false, true, true,
                                false)), (String ((Ascii (true, false, false,
                                false, true, true, true, false)),
                                EmptyString))))))))))))))))))))
                           then Some
                                  (vQ
                                    (round_dec (S (S (S (S (S (S O))))))
                                      (dockq_formula (getQ (nth O a (VZ Z0)))
                                        (getQ (nth (S O) a (VZ Z0)))
                                        (getQ (nth (S (S O)) a (VZ Z0)))
                                        (getQ (nth (S (S (S O))) a (VZ Z0)))
                                        (getQ
                                          (nth (S (S (S (S O)))) a (VZ Z0))))))
                           else if eqb1 cmd (String ((Ascii (false, false,
                                     true, false, false, true, true, false)),
                                     (String ((Ascii (true, true, true, true,
                                     false, true, true, false)), (String
                                     ((Ascii (true, true, false, false,
                                     false, true, true, false)), (String
                                     ((Ascii (true, true, false, true, false,
                                     true, true, false)), (String ((Ascii
                                     (true, false, false, false, true, true,
                                     true, false)), (String ((Ascii (true,
                                     true, true, true, true, false, true,
                                     false)), (String ((Ascii (false, false,
                                     true, false, false, true, true, false)),
                                     (String ((Ascii (true, false, true,
                                     false, false, true, true, false)),
                                     (String ((Ascii (false, true, true,
                                     false, false, true, true, false)),
                                     (String ((Ascii (true, false, false,
                                     false, false, true, true, false)),
                                     (String ((Ascii (true, false, true,
                                     false, true, true, true, false)),
                                     (String ((Ascii (false, false, true,
                                     true, false, true, true, false)),
                                     (String ((Ascii (false, false, true,
                                     false, true, true, true, false)),
                                     (String ((Ascii (true, true, false,
                                     false, true, true, true, false)),
                                     EmptyString))))))))))))))))))))))))))))
                                then Some (VL
                                       ((vQ dockq_d1_src) :: ((vQ
                                                                dockq_d2_src) :: [])))
                                else None

(** val run : v -> v **)

let run = function
| VL l ->
  (match l with
   | [] ->
     vErr (String ((Ascii (false, true, false, false, false, true, true,
       false)), (String ((Ascii (true, false, false, false, false, true,
       true, false)), (String ((Ascii (false, false, true, false, false,
       true, true, false)), (String ((Ascii (true, false, true, true, false,
       true, false, false)), (String ((Ascii (false, true, false, false,
       true, true, true, false)), (String ((Ascii (true, false, true, false,
       false, true, true, false)), (String ((Ascii (true, false, false,
       false, true, true, true, false)), (String ((Ascii (true, false, true,
       false, true, true, true, false)), (String ((Ascii (true, false, true,
       false, false, true, true, false)), (String ((Ascii (true, true, false,
       false, true, true, true, false)), (String ((Ascii (false, false, true,
       false, true, true, true, false)), EmptyString))))))))))))))))))))))
   | v1 :: args ->
     (match v1 with
      | VS cmd ->
        (match run_scores cmd args with
         | Some r -> r
         | None ->
           vErr (String ((Ascii (true, false, true, false, true, true, true,
             false)), (String ((Ascii (false, true, true, true, false, true,
             true, false)), (String ((Ascii (true, true, false, true, false,
             true, true, false)), (String ((Ascii (false, true, true, true,
             false, true, true, false)), (String ((Ascii (true, true, true,
             true, false, true, true, false)), (String ((Ascii (true, true,
             true, false, true, true, true, false)), (String ((Ascii (false,
             true, true, true, false, true, true, false)), (String ((Ascii
             (true, false, true, true, false, true, false, false)), (String
             ((Ascii (true, true, false, false, false, true, true, false)),
             (String ((Ascii (true, true, true, true, false, true, true,
             false)), (String ((Ascii (true, false, true, true, false, true,
             true, false)), (String ((Ascii (true, false, true, true, false,
             true, true, false)), (String ((Ascii (true, false, false, false,
             false, true, true, false)), (String ((Ascii (false, true, true,
             true, false, true, true, false)), (String ((Ascii (false, false,
             true, false, false, true, true, false)),
             EmptyString)))))))))))))))))))))))))))))))
      | _ ->
        vErr (String ((Ascii (false, true, false, false, false, true, true,
          false)), (String ((Ascii (true, false, false, false, false, true,
          true, false)), (String ((Ascii (false, false, true, false, false,
          true, true, false)), (String ((Ascii (true, false, true, true,
          false, true, false, false)), (String ((Ascii (false, true, false,
          false, true, true, true, false)), (String ((Ascii (true, false,
          true, false, false, true, true, false)), (String ((Ascii (true,
          false, false, false, true, true, true, false)), (String ((Ascii
          (true, false, true, false, true, true, true, false)), (String
          ((Ascii (true, false, true, false, false, true, true, false)),
          (String ((Ascii (true, true, false, false, true, true, true,
          false)), (String ((Ascii (false, false, true, false, true, true,
          true, false)), EmptyString))))))))))))))))))))))))
| _ ->
  vErr (String ((Ascii (false, true, false, false, false, true, true,
    false)), (String ((Ascii (true, false, false, false, false, true, true,
    false)), (String ((Ascii (false, false, true, false, false, true, true,
    false)), (String ((Ascii (true, false, true, true, false, true, false,
    false)), (String ((Ascii (false, true, false, false, true, true, true,
    false)), (String ((Ascii (true, false, true, false, false, true, true,
    false)), (String ((Ascii (true, false, false, false, true, true, true,
    false)), (String ((Ascii (true, false, true, false, true, true, true,
    false)), (String ((Ascii (true, false, true, false, false, true, true,
    false)), (String ((Ascii (true, true, false, false, true, true, true,
    false)), (String ((Ascii (false, false, true, false, true, true, true,
    false)), EmptyString))))))))))))))))))))))
