
(** val negb : bool -> bool **)

let negb = function
| true -> false
| false -> true

type nat =
| O
| S of nat

type ('a, 'b) sum =
| Inl of 'a
| Inr of 'b

(** val fst : ('a1 * 'a2) -> 'a1 **)

let fst = function
| (x, _) -> x

(** val snd : ('a1 * 'a2) -> 'a2 **)

let snd = function
| (_, y) -> y

(** val length : 'a1 list -> nat **)

let rec length = function
| [] -> O
| _ :: l' -> S (length l')

(** val app : 'a1 list -> 'a1 list -> 'a1 list **)

let rec app l m =
  match l with
  | [] -> m
  | a :: l1 -> a :: (app l1 m)

type comparison =
| Eq
| Lt
| Gt

(** val compOpp : comparison -> comparison **)

let compOpp = function
| Eq -> Eq
| Lt -> Gt
| Gt -> Lt

module Coq__1 = struct
 (** val add : nat -> nat -> nat **)
 let rec add n0 m =
   match n0 with
   | O -> m
   | S p -> S (add p m)
end
include Coq__1

(** val sub : nat -> nat -> nat **)

let rec sub n0 m =
  match n0 with
  | O -> n0
  | S k -> (match m with
            | O -> n0
            | S l -> sub k l)

type positive =
| XI of positive
| XO of positive
| XH

type n =
| N0
| Npos of positive

type z =
| Z0
| Zpos of positive
| Zneg of positive

(** val bool_dec : bool -> bool -> bool **)

let bool_dec b1 b2 =
  if b1 then if b2 then true else false else if b2 then false else true

(** val eqb : bool -> bool -> bool **)

let eqb b1 b2 =
  if b1 then b2 else if b2 then false else true

module Nat =
 struct
  (** val pred : nat -> nat **)

  let pred n0 = match n0 with
  | O -> n0
  | S u -> u

  (** val eqb : nat -> nat -> bool **)

  let rec eqb n0 m =
    match n0 with
    | O -> (match m with
            | O -> true
            | S _ -> false)
    | S n' -> (match m with
               | O -> false
               | S m' -> eqb n' m')

  (** val leb : nat -> nat -> bool **)

  let rec leb n0 m =
    match n0 with
    | O -> true
    | S n' -> (match m with
               | O -> false
               | S m' -> leb n' m')

  (** val ltb : nat -> nat -> bool **)

  let ltb n0 m =
    leb (S n0) m

  (** val min : nat -> nat -> nat **)

  let rec min n0 m =
    match n0 with
    | O -> O
    | S n' -> (match m with
               | O -> O
               | S m' -> S (min n' m'))

  (** val divmod : nat -> nat -> nat -> nat -> nat * nat **)

  let rec divmod x y q0 u =
    match x with
    | O -> (q0, u)
    | S x' ->
      (match u with
       | O -> divmod x' y (S q0) y
       | S u' -> divmod x' y q0 u')

  (** val div : nat -> nat -> nat **)

  let div x y = match y with
  | O -> y
  | S y' -> fst (divmod x y' O y')
 end

module Pos =
 struct
  type mask =
  | IsNul
  | IsPos of positive
  | IsNeg
 end

module Coq_Pos =
 struct
  (** val succ : positive -> positive **)

  let rec succ = function
  | XI p -> XO (succ p)
  | XO p -> XI p
  | XH -> XO XH

  (** val add : positive -> positive -> positive **)

  let rec add x y =
    match x with
    | XI p ->
      (match y with
       | XI q0 -> XO (add_carry p q0)
       | XO q0 -> XI (add p q0)
       | XH -> XO (succ p))
    | XO p ->
      (match y with
       | XI q0 -> XI (add p q0)
       | XO q0 -> XO (add p q0)
       | XH -> XI p)
    | XH -> (match y with
             | XI q0 -> XO (succ q0)
             | XO q0 -> XI q0
             | XH -> XO XH)

  (** val add_carry : positive -> positive -> positive **)

  and add_carry x y =
    match x with
    | XI p ->
      (match y with
       | XI q0 -> XI (add_carry p q0)
       | XO q0 -> XO (add_carry p q0)
       | XH -> XI (succ p))
    | XO p ->
      (match y with
       | XI q0 -> XO (add_carry p q0)
       | XO q0 -> XI (add p q0)
       | XH -> XO (succ p))
    | XH ->
      (match y with
       | XI q0 -> XI (succ q0)
       | XO q0 -> XO (succ q0)
       | XH -> XI XH)

  (** val pred_double : positive -> positive **)

  let rec pred_double = function
  | XI p -> XI (XO p)
  | XO p -> XI (pred_double p)
  | XH -> XH

  type mask = Pos.mask =
  | IsNul
  | IsPos of positive
  | IsNeg

  (** val succ_double_mask : mask -> mask **)

  let succ_double_mask = function
  | IsNul -> IsPos XH
  | IsPos p -> IsPos (XI p)
  | IsNeg -> IsNeg

  (** val double_mask : mask -> mask **)

  let double_mask = function
  | IsPos p -> IsPos (XO p)
  | x0 -> x0

  (** val double_pred_mask : positive -> mask **)

  let double_pred_mask = function
  | XI p -> IsPos (XO (XO p))
  | XO p -> IsPos (XO (pred_double p))
  | XH -> IsNul

  (** val sub_mask : positive -> positive -> mask **)

  let rec sub_mask x y =
    match x with
    | XI p ->
      (match y with
       | XI q0 -> double_mask (sub_mask p q0)
       | XO q0 -> succ_double_mask (sub_mask p q0)
       | XH -> IsPos (XO p))
    | XO p ->
      (match y with
       | XI q0 -> succ_double_mask (sub_mask_carry p q0)
       | XO q0 -> double_mask (sub_mask p q0)
       | XH -> IsPos (pred_double p))
    | XH -> (match y with
             | XH -> IsNul
             | _ -> IsNeg)

  (** val sub_mask_carry : positive -> positive -> mask **)

  and sub_mask_carry x y =
    match x with
    | XI p ->
      (match y with
       | XI q0 -> succ_double_mask (sub_mask_carry p q0)
       | XO q0 -> double_mask (sub_mask p q0)
       | XH -> IsPos (pred_double p))
    | XO p ->
      (match y with
       | XI q0 -> double_mask (sub_mask_carry p q0)
       | XO q0 -> succ_double_mask (sub_mask_carry p q0)
       | XH -> double_pred_mask p)
    | XH -> IsNeg

  (** val sub : positive -> positive -> positive **)

  let sub x y =
    match sub_mask x y with
    | IsPos z0 -> z0
    | _ -> XH

  (** val mul : positive -> positive -> positive **)

  let rec mul x y =
    match x with
    | XI p -> add y (XO (mul p y))
    | XO p -> XO (mul p y)
    | XH -> y

  (** val iter : ('a1 -> 'a1) -> 'a1 -> positive -> 'a1 **)

  let rec iter f x = function
  | XI n' -> f (iter f (iter f x n') n')
  | XO n' -> iter f (iter f x n') n'
  | XH -> f x

  (** val pow : positive -> positive -> positive **)

  let pow x =
    iter (mul x) XH

  (** val size_nat : positive -> nat **)

  let rec size_nat = function
  | XI p0 -> S (size_nat p0)
  | XO p0 -> S (size_nat p0)
  | XH -> S O

  (** val size : positive -> positive **)

  let rec size = function
  | XI p0 -> succ (size p0)
  | XO p0 -> succ (size p0)
  | XH -> XH

  (** val compare_cont : comparison -> positive -> positive -> comparison **)

  let rec compare_cont r x y =
    match x with
    | XI p ->
      (match y with
       | XI q0 -> compare_cont r p q0
       | XO q0 -> compare_cont Gt p q0
       | XH -> Gt)
    | XO p ->
      (match y with
       | XI q0 -> compare_cont Lt p q0
       | XO q0 -> compare_cont r p q0
       | XH -> Gt)
    | XH -> (match y with
             | XH -> r
             | _ -> Lt)

  (** val compare : positive -> positive -> comparison **)

  let compare =
    compare_cont Eq

  (** val eqb : positive -> positive -> bool **)

  let rec eqb p q0 =
    match p with
    | XI p0 -> (match q0 with
                | XI q1 -> eqb p0 q1
                | _ -> false)
    | XO p0 -> (match q0 with
                | XO q1 -> eqb p0 q1
                | _ -> false)
    | XH -> (match q0 with
             | XH -> true
             | _ -> false)

  (** val ggcdn :
      nat -> positive -> positive -> positive * (positive * positive) **)

  let rec ggcdn n0 a b =
    match n0 with
    | O -> (XH, (a, b))
    | S n1 ->
      (match a with
       | XI a' ->
         (match b with
          | XI b' ->
            (match compare a' b' with
             | Eq -> (a, (XH, XH))
             | Lt ->
               let (g, p) = ggcdn n1 (sub b' a') a in
               let (ba, aa) = p in (g, (aa, (add aa (XO ba))))
             | Gt ->
               let (g, p) = ggcdn n1 (sub a' b') b in
               let (ab, bb) = p in (g, ((add bb (XO ab)), bb)))
          | XO b0 ->
            let (g, p) = ggcdn n1 a b0 in
            let (aa, bb) = p in (g, (aa, (XO bb)))
          | XH -> (XH, (a, XH)))
       | XO a0 ->
         (match b with
          | XI _ ->
            let (g, p) = ggcdn n1 a0 b in
            let (aa, bb) = p in (g, ((XO aa), bb))
          | XO b0 -> let (g, p) = ggcdn n1 a0 b0 in ((XO g), p)
          | XH -> (XH, (a, XH)))
       | XH -> (XH, (XH, b)))

  (** val ggcd : positive -> positive -> positive * (positive * positive) **)

  let ggcd a b =
    ggcdn (Coq__1.add (size_nat a) (size_nat b)) a b

  (** val iter_op : ('a1 -> 'a1 -> 'a1) -> positive -> 'a1 -> 'a1 **)

  let rec iter_op op p a =
    match p with
    | XI p0 -> op a (iter_op op p0 (op a a))
    | XO p0 -> iter_op op p0 (op a a)
    | XH -> a

  (** val to_nat : positive -> nat **)

  let to_nat x =
    iter_op Coq__1.add x (S O)

  (** val of_succ_nat : nat -> positive **)

  let rec of_succ_nat = function
  | O -> XH
  | S x -> succ (of_succ_nat x)
 end

module N =
 struct
  (** val add : n -> n -> n **)

  let add n0 m =
    match n0 with
    | N0 -> m
    | Npos p -> (match m with
                 | N0 -> n0
                 | Npos q0 -> Npos (Coq_Pos.add p q0))

  (** val mul : n -> n -> n **)

  let mul n0 m =
    match n0 with
    | N0 -> N0
    | Npos p -> (match m with
                 | N0 -> N0
                 | Npos q0 -> Npos (Coq_Pos.mul p q0))

  (** val to_nat : n -> nat **)

  let to_nat = function
  | N0 -> O
  | Npos p -> Coq_Pos.to_nat p

  (** val of_nat : nat -> n **)

  let of_nat = function
  | O -> N0
  | S n' -> Npos (Coq_Pos.of_succ_nat n')
 end

module Z =
 struct
  (** val double : z -> z **)

  let double = function
  | Z0 -> Z0
  | Zpos p -> Zpos (XO p)
  | Zneg p -> Zneg (XO p)

  (** val succ_double : z -> z **)

  let succ_double = function
  | Z0 -> Zpos XH
  | Zpos p -> Zpos (XI p)
  | Zneg p -> Zneg (Coq_Pos.pred_double p)

  (** val pred_double : z -> z **)

  let pred_double = function
  | Z0 -> Zneg XH
  | Zpos p -> Zpos (Coq_Pos.pred_double p)
  | Zneg p -> Zneg (XI p)

  (** val pos_sub : positive -> positive -> z **)

  let rec pos_sub x y =
    match x with
    | XI p ->
      (match y with
       | XI q0 -> double (pos_sub p q0)
       | XO q0 -> succ_double (pos_sub p q0)
       | XH -> Zpos (XO p))
    | XO p ->
      (match y with
       | XI q0 -> pred_double (pos_sub p q0)
       | XO q0 -> double (pos_sub p q0)
       | XH -> Zpos (Coq_Pos.pred_double p))
    | XH ->
      (match y with
       | XI q0 -> Zneg (XO q0)
       | XO q0 -> Zneg (Coq_Pos.pred_double q0)
       | XH -> Z0)

  (** val add : z -> z -> z **)

  let add x y =
    match x with
    | Z0 -> y
    | Zpos x' ->
      (match y with
       | Z0 -> x
       | Zpos y' -> Zpos (Coq_Pos.add x' y')
       | Zneg y' -> pos_sub x' y')
    | Zneg x' ->
      (match y with
       | Z0 -> x
       | Zpos y' -> pos_sub y' x'
       | Zneg y' -> Zneg (Coq_Pos.add x' y'))

  (** val opp : z -> z **)

  let opp = function
  | Z0 -> Z0
  | Zpos x0 -> Zneg x0
  | Zneg x0 -> Zpos x0

  (** val sub : z -> z -> z **)

  let sub m n0 =
    add m (opp n0)

  (** val mul : z -> z -> z **)

  let mul x y =
    match x with
    | Z0 -> Z0
    | Zpos x' ->
      (match y with
       | Z0 -> Z0
       | Zpos y' -> Zpos (Coq_Pos.mul x' y')
       | Zneg y' -> Zneg (Coq_Pos.mul x' y'))
    | Zneg x' ->
      (match y with
       | Z0 -> Z0
       | Zpos y' -> Zneg (Coq_Pos.mul x' y')
       | Zneg y' -> Zpos (Coq_Pos.mul x' y'))

  (** val pow_pos : z -> positive -> z **)

  let pow_pos z0 =
    Coq_Pos.iter (mul z0) (Zpos XH)

  (** val pow : z -> z -> z **)

  let pow x = function
  | Z0 -> Zpos XH
  | Zpos p -> pow_pos x p
  | Zneg _ -> Z0

  (** val compare : z -> z -> comparison **)

  let compare x y =
    match x with
    | Z0 -> (match y with
             | Z0 -> Eq
             | Zpos _ -> Lt
             | Zneg _ -> Gt)
    | Zpos x' -> (match y with
                  | Zpos y' -> Coq_Pos.compare x' y'
                  | _ -> Gt)
    | Zneg x' ->
      (match y with
       | Zneg y' -> compOpp (Coq_Pos.compare x' y')
       | _ -> Lt)

  (** val sgn : z -> z **)

  let sgn = function
  | Z0 -> Z0
  | Zpos _ -> Zpos XH
  | Zneg _ -> Zneg XH

  (** val leb : z -> z -> bool **)

  let leb x y =
    match compare x y with
    | Gt -> false
    | _ -> true

  (** val ltb : z -> z -> bool **)

  let ltb x y =
    match compare x y with
    | Lt -> true
    | _ -> false

  (** val eqb : z -> z -> bool **)

  let eqb x y =
    match x with
    | Z0 -> (match y with
             | Z0 -> true
             | _ -> false)
    | Zpos p -> (match y with
                 | Zpos q0 -> Coq_Pos.eqb p q0
                 | _ -> false)
    | Zneg p -> (match y with
                 | Zneg q0 -> Coq_Pos.eqb p q0
                 | _ -> false)

  (** val abs : z -> z **)

  let abs = function
  | Zneg p -> Zpos p
  | x -> x

  (** val to_nat : z -> nat **)

  let to_nat = function
  | Zpos p -> Coq_Pos.to_nat p
  | _ -> O

  (** val of_nat : nat -> z **)

  let of_nat = function
  | O -> Z0
  | S n1 -> Zpos (Coq_Pos.of_succ_nat n1)

  (** val to_pos : z -> positive **)

  let to_pos = function
  | Zpos p -> p
  | _ -> XH

  (** val pos_div_eucl : positive -> z -> z * z **)

  let rec pos_div_eucl a b =
    match a with
    | XI a' ->
      let (q0, r) = pos_div_eucl a' b in
      let r' = add (mul (Zpos (XO XH)) r) (Zpos XH) in
      if ltb r' b
      then ((mul (Zpos (XO XH)) q0), r')
      else ((add (mul (Zpos (XO XH)) q0) (Zpos XH)), (sub r' b))
    | XO a' ->
      let (q0, r) = pos_div_eucl a' b in
      let r' = mul (Zpos (XO XH)) r in
      if ltb r' b
      then ((mul (Zpos (XO XH)) q0), r')
      else ((add (mul (Zpos (XO XH)) q0) (Zpos XH)), (sub r' b))
    | XH -> if leb (Zpos (XO XH)) b then (Z0, (Zpos XH)) else ((Zpos XH), Z0)

  (** val div_eucl : z -> z -> z * z **)

  let div_eucl a b =
    match a with
    | Z0 -> (Z0, Z0)
    | Zpos a' ->
      (match b with
       | Z0 -> (Z0, a)
       | Zpos _ -> pos_div_eucl a' b
       | Zneg b' ->
         let (q0, r) = pos_div_eucl a' (Zpos b') in
         (match r with
          | Z0 -> ((opp q0), Z0)
          | _ -> ((opp (add q0 (Zpos XH))), (add b r))))
    | Zneg a' ->
      (match b with
       | Z0 -> (Z0, a)
       | Zpos _ ->
         let (q0, r) = pos_div_eucl a' b in
         (match r with
          | Z0 -> ((opp q0), Z0)
          | _ -> ((opp (add q0 (Zpos XH))), (sub b r)))
       | Zneg b' -> let (q0, r) = pos_div_eucl a' (Zpos b') in (q0, (opp r)))

  (** val div : z -> z -> z **)

  let div a b =
    let (q0, _) = div_eucl a b in q0

  (** val modulo : z -> z -> z **)

  let modulo a b =
    let (_, r) = div_eucl a b in r

  (** val even : z -> bool **)

  let even = function
  | Z0 -> true
  | Zpos p -> (match p with
               | XO _ -> true
               | _ -> false)
  | Zneg p -> (match p with
               | XO _ -> true
               | _ -> false)

  (** val log2 : z -> z **)

  let log2 = function
  | Zpos p0 ->
    (match p0 with
     | XI p -> Zpos (Coq_Pos.size p)
     | XO p -> Zpos (Coq_Pos.size p)
     | XH -> Z0)
  | _ -> Z0

  (** val ggcd : z -> z -> z * (z * z) **)

  let ggcd a b =
    match a with
    | Z0 -> ((abs b), (Z0, (sgn b)))
    | Zpos a0 ->
      (match b with
       | Z0 -> ((abs a), ((sgn a), Z0))
       | Zpos b0 ->
         let (g, p) = Coq_Pos.ggcd a0 b0 in
         let (aa, bb) = p in ((Zpos g), ((Zpos aa), (Zpos bb)))
       | Zneg b0 ->
         let (g, p) = Coq_Pos.ggcd a0 b0 in
         let (aa, bb) = p in ((Zpos g), ((Zpos aa), (Zneg bb))))
    | Zneg a0 ->
      (match b with
       | Z0 -> ((abs a), ((sgn a), Z0))
       | Zpos b0 ->
         let (g, p) = Coq_Pos.ggcd a0 b0 in
         let (aa, bb) = p in ((Zpos g), ((Zneg aa), (Zpos bb)))
       | Zneg b0 ->
         let (g, p) = Coq_Pos.ggcd a0 b0 in
         let (aa, bb) = p in ((Zpos g), ((Zneg aa), (Zneg bb))))
 end

(** val zeq_bool : z -> z -> bool **)

let zeq_bool x y =
  match Z.compare x y with
  | Eq -> true
  | _ -> false

(** val nth : nat -> 'a1 list -> 'a1 -> 'a1 **)

let rec nth n0 l default =
  match n0 with
  | O -> (match l with
          | [] -> default
          | x :: _ -> x)
  | S m -> (match l with
            | [] -> default
            | _ :: t -> nth m t default)

(** val map : ('a1 -> 'a2) -> 'a1 list -> 'a2 list **)

let rec map f = function
| [] -> []
| a :: t -> (f a) :: (map f t)

(** val flat_map : ('a1 -> 'a2 list) -> 'a1 list -> 'a2 list **)

let rec flat_map f = function
| [] -> []
| x :: t -> app (f x) (flat_map f t)

(** val fold_right : ('a2 -> 'a1 -> 'a1) -> 'a1 -> 'a2 list -> 'a1 **)

let rec fold_right f a0 = function
| [] -> a0
| b :: t -> f b (fold_right f a0 t)

(** val existsb : ('a1 -> bool) -> 'a1 list -> bool **)

let rec existsb f = function
| [] -> false
| a :: l0 -> (||) (f a) (existsb f l0)

(** val forallb : ('a1 -> bool) -> 'a1 list -> bool **)

let rec forallb f = function
| [] -> true
| a :: l0 -> (&&) (f a) (forallb f l0)

(** val filter : ('a1 -> bool) -> 'a1 list -> 'a1 list **)

let rec filter f = function
| [] -> []
| x :: l0 -> if f x then x :: (filter f l0) else filter f l0

(** val find : ('a1 -> bool) -> 'a1 list -> 'a1 option **)

let rec find f = function
| [] -> None
| x :: tl -> if f x then Some x else find f tl

(** val combine : 'a1 list -> 'a2 list -> ('a1 * 'a2) list **)

let rec combine l l' =
  match l with
  | [] -> []
  | x :: tl ->
    (match l' with
     | [] -> []
     | y :: tl' -> (x, y) :: (combine tl tl'))

(** val seq : nat -> nat -> nat list **)

let rec seq start = function
| O -> []
| S len0 -> start :: (seq (S start) len0)

type ascii =
| Ascii of bool * bool * bool * bool * bool * bool * bool * bool

(** val zero : ascii **)

let zero =
  Ascii (false, false, false, false, false, false, false, false)

(** val one : ascii **)

let one =
  Ascii (true, false, false, false, false, false, false, false)

(** val shift : bool -> ascii -> ascii **)

let shift c = function
| Ascii (a1, a2, a3, a4, a5, a6, a7, _) ->
  Ascii (c, a1, a2, a3, a4, a5, a6, a7)

(** val ascii_dec : ascii -> ascii -> bool **)

let ascii_dec a b =
  let Ascii (b0, b1, b2, b3, b4, b5, b6, b7) = a in
  let Ascii (b8, b9, b10, b11, b12, b13, b14, b15) = b in
  if bool_dec b0 b8
  then if bool_dec b1 b9
       then if bool_dec b2 b10
            then if bool_dec b3 b11
                 then if bool_dec b4 b12
                      then if bool_dec b5 b13
                           then if bool_dec b6 b14
                                then bool_dec b7 b15
                                else false
                           else false
                      else false
                 else false
            else false
       else false
  else false

(** val eqb0 : ascii -> ascii -> bool **)

let eqb0 a b =
  let Ascii (a0, a1, a2, a3, a4, a5, a6, a7) = a in
  let Ascii (b0, b1, b2, b3, b4, b5, b6, b7) = b in
  if if if if if if if eqb a0 b0 then eqb a1 b1 else false
                 then eqb a2 b2
                 else false
              then eqb a3 b3
              else false
           then eqb a4 b4
           else false
        then eqb a5 b5
        else false
     then eqb a6 b6
     else false
  then eqb a7 b7
  else false

(** val ascii_of_pos : positive -> ascii **)

let ascii_of_pos =
  let rec loop n0 p =
    match n0 with
    | O -> zero
    | S n' ->
      (match p with
       | XI p' -> shift true (loop n' p')
       | XO p' -> shift false (loop n' p')
       | XH -> one)
  in loop (S (S (S (S (S (S (S (S O))))))))

(** val ascii_of_N : n -> ascii **)

let ascii_of_N = function
| N0 -> zero
| Npos p -> ascii_of_pos p

(** val ascii_of_nat : nat -> ascii **)

let ascii_of_nat a =
  ascii_of_N (N.of_nat a)

(** val n_of_digits : bool list -> n **)

let rec n_of_digits = function
| [] -> N0
| b :: l' ->
  N.add (if b then Npos XH else N0) (N.mul (Npos (XO XH)) (n_of_digits l'))

(** val n_of_ascii : ascii -> n **)

let n_of_ascii = function
| Ascii (a0, a1, a2, a3, a4, a5, a6, a7) ->
  n_of_digits
    (a0 :: (a1 :: (a2 :: (a3 :: (a4 :: (a5 :: (a6 :: (a7 :: []))))))))

(** val nat_of_ascii : ascii -> nat **)

let nat_of_ascii a =
  N.to_nat (n_of_ascii a)

type string =
| EmptyString
| String of ascii * string

(** val eqb1 : string -> string -> bool **)

let rec eqb1 s1 s2 =
  match s1 with
  | EmptyString ->
    (match s2 with
     | EmptyString -> true
     | String (_, _) -> false)
  | String (c1, s1') ->
    (match s2 with
     | EmptyString -> false
     | String (c2, s2') -> if eqb0 c1 c2 then eqb1 s1' s2' else false)

(** val append : string -> string -> string **)

let rec append s1 s2 =
  match s1 with
  | EmptyString -> s2
  | String (c, s1') -> String (c, (append s1' s2))

(** val length0 : string -> nat **)

let rec length0 = function
| EmptyString -> O
| String (_, s') -> S (length0 s')

(** val get : nat -> string -> ascii option **)

let rec get n0 = function
| EmptyString -> None
| String (c, s') -> (match n0 with
                     | O -> Some c
                     | S n' -> get n' s')

(** val substring : nat -> nat -> string -> string **)

let rec substring n0 m s =
  match n0 with
  | O ->
    (match m with
     | O -> EmptyString
     | S m' ->
       (match s with
        | EmptyString -> s
        | String (c, s') -> String (c, (substring O m' s'))))
  | S n' ->
    (match s with
     | EmptyString -> s
     | String (_, s') -> substring n' m s')

(** val prefix : string -> string -> bool **)

let rec prefix s1 s2 =
  match s1 with
  | EmptyString -> true
  | String (a, s1') ->
    (match s2 with
     | EmptyString -> false
     | String (b, s2') -> if ascii_dec a b then prefix s1' s2' else false)

type q = { qnum : z; qden : positive }

(** val inject_Z : z -> q **)

let inject_Z x =
  { qnum = x; qden = XH }

(** val qcompare : q -> q -> comparison **)

let qcompare p q0 =
  Z.compare (Z.mul p.qnum (Zpos q0.qden)) (Z.mul q0.qnum (Zpos p.qden))

(** val qeq_bool : q -> q -> bool **)

let qeq_bool x y =
  zeq_bool (Z.mul x.qnum (Zpos y.qden)) (Z.mul y.qnum (Zpos x.qden))

(** val qle_bool : q -> q -> bool **)

let qle_bool x y =
  Z.leb (Z.mul x.qnum (Zpos y.qden)) (Z.mul y.qnum (Zpos x.qden))

(** val qplus : q -> q -> q **)

let qplus x y =
  { qnum = (Z.add (Z.mul x.qnum (Zpos y.qden)) (Z.mul y.qnum (Zpos x.qden)));
    qden = (Coq_Pos.mul x.qden y.qden) }

(** val qmult : q -> q -> q **)

let qmult x y =
  { qnum = (Z.mul x.qnum y.qnum); qden = (Coq_Pos.mul x.qden y.qden) }

(** val qopp : q -> q **)

let qopp x =
  { qnum = (Z.opp x.qnum); qden = x.qden }

(** val qminus : q -> q -> q **)

let qminus x y =
  qplus x (qopp y)

(** val qinv : q -> q **)

let qinv x =
  match x.qnum with
  | Z0 -> { qnum = Z0; qden = XH }
  | Zpos p -> { qnum = (Zpos x.qden); qden = p }
  | Zneg p -> { qnum = (Zneg x.qden); qden = p }

(** val qdiv : q -> q -> q **)

let qdiv x y =
  qmult x (qinv y)

(** val qred : q -> q **)

let qred q0 =
  let { qnum = q1; qden = q2 } = q0 in
  let (r1, r2) = snd (Z.ggcd q1 (Zpos q2)) in
  { qnum = r1; qden = (Z.to_pos r2) }

(** val qabs : q -> q **)

let qabs x =
  let { qnum = n0; qden = d } = x in { qnum = (Z.abs n0); qden = d }

(** val qfloor : q -> z **)

let qfloor x =
  let { qnum = n0; qden = d } = x in Z.div n0 (Zpos d)

type v =
| VZ of z
| VS of string
| VL of v list

(** val vB : bool -> v **)

let vB b =
  VZ (if b then Zpos XH else Z0)

(** val vQ : q -> v **)

let vQ q0 =
  VL ((VZ q0.qnum) :: ((VZ (Zpos q0.qden)) :: []))

(** val vErr : string -> v **)

let vErr s =
  VL ((VS (String ((Ascii (true, false, true, false, false, false, true,
    false)), (String ((Ascii (false, true, false, false, true, false, true,
    false)), (String ((Ascii (false, true, false, false, true, false, true,
    false)), EmptyString))))))) :: ((VS s) :: []))

(** val vOk : v -> v **)

let vOk v0 =
  VL ((VS (String ((Ascii (true, true, true, true, false, false, true,
    false)), (String ((Ascii (true, true, false, true, false, false, true,
    false)), EmptyString))))) :: (v0 :: []))

(** val getZ : v -> z **)

let getZ = function
| VZ z0 -> z0
| _ -> Z0

(** val getS : v -> string **)

let getS = function
| VS s -> s
| _ -> EmptyString

(** val getL : v -> v list **)

let getL = function
| VL l -> l
| _ -> []

(** val getQ : v -> q **)

let getQ = function
| VZ n0 -> inject_Z n0
| VS _ -> { qnum = Z0; qden = XH }
| VL l ->
  (match l with
   | [] -> { qnum = Z0; qden = XH }
   | v1 :: l0 ->
     (match v1 with
      | VZ n0 ->
        (match l0 with
         | [] -> { qnum = Z0; qden = XH }
         | v2 :: l1 ->
           (match v2 with
            | VZ d ->
              (match l1 with
               | [] ->
                 (match d with
                  | Zpos p -> { qnum = n0; qden = p }
                  | _ -> { qnum = Z0; qden = XH })
               | _ :: _ -> { qnum = Z0; qden = XH })
            | _ -> { qnum = Z0; qden = XH }))
      | _ -> { qnum = Z0; qden = XH }))

type 'a res =
| Ok of 'a
| Err of string

(** val bind : 'a1 res -> ('a1 -> 'a2 res) -> 'a2 res **)

let bind r f =
  match r with
  | Ok a -> f a
  | Err e -> Err e

(** val mapM : ('a1 -> 'a2 res) -> 'a1 list -> 'a2 list res **)

let rec mapM f = function
| [] -> Ok []
| x :: t -> bind (f x) (fun y -> bind (mapM f t) (fun ys -> Ok (y :: ys)))

(** val vres : v res -> v **)

let vres = function
| Ok v0 -> vOk v0
| Err e -> vErr e

(** val qltb : q -> q -> bool **)

let qltb a b =
  Z.ltb (Z.mul a.qnum (Zpos b.qden)) (Z.mul b.qnum (Zpos a.qden))

(** val qleb : q -> q -> bool **)

let qleb =
  qle_bool

(** val qeqb : q -> q -> bool **)

let qeqb =
  qeq_bool

(** val qsqr : q -> q **)

let qsqr a =
  qmult a a

(** val sp : ascii **)

let sp =
  Ascii (false, false, false, false, false, true, false, false)

(** val nl : ascii **)

let nl =
  Ascii (false, true, false, true, false, false, false, false)

(** val is_space : ascii -> bool **)

let is_space c =
  let n0 = nat_of_ascii c in
  (||)
    ((||)
      (Nat.eqb n0 (S (S (S (S (S (S (S (S (S (S (S (S (S (S (S (S (S (S (S (S
        (S (S (S (S (S (S (S (S (S (S (S (S O)))))))))))))))))))))))))))))))))
      ((&&) (Nat.leb (S (S (S (S (S (S (S (S (S O))))))))) n0)
        (Nat.leb n0 (S (S (S (S (S (S (S (S (S (S (S (S (S O))))))))))))))))
    ((&&)
      (Nat.leb (S (S (S (S (S (S (S (S (S (S (S (S (S (S (S (S (S (S (S (S (S
        (S (S (S (S (S (S (S O)))))))))))))))))))))))))))) n0)
      (Nat.leb n0 (S (S (S (S (S (S (S (S (S (S (S (S (S (S (S (S (S (S (S (S
        (S (S (S (S (S (S (S (S (S (S (S O)))))))))))))))))))))))))))))))))

(** val is_digit : ascii -> bool **)

let is_digit c =
  let n0 = nat_of_ascii c in
  (&&)
    (Nat.leb (S (S (S (S (S (S (S (S (S (S (S (S (S (S (S (S (S (S (S (S (S
      (S (S (S (S (S (S (S (S (S (S (S (S (S (S (S (S (S (S (S (S (S (S (S (S
      (S (S (S O)))))))))))))))))))))))))))))))))))))))))))))))) n0)
    (Nat.leb n0 (S (S (S (S (S (S (S (S (S (S (S (S (S (S (S (S (S (S (S (S
      (S (S (S (S (S (S (S (S (S (S (S (S (S (S (S (S (S (S (S (S (S (S (S (S
      (S (S (S (S (S (S (S (S (S (S (S (S (S
      O))))))))))))))))))))))))))))))))))))))))))))))))))))))))))

(** val digit_val : ascii -> z **)

let digit_val c =
  Z.sub (Z.of_nat (nat_of_ascii c)) (Zpos (XO (XO (XO (XO (XI XH))))))

(** val lstrip : string -> string **)

let rec lstrip s = match s with
| EmptyString -> EmptyString
| String (c, t) -> if is_space c then lstrip t else s

(** val rev_str : string -> string -> string **)

let rec rev_str acc = function
| EmptyString -> acc
| String (c, t) -> rev_str (String (c, acc)) t

(** val rstrip : string -> string **)

let rstrip s =
  rev_str EmptyString (lstrip (rev_str EmptyString s))

(** val strip : string -> string **)

let strip s =
  rstrip (lstrip s)

(** val slice : nat -> nat -> string -> string **)

let slice a b s =
  substring a (sub b a) s

(** val char_at : nat -> string -> string **)

let char_at i s =
  substring i (S O) s

(** val repeat_char : ascii -> nat -> string **)

let rec repeat_char c = function
| O -> EmptyString
| S k -> String (c, (repeat_char c k))

(** val ljust : nat -> string -> string **)

let ljust w s =
  append s (repeat_char sp (sub w (length0 s)))

(** val rjust : nat -> string -> string **)

let rjust w s =
  append (repeat_char sp (sub w (length0 s))) s

(** val center : nat -> string -> string **)

let center w s =
  let pad = sub w (length0 s) in
  let l = Nat.div pad (S (S O)) in
  append (repeat_char sp l) (append s (repeat_char sp (sub pad l)))

(** val startswith : string -> string -> bool **)

let startswith =
  prefix

(** val str_nonempty : string -> bool **)

let str_nonempty = function
| EmptyString -> false
| String (_, _) -> true

(** val is_substring : string -> string -> bool **)

let rec is_substring a b =
  (||) (prefix a b)
    (match b with
     | EmptyString -> false
     | String (_, t) -> is_substring a t)

(** val upto_nl : string -> string **)

let rec upto_nl = function
| EmptyString -> EmptyString
| String (c, t) -> if eqb0 c nl then EmptyString else String (c, (upto_nl t))

(** val split_nl_aux : string -> string -> string list **)

let rec split_nl_aux cur = function
| EmptyString -> (rev_str EmptyString cur) :: []
| String (c, t) ->
  if eqb0 c nl
  then (rev_str EmptyString cur) :: (split_nl_aux EmptyString t)
  else split_nl_aux (String (c, cur)) t

(** val split_nl : string -> string list **)

let split_nl s =
  split_nl_aux EmptyString s

(** val readlines_aux : string -> string -> string list **)

let rec readlines_aux cur = function
| EmptyString ->
  (match cur with
   | EmptyString -> []
   | String (_, _) -> (rev_str EmptyString cur) :: [])
| String (c, t) ->
  if eqb0 c nl
  then (rev_str EmptyString (String (c, cur))) :: (readlines_aux EmptyString
                                                    t)
  else readlines_aux (String (c, cur)) t

(** val readlines : string -> string list **)

let readlines s =
  readlines_aux EmptyString s

(** val count_sub_aux : nat -> string -> string -> nat **)

let rec count_sub_aux fuel p s =
  match fuel with
  | O -> O
  | S f ->
    (match s with
     | EmptyString -> O
     | String (_, t) ->
       if prefix p s
       then S (count_sub_aux f p (substring (length0 p) (length0 s) s))
       else count_sub_aux f p t)

(** val count_sub : string -> string -> nat **)

let count_sub p s =
  count_sub_aux (S (length0 s)) p s

(** val digits_pos_aux : nat -> z -> string -> string **)

let rec digits_pos_aux fuel n0 acc =
  match fuel with
  | O -> acc
  | S f ->
    let acc' = String
      ((ascii_of_nat
         (add (Z.to_nat (Z.modulo n0 (Zpos (XO (XI (XO XH)))))) (S (S (S (S
           (S (S (S (S (S (S (S (S (S (S (S (S (S (S (S (S (S (S (S (S (S (S
           (S (S (S (S (S (S (S (S (S (S (S (S (S (S (S (S (S (S (S (S (S (S
           O)))))))))))))))))))))))))))))))))))))))))))))))))), acc)
    in
    if Z.ltb n0 (Zpos (XO (XI (XO XH))))
    then acc'
    else digits_pos_aux f (Z.div n0 (Zpos (XO (XI (XO XH))))) acc'

(** val digits : z -> string **)

let digits n0 =
  digits_pos_aux (S (Z.to_nat (Z.log2 n0))) n0 EmptyString

(** val str_of_Z : z -> string **)

let str_of_Z n0 =
  if Z.ltb n0 Z0
  then String ((Ascii (true, false, true, true, false, true, false, false)),
         (digits (Z.opp n0)))
  else digits n0

(** val all_digits : string -> bool **)

let rec all_digits = function
| EmptyString -> true
| String (c, t) -> (&&) (is_digit c) (all_digits t)

(** val digits_val : z -> string -> z **)

let rec digits_val acc = function
| EmptyString -> acc
| String (c, t) ->
  digits_val (Z.add (Z.mul acc (Zpos (XO (XI (XO XH))))) (digit_val c)) t

type 'a numparse =
| NumOk of 'a
| NumBad
| NumOutOfModel

(** val has_char : ascii -> string -> bool **)

let rec has_char c = function
| EmptyString -> false
| String (d, t) -> (||) (eqb0 c d) (has_char c t)

(** val exotic_numeral : string -> bool **)

let exotic_numeral s =
  (||)
    ((||)
      ((||)
        ((||)
          ((||)
            ((||)
              (has_char (Ascii (true, true, true, true, true, false, true,
                false)) s)
              (has_char (Ascii (true, false, true, false, false, true, true,
                false)) s))
            (has_char (Ascii (true, false, true, false, false, false, true,
              false)) s))
          (has_char (Ascii (false, true, true, true, false, true, true,
            false)) s))
        (has_char (Ascii (false, true, true, true, false, false, true,
          false)) s))
      (has_char (Ascii (true, false, false, true, false, true, true, false))
        s))
    (has_char (Ascii (true, false, false, true, false, false, true, false)) s)

(** val split_sign : string -> bool * string **)

let split_sign s = match s with
| EmptyString -> (false, s)
| String (a, t) ->
  let Ascii (b, b0, b1, b2, b3, b4, b5, b6) = a in
  if b
  then if b0
       then if b1
            then (false, s)
            else if b2
                 then if b3
                      then (false, s)
                      else if b4
                           then if b5
                                then (false, s)
                                else if b6 then (false, s) else (false, t)
                           else (false, s)
                 else (false, s)
       else if b1
            then if b2
                 then if b3
                      then (false, s)
                      else if b4
                           then if b5
                                then (false, s)
                                else if b6 then (false, s) else (true, t)
                           else (false, s)
                 else (false, s)
            else (false, s)
  else (false, s)

(** val parse_int : string -> z numparse **)

let parse_int s0 =
  let s = strip s0 in
  let (neg, body) = split_sign s in
  if (&&) (str_nonempty body) (all_digits body)
  then NumOk (if neg then Z.opp (digits_val Z0 body) else digits_val Z0 body)
  else if exotic_numeral s then NumOutOfModel else NumBad

(** val split_dot : string -> string * string option **)

let rec split_dot = function
| EmptyString -> (EmptyString, None)
| String (c, t) ->
  if eqb0 c (Ascii (false, true, true, true, false, true, false, false))
  then (EmptyString, (Some t))
  else let (a, b) = split_dot t in ((String (c, a)), b)

(** val qfloor' : q -> z **)

let qfloor' q0 =
  Z.div q0.qnum (Zpos q0.qden)

(** val round_half_even : q -> z **)

let round_half_even q0 =
  let f = qfloor' q0 in
  let r = qminus q0 (inject_Z f) in
  (match qcompare r { qnum = (Zpos XH); qden = (XO XH) } with
   | Eq -> if Z.even f then f else Z.add f (Zpos XH)
   | Lt -> f
   | Gt -> Z.add f (Zpos XH))

(** val qpow2 : z -> q **)

let qpow2 = function
| Z0 -> { qnum = (Zpos XH); qden = XH }
| Zpos p -> inject_Z (Z.pow (Zpos (XO XH)) (Zpos p))
| Zneg p -> { qnum = (Zpos XH); qden = (Coq_Pos.pow (XO XH) p) }

(** val b64 : q -> q **)

let b64 q0 =
  if qeq_bool q0 { qnum = Z0; qden = XH }
  then { qnum = Z0; qden = XH }
  else let a = qabs q0 in
       let e0 =
         Z.sub (Z.sub (Z.log2 a.qnum) (Z.log2 (Zpos a.qden))) (Zpos (XO (XO
           (XI (XO (XI XH))))))
       in
       let e =
         if qle_bool
              (inject_Z
                (Z.pow (Zpos (XO XH)) (Zpos (XO (XO (XI (XO (XI XH))))))))
              (qmult a (qpow2 (Z.opp e0)))
         then e0
         else Z.sub e0 (Zpos XH)
       in
       let m = round_half_even (qmult a (qpow2 (Z.opp e))) in
       let v0 = qred (qmult (inject_Z m) (qpow2 e)) in
       if qle_bool { qnum = Z0; qden = XH } q0 then v0 else qred (qopp v0)

(** val pow10 : nat -> z **)

let pow10 n0 =
  Z.pow (Zpos (XO (XI (XO XH)))) (Z.of_nat n0)

(** val parse_float : string -> q numparse **)

let parse_float s0 =
  let s = strip s0 in
  let (neg, body) = split_sign s in
  let (ip, fp) = split_dot body in
  let fpart = match fp with
              | Some f -> f
              | None -> EmptyString in
  if (&&) ((&&) (all_digits ip) (all_digits fpart))
       ((||) (str_nonempty ip) (str_nonempty fpart))
  then let n0 = digits_val Z0 (append ip fpart) in
       let q0 = qred { qnum = n0; qden = (Z.to_pos (pow10 (length0 fpart))) }
       in
       NumOk (b64 (if neg then qred (qopp q0) else q0))
  else if exotic_numeral s then NumOutOfModel else NumBad

(** val pad_left_zeros : nat -> string -> string **)

let pad_left_zeros w s =
  append
    (repeat_char (Ascii (false, false, false, false, true, true, false,
      false)) (sub w (length0 s))) s

(** val fmt_fixed_body : nat -> q -> string **)

let fmt_fixed_body p q0 =
  let n0 = round_half_even (qmult (qabs q0) (inject_Z (pow10 p))) in
  let ip = Z.div n0 (pow10 p) in
  let fp = Z.modulo n0 (pow10 p) in
  let sgn0 =
    if qltb q0 { qnum = Z0; qden = XH }
    then String ((Ascii (true, false, true, true, false, true, false,
           false)), EmptyString)
    else EmptyString
  in
  (match p with
   | O -> append sgn0 (digits ip)
   | S _ ->
     append sgn0
       (append (digits ip)
         (append (String ((Ascii (false, true, true, true, false, true,
           false, false)), EmptyString)) (pad_left_zeros p (digits fp)))))

(** val fmt_fixed : nat -> nat -> q -> string **)

let fmt_fixed w p q0 =
  rjust w (fmt_fixed_body p q0)

(** val round_dec : nat -> q -> q **)

let round_dec k q0 =
  qred { qnum =
    (if qltb q0 { qnum = Z0; qden = XH }
     then Z.opp (round_half_even (qmult (qabs q0) (inject_Z (pow10 k))))
     else round_half_even (qmult q0 (inject_Z (pow10 k)))); qden =
    (Z.to_pos (pow10 k)) }

(** val repeat_str : string -> nat -> string **)

let rec repeat_str s = function
| O -> EmptyString
| S k -> append s (repeat_str s k)

type blank_default =
| DConst of q
| DChainFromSegID
| DElementGuess

type align =
| ARight
| ALeft
| ACenter

type piece =
| PLit of string
| PField of nat * align * nat
| PFixed of nat * align * nat * nat
| PAtomName
| PXyz of nat

type val0 =
| VInt of z
| VReal of q
| VText of string
| VBlob
| VNull

type row = val0 list

(** val capri_src : q -> q -> q -> string -> string res **)

let capri_src fnat_1 lrmsd_2 irmsd_3 system_4 =
  if eqb1 system_4 (String ((Ascii (false, false, false, false, true, true,
       true, false)), (String ((Ascii (false, true, false, false, true, true,
       true, false)), (String ((Ascii (true, true, true, true, false, true,
       true, false)), (String ((Ascii (false, false, true, false, true, true,
       true, false)), (String ((Ascii (true, false, true, false, false, true,
       true, false)), (String ((Ascii (true, false, false, true, false, true,
       true, false)), (String ((Ascii (false, true, true, true, false, true,
       true, false)), (String ((Ascii (true, false, true, true, false, true,
       false, false)), (String ((Ascii (false, false, false, false, true,
       true, true, false)), (String ((Ascii (false, true, false, false, true,
       true, true, false)), (String ((Ascii (true, true, true, true, false,
       true, true, false)), (String ((Ascii (false, false, true, false, true,
       true, true, false)), (String ((Ascii (true, false, true, false, false,
       true, true, false)), (String ((Ascii (true, false, false, true, false,
       true, true, false)), (String ((Ascii (false, true, true, true, false,
       true, true, false)), EmptyString))))))))))))))))))))))))))))))
  then if (||)
            (qltb fnat_1 { qnum = (Zpos (XI (XO (XI (XI (XO (XO (XI (XI (XO
              (XO (XI (XI (XO (XO (XI (XI (XO (XO (XI (XI (XO (XO (XI (XI (XO
              (XO (XI (XI (XO (XO (XI (XI (XO (XO (XI (XI (XO (XO (XI (XI (XO
              (XO (XI (XI (XO (XO (XI (XI (XO (XO (XI
              XH)))))))))))))))))))))))))))))))))))))))))))))))))))); qden =
              (XO (XO (XO (XO (XO (XO (XO (XO (XO (XO (XO (XO (XO (XO (XO (XO
              (XO (XO (XO (XO (XO (XO (XO (XO (XO (XO (XO (XO (XO (XO (XO (XO
              (XO (XO (XO (XO (XO (XO (XO (XO (XO (XO (XO (XO (XO (XO (XO (XO
              (XO (XO (XO (XO (XO (XO (XO
              XH))))))))))))))))))))))))))))))))))))))))))))))))))))))) })
            ((&&)
              (qltb { qnum = (Zpos (XO (XI (XO XH)))); qden = XH } lrmsd_2)
              (qltb { qnum = (Zpos (XO (XO XH))); qden = XH } irmsd_3))
       then let label_5 = String ((Ascii (true, false, false, true, false,
              true, true, false)), (String ((Ascii (false, true, true, true,
              false, true, true, false)), (String ((Ascii (true, true, false,
              false, false, true, true, false)), (String ((Ascii (true, true,
              true, true, false, true, true, false)), (String ((Ascii (false,
              true, false, false, true, true, true, false)), (String ((Ascii
              (false, true, false, false, true, true, true, false)), (String
              ((Ascii (true, false, true, false, false, true, true, false)),
              (String ((Ascii (true, true, false, false, false, true, true,
              false)), (String ((Ascii (false, false, true, false, true,
              true, true, false)), EmptyString)))))))))))))))))
            in
            Ok label_5
       else if (||)
                 ((&&)
                   ((&&)
                     (qleb { qnum = (Zpos (XI (XO (XI (XI (XO (XO (XI (XI (XO
                       (XO (XI (XI (XO (XO (XI (XI (XO (XO (XI (XI (XO (XO
                       (XI (XI (XO (XO (XI (XI (XO (XO (XI (XI (XO (XO (XI
                       (XI (XO (XO (XI (XI (XO (XO (XI (XI (XO (XO (XI (XI
                       (XO (XO (XI
                       XH))))))))))))))))))))))))))))))))))))))))))))))))))));
                       qden = (XO (XO (XO (XO (XO (XO (XO (XO (XO (XO (XO (XO
                       (XO (XO (XO (XO (XO (XO (XO (XO (XO (XO (XO (XO (XO
                       (XO (XO (XO (XO (XO (XO (XO (XO (XO (XO (XO (XO (XO
                       (XO (XO (XO (XO (XO (XO (XO (XO (XO (XO (XO (XO (XO
                       (XO (XO (XO (XO
                       XH))))))))))))))))))))))))))))))))))))))))))))))))))))))) }
                       fnat_1)
                     (qltb fnat_1 { qnum = (Zpos (XI (XI (XO (XO (XI (XI (XO
                       (XO (XI (XI (XO (XO (XI (XI (XO (XO (XI (XI (XO (XO
                       (XI (XI (XO (XO (XI (XI (XO (XO (XI (XI (XO (XO (XI
                       (XI (XO (XO (XI (XI (XO (XO (XI (XI (XO (XO (XI (XI
                       (XO (XO (XI (XI (XO (XO
                       XH)))))))))))))))))))))))))))))))))))))))))))))))))))));
                       qden = (XO (XO (XO (XO (XO (XO (XO (XO (XO (XO (XO (XO
                       (XO (XO (XO (XO (XO (XO (XO (XO (XO (XO (XO (XO (XO
                       (XO (XO (XO (XO (XO (XO (XO (XO (XO (XO (XO (XO (XO
                       (XO (XO (XO (XO (XO (XO (XO (XO (XO (XO (XO (XO (XO
                       (XO (XO (XO
                       XH)))))))))))))))))))))))))))))))))))))))))))))))))))))) }))
                   ((||)
                     (qleb lrmsd_2 { qnum = (Zpos (XO (XI (XO XH)))); qden =
                       XH })
                     (qleb irmsd_3 { qnum = (Zpos (XO (XO XH))); qden = XH })))
                 ((&&)
                   ((&&)
                     (qleb { qnum = (Zpos (XI (XI (XO (XO (XI (XI (XO (XO (XI
                       (XI (XO (XO (XI (XI (XO (XO (XI (XI (XO (XO (XI (XI
                       (XO (XO (XI (XI (XO (XO (XI (XI (XO (XO (XI (XI (XO
                       (XO (XI (XI (XO (XO (XI (XI (XO (XO (XI (XI (XO (XO
                       (XI (XI (XO (XO
                       XH)))))))))))))))))))))))))))))))))))))))))))))))))))));
                       qden = (XO (XO (XO (XO (XO (XO (XO (XO (XO (XO (XO (XO
                       (XO (XO (XO (XO (XO (XO (XO (XO (XO (XO (XO (XO (XO
                       (XO (XO (XO (XO (XO (XO (XO (XO (XO (XO (XO (XO (XO
                       (XO (XO (XO (XO (XO (XO (XO (XO (XO (XO (XO (XO (XO
                       (XO (XO (XO
                       XH)))))))))))))))))))))))))))))))))))))))))))))))))))))) }
                       fnat_1)
                     (qltb { qnum = (Zpos (XI (XO XH))); qden = XH } lrmsd_2))
                   (qltb { qnum = (Zpos (XO XH)); qden = XH } irmsd_3))
            then let label_6 = String ((Ascii (true, false, false, false,
                   false, true, true, false)), (String ((Ascii (true, true,
                   false, false, false, true, true, false)), (String ((Ascii
                   (true, true, false, false, false, true, true, false)),
                   (String ((Ascii (true, false, true, false, false, true,
                   true, false)), (String ((Ascii (false, false, false,
                   false, true, true, true, false)), (String ((Ascii (false,
                   false, true, false, true, true, true, false)), (String
                   ((Ascii (true, false, false, false, false, true, true,
                   false)), (String ((Ascii (false, true, false, false,
                   false, true, true, false)), (String ((Ascii (false, false,
                   true, true, false, true, true, false)), (String ((Ascii
                   (true, false, true, false, false, true, true, false)),
                   EmptyString)))))))))))))))))))
                 in
                 Ok label_6
            else if (||)
                      ((&&)
                        ((&&)
                          (qleb { qnum = (Zpos (XI (XI (XO (XO (XI (XI (XO
                            (XO (XI (XI (XO (XO (XI (XI (XO (XO (XI (XI (XO
                            (XO (XI (XI (XO (XO (XI (XI (XO (XO (XI (XI (XO
                            (XO (XI (XI (XO (XO (XI (XI (XO (XO (XI (XI (XO
                            (XO (XI (XI (XO (XO (XI (XI (XO (XO
                            XH)))))))))))))))))))))))))))))))))))))))))))))))))))));
                            qden = (XO (XO (XO (XO (XO (XO (XO (XO (XO (XO
                            (XO (XO (XO (XO (XO (XO (XO (XO (XO (XO (XO (XO
                            (XO (XO (XO (XO (XO (XO (XO (XO (XO (XO (XO (XO
                            (XO (XO (XO (XO (XO (XO (XO (XO (XO (XO (XO (XO
                            (XO (XO (XO (XO (XO (XO (XO (XO
                            XH)))))))))))))))))))))))))))))))))))))))))))))))))))))) }
                            fnat_1)
                          (qltb fnat_1 { qnum = (Zpos XH); qden = (XO XH) }))
                        ((||)
                          (qleb lrmsd_2 { qnum = (Zpos (XI (XO XH))); qden =
                            XH })
                          (qleb irmsd_3 { qnum = (Zpos (XO XH)); qden = XH })))
                      ((&&)
                        ((&&)
                          (qleb { qnum = (Zpos XH); qden = (XO XH) } fnat_1)
                          (qltb { qnum = (Zpos XH); qden = XH } lrmsd_2))
                        (qltb { qnum = (Zpos XH); qden = XH } irmsd_3))
                 then let label_7 = String ((Ascii (true, false, true, true,
                        false, true, true, false)), (String ((Ascii (true,
                        false, true, false, false, true, true, false)),
                        (String ((Ascii (false, false, true, false, false,
                        true, true, false)), (String ((Ascii (true, false,
                        false, true, false, true, true, false)), (String
                        ((Ascii (true, false, true, false, true, true, true,
                        false)), (String ((Ascii (true, false, true, true,
                        false, true, true, false)), EmptyString)))))))))))
                      in
                      Ok label_7
                 else if (&&)
                           (qleb { qnum = (Zpos XH); qden = (XO XH) } fnat_1)
                           ((||)
                             (qleb lrmsd_2 { qnum = (Zpos XH); qden = XH })
                             (qleb irmsd_3 { qnum = (Zpos XH); qden = XH }))
                      then let label_8 = String ((Ascii (false, false, false,
                             true, false, true, true, false)), (String
                             ((Ascii (true, false, false, true, false, true,
                             true, false)), (String ((Ascii (true, true,
                             true, false, false, true, true, false)), (String
                             ((Ascii (false, false, false, true, false, true,
                             true, false)), EmptyString)))))))
                           in
                           Ok label_8
                      else Err (String ((Ascii (true, false, true, false,
                             true, false, true, false)), (String ((Ascii
                             (false, true, true, true, false, true, true,
                             false)), (String ((Ascii (false, true, false,
                             false, false, true, true, false)), (String
                             ((Ascii (true, true, true, true, false, true,
                             true, false)), (String ((Ascii (true, false,
                             true, false, true, true, true, false)), (String
                             ((Ascii (false, true, true, true, false, true,
                             true, false)), (String ((Ascii (false, false,
                             true, false, false, true, true, false)), (String
                             ((Ascii (false, false, true, true, false, false,
                             true, false)), (String ((Ascii (true, true,
                             true, true, false, true, true, false)), (String
                             ((Ascii (true, true, false, false, false, true,
                             true, false)), (String ((Ascii (true, false,
                             false, false, false, true, true, false)),
                             (String ((Ascii (false, false, true, true,
                             false, true, true, false)), (String ((Ascii
                             (true, false, true, false, false, false, true,
                             false)), (String ((Ascii (false, true, false,
                             false, true, true, true, false)), (String
                             ((Ascii (false, true, false, false, true, true,
                             true, false)), (String ((Ascii (true, true,
                             true, true, false, true, true, false)), (String
                             ((Ascii (false, true, false, false, true, true,
                             true, false)),
                             EmptyString))))))))))))))))))))))))))))))))))
  else Err (String ((Ascii (true, false, true, false, true, false, true,
         false)), (String ((Ascii (false, true, true, true, false, true,
         true, false)), (String ((Ascii (false, true, false, false, false,
         true, true, false)), (String ((Ascii (true, true, true, true, false,
         true, true, false)), (String ((Ascii (true, false, true, false,
         true, true, true, false)), (String ((Ascii (false, true, true, true,
         false, true, true, false)), (String ((Ascii (false, false, true,
         false, false, true, true, false)), (String ((Ascii (false, false,
         true, true, false, false, true, false)), (String ((Ascii (true,
         true, true, true, false, true, true, false)), (String ((Ascii (true,
         true, false, false, false, true, true, false)), (String ((Ascii
         (true, false, false, false, false, true, true, false)), (String
         ((Ascii (false, false, true, true, false, true, true, false)),
         (String ((Ascii (true, false, true, false, false, false, true,
         false)), (String ((Ascii (false, true, false, false, true, true,
         true, false)), (String ((Ascii (false, true, false, false, true,
         true, true, false)), (String ((Ascii (true, true, true, true, false,
         true, true, false)), (String ((Ascii (false, true, false, false,
         true, true, true, false)),
         EmptyString))))))))))))))))))))))))))))))))))

(** val scale_rms_src : q -> q -> q **)

let scale_rms_src rms_1 d_2 =
  qdiv { qnum = (Zpos XH); qden = XH }
    (qplus { qnum = (Zpos XH); qden = XH } (qsqr (qdiv rms_1 d_2)))

(** val dockq_raw_src : q -> q -> q -> q -> q -> q **)

let dockq_raw_src fnat_1 lrmsd_2 irmsd_3 d1_4 d2_5 =
  qmult
    (qdiv { qnum = (Zpos XH); qden = XH } { qnum = (Zpos (XI XH)); qden =
      XH })
    (qplus (qplus fnat_1 (scale_rms_src lrmsd_2 d1_4))
      (scale_rms_src irmsd_3 d2_5))

(** val dockq_digits_src : nat **)

let dockq_digits_src =
  S (S (S (S (S (S O)))))

(** val dockq_d1_src : q **)

let dockq_d1_src =
  { qnum = (Zpos (XI (XO (XO (XO XH))))); qden = (XO XH) }

(** val dockq_d2_src : q **)

let dockq_d2_src =
  { qnum = (Zpos (XI XH)); qden = (XO XH) }

(** val capri : q -> q -> q -> string res **)

let capri f l i =
  capri_src f l i (String ((Ascii (false, false, false, false, true, true,
    true, false)), (String ((Ascii (false, true, false, false, true, true,
    true, false)), (String ((Ascii (true, true, true, true, false, true,
    true, false)), (String ((Ascii (false, false, true, false, true, true,
    true, false)), (String ((Ascii (true, false, true, false, false, true,
    true, false)), (String ((Ascii (true, false, false, true, false, true,
    true, false)), (String ((Ascii (false, true, true, true, false, true,
    true, false)), (String ((Ascii (true, false, true, true, false, true,
    false, false)), (String ((Ascii (false, false, false, false, true, true,
    true, false)), (String ((Ascii (false, true, false, false, true, true,
    true, false)), (String ((Ascii (true, true, true, true, false, true,
    true, false)), (String ((Ascii (false, false, true, false, true, true,
    true, false)), (String ((Ascii (true, false, true, false, false, true,
    true, false)), (String ((Ascii (true, false, false, true, false, true,
    true, false)), (String ((Ascii (false, true, true, true, false, true,
    true, false)), EmptyString))))))))))))))))))))))))))))))

(** val dockq : q -> q -> q -> q -> q -> q **)

let dockq f l i d1 d2 =
  round_dec dockq_digits_src (dockq_raw_src f l i d1 d2)

type capri_class =
| Incorrect
| Acceptable
| Medium
| High

(** val class_name : capri_class -> string **)

let class_name = function
| Incorrect ->
  String ((Ascii (true, false, false, true, false, true, true, false)),
    (String ((Ascii (false, true, true, true, false, true, true, false)),
    (String ((Ascii (true, true, false, false, false, true, true, false)),
    (String ((Ascii (true, true, true, true, false, true, true, false)),
    (String ((Ascii (false, true, false, false, true, true, true, false)),
    (String ((Ascii (false, true, false, false, true, true, true, false)),
    (String ((Ascii (true, false, true, false, false, true, true, false)),
    (String ((Ascii (true, true, false, false, false, true, true, false)),
    (String ((Ascii (false, false, true, false, true, true, true, false)),
    EmptyString)))))))))))))))))
| Acceptable ->
  String ((Ascii (true, false, false, false, false, true, true, false)),
    (String ((Ascii (true, true, false, false, false, true, true, false)),
    (String ((Ascii (true, true, false, false, false, true, true, false)),
    (String ((Ascii (true, false, true, false, false, true, true, false)),
    (String ((Ascii (false, false, false, false, true, true, true, false)),
    (String ((Ascii (false, false, true, false, true, true, true, false)),
    (String ((Ascii (true, false, false, false, false, true, true, false)),
    (String ((Ascii (false, true, false, false, false, true, true, false)),
    (String ((Ascii (false, false, true, true, false, true, true, false)),
    (String ((Ascii (true, false, true, false, false, true, true, false)),
    EmptyString)))))))))))))))))))
| Medium ->
  String ((Ascii (true, false, true, true, false, true, true, false)),
    (String ((Ascii (true, false, true, false, false, true, true, false)),
    (String ((Ascii (false, false, true, false, false, true, true, false)),
    (String ((Ascii (true, false, false, true, false, true, true, false)),
    (String ((Ascii (true, false, true, false, true, true, true, false)),
    (String ((Ascii (true, false, true, true, false, true, true, false)),
    EmptyString)))))))))))
| High ->
  String ((Ascii (false, false, false, true, false, true, true, false)),
    (String ((Ascii (true, false, false, true, false, true, true, false)),
    (String ((Ascii (true, true, true, false, false, true, true, false)),
    (String ((Ascii (false, false, false, true, false, true, true, false)),
    EmptyString)))))))

(** val t01 : q **)

let t01 =
  b64 { qnum = (Zpos XH); qden = (XO (XI (XO XH))) }

(** val t03 : q **)

let t03 =
  b64 { qnum = (Zpos (XI XH)); qden = (XO (XI (XO XH))) }

(** val t05 : q **)

let t05 =
  b64 { qnum = (Zpos (XI (XO XH))); qden = (XO (XI (XO XH))) }

(** val levelb : nat -> q -> q -> q -> bool **)

let levelb k f l i =
  match k with
  | O -> true
  | S n0 ->
    (match n0 with
     | O ->
       (&&) (qleb t01 f)
         ((||) (qleb l { qnum = (Zpos (XO (XI (XO XH)))); qden = XH })
           (qleb i { qnum = (Zpos (XO (XO XH))); qden = XH }))
     | S n1 ->
       (match n1 with
        | O ->
          (&&) (qleb t03 f)
            ((||) (qleb l { qnum = (Zpos (XI (XO XH))); qden = XH })
              (qleb i { qnum = (Zpos (XO XH)); qden = XH }))
        | S _ ->
          (&&) (qleb t05 f)
            ((||) (qleb l { qnum = (Zpos XH); qden = XH })
              (qleb i { qnum = (Zpos XH); qden = XH }))))

(** val capri_spec : q -> q -> q -> capri_class **)

let capri_spec f l i =
  if levelb (S (S (S O))) f l i
  then High
  else if levelb (S (S O)) f l i
       then Medium
       else if levelb (S O) f l i then Acceptable else Incorrect

(** val dockq_formula : q -> q -> q -> q -> q -> q **)

let dockq_formula f l i d1 d2 =
  qdiv
    (qplus
      (qplus f
        (qdiv { qnum = (Zpos XH); qden = XH }
          (qplus { qnum = (Zpos XH); qden = XH }
            (qmult (qdiv l d1) (qdiv l d1)))))
      (qdiv { qnum = (Zpos XH); qden = XH }
        (qplus { qnum = (Zpos XH); qden = XH }
          (qmult (qdiv i d2) (qdiv i d2))))) { qnum = (Zpos (XI XH)); qden =
    XH }

(** val col_src : (string * string) list **)

let col_src =
  ((String ((Ascii (true, true, false, false, true, true, true, false)),
    (String ((Ascii (true, false, true, false, false, true, true, false)),
    (String ((Ascii (false, true, false, false, true, true, true, false)),
    (String ((Ascii (true, false, false, true, false, true, true, false)),
    (String ((Ascii (true, false, false, false, false, true, true, false)),
    (String ((Ascii (false, false, true, true, false, true, true, false)),
    EmptyString)))))))))))), (String ((Ascii (true, false, false, true,
    false, false, true, false)), (String ((Ascii (false, true, true, true,
    false, false, true, false)), (String ((Ascii (false, false, true, false,
    true, false, true, false)), EmptyString))))))) :: (((String ((Ascii
    (false, true, true, true, false, true, true, false)), (String ((Ascii
    (true, false, false, false, false, true, true, false)), (String ((Ascii
    (true, false, true, true, false, true, true, false)), (String ((Ascii
    (true, false, true, false, false, true, true, false)),
    EmptyString)))))))), (String ((Ascii (false, false, true, false, true,
    false, true, false)), (String ((Ascii (true, false, true, false, false,
    false, true, false)), (String ((Ascii (false, false, false, true, true,
    false, true, false)), (String ((Ascii (false, false, true, false, true,
    false, true, false)), EmptyString))))))))) :: (((String ((Ascii (true,
    false, false, false, false, true, true, false)), (String ((Ascii (false,
    false, true, true, false, true, true, false)), (String ((Ascii (false,
    false, true, false, true, true, true, false)), (String ((Ascii (false,
    false, true, true, false, false, true, false)), (String ((Ascii (true,
    true, true, true, false, true, true, false)), (String ((Ascii (true,
    true, false, false, false, true, true, false)), EmptyString)))))))))))),
    (String ((Ascii (false, false, true, false, true, false, true, false)),
    (String ((Ascii (true, false, true, false, false, false, true, false)),
    (String ((Ascii (false, false, false, true, true, false, true, false)),
    (String ((Ascii (false, false, true, false, true, false, true, false)),
    EmptyString))))))))) :: (((String ((Ascii (false, true, false, false,
    true, true, true, false)), (String ((Ascii (true, false, true, false,
    false, true, true, false)), (String ((Ascii (true, true, false, false,
    true, true, true, false)), (String ((Ascii (false, true, true, true,
    false, false, true, false)), (String ((Ascii (true, false, false, false,
    false, true, true, false)), (String ((Ascii (true, false, true, true,
    false, true, true, false)), (String ((Ascii (true, false, true, false,
    false, true, true, false)), EmptyString)))))))))))))), (String ((Ascii
    (false, false, true, false, true, false, true, false)), (String ((Ascii
    (true, false, true, false, false, false, true, false)), (String ((Ascii
    (false, false, false, true, true, false, true, false)), (String ((Ascii
    (false, false, true, false, true, false, true, false)),
    EmptyString))))))))) :: (((String ((Ascii (true, true, false, false,
    false, true, true, false)), (String ((Ascii (false, false, false, true,
    false, true, true, false)), (String ((Ascii (true, false, false, false,
    false, true, true, false)), (String ((Ascii (true, false, false, true,
    false, true, true, false)), (String ((Ascii (false, true, true, true,
    false, true, true, false)), (String ((Ascii (true, false, false, true,
    false, false, true, false)), (String ((Ascii (false, false, true, false,
    false, false, true, false)), EmptyString)))))))))))))), (String ((Ascii
    (false, false, true, false, true, false, true, false)), (String ((Ascii
    (true, false, true, false, false, false, true, false)), (String ((Ascii
    (false, false, false, true, true, false, true, false)), (String ((Ascii
    (false, false, true, false, true, false, true, false)),
    EmptyString))))))))) :: (((String ((Ascii (false, true, false, false,
    true, true, true, false)), (String ((Ascii (true, false, true, false,
    false, true, true, false)), (String ((Ascii (true, true, false, false,
    true, true, true, false)), (String ((Ascii (true, true, false, false,
    true, false, true, false)), (String ((Ascii (true, false, true, false,
    false, true, true, false)), (String ((Ascii (true, false, false, false,
    true, true, true, false)), EmptyString)))))))))))), (String ((Ascii
    (true, false, false, true, false, false, true, false)), (String ((Ascii
    (false, true, true, true, false, false, true, false)), (String ((Ascii
    (false, false, true, false, true, false, true, false)),
    EmptyString))))))) :: (((String ((Ascii (true, false, false, true, false,
    true, true, false)), (String ((Ascii (true, true, false, false, false,
    false, true, false)), (String ((Ascii (true, true, true, true, false,
    true, true, false)), (String ((Ascii (false, false, true, false, false,
    true, true, false)), (String ((Ascii (true, false, true, false, false,
    true, true, false)), EmptyString)))))))))), (String ((Ascii (false,
    false, true, false, true, false, true, false)), (String ((Ascii (true,
    false, true, false, false, false, true, false)), (String ((Ascii (false,
    false, false, true, true, false, true, false)), (String ((Ascii (false,
    false, true, false, true, false, true, false)),
    EmptyString))))))))) :: (((String ((Ascii (false, false, false, true,
    true, true, true, false)), EmptyString)), (String ((Ascii (false, true,
    false, false, true, false, true, false)), (String ((Ascii (true, false,
    true, false, false, false, true, false)), (String ((Ascii (true, false,
    false, false, false, false, true, false)), (String ((Ascii (false, false,
    true, true, false, false, true, false)),
    EmptyString))))))))) :: (((String ((Ascii (true, false, false, true,
    true, true, true, false)), EmptyString)), (String ((Ascii (false, true,
    false, false, true, false, true, false)), (String ((Ascii (true, false,
    true, false, false, false, true, false)), (String ((Ascii (true, false,
    false, false, false, false, true, false)), (String ((Ascii (false, false,
    true, true, false, false, true, false)),
    EmptyString))))))))) :: (((String ((Ascii (false, true, false, true,
    true, true, true, false)), EmptyString)), (String ((Ascii (false, true,
    false, false, true, false, true, false)), (String ((Ascii (true, false,
    true, false, false, false, true, false)), (String ((Ascii (true, false,
    false, false, false, false, true, false)), (String ((Ascii (false, false,
    true, true, false, false, true, false)),
    EmptyString))))))))) :: (((String ((Ascii (true, true, true, true, false,
    true, true, false)), (String ((Ascii (true, true, false, false, false,
    true, true, false)), (String ((Ascii (true, true, false, false, false,
    true, true, false)), EmptyString)))))), (String ((Ascii (false, true,
    false, false, true, false, true, false)), (String ((Ascii (true, false,
    true, false, false, false, true, false)), (String ((Ascii (true, false,
    false, false, false, false, true, false)), (String ((Ascii (false, false,
    true, true, false, false, true, false)),
    EmptyString))))))))) :: (((String ((Ascii (false, false, true, false,
    true, true, true, false)), (String ((Ascii (true, false, true, false,
    false, true, true, false)), (String ((Ascii (true, false, true, true,
    false, true, true, false)), (String ((Ascii (false, false, false, false,
    true, true, true, false)), EmptyString)))))))), (String ((Ascii (false,
    true, false, false, true, false, true, false)), (String ((Ascii (true,
    false, true, false, false, false, true, false)), (String ((Ascii (true,
    false, false, false, false, false, true, false)), (String ((Ascii (false,
    false, true, true, false, false, true, false)),
    EmptyString))))))))) :: (((String ((Ascii (true, false, true, false,
    false, true, true, false)), (String ((Ascii (false, false, true, true,
    false, true, true, false)), (String ((Ascii (true, false, true, false,
    false, true, true, false)), (String ((Ascii (true, false, true, true,
    false, true, true, false)), (String ((Ascii (true, false, true, false,
    false, true, true, false)), (String ((Ascii (false, true, true, true,
    false, true, true, false)), (String ((Ascii (false, false, true, false,
    true, true, true, false)), EmptyString)))))))))))))), (String ((Ascii
    (false, false, true, false, true, false, true, false)), (String ((Ascii
    (true, false, true, false, false, false, true, false)), (String ((Ascii
    (false, false, false, true, true, false, true, false)), (String ((Ascii
    (false, false, true, false, true, false, true, false)),
    EmptyString))))))))) :: (((String ((Ascii (true, false, true, true,
    false, true, true, false)), (String ((Ascii (true, true, true, true,
    false, true, true, false)), (String ((Ascii (false, false, true, false,
    false, true, true, false)), (String ((Ascii (true, false, true, false,
    false, true, true, false)), (String ((Ascii (false, false, true, true,
    false, true, true, false)), EmptyString)))))))))), (String ((Ascii (true,
    false, false, true, false, false, true, false)), (String ((Ascii (false,
    true, true, true, false, false, true, false)), (String ((Ascii (false,
    false, true, false, true, false, true, false)),
    EmptyString))))))) :: [])))))))))))))

(** val delimiter_src : (string * (nat * nat)) list **)

let delimiter_src =
  ((String ((Ascii (true, true, false, false, true, true, true, false)),
    (String ((Ascii (true, false, true, false, false, true, true, false)),
    (String ((Ascii (false, true, false, false, true, true, true, false)),
    (String ((Ascii (true, false, false, true, false, true, true, false)),
    (String ((Ascii (true, false, false, false, false, true, true, false)),
    (String ((Ascii (false, false, true, true, false, true, true, false)),
    EmptyString)))))))))))), ((S (S (S (S (S (S O)))))), (S (S (S (S (S (S (S
    (S (S (S (S O))))))))))))) :: (((String ((Ascii (false, true, true, true,
    false, true, true, false)), (String ((Ascii (true, false, false, false,
    false, true, true, false)), (String ((Ascii (true, false, true, true,
    false, true, true, false)), (String ((Ascii (true, false, true, false,
    false, true, true, false)), EmptyString)))))))), ((S (S (S (S (S (S (S (S
    (S (S (S (S O)))))))))))), (S (S (S (S (S (S (S (S (S (S (S (S (S (S (S
    (S O)))))))))))))))))) :: (((String ((Ascii (true, false, false, false,
    false, true, true, false)), (String ((Ascii (false, false, true, true,
    false, true, true, false)), (String ((Ascii (false, false, true, false,
    true, true, true, false)), (String ((Ascii (false, false, true, true,
    false, false, true, false)), (String ((Ascii (true, true, true, true,
    false, true, true, false)), (String ((Ascii (true, true, false, false,
    false, true, true, false)), EmptyString)))))))))))), ((S (S (S (S (S (S
    (S (S (S (S (S (S (S (S (S (S O)))))))))))))))), (S (S (S (S (S (S (S (S
    (S (S (S (S (S (S (S (S (S O))))))))))))))))))) :: (((String ((Ascii
    (false, true, false, false, true, true, true, false)), (String ((Ascii
    (true, false, true, false, false, true, true, false)), (String ((Ascii
    (true, true, false, false, true, true, true, false)), (String ((Ascii
    (false, true, true, true, false, false, true, false)), (String ((Ascii
    (true, false, false, false, false, true, true, false)), (String ((Ascii
    (true, false, true, true, false, true, true, false)), (String ((Ascii
    (true, false, true, false, false, true, true, false)),
    EmptyString)))))))))))))), ((S (S (S (S (S (S (S (S (S (S (S (S (S (S (S
    (S (S O))))))))))))))))), (S (S (S (S (S (S (S (S (S (S (S (S (S (S (S (S
    (S (S (S (S O)))))))))))))))))))))) :: (((String ((Ascii (true, true,
    false, false, false, true, true, false)), (String ((Ascii (false, false,
    false, true, false, true, true, false)), (String ((Ascii (true, false,
    false, false, false, true, true, false)), (String ((Ascii (true, false,
    false, true, false, true, true, false)), (String ((Ascii (false, true,
    true, true, false, true, true, false)), (String ((Ascii (true, false,
    false, true, false, false, true, false)), (String ((Ascii (false, false,
    true, false, false, false, true, false)), EmptyString)))))))))))))), ((S
    (S (S (S (S (S (S (S (S (S (S (S (S (S (S (S (S (S (S (S (S
    O))))))))))))))))))))), (S (S (S (S (S (S (S (S (S (S (S (S (S (S (S (S
    (S (S (S (S (S (S O)))))))))))))))))))))))) :: (((String ((Ascii (false,
    true, false, false, true, true, true, false)), (String ((Ascii (true,
    false, true, false, false, true, true, false)), (String ((Ascii (true,
    true, false, false, true, true, true, false)), (String ((Ascii (true,
    true, false, false, true, false, true, false)), (String ((Ascii (true,
    false, true, false, false, true, true, false)), (String ((Ascii (true,
    false, false, false, true, true, true, false)), EmptyString)))))))))))),
    ((S (S (S (S (S (S (S (S (S (S (S (S (S (S (S (S (S (S (S (S (S (S
    O)))))))))))))))))))))), (S (S (S (S (S (S (S (S (S (S (S (S (S (S (S (S
    (S (S (S (S (S (S (S (S (S (S O)))))))))))))))))))))))))))) :: (((String
    ((Ascii (true, false, false, true, false, true, true, false)), (String
    ((Ascii (true, true, false, false, false, false, true, false)), (String
    ((Ascii (true, true, true, true, false, true, true, false)), (String
    ((Ascii (false, false, true, false, false, true, true, false)), (String
    ((Ascii (true, false, true, false, false, true, true, false)),
    EmptyString)))))))))), ((S (S (S (S (S (S (S (S (S (S (S (S (S (S (S (S
    (S (S (S (S (S (S (S (S (S (S O)))))))))))))))))))))))))), (S (S (S (S (S
    (S (S (S (S (S (S (S (S (S (S (S (S (S (S (S (S (S (S (S (S (S (S
    O))))))))))))))))))))))))))))) :: (((String ((Ascii (false, false, false,
    true, true, true, true, false)), EmptyString)), ((S (S (S (S (S (S (S (S
    (S (S (S (S (S (S (S (S (S (S (S (S (S (S (S (S (S (S (S (S (S (S
    O)))))))))))))))))))))))))))))), (S (S (S (S (S (S (S (S (S (S (S (S (S
    (S (S (S (S (S (S (S (S (S (S (S (S (S (S (S (S (S (S (S (S (S (S (S (S
    (S O)))))))))))))))))))))))))))))))))))))))) :: (((String ((Ascii (true,
    false, false, true, true, true, true, false)), EmptyString)), ((S (S (S
    (S (S (S (S (S (S (S (S (S (S (S (S (S (S (S (S (S (S (S (S (S (S (S (S
    (S (S (S (S (S (S (S (S (S (S (S O)))))))))))))))))))))))))))))))))))))),
    (S (S (S (S (S (S (S (S (S (S (S (S (S (S (S (S (S (S (S (S (S (S (S (S
    (S (S (S (S (S (S (S (S (S (S (S (S (S (S (S (S (S (S (S (S (S (S
    O)))))))))))))))))))))))))))))))))))))))))))))))) :: (((String ((Ascii
    (false, true, false, true, true, true, true, false)), EmptyString)), ((S
    (S (S (S (S (S (S (S (S (S (S (S (S (S (S (S (S (S (S (S (S (S (S (S (S
    (S (S (S (S (S (S (S (S (S (S (S (S (S (S (S (S (S (S (S (S (S
    O)))))))))))))))))))))))))))))))))))))))))))))), (S (S (S (S (S (S (S (S
    (S (S (S (S (S (S (S (S (S (S (S (S (S (S (S (S (S (S (S (S (S (S (S (S
    (S (S (S (S (S (S (S (S (S (S (S (S (S (S (S (S (S (S (S (S (S (S
    O)))))))))))))))))))))))))))))))))))))))))))))))))))))))) :: (((String
    ((Ascii (true, true, true, true, false, true, true, false)), (String
    ((Ascii (true, true, false, false, false, true, true, false)), (String
    ((Ascii (true, true, false, false, false, true, true, false)),
    EmptyString)))))), ((S (S (S (S (S (S (S (S (S (S (S (S (S (S (S (S (S (S
    (S (S (S (S (S (S (S (S (S (S (S (S (S (S (S (S (S (S (S (S (S (S (S (S
    (S (S (S (S (S (S (S (S (S (S (S (S
    O)))))))))))))))))))))))))))))))))))))))))))))))))))))), (S (S (S (S (S
    (S (S (S (S (S (S (S (S (S (S (S (S (S (S (S (S (S (S (S (S (S (S (S (S
    (S (S (S (S (S (S (S (S (S (S (S (S (S (S (S (S (S (S (S (S (S (S (S (S
    (S (S (S (S (S (S (S
    O)))))))))))))))))))))))))))))))))))))))))))))))))))))))))))))) :: (((String
    ((Ascii (false, false, true, false, true, true, true, false)), (String
    ((Ascii (true, false, true, false, false, true, true, false)), (String
    ((Ascii (true, false, true, true, false, true, true, false)), (String
    ((Ascii (false, false, false, false, true, true, true, false)),
    EmptyString)))))))), ((S (S (S (S (S (S (S (S (S (S (S (S (S (S (S (S (S
    (S (S (S (S (S (S (S (S (S (S (S (S (S (S (S (S (S (S (S (S (S (S (S (S
    (S (S (S (S (S (S (S (S (S (S (S (S (S (S (S (S (S (S (S
    O)))))))))))))))))))))))))))))))))))))))))))))))))))))))))))), (S (S (S
    (S (S (S (S (S (S (S (S (S (S (S (S (S (S (S (S (S (S (S (S (S (S (S (S
    (S (S (S (S (S (S (S (S (S (S (S (S (S (S (S (S (S (S (S (S (S (S (S (S
    (S (S (S (S (S (S (S (S (S (S (S (S (S (S (S
    O)))))))))))))))))))))))))))))))))))))))))))))))))))))))))))))))))))) :: (((String
    ((Ascii (true, false, true, false, false, true, true, false)), (String
    ((Ascii (false, false, true, true, false, true, true, false)), (String
    ((Ascii (true, false, true, false, false, true, true, false)), (String
    ((Ascii (true, false, true, true, false, true, true, false)), (String
    ((Ascii (true, false, true, false, false, true, true, false)), (String
    ((Ascii (false, true, true, true, false, true, true, false)), (String
    ((Ascii (false, false, true, false, true, true, true, false)),
    EmptyString)))))))))))))), ((S (S (S (S (S (S (S (S (S (S (S (S (S (S (S
    (S (S (S (S (S (S (S (S (S (S (S (S (S (S (S (S (S (S (S (S (S (S (S (S
    (S (S (S (S (S (S (S (S (S (S (S (S (S (S (S (S (S (S (S (S (S (S (S (S
    (S (S (S (S (S (S (S (S (S (S (S (S (S
    O)))))))))))))))))))))))))))))))))))))))))))))))))))))))))))))))))))))))))))),
    (S (S (S (S (S (S (S (S (S (S (S (S (S (S (S (S (S (S (S (S (S (S (S (S
    (S (S (S (S (S (S (S (S (S (S (S (S (S (S (S (S (S (S (S (S (S (S (S (S
    (S (S (S (S (S (S (S (S (S (S (S (S (S (S (S (S (S (S (S (S (S (S (S (S
    (S (S (S (S (S (S
    O)))))))))))))))))))))))))))))))))))))))))))))))))))))))))))))))))))))))))))))))) :: []))))))))))))

(** val atom_prefix_src : string **)

let atom_prefix_src =
  String ((Ascii (true, false, false, false, false, false, true, false)),
    (String ((Ascii (false, false, true, false, true, false, true, false)),
    (String ((Ascii (true, true, true, true, false, false, true, false)),
    (String ((Ascii (true, false, true, true, false, false, true, false)),
    EmptyString)))))))

(** val endmdl_prefix_src : string **)

let endmdl_prefix_src =
  String ((Ascii (true, false, true, false, false, false, true, false)),
    (String ((Ascii (false, true, true, true, false, false, true, false)),
    (String ((Ascii (false, false, true, false, false, false, true, false)),
    (String ((Ascii (true, false, true, true, false, false, true, false)),
    (String ((Ascii (false, false, true, false, false, false, true, false)),
    (String ((Ascii (false, false, true, true, false, false, true, false)),
    EmptyString)))))))))))

(** val int_tag_src : string **)

let int_tag_src =
  String ((Ascii (true, false, false, true, false, false, true, false)),
    (String ((Ascii (false, true, true, true, false, false, true, false)),
    (String ((Ascii (false, false, true, false, true, false, true, false)),
    EmptyString)))))

(** val real_tag_src : string **)

let real_tag_src =
  String ((Ascii (false, true, false, false, true, false, true, false)),
    (String ((Ascii (true, false, true, false, false, false, true, false)),
    (String ((Ascii (true, false, false, false, false, false, true, false)),
    (String ((Ascii (false, false, true, true, false, false, true, false)),
    EmptyString)))))))

(** val blank_defaults_src : (string * blank_default) list **)

let blank_defaults_src =
  ((String ((Ascii (true, true, false, false, false, true, true, false)),
    (String ((Ascii (false, false, false, true, false, true, true, false)),
    (String ((Ascii (true, false, false, false, false, true, true, false)),
    (String ((Ascii (true, false, false, true, false, true, true, false)),
    (String ((Ascii (false, true, true, true, false, true, true, false)),
    (String ((Ascii (true, false, false, true, false, false, true, false)),
    (String ((Ascii (false, false, true, false, false, false, true, false)),
    EmptyString)))))))))))))), DChainFromSegID) :: (((String ((Ascii (true,
    true, true, true, false, true, true, false)), (String ((Ascii (true,
    true, false, false, false, true, true, false)), (String ((Ascii (true,
    true, false, false, false, true, true, false)), EmptyString)))))),
    (DConst { qnum = (Zpos XH); qden = XH })) :: (((String ((Ascii (false,
    false, true, false, true, true, true, false)), (String ((Ascii (true,
    false, true, false, false, true, true, false)), (String ((Ascii (true,
    false, true, true, false, true, true, false)), (String ((Ascii (false,
    false, false, false, true, true, true, false)), EmptyString)))))))),
    (DConst { qnum = (Zpos (XO (XI (XO XH)))); qden = XH })) :: (((String
    ((Ascii (true, false, true, false, false, true, true, false)), (String
    ((Ascii (false, false, true, true, false, true, true, false)), (String
    ((Ascii (true, false, true, false, false, true, true, false)), (String
    ((Ascii (true, false, true, true, false, true, true, false)), (String
    ((Ascii (true, false, true, false, false, true, true, false)), (String
    ((Ascii (false, true, true, true, false, true, true, false)), (String
    ((Ascii (false, false, true, false, true, true, true, false)),
    EmptyString)))))))))))))), DElementGuess) :: [])))

(** val linelength_src : string -> string res **)

let linelength_src pdb_line_1 =
  let linelen_2 = length0 pdb_line_1 in
  if Nat.ltb linelen_2 (S (S (S (S (S (S (S (S (S (S (S (S (S (S (S (S (S (S
       (S (S (S (S (S (S (S (S (S (S (S (S (S (S (S (S (S (S (S (S (S (S (S
       (S (S (S (S (S (S (S (S (S (S (S (S (S (S (S (S (S (S (S (S (S (S (S
       (S (S (S (S (S (S (S (S (S (S (S (S (S (S (S (S
       O))))))))))))))))))))))))))))))))))))))))))))))))))))))))))))))))))))))))))))))))
  then let pdb_line_3 =
         append pdb_line_1
           (repeat_str (String ((Ascii (false, false, false, false, false,
             true, false, false)), EmptyString))
             (sub (S (S (S (S (S (S (S (S (S (S (S (S (S (S (S (S (S (S (S (S
               (S (S (S (S (S (S (S (S (S (S (S (S (S (S (S (S (S (S (S (S (S
               (S (S (S (S (S (S (S (S (S (S (S (S (S (S (S (S (S (S (S (S (S
               (S (S (S (S (S (S (S (S (S (S (S (S (S (S (S (S (S (S
               O))))))))))))))))))))))))))))))))))))))))))))))))))))))))))))))))))))))))))))))))
               linelen_2))
       in
       Ok pdb_line_3
  else if Nat.ltb (S (S (S (S (S (S (S (S (S (S (S (S (S (S (S (S (S (S (S (S
            (S (S (S (S (S (S (S (S (S (S (S (S (S (S (S (S (S (S (S (S (S (S
            (S (S (S (S (S (S (S (S (S (S (S (S (S (S (S (S (S (S (S (S (S (S
            (S (S (S (S (S (S (S (S (S (S (S (S (S (S (S (S
            O))))))))))))))))))))))))))))))))))))))))))))))))))))))))))))))))))))))))))))))))
            linelen_2
       then Err (String ((Ascii (false, true, true, false, true, false, true,
              false)), (String ((Ascii (true, false, false, false, false,
              true, true, false)), (String ((Ascii (false, false, true, true,
              false, true, true, false)), (String ((Ascii (true, false, true,
              false, true, true, true, false)), (String ((Ascii (true, false,
              true, false, false, true, true, false)), (String ((Ascii (true,
              false, true, false, false, false, true, false)), (String
              ((Ascii (false, true, false, false, true, true, true, false)),
              (String ((Ascii (false, true, false, false, true, true, true,
              false)), (String ((Ascii (true, true, true, true, false, true,
              true, false)), (String ((Ascii (false, true, false, false,
              true, true, true, false)), EmptyString))))))))))))))))))))
       else Ok pdb_line_1

(** val get_chainID_src : string -> string res **)

let get_chainID_src pdb_line_1 =
  let segID_2 =
    strip
      (slice (S (S (S (S (S (S (S (S (S (S (S (S (S (S (S (S (S (S (S (S (S
        (S (S (S (S (S (S (S (S (S (S (S (S (S (S (S (S (S (S (S (S (S (S (S
        (S (S (S (S (S (S (S (S (S (S (S (S (S (S (S (S (S (S (S (S (S (S (S
        (S (S (S (S (S
        O))))))))))))))))))))))))))))))))))))))))))))))))))))))))))))))))))))))))
        (S (S (S (S (S (S (S (S (S (S (S (S (S (S (S (S (S (S (S (S (S (S (S
        (S (S (S (S (S (S (S (S (S (S (S (S (S (S (S (S (S (S (S (S (S (S (S
        (S (S (S (S (S (S (S (S (S (S (S (S (S (S (S (S (S (S (S (S (S (S (S
        (S (S (S (S (S (S (S
        O))))))))))))))))))))))))))))))))))))))))))))))))))))))))))))))))))))))))))))
        pdb_line_1)
  in
  if str_nonempty segID_2
  then Ok segID_2
  else Err (String ((Ascii (false, true, true, false, true, false, true,
         false)), (String ((Ascii (true, false, false, false, false, true,
         true, false)), (String ((Ascii (false, false, true, true, false,
         true, true, false)), (String ((Ascii (true, false, true, false,
         true, true, true, false)), (String ((Ascii (true, false, true,
         false, false, true, true, false)), (String ((Ascii (true, false,
         true, false, false, false, true, false)), (String ((Ascii (false,
         true, false, false, true, true, true, false)), (String ((Ascii
         (false, true, false, false, true, true, true, false)), (String
         ((Ascii (true, true, true, true, false, true, true, false)), (String
         ((Ascii (false, true, false, false, true, true, true, false)),
         EmptyString))))))))))))))))))))

(** val get_element_src : string -> string res **)

let get_element_src pdb_line_1 =
  let first_char_2 =
    strip
      (char_at (S (S (S (S (S (S (S (S (S (S (S (S O)))))))))))) pdb_line_1)
  in
  let last_char_3 =
    strip
      (char_at (S (S (S (S (S (S (S (S (S (S (S (S (S (S (S O)))))))))))))))
        pdb_line_1)
  in
  if str_nonempty first_char_2
  then if is_substring first_char_2 (String ((Ascii (false, false, false,
            false, true, true, false, false)), (String ((Ascii (true, false,
            false, false, true, true, false, false)), (String ((Ascii (false,
            true, false, false, true, true, false, false)), (String ((Ascii
            (true, true, false, false, true, true, false, false)), (String
            ((Ascii (false, false, true, false, true, true, false, false)),
            (String ((Ascii (true, false, true, false, true, true, false,
            false)), (String ((Ascii (false, true, true, false, true, true,
            false, false)), (String ((Ascii (true, true, true, false, true,
            true, false, false)), (String ((Ascii (false, false, false, true,
            true, true, false, false)), (String ((Ascii (true, false, false,
            true, true, true, false, false)), EmptyString))))))))))))))))))))
       then let elem_4 =
              char_at (S (S (S (S (S (S (S (S (S (S (S (S (S O)))))))))))))
                pdb_line_1
            in
            Ok (strip elem_4)
       else if (&&)
                 (eqb1 first_char_2 (String ((Ascii (false, false, false,
                   true, false, false, true, false)), EmptyString)))
                 (str_nonempty last_char_3)
            then let elem_5 = String ((Ascii (false, false, false, true,
                   false, false, true, false)), EmptyString)
                 in
                 Ok (strip elem_5)
            else let elem_6 =
                   slice (S (S (S (S (S (S (S (S (S (S (S (S O)))))))))))) (S
                     (S (S (S (S (S (S (S (S (S (S (S (S (S O))))))))))))))
                     pdb_line_1
                 in
                 Ok (strip elem_6)
  else let elem_7 =
         char_at (S (S (S (S (S (S (S (S (S (S (S (S (S O)))))))))))))
           pdb_line_1
       in
       Ok (strip elem_7)

type form =
| FPath
| FPathObj
| FStr
| FBytes
| FListStr
| FListBytes
| FNdarrayStr
| FNdarrayBytes

type input =
| InText of form * string
| InLines of form * string list

(** val lines_of : input -> string list res **)

let lines_of = function
| InText (f, txt) ->
  (match f with
   | FPath -> Ok (readlines txt)
   | FPathObj -> Ok (readlines txt)
   | FStr ->
     if Nat.ltb (S (S (S O)))
          (count_sub (String (nl, (String ((Ascii (true, false, false, false,
            false, false, true, false)), (String ((Ascii (false, false, true,
            false, true, false, true, false)), (String ((Ascii (true, true,
            true, true, false, false, true, false)), (String ((Ascii (true,
            false, true, true, false, false, true, false)), (String ((Ascii
            (false, false, false, false, false, true, false, false)),
            EmptyString)))))))))))) txt)
     then Ok (split_nl txt)
     else Err (String ((Ascii (false, true, true, false, false, false, true,
            false)), (String ((Ascii (true, false, false, true, false, true,
            true, false)), (String ((Ascii (false, false, true, true, false,
            true, true, false)), (String ((Ascii (true, false, true, false,
            false, true, true, false)), (String ((Ascii (false, true, true,
            true, false, false, true, false)), (String ((Ascii (true, true,
            true, true, false, true, true, false)), (String ((Ascii (false,
            false, true, false, true, true, true, false)), (String ((Ascii
            (false, true, true, false, false, false, true, false)), (String
            ((Ascii (true, true, true, true, false, true, true, false)),
            (String ((Ascii (true, false, true, false, true, true, true,
            false)), (String ((Ascii (false, true, true, true, false, true,
            true, false)), (String ((Ascii (false, false, true, false, false,
            true, true, false)), (String ((Ascii (true, false, true, false,
            false, false, true, false)), (String ((Ascii (false, true, false,
            false, true, true, true, false)), (String ((Ascii (false, true,
            false, false, true, true, true, false)), (String ((Ascii (true,
            true, true, true, false, true, true, false)), (String ((Ascii
            (false, true, false, false, true, true, true, false)),
            EmptyString))))))))))))))))))))))))))))))))))
   | FBytes ->
     if Nat.ltb (S (S (S O)))
          (count_sub (String (nl, (String ((Ascii (true, false, false, false,
            false, false, true, false)), (String ((Ascii (false, false, true,
            false, true, false, true, false)), (String ((Ascii (true, true,
            true, true, false, false, true, false)), (String ((Ascii (true,
            false, true, true, false, false, true, false)), (String ((Ascii
            (false, false, false, false, false, true, false, false)),
            EmptyString)))))))))))) txt)
     then Ok (split_nl txt)
     else Err (String ((Ascii (false, true, true, false, false, false, true,
            false)), (String ((Ascii (true, false, false, true, false, true,
            true, false)), (String ((Ascii (false, false, true, true, false,
            true, true, false)), (String ((Ascii (true, false, true, false,
            false, true, true, false)), (String ((Ascii (false, true, true,
            true, false, false, true, false)), (String ((Ascii (true, true,
            true, true, false, true, true, false)), (String ((Ascii (false,
            false, true, false, true, true, true, false)), (String ((Ascii
            (false, true, true, false, false, false, true, false)), (String
            ((Ascii (true, true, true, true, false, true, true, false)),
            (String ((Ascii (true, false, true, false, true, true, true,
            false)), (String ((Ascii (false, true, true, true, false, true,
            true, false)), (String ((Ascii (false, false, true, false, false,
            true, true, false)), (String ((Ascii (true, false, true, false,
            false, false, true, false)), (String ((Ascii (false, true, false,
            false, true, true, true, false)), (String ((Ascii (false, true,
            false, false, true, true, true, false)), (String ((Ascii (true,
            true, true, true, false, true, true, false)), (String ((Ascii
            (false, true, false, false, true, true, true, false)),
            EmptyString))))))))))))))))))))))))))))))))))
   | _ ->
     Err (String ((Ascii (false, true, true, false, true, false, true,
       false)), (String ((Ascii (true, false, false, false, false, true,
       true, false)), (String ((Ascii (false, false, true, true, false, true,
       true, false)), (String ((Ascii (true, false, true, false, true, true,
       true, false)), (String ((Ascii (true, false, true, false, false, true,
       true, false)), (String ((Ascii (true, false, true, false, false,
       false, true, false)), (String ((Ascii (false, true, false, false,
       true, true, true, false)), (String ((Ascii (false, true, false, false,
       true, true, true, false)), (String ((Ascii (true, true, true, true,
       false, true, true, false)), (String ((Ascii (false, true, false,
       false, true, true, true, false)), EmptyString)))))))))))))))))))))
| InLines (_, ls) ->
  (match ls with
   | [] ->
     Err (String ((Ascii (true, false, false, true, false, false, true,
       false)), (String ((Ascii (false, true, true, true, false, true, true,
       false)), (String ((Ascii (false, false, true, false, false, true,
       true, false)), (String ((Ascii (true, false, true, false, false, true,
       true, false)), (String ((Ascii (false, false, false, true, true, true,
       true, false)), (String ((Ascii (true, false, true, false, false,
       false, true, false)), (String ((Ascii (false, true, false, false,
       true, true, true, false)), (String ((Ascii (false, true, false, false,
       true, true, true, false)), (String ((Ascii (true, true, true, true,
       false, true, true, false)), (String ((Ascii (false, true, false,
       false, true, true, true, false)), EmptyString))))))))))))))))))))
   | _ :: _ -> Ok ls)

(** val assoc : string -> (string * 'a1) list -> 'a1 option **)

let rec assoc k = function
| [] -> None
| p :: t -> let (k', v0) = p in if eqb1 k k' then Some v0 else assoc k t

(** val parse_field : string -> string -> string -> val0 option res **)

let parse_field line colname coltype =
  match assoc colname delimiter_src with
  | Some p ->
    let (a, b) = p in
    let data = strip (slice a b line) in
    bind
      (if str_nonempty data
       then Ok (Inl data)
       else (match assoc colname blank_defaults_src with
             | Some b0 ->
               (match b0 with
                | DConst q0 -> Ok (Inr q0)
                | DChainFromSegID ->
                  bind (get_chainID_src line) (fun s -> Ok (Inl s))
                | DElementGuess ->
                  bind (get_element_src line) (fun s -> Ok (Inl s)))
             | None -> Ok (Inl data))) (fun data' ->
      if eqb1 coltype int_tag_src
      then (match data' with
            | Inl s ->
              (match parse_int s with
               | NumOk z0 -> Ok (Some (VInt z0))
               | NumBad ->
                 Err (String ((Ascii (false, true, true, false, true, false,
                   true, false)), (String ((Ascii (true, false, false, false,
                   false, true, true, false)), (String ((Ascii (false, false,
                   true, true, false, true, true, false)), (String ((Ascii
                   (true, false, true, false, true, true, true, false)),
                   (String ((Ascii (true, false, true, false, false, true,
                   true, false)), (String ((Ascii (true, false, true, false,
                   false, false, true, false)), (String ((Ascii (false, true,
                   false, false, true, true, true, false)), (String ((Ascii
                   (false, true, false, false, true, true, true, false)),
                   (String ((Ascii (true, true, true, true, false, true,
                   true, false)), (String ((Ascii (false, true, false, false,
                   true, true, true, false)), EmptyString))))))))))))))))))))
               | NumOutOfModel ->
                 Err (String ((Ascii (true, true, true, true, false, false,
                   true, false)), (String ((Ascii (true, false, true, false,
                   true, true, true, false)), (String ((Ascii (false, false,
                   true, false, true, true, true, false)), (String ((Ascii
                   (true, true, true, true, false, false, true, false)),
                   (String ((Ascii (false, true, true, false, false, true,
                   true, false)), (String ((Ascii (true, false, true, true,
                   false, false, true, false)), (String ((Ascii (true, true,
                   true, true, false, true, true, false)), (String ((Ascii
                   (false, false, true, false, false, true, true, false)),
                   (String ((Ascii (true, false, true, false, false, true,
                   true, false)), (String ((Ascii (false, false, true, true,
                   false, true, true, false)), EmptyString)))))))))))))))))))))
            | Inr q0 -> Ok (Some (VInt (Z.div q0.qnum (Zpos q0.qden)))))
      else if eqb1 coltype real_tag_src
           then (match data' with
                 | Inl s ->
                   (match parse_float s with
                    | NumOk q0 -> Ok (Some (VReal q0))
                    | NumBad ->
                      Err (String ((Ascii (false, true, true, false, true,
                        false, true, false)), (String ((Ascii (true, false,
                        false, false, false, true, true, false)), (String
                        ((Ascii (false, false, true, true, false, true, true,
                        false)), (String ((Ascii (true, false, true, false,
                        true, true, true, false)), (String ((Ascii (true,
                        false, true, false, false, true, true, false)),
                        (String ((Ascii (true, false, true, false, false,
                        false, true, false)), (String ((Ascii (false, true,
                        false, false, true, true, true, false)), (String
                        ((Ascii (false, true, false, false, true, true, true,
                        false)), (String ((Ascii (true, true, true, true,
                        false, true, true, false)), (String ((Ascii (false,
                        true, false, false, true, true, true, false)),
                        EmptyString))))))))))))))))))))
                    | NumOutOfModel ->
                      Err (String ((Ascii (true, true, true, true, false,
                        false, true, false)), (String ((Ascii (true, false,
                        true, false, true, true, true, false)), (String
                        ((Ascii (false, false, true, false, true, true, true,
                        false)), (String ((Ascii (true, true, true, true,
                        false, false, true, false)), (String ((Ascii (false,
                        true, true, false, false, true, true, false)),
                        (String ((Ascii (true, false, true, true, false,
                        false, true, false)), (String ((Ascii (true, true,
                        true, true, false, true, true, false)), (String
                        ((Ascii (false, false, true, false, false, true,
                        true, false)), (String ((Ascii (true, false, true,
                        false, false, true, true, false)), (String ((Ascii
                        (false, false, true, true, false, true, true,
                        false)), EmptyString)))))))))))))))))))))
                 | Inr q0 -> Ok (Some (VReal q0)))
           else (match data' with
                 | Inl s -> Ok (Some (VText s))
                 | Inr _ ->
                   Err (String ((Ascii (true, true, true, true, false, false,
                     true, false)), (String ((Ascii (true, false, true,
                     false, true, true, true, false)), (String ((Ascii
                     (false, false, true, false, true, true, true, false)),
                     (String ((Ascii (true, true, true, true, false, false,
                     true, false)), (String ((Ascii (false, true, true,
                     false, false, true, true, false)), (String ((Ascii
                     (true, false, true, true, false, false, true, false)),
                     (String ((Ascii (true, true, true, true, false, true,
                     true, false)), (String ((Ascii (false, false, true,
                     false, false, true, true, false)), (String ((Ascii
                     (true, false, true, false, false, true, true, false)),
                     (String ((Ascii (false, false, true, true, false, true,
                     true, false)), EmptyString))))))))))))))))))))))
  | None -> Ok None

(** val parse_fields : string -> (string * string) list -> val0 list res **)

let rec parse_fields line = function
| [] -> Ok []
| p :: t ->
  let (cn, ct) = p in
  bind (parse_field line cn ct) (fun v0 ->
    bind (parse_fields line t) (fun vs -> Ok
      (match v0 with
       | Some x -> x :: vs
       | None -> vs)))

(** val parse_record : z -> string -> row res **)

let parse_record nmodel line0 =
  bind (linelength_src line0) (fun line ->
    bind (parse_fields line col_src) (fun vs -> Ok
      (app vs ((VInt nmodel) :: []))))

(** val parse_lines : string list -> z -> (row list * z) res **)

let rec parse_lines lines nmodel =
  match lines with
  | [] -> Ok ([], nmodel)
  | l :: t ->
    if startswith atom_prefix_src l
    then bind (parse_record nmodel (upto_nl l)) (fun r ->
           bind (parse_lines t nmodel) (fun rest -> Ok ((r :: (fst rest)),
             (snd rest))))
    else if startswith endmdl_prefix_src l
         then parse_lines t (Z.add nmodel (Zpos XH))
         else parse_lines t nmodel

(** val parse : input -> (row list * z) res **)

let parse i =
  bind (lines_of i) (fun ls -> parse_lines ls Z0)

type ftype =
| TInt
| TReal
| TText

(** val wwpdb_cols : ((string * (nat * nat)) * ftype) list **)

let wwpdb_cols =
  (((String ((Ascii (true, true, false, false, true, true, true, false)),
    (String ((Ascii (true, false, true, false, false, true, true, false)),
    (String ((Ascii (false, true, false, false, true, true, true, false)),
    (String ((Ascii (true, false, false, true, false, true, true, false)),
    (String ((Ascii (true, false, false, false, false, true, true, false)),
    (String ((Ascii (false, false, true, true, false, true, true, false)),
    EmptyString)))))))))))), ((S (S (S (S (S (S (S O))))))), (S (S (S (S (S
    (S (S (S (S (S (S O))))))))))))), TInt) :: ((((String ((Ascii (false,
    true, true, true, false, true, true, false)), (String ((Ascii (true,
    false, false, false, false, true, true, false)), (String ((Ascii (true,
    false, true, true, false, true, true, false)), (String ((Ascii (true,
    false, true, false, false, true, true, false)), EmptyString)))))))), ((S
    (S (S (S (S (S (S (S (S (S (S (S (S O))))))))))))), (S (S (S (S (S (S (S
    (S (S (S (S (S (S (S (S (S O)))))))))))))))))), TText) :: ((((String
    ((Ascii (true, false, false, false, false, true, true, false)), (String
    ((Ascii (false, false, true, true, false, true, true, false)), (String
    ((Ascii (false, false, true, false, true, true, true, false)), (String
    ((Ascii (false, false, true, true, false, false, true, false)), (String
    ((Ascii (true, true, true, true, false, true, true, false)), (String
    ((Ascii (true, true, false, false, false, true, true, false)),
    EmptyString)))))))))))), ((S (S (S (S (S (S (S (S (S (S (S (S (S (S (S (S
    (S O))))))))))))))))), (S (S (S (S (S (S (S (S (S (S (S (S (S (S (S (S (S
    O))))))))))))))))))), TText) :: ((((String ((Ascii (false, true, false,
    false, true, true, true, false)), (String ((Ascii (true, false, true,
    false, false, true, true, false)), (String ((Ascii (true, true, false,
    false, true, true, true, false)), (String ((Ascii (false, true, true,
    true, false, false, true, false)), (String ((Ascii (true, false, false,
    false, false, true, true, false)), (String ((Ascii (true, false, true,
    true, false, true, true, false)), (String ((Ascii (true, false, true,
    false, false, true, true, false)), EmptyString)))))))))))))), ((S (S (S
    (S (S (S (S (S (S (S (S (S (S (S (S (S (S (S O)))))))))))))))))), (S (S
    (S (S (S (S (S (S (S (S (S (S (S (S (S (S (S (S (S (S
    O)))))))))))))))))))))), TText) :: ((((String ((Ascii (true, true, false,
    false, false, true, true, false)), (String ((Ascii (false, false, false,
    true, false, true, true, false)), (String ((Ascii (true, false, false,
    false, false, true, true, false)), (String ((Ascii (true, false, false,
    true, false, true, true, false)), (String ((Ascii (false, true, true,
    true, false, true, true, false)), (String ((Ascii (true, false, false,
    true, false, false, true, false)), (String ((Ascii (false, false, true,
    false, false, false, true, false)), EmptyString)))))))))))))), ((S (S (S
    (S (S (S (S (S (S (S (S (S (S (S (S (S (S (S (S (S (S (S
    O)))))))))))))))))))))), (S (S (S (S (S (S (S (S (S (S (S (S (S (S (S (S
    (S (S (S (S (S (S O)))))))))))))))))))))))), TText) :: ((((String ((Ascii
    (false, true, false, false, true, true, true, false)), (String ((Ascii
    (true, false, true, false, false, true, true, false)), (String ((Ascii
    (true, true, false, false, true, true, true, false)), (String ((Ascii
    (true, true, false, false, true, false, true, false)), (String ((Ascii
    (true, false, true, false, false, true, true, false)), (String ((Ascii
    (true, false, false, false, true, true, true, false)),
    EmptyString)))))))))))), ((S (S (S (S (S (S (S (S (S (S (S (S (S (S (S (S
    (S (S (S (S (S (S (S O))))))))))))))))))))))), (S (S (S (S (S (S (S (S (S
    (S (S (S (S (S (S (S (S (S (S (S (S (S (S (S (S (S
    O)))))))))))))))))))))))))))), TInt) :: ((((String ((Ascii (true, false,
    false, true, false, true, true, false)), (String ((Ascii (true, true,
    false, false, false, false, true, false)), (String ((Ascii (true, true,
    true, true, false, true, true, false)), (String ((Ascii (false, false,
    true, false, false, true, true, false)), (String ((Ascii (true, false,
    true, false, false, true, true, false)), EmptyString)))))))))), ((S (S (S
    (S (S (S (S (S (S (S (S (S (S (S (S (S (S (S (S (S (S (S (S (S (S (S (S
    O))))))))))))))))))))))))))), (S (S (S (S (S (S (S (S (S (S (S (S (S (S
    (S (S (S (S (S (S (S (S (S (S (S (S (S O))))))))))))))))))))))))))))),
    TText) :: ((((String ((Ascii (false, false, false, true, true, true,
    true, false)), EmptyString)), ((S (S (S (S (S (S (S (S (S (S (S (S (S (S
    (S (S (S (S (S (S (S (S (S (S (S (S (S (S (S (S (S
    O))))))))))))))))))))))))))))))), (S (S (S (S (S (S (S (S (S (S (S (S (S
    (S (S (S (S (S (S (S (S (S (S (S (S (S (S (S (S (S (S (S (S (S (S (S (S
    (S O)))))))))))))))))))))))))))))))))))))))), TReal) :: ((((String
    ((Ascii (true, false, false, true, true, true, true, false)),
    EmptyString)), ((S (S (S (S (S (S (S (S (S (S (S (S (S (S (S (S (S (S (S
    (S (S (S (S (S (S (S (S (S (S (S (S (S (S (S (S (S (S (S (S
    O))))))))))))))))))))))))))))))))))))))), (S (S (S (S (S (S (S (S (S (S
    (S (S (S (S (S (S (S (S (S (S (S (S (S (S (S (S (S (S (S (S (S (S (S (S
    (S (S (S (S (S (S (S (S (S (S (S (S
    O)))))))))))))))))))))))))))))))))))))))))))))))), TReal) :: ((((String
    ((Ascii (false, true, false, true, true, true, true, false)),
    EmptyString)), ((S (S (S (S (S (S (S (S (S (S (S (S (S (S (S (S (S (S (S
    (S (S (S (S (S (S (S (S (S (S (S (S (S (S (S (S (S (S (S (S (S (S (S (S
    (S (S (S (S O))))))))))))))))))))))))))))))))))))))))))))))), (S (S (S (S
    (S (S (S (S (S (S (S (S (S (S (S (S (S (S (S (S (S (S (S (S (S (S (S (S
    (S (S (S (S (S (S (S (S (S (S (S (S (S (S (S (S (S (S (S (S (S (S (S (S
    (S (S O)))))))))))))))))))))))))))))))))))))))))))))))))))))))),
    TReal) :: ((((String ((Ascii (true, true, true, true, false, true, true,
    false)), (String ((Ascii (true, true, false, false, false, true, true,
    false)), (String ((Ascii (true, true, false, false, false, true, true,
    false)), EmptyString)))))), ((S (S (S (S (S (S (S (S (S (S (S (S (S (S (S
    (S (S (S (S (S (S (S (S (S (S (S (S (S (S (S (S (S (S (S (S (S (S (S (S
    (S (S (S (S (S (S (S (S (S (S (S (S (S (S (S (S
    O))))))))))))))))))))))))))))))))))))))))))))))))))))))), (S (S (S (S (S
    (S (S (S (S (S (S (S (S (S (S (S (S (S (S (S (S (S (S (S (S (S (S (S (S
    (S (S (S (S (S (S (S (S (S (S (S (S (S (S (S (S (S (S (S (S (S (S (S (S
    (S (S (S (S (S (S (S
    O)))))))))))))))))))))))))))))))))))))))))))))))))))))))))))))),
    TReal) :: ((((String ((Ascii (false, false, true, false, true, true,
    true, false)), (String ((Ascii (true, false, true, false, false, true,
    true, false)), (String ((Ascii (true, false, true, true, false, true,
    true, false)), (String ((Ascii (false, false, false, false, true, true,
    true, false)), EmptyString)))))))), ((S (S (S (S (S (S (S (S (S (S (S (S
    (S (S (S (S (S (S (S (S (S (S (S (S (S (S (S (S (S (S (S (S (S (S (S (S
    (S (S (S (S (S (S (S (S (S (S (S (S (S (S (S (S (S (S (S (S (S (S (S (S
    (S O))))))))))))))))))))))))))))))))))))))))))))))))))))))))))))), (S (S
    (S (S (S (S (S (S (S (S (S (S (S (S (S (S (S (S (S (S (S (S (S (S (S (S
    (S (S (S (S (S (S (S (S (S (S (S (S (S (S (S (S (S (S (S (S (S (S (S (S
    (S (S (S (S (S (S (S (S (S (S (S (S (S (S (S (S
    O)))))))))))))))))))))))))))))))))))))))))))))))))))))))))))))))))))),
    TReal) :: ((((String ((Ascii (true, false, true, false, false, true,
    true, false)), (String ((Ascii (false, false, true, true, false, true,
    true, false)), (String ((Ascii (true, false, true, false, false, true,
    true, false)), (String ((Ascii (true, false, true, true, false, true,
    true, false)), (String ((Ascii (true, false, true, false, false, true,
    true, false)), (String ((Ascii (false, true, true, true, false, true,
    true, false)), (String ((Ascii (false, false, true, false, true, true,
    true, false)), EmptyString)))))))))))))), ((S (S (S (S (S (S (S (S (S (S
    (S (S (S (S (S (S (S (S (S (S (S (S (S (S (S (S (S (S (S (S (S (S (S (S
    (S (S (S (S (S (S (S (S (S (S (S (S (S (S (S (S (S (S (S (S (S (S (S (S
    (S (S (S (S (S (S (S (S (S (S (S (S (S (S (S (S (S (S (S
    O))))))))))))))))))))))))))))))))))))))))))))))))))))))))))))))))))))))))))))),
    (S (S (S (S (S (S (S (S (S (S (S (S (S (S (S (S (S (S (S (S (S (S (S (S
    (S (S (S (S (S (S (S (S (S (S (S (S (S (S (S (S (S (S (S (S (S (S (S (S
    (S (S (S (S (S (S (S (S (S (S (S (S (S (S (S (S (S (S (S (S (S (S (S (S
    (S (S (S (S (S (S
    O)))))))))))))))))))))))))))))))))))))))))))))))))))))))))))))))))))))))))))))))),
    TText) :: []))))))))))))

(** val segid_cols : nat * nat **)

let segid_cols =
  ((S (S (S (S (S (S (S (S (S (S (S (S (S (S (S (S (S (S (S (S (S (S (S (S (S
    (S (S (S (S (S (S (S (S (S (S (S (S (S (S (S (S (S (S (S (S (S (S (S (S
    (S (S (S (S (S (S (S (S (S (S (S (S (S (S (S (S (S (S (S (S (S (S (S (S
    O))))))))))))))))))))))))))))))))))))))))))))))))))))))))))))))))))))))))),
    (S (S (S (S (S (S (S (S (S (S (S (S (S (S (S (S (S (S (S (S (S (S (S (S
    (S (S (S (S (S (S (S (S (S (S (S (S (S (S (S (S (S (S (S (S (S (S (S (S
    (S (S (S (S (S (S (S (S (S (S (S (S (S (S (S (S (S (S (S (S (S (S (S (S
    (S (S (S (S
    O)))))))))))))))))))))))))))))))))))))))))))))))))))))))))))))))))))))))))))))

(** val pad80 : string -> string **)

let pad80 line =
  append line
    (repeat_char (Ascii (false, false, false, false, false, true, false,
      false))
      (sub (S (S (S (S (S (S (S (S (S (S (S (S (S (S (S (S (S (S (S (S (S (S
        (S (S (S (S (S (S (S (S (S (S (S (S (S (S (S (S (S (S (S (S (S (S (S
        (S (S (S (S (S (S (S (S (S (S (S (S (S (S (S (S (S (S (S (S (S (S (S
        (S (S (S (S (S (S (S (S (S (S (S (S
        O))))))))))))))))))))))))))))))))))))))))))))))))))))))))))))))))))))))))))))))))
        (length0 line)))

(** val columns : nat -> nat -> string -> string **)

let columns a b line =
  substring (sub a (S O)) (add (sub b a) (S O)) (pad80 line)

(** val column : nat -> string -> ascii **)

let column k line =
  match get (sub k (S O)) (pad80 line) with
  | Some c -> c
  | None -> Ascii (false, false, false, false, false, true, false, false)

(** val ltrim : string -> string **)

let rec ltrim s = match s with
| EmptyString -> EmptyString
| String (c, t) ->
  if eqb0 c (Ascii (false, false, false, false, false, true, false, false))
  then ltrim t
  else s

(** val trim : string -> string **)

let trim s =
  rev_str EmptyString (ltrim (rev_str EmptyString (ltrim s)))

(** val spec_element : string -> string **)

let spec_element line =
  let c13 = column (S (S (S (S (S (S (S (S (S (S (S (S (S O))))))))))))) line
  in
  let c14 =
    column (S (S (S (S (S (S (S (S (S (S (S (S (S (S O)))))))))))))) line
  in
  let c16 =
    column (S (S (S (S (S (S (S (S (S (S (S (S (S (S (S (S O))))))))))))))))
      line
  in
  if eqb0 c13 (Ascii (false, false, false, false, false, true, false, false))
  then trim (String (c14, EmptyString))
  else if is_digit c13
       then trim (String (c14, EmptyString))
       else if (&&)
                 (eqb0 c13 (Ascii (false, false, false, true, false, false,
                   true, false)))
                 (negb
                   (eqb0 c16 (Ascii (false, false, false, false, false, true,
                     false, false))))
            then String ((Ascii (false, false, false, true, false, false,
                   true, false)), EmptyString)
            else trim (String (c13, (String (c14, EmptyString))))

(** val spec_field :
    string -> ((string * (nat * nat)) * ftype) -> val0 res **)

let spec_field line = function
| (p, ty) ->
  let (name, p0) = p in
  let (a, b) = p0 in
  let txt = trim (columns a b line) in
  (match ty with
   | TInt ->
     (match parse_int txt with
      | NumOk z0 -> Ok (VInt z0)
      | NumBad ->
        Err (String ((Ascii (false, true, true, false, true, false, true,
          false)), (String ((Ascii (true, false, false, false, false, true,
          true, false)), (String ((Ascii (false, false, true, true, false,
          true, true, false)), (String ((Ascii (true, false, true, false,
          true, true, true, false)), (String ((Ascii (true, false, true,
          false, false, true, true, false)), (String ((Ascii (true, false,
          true, false, false, false, true, false)), (String ((Ascii (false,
          true, false, false, true, true, true, false)), (String ((Ascii
          (false, true, false, false, true, true, true, false)), (String
          ((Ascii (true, true, true, true, false, true, true, false)),
          (String ((Ascii (false, true, false, false, true, true, true,
          false)), EmptyString))))))))))))))))))))
      | NumOutOfModel ->
        Err (String ((Ascii (true, true, true, true, false, false, true,
          false)), (String ((Ascii (true, false, true, false, true, true,
          true, false)), (String ((Ascii (false, false, true, false, true,
          true, true, false)), (String ((Ascii (true, true, true, true,
          false, false, true, false)), (String ((Ascii (false, true, true,
          false, false, true, true, false)), (String ((Ascii (true, false,
          true, true, false, false, true, false)), (String ((Ascii (true,
          true, true, true, false, true, true, false)), (String ((Ascii
          (false, false, true, false, false, true, true, false)), (String
          ((Ascii (true, false, true, false, false, true, true, false)),
          (String ((Ascii (false, false, true, true, false, true, true,
          false)), EmptyString)))))))))))))))))))))
   | TReal ->
     if str_nonempty txt
     then (match parse_float txt with
           | NumOk q0 -> Ok (VReal q0)
           | NumBad ->
             Err (String ((Ascii (false, true, true, false, true, false,
               true, false)), (String ((Ascii (true, false, false, false,
               false, true, true, false)), (String ((Ascii (false, false,
               true, true, false, true, true, false)), (String ((Ascii (true,
               false, true, false, true, true, true, false)), (String ((Ascii
               (true, false, true, false, false, true, true, false)), (String
               ((Ascii (true, false, true, false, false, false, true,
               false)), (String ((Ascii (false, true, false, false, true,
               true, true, false)), (String ((Ascii (false, true, false,
               false, true, true, true, false)), (String ((Ascii (true, true,
               true, true, false, true, true, false)), (String ((Ascii
               (false, true, false, false, true, true, true, false)),
               EmptyString))))))))))))))))))))
           | NumOutOfModel ->
             Err (String ((Ascii (true, true, true, true, false, false, true,
               false)), (String ((Ascii (true, false, true, false, true,
               true, true, false)), (String ((Ascii (false, false, true,
               false, true, true, true, false)), (String ((Ascii (true, true,
               true, true, false, false, true, false)), (String ((Ascii
               (false, true, true, false, false, true, true, false)), (String
               ((Ascii (true, false, true, true, false, false, true, false)),
               (String ((Ascii (true, true, true, true, false, true, true,
               false)), (String ((Ascii (false, false, true, false, false,
               true, true, false)), (String ((Ascii (true, false, true,
               false, false, true, true, false)), (String ((Ascii (false,
               false, true, true, false, true, true, false)),
               EmptyString)))))))))))))))))))))
     else if eqb1 name (String ((Ascii (true, true, true, true, false, true,
               true, false)), (String ((Ascii (true, true, false, false,
               false, true, true, false)), (String ((Ascii (true, true,
               false, false, false, true, true, false)), EmptyString))))))
          then Ok (VReal { qnum = (Zpos XH); qden = XH })
          else if eqb1 name (String ((Ascii (false, false, true, false, true,
                    true, true, false)), (String ((Ascii (true, false, true,
                    false, false, true, true, false)), (String ((Ascii (true,
                    false, true, true, false, true, true, false)), (String
                    ((Ascii (false, false, false, false, true, true, true,
                    false)), EmptyString))))))))
               then Ok (VReal { qnum = (Zpos (XO (XI (XO XH)))); qden = XH })
               else Err (String ((Ascii (false, true, true, false, true,
                      false, true, false)), (String ((Ascii (true, false,
                      false, false, false, true, true, false)), (String
                      ((Ascii (false, false, true, true, false, true, true,
                      false)), (String ((Ascii (true, false, true, false,
                      true, true, true, false)), (String ((Ascii (true,
                      false, true, false, false, true, true, false)), (String
                      ((Ascii (true, false, true, false, false, false, true,
                      false)), (String ((Ascii (false, true, false, false,
                      true, true, true, false)), (String ((Ascii (false,
                      true, false, false, true, true, true, false)), (String
                      ((Ascii (true, true, true, true, false, true, true,
                      false)), (String ((Ascii (false, true, false, false,
                      true, true, true, false)),
                      EmptyString))))))))))))))))))))
   | TText ->
     if str_nonempty txt
     then Ok (VText txt)
     else if eqb1 name (String ((Ascii (true, true, false, false, false,
               true, true, false)), (String ((Ascii (false, false, false,
               true, false, true, true, false)), (String ((Ascii (true,
               false, false, false, false, true, true, false)), (String
               ((Ascii (true, false, false, true, false, true, true, false)),
               (String ((Ascii (false, true, true, true, false, true, true,
               false)), (String ((Ascii (true, false, false, true, false,
               false, true, false)), (String ((Ascii (false, false, true,
               false, false, false, true, false)), EmptyString))))))))))))))
          then let seg = trim (columns (fst segid_cols) (snd segid_cols) line)
               in
               if str_nonempty seg
               then Ok (VText seg)
               else Err (String ((Ascii (false, true, true, false, true,
                      false, true, false)), (String ((Ascii (true, false,
                      false, false, false, true, true, false)), (String
                      ((Ascii (false, false, true, true, false, true, true,
                      false)), (String ((Ascii (true, false, true, false,
                      true, true, true, false)), (String ((Ascii (true,
                      false, true, false, false, true, true, false)), (String
                      ((Ascii (true, false, true, false, false, false, true,
                      false)), (String ((Ascii (false, true, false, false,
                      true, true, true, false)), (String ((Ascii (false,
                      true, false, false, true, true, true, false)), (String
                      ((Ascii (true, true, true, true, false, true, true,
                      false)), (String ((Ascii (false, true, false, false,
                      true, true, true, false)),
                      EmptyString))))))))))))))))))))
          else if eqb1 name (String ((Ascii (true, false, true, false, false,
                    true, true, false)), (String ((Ascii (false, false, true,
                    true, false, true, true, false)), (String ((Ascii (true,
                    false, true, false, false, true, true, false)), (String
                    ((Ascii (true, false, true, true, false, true, true,
                    false)), (String ((Ascii (true, false, true, false,
                    false, true, true, false)), (String ((Ascii (false, true,
                    true, true, false, true, true, false)), (String ((Ascii
                    (false, false, true, false, true, true, true, false)),
                    EmptyString))))))))))))))
               then Ok (VText (spec_element line))
               else Ok (VText txt))

(** val spec_row : string -> row res **)

let spec_row line =
  if Nat.ltb (S (S (S (S (S (S (S (S (S (S (S (S (S (S (S (S (S (S (S (S (S
       (S (S (S (S (S (S (S (S (S (S (S (S (S (S (S (S (S (S (S (S (S (S (S
       (S (S (S (S (S (S (S (S (S (S (S (S (S (S (S (S (S (S (S (S (S (S (S
       (S (S (S (S (S (S (S (S (S (S (S (S (S
       O))))))))))))))))))))))))))))))))))))))))))))))))))))))))))))))))))))))))))))))))
       (length0 line)
  then Err (String ((Ascii (false, true, true, false, true, false, true,
         false)), (String ((Ascii (true, false, false, false, false, true,
         true, false)), (String ((Ascii (false, false, true, true, false,
         true, true, false)), (String ((Ascii (true, false, true, false,
         true, true, true, false)), (String ((Ascii (true, false, true,
         false, false, true, true, false)), (String ((Ascii (true, false,
         true, false, false, false, true, false)), (String ((Ascii (false,
         true, false, false, true, true, true, false)), (String ((Ascii
         (false, true, false, false, true, true, true, false)), (String
         ((Ascii (true, true, true, true, false, true, true, false)), (String
         ((Ascii (false, true, false, false, true, true, true, false)),
         EmptyString))))))))))))))))))))
  else bind (mapM (spec_field line) wwpdb_cols) (fun vs -> Ok
         (app vs ((VInt Z0) :: [])))

(** val is_ATOM : string -> bool **)

let is_ATOM l =
  prefix (String ((Ascii (true, false, false, false, false, false, true,
    false)), (String ((Ascii (false, false, true, false, true, false, true,
    false)), (String ((Ascii (true, true, true, true, false, false, true,
    false)), (String ((Ascii (true, false, true, true, false, false, true,
    false)), EmptyString)))))))) l

(** val spec_table : string list -> row list res **)

let spec_table lines =
  mapM spec_row (map upto_nl (filter is_ATOM lines))

(** val vval : val0 -> v **)

let vval = function
| VInt z0 ->
  VL ((VS (String ((Ascii (true, false, false, true, false, false, true,
    false)), EmptyString))) :: ((VZ z0) :: []))
| VReal q0 ->
  VL ((VS (String ((Ascii (false, true, false, false, true, false, true,
    false)), EmptyString))) :: ((VZ q0.qnum) :: ((VZ (Zpos q0.qden)) :: [])))
| VText s ->
  VL ((VS (String ((Ascii (false, false, true, false, true, false, true,
    false)), EmptyString))) :: ((VS s) :: []))
| VBlob ->
  VL ((VS (String ((Ascii (false, true, false, false, false, false, true,
    false)), EmptyString))) :: [])
| VNull ->
  VL ((VS (String ((Ascii (false, true, true, true, false, false, true,
    false)), EmptyString))) :: [])

(** val val_of_V : v -> val0 **)

let val_of_V = function
| VL l ->
  (match l with
   | [] -> VNull
   | v1 :: l0 ->
     (match v1 with
      | VS tag ->
        (match l0 with
         | [] ->
           if eqb1 tag (String ((Ascii (false, true, false, false, false,
                false, true, false)), EmptyString))
           then VBlob
           else VNull
         | v2 :: l1 ->
           (match v2 with
            | VZ n0 ->
              (match l1 with
               | [] ->
                 if eqb1 tag (String ((Ascii (true, false, false, true,
                      false, false, true, false)), EmptyString))
                 then VInt n0
                 else VNull
               | v3 :: l2 ->
                 (match v3 with
                  | VZ z0 ->
                    (match z0 with
                     | Zpos d ->
                       (match l2 with
                        | [] ->
                          if eqb1 tag (String ((Ascii (false, true, false,
                               false, true, false, true, false)),
                               EmptyString))
                          then VReal { qnum = n0; qden = d }
                          else VNull
                        | _ :: _ -> VNull)
                     | _ -> VNull)
                  | _ -> VNull))
            | VS s ->
              (match l1 with
               | [] ->
                 if eqb1 tag (String ((Ascii (false, false, true, false,
                      true, false, true, false)), EmptyString))
                 then VText s
                 else VNull
               | _ :: _ -> VNull)
            | VL _ -> VNull))
      | _ -> VNull))
| _ -> VNull

(** val vrow : row -> v **)

let vrow r =
  VL (map vval r)

(** val vrows : row list -> v **)

let vrows rs =
  VL (map vrow rs)

(** val form_of : string -> form **)

let form_of s =
  if eqb1 s (String ((Ascii (false, false, false, false, true, true, true,
       false)), (String ((Ascii (true, false, false, false, false, true,
       true, false)), (String ((Ascii (false, false, true, false, true, true,
       true, false)), (String ((Ascii (false, false, false, true, false,
       true, true, false)), EmptyString))))))))
  then FPath
  else if eqb1 s (String ((Ascii (false, false, false, false, true, false,
            true, false)), (String ((Ascii (true, false, false, false, false,
            true, true, false)), (String ((Ascii (false, false, true, false,
            true, true, true, false)), (String ((Ascii (false, false, false,
            true, false, true, true, false)), EmptyString))))))))
       then FPathObj
       else if eqb1 s (String ((Ascii (true, true, false, false, true, true,
                 true, false)), (String ((Ascii (false, false, true, false,
                 true, true, true, false)), (String ((Ascii (false, true,
                 false, false, true, true, true, false)), EmptyString))))))
            then FStr
            else if eqb1 s (String ((Ascii (false, true, false, false, false,
                      true, true, false)), (String ((Ascii (true, false,
                      false, true, true, true, true, false)), (String ((Ascii
                      (false, false, true, false, true, true, true, false)),
                      (String ((Ascii (true, false, true, false, false, true,
                      true, false)), (String ((Ascii (true, true, false,
                      false, true, true, true, false)), EmptyString))))))))))
                 then FBytes
                 else if eqb1 s (String ((Ascii (false, false, true, true,
                           false, true, true, false)), (String ((Ascii (true,
                           false, false, true, false, true, true, false)),
                           (String ((Ascii (true, true, false, false, true,
                           true, true, false)), (String ((Ascii (false,
                           false, true, false, true, true, true, false)),
                           (String ((Ascii (true, true, true, true, true,
                           false, true, false)), (String ((Ascii (true, true,
                           false, false, true, true, true, false)), (String
                           ((Ascii (false, false, true, false, true, true,
                           true, false)), (String ((Ascii (false, true,
                           false, false, true, true, true, false)),
                           EmptyString))))))))))))))))
                      then FListStr
                      else if eqb1 s (String ((Ascii (false, false, true,
                                true, false, true, true, false)), (String
                                ((Ascii (true, false, false, true, false,
                                true, true, false)), (String ((Ascii (true,
                                true, false, false, true, true, true,
                                false)), (String ((Ascii (false, false, true,
                                false, true, true, true, false)), (String
                                ((Ascii (true, true, true, true, true, false,
                                true, false)), (String ((Ascii (false, true,
                                false, false, false, true, true, false)),
                                (String ((Ascii (true, false, false, true,
                                true, true, true, false)), (String ((Ascii
                                (false, false, true, false, true, true, true,
                                false)), (String ((Ascii (true, false, true,
                                false, false, true, true, false)), (String
                                ((Ascii (true, true, false, false, true,
                                true, true, false)),
                                EmptyString))))))))))))))))))))
                           then FListBytes
                           else if eqb1 s (String ((Ascii (false, true, true,
                                     true, false, true, true, false)),
                                     (String ((Ascii (false, false, true,
                                     false, false, true, true, false)),
                                     (String ((Ascii (true, false, false,
                                     false, false, true, true, false)),
                                     (String ((Ascii (false, true, false,
                                     false, true, true, true, false)),
                                     (String ((Ascii (false, true, false,
                                     false, true, true, true, false)),
                                     (String ((Ascii (true, false, false,
                                     false, false, true, true, false)),
                                     (String ((Ascii (true, false, false,
                                     true, true, true, true, false)), (String
                                     ((Ascii (true, true, true, true, true,
                                     false, true, false)), (String ((Ascii
                                     (true, true, false, false, true, true,
                                     true, false)), (String ((Ascii (false,
                                     false, true, false, true, true, true,
                                     false)), (String ((Ascii (false, true,
                                     false, false, true, true, true, false)),
                                     EmptyString))))))))))))))))))))))
                                then FNdarrayStr
                                else FNdarrayBytes

(** val run_parse : string -> v list -> v option **)

let run_parse cmd a =
  if eqb1 cmd (String ((Ascii (false, false, false, false, true, true, true,
       false)), (String ((Ascii (true, false, false, false, false, true,
       true, false)), (String ((Ascii (false, true, false, false, true, true,
       true, false)), (String ((Ascii (true, true, false, false, true, true,
       true, false)), (String ((Ascii (true, false, true, false, false, true,
       true, false)), (String ((Ascii (false, true, true, true, false, true,
       false, false)), (String ((Ascii (false, false, true, false, true,
       true, true, false)), (String ((Ascii (true, false, true, false, false,
       true, true, false)), (String ((Ascii (false, false, false, true, true,
       true, true, false)), (String ((Ascii (false, false, true, false, true,
       true, true, false)), EmptyString))))))))))))))))))))
  then Some
         (vres
           (bind
             (parse (InText ((form_of (getS (nth O a (VZ Z0)))),
               (getS (nth (S O) a (VZ Z0)))))) (fun r -> Ok (VL
             ((vrows (fst r)) :: ((VZ (snd r)) :: []))))))
  else if eqb1 cmd (String ((Ascii (false, false, false, false, true, true,
            true, false)), (String ((Ascii (true, false, false, false, false,
            true, true, false)), (String ((Ascii (false, true, false, false,
            true, true, true, false)), (String ((Ascii (true, true, false,
            false, true, true, true, false)), (String ((Ascii (true, false,
            true, false, false, true, true, false)), (String ((Ascii (false,
            true, true, true, false, true, false, false)), (String ((Ascii
            (false, false, true, true, false, true, true, false)), (String
            ((Ascii (true, false, false, true, false, true, true, false)),
            (String ((Ascii (false, true, true, true, false, true, true,
            false)), (String ((Ascii (true, false, true, false, false, true,
            true, false)), (String ((Ascii (true, true, false, false, true,
            true, true, false)), EmptyString))))))))))))))))))))))
       then Some
              (vres
                (bind
                  (parse (InLines ((form_of (getS (nth O a (VZ Z0)))),
                    (map getS (getL (nth (S O) a (VZ Z0))))))) (fun r -> Ok
                  (VL ((vrows (fst r)) :: ((VZ (snd r)) :: []))))))
       else if eqb1 cmd (String ((Ascii (true, true, false, false, true,
                 true, true, false)), (String ((Ascii (false, false, false,
                 false, true, true, true, false)), (String ((Ascii (true,
                 false, true, false, false, true, true, false)), (String
                 ((Ascii (true, true, false, false, false, true, true,
                 false)), (String ((Ascii (false, true, true, true, false,
                 true, false, false)), (String ((Ascii (false, false, false,
                 false, true, true, true, false)), (String ((Ascii (true,
                 false, false, false, false, true, true, false)), (String
                 ((Ascii (false, true, false, false, true, true, true,
                 false)), (String ((Ascii (true, true, false, false, true,
                 true, true, false)), (String ((Ascii (true, false, true,
                 false, false, true, true, false)), (String ((Ascii (false,
                 true, true, true, false, true, false, false)), (String
                 ((Ascii (false, false, true, false, true, true, true,
                 false)), (String ((Ascii (true, false, false, false, false,
                 true, true, false)), (String ((Ascii (false, true, false,
                 false, false, true, true, false)), (String ((Ascii (false,
                 false, true, true, false, true, true, false)), (String
                 ((Ascii (true, false, true, false, false, true, true,
                 false)), EmptyString))))))))))))))))))))))))))))))))
            then Some
                   (vres
                     (bind (spec_table (map getS (getL (nth O a (VZ Z0)))))
                       (fun rs -> Ok (vrows rs))))
            else if eqb1 cmd (String ((Ascii (true, true, false, false, true,
                      true, true, false)), (String ((Ascii (false, false,
                      false, false, true, true, true, false)), (String
                      ((Ascii (true, false, true, false, false, true, true,
                      false)), (String ((Ascii (true, true, false, false,
                      false, true, true, false)), (String ((Ascii (false,
                      true, true, true, false, true, false, false)), (String
                      ((Ascii (false, false, false, false, true, true, true,
                      false)), (String ((Ascii (true, false, false, false,
                      false, true, true, false)), (String ((Ascii (false,
                      true, false, false, true, true, true, false)), (String
                      ((Ascii (true, true, false, false, true, true, true,
                      false)), (String ((Ascii (true, false, true, false,
                      false, true, true, false)), (String ((Ascii (false,
                      true, true, true, false, true, false, false)), (String
                      ((Ascii (false, true, false, false, true, true, true,
                      false)), (String ((Ascii (true, true, true, true,
                      false, true, true, false)), (String ((Ascii (true,
                      true, true, false, true, true, true, false)),
                      EmptyString))))))))))))))))))))))))))))
                 then Some
                        (vres
                          (bind (spec_row (getS (nth O a (VZ Z0)))) (fun r ->
                            Ok (vrow r))))
                 else if eqb1 cmd (String ((Ascii (false, false, false,
                           false, true, true, true, false)), (String ((Ascii
                           (true, false, false, false, false, true, true,
                           false)), (String ((Ascii (false, true, false,
                           false, true, true, true, false)), (String ((Ascii
                           (true, true, false, false, true, true, true,
                           false)), (String ((Ascii (true, false, true,
                           false, false, true, true, false)), (String ((Ascii
                           (false, true, true, true, false, true, false,
                           false)), (String ((Ascii (true, false, true,
                           false, false, true, true, false)), (String ((Ascii
                           (false, false, true, true, false, true, true,
                           false)), (String ((Ascii (true, false, true,
                           false, false, true, true, false)), (String ((Ascii
                           (true, false, true, true, false, true, true,
                           false)), (String ((Ascii (true, false, true,
                           false, false, true, true, false)), (String ((Ascii
                           (false, true, true, true, false, true, true,
                           false)), (String ((Ascii (false, false, true,
                           false, true, true, true, false)),
                           EmptyString))))))))))))))))))))))))))
                      then Some
                             (vres
                               (bind
                                 (get_element_src (getS (nth O a (VZ Z0))))
                                 (fun s -> Ok (VS s))))
                      else None

(** val format_xyz_src : q -> string res **)

let format_xyz_src i_1 =
  if (||)
       (qleb
         (qminus { qnum = (Zpos (XO (XO (XO (XO (XO (XO (XO (XO (XI (XO (XO
           (XO (XO (XI (XI (XI (XI (XO (XI (XO (XI (XI (XI (XI (XI (XO
           XH))))))))))))))))))))))))))); qden = XH } { qnum = (Zpos XH);
           qden = (XO XH) }) i_1)
       (qleb i_1
         (qplus
           (qopp { qnum = (Zpos (XO (XO (XO (XO (XO (XO (XO (XI (XO (XI (XI
             (XO (XI (XO (XO (XI (XO (XO (XO (XI (XI (XO (XO
             XH)))))))))))))))))))))))); qden = XH }) { qnum = (Zpos XH);
           qden = (XO XH) }))
  then Err (String ((Ascii (false, true, true, false, true, false, true,
         false)), (String ((Ascii (true, false, false, false, false, true,
         true, false)), (String ((Ascii (false, false, true, true, false,
         true, true, false)), (String ((Ascii (true, false, true, false,
         true, true, true, false)), (String ((Ascii (true, false, true,
         false, false, true, true, false)), (String ((Ascii (true, false,
         true, false, false, false, true, false)), (String ((Ascii (false,
         true, false, false, true, true, true, false)), (String ((Ascii
         (false, true, false, false, true, true, true, false)), (String
         ((Ascii (true, true, true, true, false, true, true, false)), (String
         ((Ascii (false, true, false, false, true, true, true, false)),
         EmptyString))))))))))))))))))))
  else if (||)
            (qleb
              (qminus { qnum = (Zpos (XO (XO (XO (XO (XO (XO (XI (XO (XO (XI
                (XO (XO (XO (XO (XI (XO (XI (XI (XI XH))))))))))))))))))));
                qden = XH } { qnum = (Zpos XH); qden = (XO XH) }) i_1)
            (qleb i_1
              (qplus
                (qopp { qnum = (Zpos (XO (XO (XO (XO (XO (XI (XO (XI (XO (XI
                  (XI (XO (XO (XO (XO (XI XH))))))))))))))))); qden = XH })
                { qnum = (Zpos XH); qden = (XO XH) }))
       then let i_2 = fmt_fixed (S (S (S (S (S (S (S (S O)))))))) O i_1 in
            Ok i_2
       else if (||)
                 (qleb
                   (qminus { qnum = (Zpos (XO (XO (XO (XO (XO (XI (XO (XI (XO
                     (XI (XI (XO (XO (XO (XO (XI XH))))))))))))))))); qden =
                     XH } { qnum = (Zpos XH); qden = (XO XH) }) i_1)
                 (qleb i_1
                   (qplus
                     (qopp { qnum = (Zpos (XO (XO (XO (XO (XI (XO (XO (XO (XI
                       (XI (XI (XO (XO XH)))))))))))))); qden = XH })
                     { qnum = (Zpos XH); qden = (XO XH) }))
            then let i_3 =
                   fmt_fixed (S (S (S (S (S (S (S (S O)))))))) (S O) i_1
                 in
                 Ok i_3
            else if (||)
                      (qleb
                        (qminus { qnum = (Zpos (XO (XO (XO (XO (XI (XO (XO
                          (XO (XI (XI (XI (XO (XO XH)))))))))))))); qden =
                          XH } { qnum = (Zpos XH); qden = (XO XH) }) i_1)
                      (qleb i_1
                        (qplus
                          (qopp { qnum = (Zpos (XO (XO (XO (XI (XO (XI (XI
                            (XI (XI XH)))))))))); qden = XH }) { qnum = (Zpos
                          XH); qden = (XO XH) }))
                 then let i_4 =
                        fmt_fixed (S (S (S (S (S (S (S (S O)))))))) (S (S O))
                          i_1
                      in
                      Ok i_4
                 else let i_5 =
                        fmt_fixed (S (S (S (S (S (S (S (S O)))))))) (S (S (S
                          O))) i_1
                      in
                      Ok i_5

(** val format_atomname_src : string -> string -> string res **)

let format_atomname_src data_name_1 data_element_2 =
  let lname_4 = length0 data_name_1 in
  if (||) (Nat.eqb lname_4 (S O)) (Nat.eqb lname_4 (S (S (S (S O)))))
  then let name_5 = center (S (S (S (S O)))) data_name_1 in Ok name_5
  else if Nat.eqb lname_4 (S (S O))
       then if eqb1 data_name_1 data_element_2
            then let name_6 = ljust (S (S (S (S O)))) data_name_1 in Ok name_6
            else let name_7 = center (S (S (S (S O)))) data_name_1 in
                 Ok name_7
       else if is_substring (char_at O data_name_1) (String ((Ascii (false,
                 false, false, false, true, true, false, false)), (String
                 ((Ascii (true, false, false, false, true, true, false,
                 false)), (String ((Ascii (false, true, false, false, true,
                 true, false, false)), (String ((Ascii (true, true, false,
                 false, true, true, false, false)), (String ((Ascii (false,
                 false, true, false, true, true, false, false)), (String
                 ((Ascii (true, false, true, false, true, true, false,
                 false)), (String ((Ascii (false, true, true, false, true,
                 true, false, false)), (String ((Ascii (true, true, true,
                 false, true, true, false, false)), (String ((Ascii (false,
                 false, false, true, true, true, false, false)), (String
                 ((Ascii (true, false, false, true, true, true, false,
                 false)), EmptyString))))))))))))))))))))
            then let name_8 = ljust (S (S (S (S O)))) data_name_1 in Ok name_8
            else let name_9 = rjust (S (S (S (S O)))) data_name_1 in Ok name_9

(** val export_layout_src : piece list **)

let export_layout_src =
  (PLit (String ((Ascii (true, false, false, false, false, false, true,
    false)), (String ((Ascii (false, false, true, false, true, false, true,
    false)), (String ((Ascii (true, true, true, true, false, false, true,
    false)), (String ((Ascii (true, false, true, true, false, false, true,
    false)), (String ((Ascii (false, false, false, false, false, true, false,
    false)), (String ((Ascii (false, false, false, false, false, true, false,
    false)), EmptyString))))))))))))) :: ((PField (O, ARight, (S (S (S (S (S
    O))))))) :: ((PLit (String ((Ascii (false, false, false, false, false,
    true, false, false)), EmptyString))) :: (PAtomName :: ((PField ((S (S
    O)), ARight, (S O))) :: ((PField ((S (S (S O))), ARight, (S (S (S
    O))))) :: ((PLit (String ((Ascii (false, false, false, false, false,
    true, false, false)), EmptyString))) :: ((PField ((S (S (S (S O)))),
    ARight, (S O))) :: ((PField ((S (S (S (S (S O))))), ARight, (S (S (S (S
    O)))))) :: ((PField ((S (S (S (S (S (S O)))))), ARight, (S O))) :: ((PLit
    (String ((Ascii (false, false, false, false, false, true, false, false)),
    (String ((Ascii (false, false, false, false, false, true, false, false)),
    (String ((Ascii (false, false, false, false, false, true, false, false)),
    EmptyString))))))) :: ((PXyz (S (S (S (S (S (S (S O)))))))) :: ((PXyz (S
    (S (S (S (S (S (S (S O))))))))) :: ((PXyz (S (S (S (S (S (S (S (S (S
    O)))))))))) :: ((PFixed ((S (S (S (S (S (S (S (S (S (S O)))))))))),
    ARight, (S (S (S (S (S (S O)))))), (S (S O)))) :: ((PFixed ((S (S (S (S
    (S (S (S (S (S (S (S O))))))))))), ARight, (S (S (S (S (S (S O)))))), (S
    (S O)))) :: ((PLit (String ((Ascii (false, false, false, false, false,
    true, false, false)), (String ((Ascii (false, false, false, false, false,
    true, false, false)), (String ((Ascii (false, false, false, false, false,
    true, false, false)), (String ((Ascii (false, false, false, false, false,
    true, false, false)), (String ((Ascii (false, false, false, false, false,
    true, false, false)), (String ((Ascii (false, false, false, false, false,
    true, false, false)), (String ((Ascii (false, false, false, false, false,
    true, false, false)), (String ((Ascii (false, false, false, false, false,
    true, false, false)), (String ((Ascii (false, false, false, false, false,
    true, false, false)), (String ((Ascii (false, false, false, false, false,
    true, false, false)), EmptyString))))))))))))))))))))) :: ((PField ((S (S
    (S (S (S (S (S (S (S (S (S (S O)))))))))))), ARight, (S (S
    O)))) :: ((PLit (String ((Ascii (false, false, false, false, false, true,
    false, false)), (String ((Ascii (false, false, false, false, false, true,
    false, false)), EmptyString))))) :: []))))))))))))))))))

(** val justify : align -> nat -> string -> string **)

let justify a w s =
  match a with
  | ARight -> rjust w s
  | ALeft -> ljust w s
  | ACenter -> center w s

(** val render_plain : val0 -> string res **)

let render_plain = function
| VInt z0 -> Ok (str_of_Z z0)
| VText s -> Ok s
| _ ->
  Err (String ((Ascii (true, true, true, true, false, false, true, false)),
    (String ((Ascii (true, false, true, false, true, true, true, false)),
    (String ((Ascii (false, false, true, false, true, true, true, false)),
    (String ((Ascii (true, true, true, true, false, false, true, false)),
    (String ((Ascii (false, true, true, false, false, true, true, false)),
    (String ((Ascii (true, false, true, true, false, false, true, false)),
    (String ((Ascii (true, true, true, true, false, true, true, false)),
    (String ((Ascii (false, false, true, false, false, true, true, false)),
    (String ((Ascii (true, false, true, false, false, true, true, false)),
    (String ((Ascii (false, false, true, true, false, true, true, false)),
    EmptyString))))))))))))))))))))

(** val num_of : val0 -> q res **)

let num_of = function
| VInt z0 -> Ok (inject_Z z0)
| VReal q0 -> Ok q0
| VText _ ->
  Err (String ((Ascii (false, true, true, false, true, false, true, false)),
    (String ((Ascii (true, false, false, false, false, true, true, false)),
    (String ((Ascii (false, false, true, true, false, true, true, false)),
    (String ((Ascii (true, false, true, false, true, true, true, false)),
    (String ((Ascii (true, false, true, false, false, true, true, false)),
    (String ((Ascii (true, false, true, false, false, false, true, false)),
    (String ((Ascii (false, true, false, false, true, true, true, false)),
    (String ((Ascii (false, true, false, false, true, true, true, false)),
    (String ((Ascii (true, true, true, true, false, true, true, false)),
    (String ((Ascii (false, true, false, false, true, true, true, false)),
    EmptyString))))))))))))))))))))
| _ ->
  Err (String ((Ascii (true, true, true, true, false, false, true, false)),
    (String ((Ascii (true, false, true, false, true, true, true, false)),
    (String ((Ascii (false, false, true, false, true, true, true, false)),
    (String ((Ascii (true, true, true, true, false, false, true, false)),
    (String ((Ascii (false, true, true, false, false, true, true, false)),
    (String ((Ascii (true, false, true, true, false, false, true, false)),
    (String ((Ascii (true, true, true, true, false, true, true, false)),
    (String ((Ascii (false, false, true, false, false, true, true, false)),
    (String ((Ascii (true, false, true, false, false, true, true, false)),
    (String ((Ascii (false, false, true, true, false, true, true, false)),
    EmptyString))))))))))))))))))))

(** val text_of : val0 -> string res **)

let text_of = function
| VText s -> Ok s
| _ ->
  Err (String ((Ascii (true, true, true, true, false, false, true, false)),
    (String ((Ascii (true, false, true, false, true, true, true, false)),
    (String ((Ascii (false, false, true, false, true, true, true, false)),
    (String ((Ascii (true, true, true, true, false, false, true, false)),
    (String ((Ascii (false, true, true, false, false, true, true, false)),
    (String ((Ascii (true, false, true, true, false, false, true, false)),
    (String ((Ascii (true, true, true, true, false, true, true, false)),
    (String ((Ascii (false, false, true, false, false, true, true, false)),
    (String ((Ascii (true, false, true, false, false, true, true, false)),
    (String ((Ascii (false, false, true, true, false, true, true, false)),
    EmptyString))))))))))))))))))))

(** val render_piece : row -> piece -> string res **)

let render_piece d = function
| PLit s -> Ok s
| PField (i, a, w) ->
  bind (render_plain (nth i d VNull)) (fun s -> Ok (justify a w s))
| PFixed (i, a, w, pr) ->
  (match a with
   | ARight ->
     bind (num_of (nth i d VNull)) (fun q0 -> Ok (fmt_fixed w pr q0))
   | _ ->
     Err (String ((Ascii (true, true, true, true, false, false, true,
       false)), (String ((Ascii (true, false, true, false, true, true, true,
       false)), (String ((Ascii (false, false, true, false, true, true, true,
       false)), (String ((Ascii (true, true, true, true, false, false, true,
       false)), (String ((Ascii (false, true, true, false, false, true, true,
       false)), (String ((Ascii (true, false, true, true, false, false, true,
       false)), (String ((Ascii (true, true, true, true, false, true, true,
       false)), (String ((Ascii (false, false, true, false, false, true,
       true, false)), (String ((Ascii (true, false, true, false, false, true,
       true, false)), (String ((Ascii (false, false, true, true, false, true,
       true, false)), EmptyString)))))))))))))))))))))
| PAtomName ->
  bind (text_of (nth (S O) d VNull)) (fun nm ->
    bind
      (text_of
        (nth (S (S (S (S (S (S (S (S (S (S (S (S O)))))))))))) d VNull))
      (fun el -> format_atomname_src nm el))
| PXyz i ->
  (match nth i d VNull with
   | VInt z0 -> format_xyz_src (inject_Z z0)
   | VReal q0 -> format_xyz_src q0
   | _ ->
     Err (String ((Ascii (true, true, true, true, false, false, true,
       false)), (String ((Ascii (true, false, true, false, true, true, true,
       false)), (String ((Ascii (false, false, true, false, true, true, true,
       false)), (String ((Ascii (true, true, true, true, false, false, true,
       false)), (String ((Ascii (false, true, true, false, false, true, true,
       false)), (String ((Ascii (true, false, true, true, false, false, true,
       false)), (String ((Ascii (true, true, true, true, false, true, true,
       false)), (String ((Ascii (false, false, true, false, false, true,
       true, false)), (String ((Ascii (true, false, true, false, false, true,
       true, false)), (String ((Ascii (false, false, true, true, false, true,
       true, false)), EmptyString)))))))))))))))))))))

(** val render_pieces : row -> piece list -> string res **)

let rec render_pieces d = function
| [] -> Ok EmptyString
| p :: t ->
  bind (render_piece d p) (fun s ->
    bind (render_pieces d t) (fun r -> Ok (append s r)))

(** val line_of_row : row -> string res **)

let line_of_row d =
  render_pieces d export_layout_src

(** val export : row list -> string list res **)

let export rows =
  mapM line_of_row rows

(** val clean : string -> bool **)

let clean s =
  eqb1 (trim s) s

(** val fits_int : z -> z -> val0 -> bool **)

let fits_int lo hi = function
| VInt z0 -> (&&) (Z.leb lo z0) (Z.leb z0 hi)
| _ -> false

(** val fits_text : nat -> nat -> val0 -> bool **)

let fits_text minlen maxlen = function
| VText s ->
  (&&) ((&&) (Nat.leb minlen (length0 s)) (Nat.leb (length0 s) maxlen))
    (clean s)
| _ -> false

(** val real_of : val0 -> q option **)

let real_of = function
| VInt z0 -> Some (inject_Z z0)
| VReal q0 -> Some q0
| _ -> None

(** val fits_real : q -> q -> val0 -> bool **)

let fits_real lo hi v0 =
  match real_of v0 with
  | Some q0 -> (&&) (qleb lo q0) (qleb q0 hi)
  | None -> false

(** val coord_lo : q **)

let coord_lo =
  qplus
    (qopp { qnum = (Zpos (XO (XO (XO (XO (XO (XO (XO (XI (XO (XI (XI (XO (XI
      (XO (XO (XI (XO (XO (XO (XI (XI (XO (XO XH))))))))))))))))))))))));
      qden = XH }) { qnum = (Zpos XH); qden = (XO XH) }

(** val coord_hi : q **)

let coord_hi =
  qminus { qnum = (Zpos (XO (XO (XO (XO (XO (XO (XO (XO (XI (XO (XO (XO (XO
    (XI (XI (XI (XI (XO (XI (XO (XI (XI (XI (XI (XI (XO
    XH))))))))))))))))))))))))))); qden = XH } { qnum = (Zpos XH); qden = (XO
    XH) }

(** val coord_in_range : val0 -> bool **)

let coord_in_range v0 =
  match real_of v0 with
  | Some q0 -> (&&) (qltb coord_lo q0) (qltb q0 coord_hi)
  | None -> false

(** val fits : row -> bool **)

let fits d =
  (&&)
    ((&&)
      ((&&)
        ((&&)
          ((&&)
            ((&&)
              ((&&)
                ((&&)
                  ((&&)
                    ((&&)
                      ((&&)
                        ((&&)
                          (fits_int (Zneg (XI (XI (XI (XI (XO (XO (XO (XO (XI
                            (XI (XI (XO (XO XH)))))))))))))) (Zpos (XI (XI
                            (XI (XI (XI (XO (XO (XI (XO (XI (XI (XO (XO (XO
                            (XO (XI XH))))))))))))))))) (nth O d VNull))
                          (fits_text (S O) (S (S (S (S O))))
                            (nth (S O) d VNull)))
                        (fits_text O (S O) (nth (S (S O)) d VNull)))
                      (fits_text (S O) (S (S (S O)))
                        (nth (S (S (S O))) d VNull)))
                    (fits_text O (S O) (nth (S (S (S (S O)))) d VNull)))
                  (fits_int (Zneg (XI (XI (XI (XO (XO (XI (XI (XI (XI
                    XH)))))))))) (Zpos (XI (XI (XI (XI (XO (XO (XO (XO (XI
                    (XI (XI (XO (XO XH))))))))))))))
                    (nth (S (S (S (S (S O))))) d VNull)))
                (fits_text O (S O) (nth (S (S (S (S (S (S O)))))) d VNull)))
              (coord_in_range (nth (S (S (S (S (S (S (S O))))))) d VNull)))
            (coord_in_range (nth (S (S (S (S (S (S (S (S O)))))))) d VNull)))
          (coord_in_range (nth (S (S (S (S (S (S (S (S (S O))))))))) d VNull)))
        (fits_real
          (qopp { qnum = (Zpos (XI (XI (XI (XI (XO (XO (XO (XO (XI (XI (XI
            (XO (XO XH)))))))))))))); qden = (XO (XO (XI (XO (XO (XI
            XH)))))) }) { qnum = (Zpos (XI (XI (XI (XI (XI (XO (XO (XI (XO
          (XI (XI (XO (XO (XO (XO (XI XH))))))))))))))))); qden = (XO (XO (XI
          (XO (XO (XI XH)))))) }
          (nth (S (S (S (S (S (S (S (S (S (S O)))))))))) d VNull)))
      (fits_real
        (qopp { qnum = (Zpos (XI (XI (XI (XI (XO (XO (XO (XO (XI (XI (XI (XO
          (XO XH)))))))))))))); qden = (XO (XO (XI (XO (XO (XI XH)))))) })
        { qnum = (Zpos (XI (XI (XI (XI (XI (XO (XO (XI (XO (XI (XI (XO (XO
        (XO (XO (XI XH))))))))))))))))); qden = (XO (XO (XI (XO (XO (XI
        XH)))))) }
        (nth (S (S (S (S (S (S (S (S (S (S (S O))))))))))) d VNull)))
    (fits_text (S O) (S (S O))
      (nth (S (S (S (S (S (S (S (S (S (S (S (S O)))))))))))) d VNull))

(** val decimal_value : string -> (q * nat) option **)

let decimal_value s0 =
  let s = trim s0 in
  let (neg, body) = split_sign s in
  let (ip, fp) = split_dot body in
  let fpart = match fp with
              | Some f -> f
              | None -> EmptyString in
  if (&&) ((&&) (all_digits ip) (all_digits fpart)) (str_nonempty ip)
  then let q0 = { qnum = (digits_val Z0 (append ip fpart)); qden =
         (Z.to_pos (pow10 (length0 fpart))) }
       in
       Some ((if neg then qopp q0 else q0), (length0 fpart))
  else None

(** val int_digits : q -> nat **)

let int_digits q0 =
  length0 (digits (qfloor (qabs q0)))

(** val max_fit : q -> nat **)

let max_fit q0 =
  Nat.min (S (S (S O)))
    (sub
      (sub (S (S (S (S (S (S (S (S O))))))))
        (add (int_digits q0)
          (if qltb q0 { qnum = Z0; qden = XH } then S O else O))) (S O))

(** val near_power_of_ten : q -> bool **)

let near_power_of_ten q0 =
  let a = qabs q0 in
  existsb (fun k ->
    (&&)
      (qleb
        (qminus (inject_Z (Z.pow (Zpos (XO (XI (XO XH)))) k)) { qnum = (Zpos
          XH); qden = (XO XH) }) a)
      (qltb a (inject_Z (Z.pow (Zpos (XO (XI (XO XH)))) k)))) ((Zpos (XI
    XH)) :: ((Zpos (XO (XO XH))) :: ((Zpos (XI (XO XH))) :: ((Zpos (XO (XI
    XH))) :: ((Zpos (XI (XI XH))) :: ((Zpos (XO (XO (XO XH)))) :: []))))))

(** val coord_ok : val0 -> string -> bool **)

let coord_ok v0 field =
  match real_of v0 with
  | Some q0 ->
    (match decimal_value field with
     | Some p ->
       let (r, k) = p in
       (&&)
         ((&&) (Nat.eqb (length0 field) (S (S (S (S (S (S (S (S O)))))))))
           (qleb (qabs (qminus r q0))
             (qdiv { qnum = (Zpos XH); qden = (XO XH) } (inject_Z (pow10 k)))))
         (if (&&)
               (qltb
                 (qopp { qnum = (Zpos (XI (XI (XO (XI (XO (XO (XO (XO (XI (XI
                   (XI (XO (XO XH)))))))))))))); qden = (XO (XI (XO XH))) })
                 q0)
               (qltb q0 { qnum = (Zpos (XI (XI (XO (XI (XI (XO (XO (XI (XO
                 (XI (XI (XO (XO (XO (XO (XI XH))))))))))))))))); qden = (XO
                 (XI (XO XH))) })
          then Nat.eqb k (S (S (S O)))
          else (||) (Nat.eqb k (max_fit q0))
                 ((&&) (near_power_of_ten q0) (Nat.eqb (S k) (max_fit q0))))
     | None -> false)
  | None -> false

(** val text_ok : val0 -> string -> bool **)

let text_ok v0 field =
  match v0 with
  | VText s -> eqb1 (trim field) s
  | _ -> false

(** val int_ok : val0 -> string -> bool **)

let int_ok v0 field =
  match v0 with
  | VInt z0 ->
    (match parse_int field with
     | NumOk z' -> Z.eqb z0 z'
     | _ -> false)
  | _ -> false

(** val real2_ok : val0 -> string -> bool **)

let real2_ok v0 field =
  match real_of v0 with
  | Some q0 ->
    (match decimal_value field with
     | Some p ->
       let (r, k) = p in
       (&&) (Nat.eqb k (S (S O)))
         (qleb (qabs (qminus r q0)) { qnum = (Zpos (XI (XO XH))); qden = (XO
           (XO (XO (XI (XO (XI (XI (XI (XI XH))))))))) })
     | None -> false)
  | None -> false

(** val line_ok : row -> string -> bool **)

let line_ok d line =
  (&&)
    ((&&)
      ((&&)
        ((&&)
          ((&&)
            ((&&)
              ((&&)
                ((&&)
                  ((&&)
                    ((&&)
                      ((&&)
                        ((&&)
                          ((&&)
                            ((&&)
                              (Nat.eqb (length0 line) (S (S (S (S (S (S (S (S
                                (S (S (S (S (S (S (S (S (S (S (S (S (S (S (S
                                (S (S (S (S (S (S (S (S (S (S (S (S (S (S (S
                                (S (S (S (S (S (S (S (S (S (S (S (S (S (S (S
                                (S (S (S (S (S (S (S (S (S (S (S (S (S (S (S
                                (S (S (S (S (S (S (S (S (S (S (S (S
                                O)))))))))))))))))))))))))))))))))))))))))))))))))))))))))))))))))))))))))))))))))
                              (eqb1
                                (substring O (S (S (S (S (S (S O)))))) line)
                                (String ((Ascii (true, false, false, false,
                                false, false, true, false)), (String ((Ascii
                                (false, false, true, false, true, false,
                                true, false)), (String ((Ascii (true, true,
                                true, true, false, false, true, false)),
                                (String ((Ascii (true, false, true, true,
                                false, false, true, false)), (String ((Ascii
                                (false, false, false, false, false, true,
                                false, false)), (String ((Ascii (false,
                                false, false, false, false, true, false,
                                false)), EmptyString))))))))))))))
                            (int_ok (nth O d VNull)
                              (columns (S (S (S (S (S (S (S O))))))) (S (S (S
                                (S (S (S (S (S (S (S (S O))))))))))) line)))
                          (text_ok (nth (S O) d VNull)
                            (columns (S (S (S (S (S (S (S (S (S (S (S (S (S
                              O))))))))))))) (S (S (S (S (S (S (S (S (S (S (S
                              (S (S (S (S (S O)))))))))))))))) line)))
                        (text_ok (nth (S (S O)) d VNull)
                          (columns (S (S (S (S (S (S (S (S (S (S (S (S (S (S
                            (S (S (S O))))))))))))))))) (S (S (S (S (S (S (S
                            (S (S (S (S (S (S (S (S (S (S O)))))))))))))))))
                            line)))
                      (text_ok (nth (S (S (S O))) d VNull)
                        (columns (S (S (S (S (S (S (S (S (S (S (S (S (S (S (S
                          (S (S (S O)))))))))))))))))) (S (S (S (S (S (S (S
                          (S (S (S (S (S (S (S (S (S (S (S (S (S
                          O)))))))))))))))))))) line)))
                    (text_ok (nth (S (S (S (S O)))) d VNull)
                      (columns (S (S (S (S (S (S (S (S (S (S (S (S (S (S (S
                        (S (S (S (S (S (S (S O)))))))))))))))))))))) (S (S (S
                        (S (S (S (S (S (S (S (S (S (S (S (S (S (S (S (S (S (S
                        (S O)))))))))))))))))))))) line)))
                  (int_ok (nth (S (S (S (S (S O))))) d VNull)
                    (columns (S (S (S (S (S (S (S (S (S (S (S (S (S (S (S (S
                      (S (S (S (S (S (S (S O))))))))))))))))))))))) (S (S (S
                      (S (S (S (S (S (S (S (S (S (S (S (S (S (S (S (S (S (S
                      (S (S (S (S (S O)))))))))))))))))))))))))) line)))
                (text_ok (nth (S (S (S (S (S (S O)))))) d VNull)
                  (columns (S (S (S (S (S (S (S (S (S (S (S (S (S (S (S (S (S
                    (S (S (S (S (S (S (S (S (S (S
                    O))))))))))))))))))))))))))) (S (S (S (S (S (S (S (S (S
                    (S (S (S (S (S (S (S (S (S (S (S (S (S (S (S (S (S (S
                    O))))))))))))))))))))))))))) line)))
              (coord_ok (nth (S (S (S (S (S (S (S O))))))) d VNull)
                (columns (S (S (S (S (S (S (S (S (S (S (S (S (S (S (S (S (S
                  (S (S (S (S (S (S (S (S (S (S (S (S (S (S
                  O))))))))))))))))))))))))))))))) (S (S (S (S (S (S (S (S (S
                  (S (S (S (S (S (S (S (S (S (S (S (S (S (S (S (S (S (S (S (S
                  (S (S (S (S (S (S (S (S (S
                  O)))))))))))))))))))))))))))))))))))))) line)))
            (coord_ok (nth (S (S (S (S (S (S (S (S O)))))))) d VNull)
              (columns (S (S (S (S (S (S (S (S (S (S (S (S (S (S (S (S (S (S
                (S (S (S (S (S (S (S (S (S (S (S (S (S (S (S (S (S (S (S (S
                (S O))))))))))))))))))))))))))))))))))))))) (S (S (S (S (S (S
                (S (S (S (S (S (S (S (S (S (S (S (S (S (S (S (S (S (S (S (S
                (S (S (S (S (S (S (S (S (S (S (S (S (S (S (S (S (S (S (S (S
                O)))))))))))))))))))))))))))))))))))))))))))))) line)))
          (coord_ok (nth (S (S (S (S (S (S (S (S (S O))))))))) d VNull)
            (columns (S (S (S (S (S (S (S (S (S (S (S (S (S (S (S (S (S (S (S
              (S (S (S (S (S (S (S (S (S (S (S (S (S (S (S (S (S (S (S (S (S
              (S (S (S (S (S (S (S
              O))))))))))))))))))))))))))))))))))))))))))))))) (S (S (S (S (S
              (S (S (S (S (S (S (S (S (S (S (S (S (S (S (S (S (S (S (S (S (S
              (S (S (S (S (S (S (S (S (S (S (S (S (S (S (S (S (S (S (S (S (S
              (S (S (S (S (S (S (S
              O)))))))))))))))))))))))))))))))))))))))))))))))))))))) line)))
        (real2_ok (nth (S (S (S (S (S (S (S (S (S (S O)))))))))) d VNull)
          (columns (S (S (S (S (S (S (S (S (S (S (S (S (S (S (S (S (S (S (S
            (S (S (S (S (S (S (S (S (S (S (S (S (S (S (S (S (S (S (S (S (S (S
            (S (S (S (S (S (S (S (S (S (S (S (S (S (S
            O))))))))))))))))))))))))))))))))))))))))))))))))))))))) (S (S (S
            (S (S (S (S (S (S (S (S (S (S (S (S (S (S (S (S (S (S (S (S (S (S
            (S (S (S (S (S (S (S (S (S (S (S (S (S (S (S (S (S (S (S (S (S (S
            (S (S (S (S (S (S (S (S (S (S (S (S (S
            O))))))))))))))))))))))))))))))))))))))))))))))))))))))))))))
            line)))
      (real2_ok (nth (S (S (S (S (S (S (S (S (S (S (S O))))))))))) d VNull)
        (columns (S (S (S (S (S (S (S (S (S (S (S (S (S (S (S (S (S (S (S (S
          (S (S (S (S (S (S (S (S (S (S (S (S (S (S (S (S (S (S (S (S (S (S
          (S (S (S (S (S (S (S (S (S (S (S (S (S (S (S (S (S (S (S
          O))))))))))))))))))))))))))))))))))))))))))))))))))))))))))))) (S
          (S (S (S (S (S (S (S (S (S (S (S (S (S (S (S (S (S (S (S (S (S (S
          (S (S (S (S (S (S (S (S (S (S (S (S (S (S (S (S (S (S (S (S (S (S
          (S (S (S (S (S (S (S (S (S (S (S (S (S (S (S (S (S (S (S (S (S
          O))))))))))))))))))))))))))))))))))))))))))))))))))))))))))))))))))
          line)))
    (text_ok (nth (S (S (S (S (S (S (S (S (S (S (S (S O)))))))))))) d VNull)
      (columns (S (S (S (S (S (S (S (S (S (S (S (S (S (S (S (S (S (S (S (S (S
        (S (S (S (S (S (S (S (S (S (S (S (S (S (S (S (S (S (S (S (S (S (S (S
        (S (S (S (S (S (S (S (S (S (S (S (S (S (S (S (S (S (S (S (S (S (S (S
        (S (S (S (S (S (S (S (S (S (S
        O)))))))))))))))))))))))))))))))))))))))))))))))))))))))))))))))))))))))))))))
        (S (S (S (S (S (S (S (S (S (S (S (S (S (S (S (S (S (S (S (S (S (S (S
        (S (S (S (S (S (S (S (S (S (S (S (S (S (S (S (S (S (S (S (S (S (S (S
        (S (S (S (S (S (S (S (S (S (S (S (S (S (S (S (S (S (S (S (S (S (S (S
        (S (S (S (S (S (S (S (S (S
        O))))))))))))))))))))))))))))))))))))))))))))))))))))))))))))))))))))))))))))))
        line))

(** val val_eqb : val0 -> val0 -> bool **)

let val_eqb a b =
  match a with
  | VInt x -> (match b with
               | VInt y -> Z.eqb x y
               | _ -> false)
  | VReal x -> (match b with
                | VReal y -> qeqb x y
                | _ -> false)
  | VText x -> (match b with
                | VText y -> eqb1 x y
                | _ -> false)
  | _ -> false

(** val slack : q -> q **)

let slack x =
  qplus
    (qmult (qabs x) { qnum = (Zpos XH); qden = (XO (XO (XO (XO (XO (XO (XO
      (XO (XO (XO (XO (XO (XO (XO (XO (XO (XO (XO (XO (XO (XO (XO (XO (XO (XO
      (XO (XO (XO (XO (XO (XO (XO (XO (XO (XO (XO (XO (XO (XO (XO (XO (XO (XO
      (XO (XO (XO (XO (XO (XO (XO
      XH)))))))))))))))))))))))))))))))))))))))))))))))))) }) { qnum = (Zpos
    XH); qden = (XO (XO (XO (XO (XO (XO (XO (XO (XO (XO (XO (XO (XI (XO (XO
    (XO (XI (XO (XI (XO (XO (XI (XO (XI (XO (XO (XI (XO (XI (XO (XI (XI (XO
    (XO (XO (XI (XO (XI (XI XH))))))))))))))))))))))))))))))))))))))) }

(** val within : q -> val0 -> val0 -> bool **)

let within tol a b =
  match real_of a with
  | Some x ->
    (match real_of b with
     | Some y -> qleb (qabs (qminus x y)) (qplus tol (slack x))
     | None -> false)
  | None -> false

(** val coord_tol : val0 -> q **)

let coord_tol v0 =
  match real_of v0 with
  | Some q0 ->
    if (&&)
         (qltb
           (qopp { qnum = (Zpos (XI (XI (XO (XI (XO (XO (XO (XO (XI (XI (XI
             (XO (XO XH)))))))))))))); qden = (XO (XI (XO XH))) }) q0)
         (qltb q0 { qnum = (Zpos (XI (XI (XO (XI (XI (XO (XO (XI (XO (XI (XI
           (XO (XO (XO (XO (XI XH))))))))))))))))); qden = (XO (XI (XO
           XH))) })
    then { qnum = (Zpos (XI (XO XH))); qden = (XO (XO (XO (XO (XI (XO (XO (XO
           (XI (XI (XI (XO (XO XH))))))))))))) }
    else qdiv { qnum = (Zpos XH); qden = (XO XH) }
           (inject_Z (pow10 (Nat.pred (max_fit q0))))
  | None -> { qnum = Z0; qden = XH }

(** val approx_row : row -> row -> bool **)

let approx_row d d' =
  (&&)
    ((&&)
      ((&&)
        (Nat.eqb (length d') (S (S (S (S (S (S (S (S (S (S (S (S (S (S
          O)))))))))))))))
        (forallb (fun i -> val_eqb (nth i d VNull) (nth i d' VNull))
          (O :: ((S O) :: ((S (S O)) :: ((S (S (S O))) :: ((S (S (S (S
          O)))) :: ((S (S (S (S (S O))))) :: ((S (S (S (S (S (S
          O)))))) :: ((S (S (S (S (S (S (S (S (S (S (S (S
          O)))))))))))) :: []))))))))))
      (forallb (fun i ->
        within (coord_tol (nth i d VNull)) (nth i d VNull) (nth i d' VNull))
        ((S (S (S (S (S (S (S O))))))) :: ((S (S (S (S (S (S (S (S
        O)))))))) :: ((S (S (S (S (S (S (S (S (S O))))))))) :: [])))))
    (forallb (fun i ->
      within { qnum = (Zpos (XI (XO XH))); qden = (XO (XO (XO (XI (XO (XI (XI
        (XI (XI XH))))))))) } (nth i d VNull) (nth i d' VNull)) ((S (S (S (S
      (S (S (S (S (S (S O)))))))))) :: ((S (S (S (S (S (S (S (S (S (S (S
      O))))))))))) :: [])))

(** val row_of_V : v -> row **)

let row_of_V v0 =
  map val_of_V (getL v0)

(** val run_export : string -> v list -> v option **)

let run_export cmd a =
  if eqb1 cmd (String ((Ascii (true, false, true, false, false, true, true,
       false)), (String ((Ascii (false, false, false, true, true, true, true,
       false)), (String ((Ascii (false, false, false, false, true, true,
       true, false)), (String ((Ascii (true, true, true, true, false, true,
       true, false)), (String ((Ascii (false, true, false, false, true, true,
       true, false)), (String ((Ascii (false, false, true, false, true, true,
       true, false)), (String ((Ascii (false, true, true, true, false, true,
       false, false)), (String ((Ascii (false, false, true, true, false,
       true, true, false)), (String ((Ascii (true, false, false, true, false,
       true, true, false)), (String ((Ascii (false, true, true, true, false,
       true, true, false)), (String ((Ascii (true, false, true, false, false,
       true, true, false)), EmptyString))))))))))))))))))))))
  then Some
         (vres
           (bind (line_of_row (row_of_V (nth O a (VZ Z0)))) (fun s -> Ok (VS
             s))))
  else if eqb1 cmd (String ((Ascii (true, false, true, false, false, true,
            true, false)), (String ((Ascii (false, false, false, true, true,
            true, true, false)), (String ((Ascii (false, false, false, false,
            true, true, true, false)), (String ((Ascii (true, true, true,
            true, false, true, true, false)), (String ((Ascii (false, true,
            false, false, true, true, true, false)), (String ((Ascii (false,
            false, true, false, true, true, true, false)), (String ((Ascii
            (false, true, true, true, false, true, false, false)), (String
            ((Ascii (false, false, false, true, true, true, true, false)),
            (String ((Ascii (true, false, false, true, true, true, true,
            false)), (String ((Ascii (false, true, false, true, true, true,
            true, false)), EmptyString))))))))))))))))))))
       then Some
              (vres
                (bind (format_xyz_src (getQ (nth O a (VZ Z0)))) (fun s -> Ok
                  (VS s))))
       else if eqb1 cmd (String ((Ascii (true, false, true, false, false,
                 true, true, false)), (String ((Ascii (false, false, false,
                 true, true, true, true, false)), (String ((Ascii (false,
                 false, false, false, true, true, true, false)), (String
                 ((Ascii (true, true, true, true, false, true, true, false)),
                 (String ((Ascii (false, true, false, false, true, true,
                 true, false)), (String ((Ascii (false, false, true, false,
                 true, true, true, false)), (String ((Ascii (false, true,
                 true, true, false, true, false, false)), (String ((Ascii
                 (true, false, false, false, false, true, true, false)),
                 (String ((Ascii (false, false, true, false, true, true,
                 true, false)), (String ((Ascii (true, true, true, true,
                 false, true, true, false)), (String ((Ascii (true, false,
                 true, true, false, true, true, false)), (String ((Ascii
                 (false, true, true, true, false, true, true, false)),
                 (String ((Ascii (true, false, false, false, false, true,
                 true, false)), (String ((Ascii (true, false, true, true,
                 false, true, true, false)), (String ((Ascii (true, false,
                 true, false, false, true, true, false)),
                 EmptyString))))))))))))))))))))))))))))))
            then Some
                   (vres
                     (bind
                       (format_atomname_src (getS (nth O a (VZ Z0)))
                         (getS (nth (S O) a (VZ Z0)))) (fun s -> Ok (VS s))))
            else if eqb1 cmd (String ((Ascii (true, true, false, false, true,
                      true, true, false)), (String ((Ascii (false, false,
                      false, false, true, true, true, false)), (String
                      ((Ascii (true, false, true, false, false, true, true,
                      false)), (String ((Ascii (true, true, false, false,
                      false, true, true, false)), (String ((Ascii (false,
                      true, true, true, false, true, false, false)), (String
                      ((Ascii (true, false, true, false, false, true, true,
                      false)), (String ((Ascii (false, false, false, true,
                      true, true, true, false)), (String ((Ascii (false,
                      false, false, false, true, true, true, false)), (String
                      ((Ascii (true, true, true, true, false, true, true,
                      false)), (String ((Ascii (false, true, false, false,
                      true, true, true, false)), (String ((Ascii (false,
                      false, true, false, true, true, true, false)), (String
                      ((Ascii (false, true, true, true, false, true, false,
                      false)), (String ((Ascii (false, true, true, false,
                      false, true, true, false)), (String ((Ascii (true,
                      false, false, true, false, true, true, false)), (String
                      ((Ascii (false, false, true, false, true, true, true,
                      false)), (String ((Ascii (true, true, false, false,
                      true, true, true, false)),
                      EmptyString))))))))))))))))))))))))))))))))
                 then Some (vB (fits (row_of_V (nth O a (VZ Z0)))))
                 else if eqb1 cmd (String ((Ascii (true, true, false, false,
                           true, true, true, false)), (String ((Ascii (false,
                           false, false, false, true, true, true, false)),
                           (String ((Ascii (true, false, true, false, false,
                           true, true, false)), (String ((Ascii (true, true,
                           false, false, false, true, true, false)), (String
                           ((Ascii (false, true, true, true, false, true,
                           false, false)), (String ((Ascii (true, false,
                           true, false, false, true, true, false)), (String
                           ((Ascii (false, false, false, true, true, true,
                           true, false)), (String ((Ascii (false, false,
                           false, false, true, true, true, false)), (String
                           ((Ascii (true, true, true, true, false, true,
                           true, false)), (String ((Ascii (false, true,
                           false, false, true, true, true, false)), (String
                           ((Ascii (false, false, true, false, true, true,
                           true, false)), (String ((Ascii (false, true, true,
                           true, false, true, false, false)), (String ((Ascii
                           (false, false, true, true, false, true, true,
                           false)), (String ((Ascii (true, false, false,
                           true, false, true, true, false)), (String ((Ascii
                           (false, true, true, true, false, true, true,
                           false)), (String ((Ascii (true, false, true,
                           false, false, true, true, false)), (String ((Ascii
                           (true, true, true, true, true, false, true,
                           false)), (String ((Ascii (true, true, true, true,
                           false, true, true, false)), (String ((Ascii (true,
                           true, false, true, false, true, true, false)),
                           EmptyString))))))))))))))))))))))))))))))))))))))
                      then Some
                             (vB
                               (line_ok (row_of_V (nth O a (VZ Z0)))
                                 (getS (nth (S O) a (VZ Z0)))))
                      else if eqb1 cmd (String ((Ascii (true, true, false,
                                false, true, true, true, false)), (String
                                ((Ascii (false, false, false, false, true,
                                true, true, false)), (String ((Ascii (true,
                                false, true, false, false, true, true,
                                false)), (String ((Ascii (true, true, false,
                                false, false, true, true, false)), (String
                                ((Ascii (false, true, true, true, false,
                                true, false, false)), (String ((Ascii (true,
                                false, true, false, false, true, true,
                                false)), (String ((Ascii (false, false,
                                false, true, true, true, true, false)),
                                (String ((Ascii (false, false, false, false,
                                true, true, true, false)), (String ((Ascii
                                (true, true, true, true, false, true, true,
                                false)), (String ((Ascii (false, true, false,
                                false, true, true, true, false)), (String
                                ((Ascii (false, false, true, false, true,
                                true, true, false)), (String ((Ascii (false,
                                true, true, true, false, true, false,
                                false)), (String ((Ascii (true, true, false,
                                false, false, true, true, false)), (String
                                ((Ascii (true, true, true, true, false, true,
                                true, false)), (String ((Ascii (true, true,
                                true, true, false, true, true, false)),
                                (String ((Ascii (false, true, false, false,
                                true, true, true, false)), (String ((Ascii
                                (false, false, true, false, false, true,
                                true, false)), (String ((Ascii (true, true,
                                true, true, true, false, true, false)),
                                (String ((Ascii (true, true, true, true,
                                false, true, true, false)), (String ((Ascii
                                (true, true, false, true, false, true, true,
                                false)),
                                EmptyString))))))))))))))))))))))))))))))))))))))))
                           then Some
                                  (vB
                                    (coord_ok (VReal
                                      (getQ (nth O a (VZ Z0))))
                                      (getS (nth (S O) a (VZ Z0)))))
                           else if eqb1 cmd (String ((Ascii (true, true,
                                     false, false, true, true, true, false)),
                                     (String ((Ascii (false, false, false,
                                     false, true, true, true, false)),
                                     (String ((Ascii (true, false, true,
                                     false, false, true, true, false)),
                                     (String ((Ascii (true, true, false,
                                     false, false, true, true, false)),
                                     (String ((Ascii (false, true, true,
                                     true, false, true, false, false)),
                                     (String ((Ascii (true, false, true,
                                     false, false, true, true, false)),
                                     (String ((Ascii (false, false, false,
                                     true, true, true, true, false)), (String
                                     ((Ascii (false, false, false, false,
                                     true, true, true, false)), (String
                                     ((Ascii (true, true, true, true, false,
                                     true, true, false)), (String ((Ascii
                                     (false, true, false, false, true, true,
                                     true, false)), (String ((Ascii (false,
                                     false, true, false, true, true, true,
                                     false)), (String ((Ascii (false, true,
                                     true, true, false, true, false, false)),
                                     (String ((Ascii (true, true, false,
                                     false, false, true, true, false)),
                                     (String ((Ascii (true, true, true, true,
                                     false, true, true, false)), (String
                                     ((Ascii (true, true, true, true, false,
                                     true, true, false)), (String ((Ascii
                                     (false, true, false, false, true, true,
                                     true, false)), (String ((Ascii (false,
                                     false, true, false, false, true, true,
                                     false)), (String ((Ascii (true, true,
                                     true, true, true, false, true, false)),
                                     (String ((Ascii (true, false, false,
                                     true, false, true, true, false)),
                                     (String ((Ascii (false, true, true,
                                     true, false, true, true, false)),
                                     (String ((Ascii (true, true, true, true,
                                     true, false, true, false)), (String
                                     ((Ascii (false, true, false, false,
                                     true, true, true, false)), (String
                                     ((Ascii (true, false, false, false,
                                     false, true, true, false)), (String
                                     ((Ascii (false, true, true, true, false,
                                     true, true, false)), (String ((Ascii
                                     (true, true, true, false, false, true,
                                     true, false)), (String ((Ascii (true,
                                     false, true, false, false, true, true,
                                     false)),
                                     EmptyString))))))))))))))))))))))))))))))))))))))))))))))))))))
                                then Some
                                       (vB
                                         (coord_in_range (VReal
                                           (getQ (nth O a (VZ Z0))))))
                                else if eqb1 cmd (String ((Ascii (true, true,
                                          false, false, true, true, true,
                                          false)), (String ((Ascii (false,
                                          false, false, false, true, true,
                                          true, false)), (String ((Ascii
                                          (true, false, true, false, false,
                                          true, true, false)), (String
                                          ((Ascii (true, true, false, false,
                                          false, true, true, false)), (String
                                          ((Ascii (false, true, true, true,
                                          false, true, false, false)),
                                          (String ((Ascii (true, false, true,
                                          false, false, true, true, false)),
                                          (String ((Ascii (false, false,
                                          false, true, true, true, true,
                                          false)), (String ((Ascii (false,
                                          false, false, false, true, true,
                                          true, false)), (String ((Ascii
                                          (true, true, true, true, false,
                                          true, true, false)), (String
                                          ((Ascii (false, true, false, false,
                                          true, true, true, false)), (String
                                          ((Ascii (false, false, true, false,
                                          true, true, true, false)), (String
                                          ((Ascii (false, true, true, true,
                                          false, true, false, false)),
                                          (String ((Ascii (true, false,
                                          false, false, false, true, true,
                                          false)), (String ((Ascii (false,
                                          false, false, false, true, true,
                                          true, false)), (String ((Ascii
                                          (false, false, false, false, true,
                                          true, true, false)), (String
                                          ((Ascii (false, true, false, false,
                                          true, true, true, false)), (String
                                          ((Ascii (true, true, true, true,
                                          false, true, true, false)), (String
                                          ((Ascii (false, false, false, true,
                                          true, true, true, false)), (String
                                          ((Ascii (true, true, true, true,
                                          true, false, true, false)), (String
                                          ((Ascii (false, true, false, false,
                                          true, true, true, false)), (String
                                          ((Ascii (true, true, true, true,
                                          false, true, true, false)), (String
                                          ((Ascii (true, true, true, false,
                                          true, true, true, false)),
                                          EmptyString))))))))))))))))))))))))))))))))))))))))))))
                                     then Some
                                            (vB
                                              (approx_row
                                                (row_of_V (nth O a (VZ Z0)))
                                                (row_of_V
                                                  (nth (S O) a (VZ Z0)))))
                                     else None

(** val val_eqb0 : val0 -> val0 -> bool **)

let val_eqb0 a b =
  match a with
  | VInt x ->
    (match b with
     | VInt y -> Z.eqb x y
     | VReal y -> qeq_bool (inject_Z x) y
     | _ -> false)
  | VReal x ->
    (match b with
     | VInt y -> qeq_bool x (inject_Z y)
     | VReal y -> qeq_bool x y
     | _ -> false)
  | VText x -> (match b with
                | VText y -> eqb1 x y
                | _ -> false)
  | _ -> false

type table = row list

(** val key_of : nat list -> row -> val0 list **)

let key_of idx r =
  map (fun i -> nth i r VNull) idx

(** val keys_eqb : val0 list -> val0 list -> bool **)

let rec keys_eqb a b =
  match a with
  | [] -> (match b with
           | [] -> true
           | _ :: _ -> false)
  | x :: a' ->
    (match b with
     | [] -> false
     | y :: b' -> (&&) (val_eqb0 x y) (keys_eqb a' b'))

(** val same_key : nat list -> row -> row -> bool **)

let same_key idx r r' =
  keys_eqb (key_of idx r) (key_of idx r')

(** val join : nat list -> table list -> row list list **)

let rec join idx = function
| [] -> [] :: []
| t :: rest ->
  flat_map (fun r ->
    map (fun x -> r :: x) (filter (forallb (same_key idx r)) (join idx rest)))
    t

(** val project : nat list -> row -> row **)

let project cols r =
  map (fun i -> nth i r VNull) cols

(** val get_intersection :
    nat list -> nat list -> table list -> row list list **)

let get_intersection idx cols tables =
  let tuples = join idx tables in
  map (fun it -> map (fun tup -> project cols (nth it tup [])) tuples)
    (seq O (length tables))

(** val std_cols : string list **)

let std_cols =
  (String ((Ascii (true, true, false, false, true, true, true, false)),
    (String ((Ascii (true, false, true, false, false, true, true, false)),
    (String ((Ascii (false, true, false, false, true, true, true, false)),
    (String ((Ascii (true, false, false, true, false, true, true, false)),
    (String ((Ascii (true, false, false, false, false, true, true, false)),
    (String ((Ascii (false, false, true, true, false, true, true, false)),
    EmptyString)))))))))))) :: ((String ((Ascii (false, true, true, true,
    false, true, true, false)), (String ((Ascii (true, false, false, false,
    false, true, true, false)), (String ((Ascii (true, false, true, true,
    false, true, true, false)), (String ((Ascii (true, false, true, false,
    false, true, true, false)), EmptyString)))))))) :: ((String ((Ascii
    (true, false, false, false, false, true, true, false)), (String ((Ascii
    (false, false, true, true, false, true, true, false)), (String ((Ascii
    (false, false, true, false, true, true, true, false)), (String ((Ascii
    (false, false, true, true, false, false, true, false)), (String ((Ascii
    (true, true, true, true, false, true, true, false)), (String ((Ascii
    (true, true, false, false, false, true, true, false)),
    EmptyString)))))))))))) :: ((String ((Ascii (false, true, false, false,
    true, true, true, false)), (String ((Ascii (true, false, true, false,
    false, true, true, false)), (String ((Ascii (true, true, false, false,
    true, true, true, false)), (String ((Ascii (false, true, true, true,
    false, false, true, false)), (String ((Ascii (true, false, false, false,
    false, true, true, false)), (String ((Ascii (true, false, true, true,
    false, true, true, false)), (String ((Ascii (true, false, true, false,
    false, true, true, false)), EmptyString)))))))))))))) :: ((String ((Ascii
    (true, true, false, false, false, true, true, false)), (String ((Ascii
    (false, false, false, true, false, true, true, false)), (String ((Ascii
    (true, false, false, false, false, true, true, false)), (String ((Ascii
    (true, false, false, true, false, true, true, false)), (String ((Ascii
    (false, true, true, true, false, true, true, false)), (String ((Ascii
    (true, false, false, true, false, false, true, false)), (String ((Ascii
    (false, false, true, false, false, false, true, false)),
    EmptyString)))))))))))))) :: ((String ((Ascii (false, true, false, false,
    true, true, true, false)), (String ((Ascii (true, false, true, false,
    false, true, true, false)), (String ((Ascii (true, true, false, false,
    true, true, true, false)), (String ((Ascii (true, true, false, false,
    true, false, true, false)), (String ((Ascii (true, false, true, false,
    false, true, true, false)), (String ((Ascii (true, false, false, false,
    true, true, true, false)), EmptyString)))))))))))) :: ((String ((Ascii
    (true, false, false, true, false, true, true, false)), (String ((Ascii
    (true, true, false, false, false, false, true, false)), (String ((Ascii
    (true, true, true, true, false, true, true, false)), (String ((Ascii
    (false, false, true, false, false, true, true, false)), (String ((Ascii
    (true, false, true, false, false, true, true, false)),
    EmptyString)))))))))) :: ((String ((Ascii (false, false, false, true,
    true, true, true, false)), EmptyString)) :: ((String ((Ascii (true,
    false, false, true, true, true, true, false)), EmptyString)) :: ((String
    ((Ascii (false, true, false, true, true, true, true, false)),
    EmptyString)) :: ((String ((Ascii (true, true, true, true, false, true,
    true, false)), (String ((Ascii (true, true, false, false, false, true,
    true, false)), (String ((Ascii (true, true, false, false, false, true,
    true, false)), EmptyString)))))) :: ((String ((Ascii (false, false, true,
    false, true, true, true, false)), (String ((Ascii (true, false, true,
    false, false, true, true, false)), (String ((Ascii (true, false, true,
    true, false, true, true, false)), (String ((Ascii (false, false, false,
    false, true, true, true, false)), EmptyString)))))))) :: ((String ((Ascii
    (true, false, true, false, false, true, true, false)), (String ((Ascii
    (false, false, true, true, false, true, true, false)), (String ((Ascii
    (true, false, true, false, false, true, true, false)), (String ((Ascii
    (true, false, true, true, false, true, true, false)), (String ((Ascii
    (true, false, true, false, false, true, true, false)), (String ((Ascii
    (false, true, true, true, false, true, true, false)), (String ((Ascii
    (false, false, true, false, true, true, true, false)),
    EmptyString)))))))))))))) :: ((String ((Ascii (true, false, true, true,
    false, true, true, false)), (String ((Ascii (true, true, true, true,
    false, true, true, false)), (String ((Ascii (false, false, true, false,
    false, true, true, false)), (String ((Ascii (true, false, true, false,
    false, true, true, false)), (String ((Ascii (false, false, true, true,
    false, true, true, false)), EmptyString)))))))))) :: [])))))))))))))

(** val lower_char : ascii -> ascii **)

let lower_char c =
  let n0 = nat_of_ascii c in
  if (&&)
       (Nat.leb (S (S (S (S (S (S (S (S (S (S (S (S (S (S (S (S (S (S (S (S
         (S (S (S (S (S (S (S (S (S (S (S (S (S (S (S (S (S (S (S (S (S (S (S
         (S (S (S (S (S (S (S (S (S (S (S (S (S (S (S (S (S (S (S (S (S (S
         O)))))))))))))))))))))))))))))))))))))))))))))))))))))))))))))))))
         n0)
       (Nat.leb n0 (S (S (S (S (S (S (S (S (S (S (S (S (S (S (S (S (S (S (S
         (S (S (S (S (S (S (S (S (S (S (S (S (S (S (S (S (S (S (S (S (S (S (S
         (S (S (S (S (S (S (S (S (S (S (S (S (S (S (S (S (S (S (S (S (S (S (S
         (S (S (S (S (S (S (S (S (S (S (S (S (S (S (S (S (S (S (S (S (S (S (S
         (S (S
         O)))))))))))))))))))))))))))))))))))))))))))))))))))))))))))))))))))))))))))))))))))))))))))
  then ascii_of_nat
         (add n0 (S (S (S (S (S (S (S (S (S (S (S (S (S (S (S (S (S (S (S (S
           (S (S (S (S (S (S (S (S (S (S (S (S
           O)))))))))))))))))))))))))))))))))
  else c

(** val lower : string -> string **)

let rec lower = function
| EmptyString -> EmptyString
| String (c, t) -> String ((lower_char c), (lower t))

(** val index_of :
    (string -> string -> bool) -> string -> string list -> nat -> nat option **)

let rec index_of eq x l k =
  match l with
  | [] -> None
  | y :: t -> if eq x y then Some k else index_of eq x t (S k)

(** val col_index_ci : string -> nat option **)

let col_index_ci c =
  index_of (fun a b -> eqb1 (lower a) (lower b)) c std_cols O

(** val find_key : nat list -> row -> table -> row option **)

let find_key idx r t =
  find (same_key idx r) t

(** val find_all : nat list -> row -> table list -> row list option **)

let rec find_all idx r = function
| [] -> Some []
| t :: rest ->
  (match find_key idx r t with
   | Some x ->
     (match find_all idx r rest with
      | Some xs -> Some (x :: xs)
      | None -> None)
   | None -> None)

(** val spec_tuples : nat list -> table list -> row list list **)

let spec_tuples idx = function
| [] -> [] :: []
| t0 :: rest ->
  flat_map (fun r ->
    match find_all idx r rest with
    | Some xs -> (r :: xs) :: []
    | None -> []) t0

(** val spec_intersection :
    nat list -> nat list -> table list -> row list list **)

let spec_intersection idx cols tables =
  let tuples = spec_tuples idx tables in
  map (fun it -> map (fun tup -> project cols (nth it tup [])) tuples)
    (seq O (length tables))

(** val unique_keys : nat list -> table -> bool **)

let rec unique_keys idx = function
| [] -> true
| r :: rest ->
  (&&) (negb (existsb (same_key idx r) rest)) (unique_keys idx rest)

(** val tables_of_V : v -> table list **)

let tables_of_V v0 =
  map (fun t -> map row_of_V (getL t)) (getL v0)

(** val nats_of_V : v -> nat list **)

let nats_of_V v0 =
  map (fun x -> Z.to_nat (getZ x)) (getL v0)

(** val vtables : row list list -> v **)

let vtables ts =
  VL (map vrows ts)

(** val run_many : string -> v list -> v option **)

let run_many cmd a =
  if eqb1 cmd (String ((Ascii (true, false, true, true, false, true, true,
       false)), (String ((Ascii (true, false, false, false, false, true,
       true, false)), (String ((Ascii (false, true, true, true, false, true,
       true, false)), (String ((Ascii (true, false, false, true, true, true,
       true, false)), (String ((Ascii (false, true, true, true, false, true,
       false, false)), (String ((Ascii (true, false, false, true, false,
       true, true, false)), (String ((Ascii (false, true, true, true, false,
       true, true, false)), (String ((Ascii (false, false, true, false, true,
       true, true, false)), (String ((Ascii (true, false, true, false, false,
       true, true, false)), (String ((Ascii (false, true, false, false, true,
       true, true, false)), (String ((Ascii (true, true, false, false, true,
       true, true, false)), (String ((Ascii (true, false, true, false, false,
       true, true, false)), (String ((Ascii (true, true, false, false, false,
       true, true, false)), (String ((Ascii (false, false, true, false, true,
       true, true, false)), (String ((Ascii (true, false, false, true, false,
       true, true, false)), (String ((Ascii (true, true, true, true, false,
       true, true, false)), (String ((Ascii (false, true, true, true, false,
       true, true, false)), EmptyString))))))))))))))))))))))))))))))))))
  then Some
         (vtables
           (get_intersection (nats_of_V (nth O a (VZ Z0)))
             (nats_of_V (nth (S O) a (VZ Z0)))
             (tables_of_V (nth (S (S O)) a (VZ Z0)))))
  else if eqb1 cmd (String ((Ascii (true, true, false, false, true, true,
            true, false)), (String ((Ascii (false, false, false, false, true,
            true, true, false)), (String ((Ascii (true, false, true, false,
            false, true, true, false)), (String ((Ascii (true, true, false,
            false, false, true, true, false)), (String ((Ascii (false, true,
            true, true, false, true, false, false)), (String ((Ascii (true,
            false, true, true, false, true, true, false)), (String ((Ascii
            (true, false, false, false, false, true, true, false)), (String
            ((Ascii (false, true, true, true, false, true, true, false)),
            (String ((Ascii (true, false, false, true, true, true, true,
            false)), (String ((Ascii (false, true, true, true, false, true,
            false, false)), (String ((Ascii (true, false, false, true, false,
            true, true, false)), (String ((Ascii (false, true, true, true,
            false, true, true, false)), (String ((Ascii (false, false, true,
            false, true, true, true, false)), (String ((Ascii (true, false,
            true, false, false, true, true, false)), (String ((Ascii (false,
            true, false, false, true, true, true, false)), (String ((Ascii
            (true, true, false, false, true, true, true, false)), (String
            ((Ascii (true, false, true, false, false, true, true, false)),
            (String ((Ascii (true, true, false, false, false, true, true,
            false)), (String ((Ascii (false, false, true, false, true, true,
            true, false)), (String ((Ascii (true, false, false, true, false,
            true, true, false)), (String ((Ascii (true, true, true, true,
            false, true, true, false)), (String ((Ascii (false, true, true,
            true, false, true, true, false)),
            EmptyString))))))))))))))))))))))))))))))))))))))))))))
       then Some
              (vtables
                (spec_intersection (nats_of_V (nth O a (VZ Z0)))
                  (nats_of_V (nth (S O) a (VZ Z0)))
                  (tables_of_V (nth (S (S O)) a (VZ Z0)))))
       else if eqb1 cmd (String ((Ascii (true, true, false, false, true,
                 true, true, false)), (String ((Ascii (false, false, false,
                 false, true, true, true, false)), (String ((Ascii (true,
                 false, true, false, false, true, true, false)), (String
                 ((Ascii (true, true, false, false, false, true, true,
                 false)), (String ((Ascii (false, true, true, true, false,
                 true, false, false)), (String ((Ascii (true, false, true,
                 true, false, true, true, false)), (String ((Ascii (true,
                 false, false, false, false, true, true, false)), (String
                 ((Ascii (false, true, true, true, false, true, true,
                 false)), (String ((Ascii (true, false, false, true, true,
                 true, true, false)), (String ((Ascii (false, true, true,
                 true, false, true, false, false)), (String ((Ascii (true,
                 false, true, false, true, true, true, false)), (String
                 ((Ascii (false, true, true, true, false, true, true,
                 false)), (String ((Ascii (true, false, false, true, false,
                 true, true, false)), (String ((Ascii (true, false, false,
                 false, true, true, true, false)), (String ((Ascii (true,
                 false, true, false, true, true, true, false)), (String
                 ((Ascii (true, false, true, false, false, true, true,
                 false)), EmptyString))))))))))))))))))))))))))))))))
            then Some
                   (vB
                     (forallb (unique_keys (nats_of_V (nth O a (VZ Z0))))
                       (tables_of_V (nth (S O) a (VZ Z0)))))
            else if eqb1 cmd (String ((Ascii (true, false, true, true, false,
                      true, true, false)), (String ((Ascii (true, false,
                      false, false, false, true, true, false)), (String
                      ((Ascii (false, true, true, true, false, true, true,
                      false)), (String ((Ascii (true, false, false, true,
                      true, true, true, false)), (String ((Ascii (false,
                      true, true, true, false, true, false, false)), (String
                      ((Ascii (true, true, false, false, false, true, true,
                      false)), (String ((Ascii (true, true, true, true,
                      false, true, true, false)), (String ((Ascii (false,
                      false, true, true, false, true, true, false)), (String
                      ((Ascii (true, true, true, true, true, false, true,
                      false)), (String ((Ascii (true, false, false, true,
                      false, true, true, false)), (String ((Ascii (false,
                      true, true, true, false, true, true, false)), (String
                      ((Ascii (false, false, true, false, false, true, true,
                      false)), (String ((Ascii (true, false, true, false,
                      false, true, true, false)), (String ((Ascii (false,
                      false, false, true, true, true, true, false)),
                      EmptyString))))))))))))))))))))))))))))
                 then Some
                        (match col_index_ci (getS (nth O a (VZ Z0))) with
                         | Some k -> VZ (Z.of_nat k)
                         | None -> VZ (Zneg XH))
                 else None

(** val snapshot : row list -> row list res **)

let snapshot rows =
  bind (export rows) (fun ls ->
    bind (parse_lines ls Z0) (fun r -> Ok (fst r)))

(** val run_store : string -> v list -> v option **)

let run_store cmd a =
  if eqb1 cmd (String ((Ascii (true, true, false, false, true, true, true,
       false)), (String ((Ascii (false, false, true, false, true, true, true,
       false)), (String ((Ascii (true, true, true, true, false, true, true,
       false)), (String ((Ascii (false, true, false, false, true, true, true,
       false)), (String ((Ascii (true, false, true, false, false, true, true,
       false)), (String ((Ascii (false, true, true, true, false, true, false,
       false)), (String ((Ascii (true, true, false, false, true, true, true,
       false)), (String ((Ascii (false, true, true, true, false, true, true,
       false)), (String ((Ascii (true, false, false, false, false, true,
       true, false)), (String ((Ascii (false, false, false, false, true,
       true, true, false)), (String ((Ascii (true, true, false, false, true,
       true, true, false)), (String ((Ascii (false, false, false, true,
       false, true, true, false)), (String ((Ascii (true, true, true, true,
       false, true, true, false)), (String ((Ascii (false, false, true,
       false, true, true, true, false)),
       EmptyString))))))))))))))))))))))))))))
  then Some
         (vres
           (bind (snapshot (map row_of_V (getL (nth O a (VZ Z0))))) (fun t ->
             Ok (vrows t))))
  else if eqb1 cmd (String ((Ascii (true, true, false, false, true, true,
            true, false)), (String ((Ascii (false, false, false, false, true,
            true, true, false)), (String ((Ascii (true, false, true, false,
            false, true, true, false)), (String ((Ascii (true, true, false,
            false, false, true, true, false)), (String ((Ascii (false, true,
            true, true, false, true, false, false)), (String ((Ascii (true,
            true, false, false, true, true, true, false)), (String ((Ascii
            (false, false, true, false, true, true, true, false)), (String
            ((Ascii (true, true, true, true, false, true, true, false)),
            (String ((Ascii (false, true, false, false, true, true, true,
            false)), (String ((Ascii (true, false, true, false, false, true,
            true, false)), (String ((Ascii (false, true, true, true, false,
            true, false, false)), (String ((Ascii (true, false, false, false,
            false, true, true, false)), (String ((Ascii (false, false, false,
            false, true, true, true, false)), (String ((Ascii (false, false,
            false, false, true, true, true, false)), (String ((Ascii (false,
            true, false, false, true, true, true, false)), (String ((Ascii
            (true, true, true, true, false, true, true, false)), (String
            ((Ascii (false, false, false, true, true, true, true, false)),
            (String ((Ascii (true, true, true, true, true, false, true,
            false)), (String ((Ascii (false, false, true, false, true, true,
            true, false)), (String ((Ascii (true, false, false, false, false,
            true, true, false)), (String ((Ascii (false, true, false, false,
            false, true, true, false)), (String ((Ascii (false, false, true,
            true, false, true, true, false)), (String ((Ascii (true, false,
            true, false, false, true, true, false)),
            EmptyString))))))))))))))))))))))))))))))))))))))))))))))
       then let s = map row_of_V (getL (nth O a (VZ Z0))) in
            let d = map row_of_V (getL (nth (S O) a (VZ Z0))) in
            Some
            (vB
              ((&&) (Nat.eqb (length s) (length d))
                (forallb (fun p -> approx_row (fst p) (snd p)) (combine s d))))
       else None

type vec = (q * q) * q

type mat = (vec * vec) * vec

(** val vadd : vec -> vec -> vec **)

let vadd a b =
  let (p, a3) = a in
  let (a1, a2) = p in
  let (p0, b3) = b in
  let (b1, b2) = p0 in
  (((qred (qplus a1 b1)), (qred (qplus a2 b2))), (qred (qplus a3 b3)))

(** val vsub : vec -> vec -> vec **)

let vsub a b =
  let (p, a3) = a in
  let (a1, a2) = p in
  let (p0, b3) = b in
  let (b1, b2) = p0 in
  (((qred (qminus a1 b1)), (qred (qminus a2 b2))), (qred (qminus a3 b3)))

(** val vdot : vec -> vec -> q **)

let vdot a b =
  let (p, a3) = a in
  let (a1, a2) = p in
  let (p0, b3) = b in
  let (b1, b2) = p0 in
  qred (qplus (qplus (qmult a1 b1) (qmult a2 b2)) (qmult a3 b3))

(** val mv : mat -> vec -> vec **)

let mv m v0 =
  let (p, r3) = m in
  let (r1, r2) = p in (((vdot r1 v0), (vdot r2 v0)), (vdot r3 v0))

(** val vscale : q -> vec -> vec **)

let vscale k = function
| (p, a3) ->
  let (a1, a2) = p in
  (((qred (qmult k a1)), (qred (qmult k a2))), (qred (qmult k a3)))

(** val vsum : vec list -> vec **)

let vsum l =
  fold_right vadd (({ qnum = Z0; qden = XH }, { qnum = Z0; qden = XH }),
    { qnum = Z0; qden = XH }) l

(** val mean : vec list -> vec **)

let mean l =
  vscale
    (qdiv { qnum = (Zpos XH); qden = XH } (inject_Z (Z.of_nat (length l))))
    (vsum l)

(** val superpose_selection :
    mat -> vec list -> vec list -> vec list -> vec list **)

let superpose_selection rmat sel_mob sel_tar xyz =
  let cm = mean sel_mob in
  let ct = mean sel_tar in map (fun x -> vadd (mv rmat (vsub x cm)) ct) xyz

(** val xyz_of : row -> vec **)

let xyz_of r =
  match nth (S (S (S (S (S (S (S O))))))) r VNull with
  | VReal x ->
    (match nth (S (S (S (S (S (S (S (S O)))))))) r VNull with
     | VReal y ->
       (match nth (S (S (S (S (S (S (S (S (S O))))))))) r VNull with
        | VReal z0 -> ((x, y), z0)
        | _ ->
          (({ qnum = Z0; qden = XH }, { qnum = Z0; qden = XH }), { qnum = Z0;
            qden = XH }))
     | _ ->
       (({ qnum = Z0; qden = XH }, { qnum = Z0; qden = XH }), { qnum = Z0;
         qden = XH }))
  | _ ->
    (({ qnum = Z0; qden = XH }, { qnum = Z0; qden = XH }), { qnum = Z0;
      qden = XH })

(** val pairs_of_tuples : row list list -> vec list * vec list **)

let pairs_of_tuples tuples =
  ((map (fun t -> xyz_of (nth O t [])) tuples),
    (map (fun t -> xyz_of (nth (S O) t [])) tuples))

(** val paired_selections :
    row list -> row list -> (vec list * vec list) res **)

let paired_selections sel_mobile sel_target =
  if Nat.eqb (length sel_mobile) (length sel_target)
  then Ok ((map xyz_of sel_mobile), (map xyz_of sel_target))
  else bind (snapshot sel_mobile) (fun a ->
         bind (snapshot sel_target) (fun b -> Ok
           (pairs_of_tuples
             (join ((S O) :: ((S (S (S O))) :: ((S (S (S (S (S O))))) :: ((S
               (S (S (S O)))) :: [])))) (a :: (b :: []))))))

(** val set_xyz : row -> vec -> row **)

let set_xyz r = function
| (p, z0) ->
  let (x, y) = p in
  map (fun iv ->
    match fst iv with
    | O -> snd iv
    | S n0 ->
      (match n0 with
       | O -> snd iv
       | S n1 ->
         (match n1 with
          | O -> snd iv
          | S n2 ->
            (match n2 with
             | O -> snd iv
             | S n3 ->
               (match n3 with
                | O -> snd iv
                | S n4 ->
                  (match n4 with
                   | O -> snd iv
                   | S n5 ->
                     (match n5 with
                      | O -> snd iv
                      | S n6 ->
                        (match n6 with
                         | O -> VReal x
                         | S n7 ->
                           (match n7 with
                            | O -> VReal y
                            | S n8 ->
                              (match n8 with
                               | O -> VReal z0
                               | S _ -> snd iv))))))))))
    (combine (seq O (length r)) r)

(** val superpose :
    mat -> row list -> row list -> row list -> row list res **)

let superpose rmat mobile sel_mobile sel_target =
  bind (paired_selections sel_mobile sel_target) (fun p ->
    let new0 = superpose_selection rmat (fst p) (snd p) (map xyz_of mobile) in
    Ok (map (fun rv -> set_xyz (fst rv) (snd rv)) (combine mobile new0)))

(** val det : mat -> q **)

let det = function
| (p, v0) ->
  let (v1, v2) = p in
  let (p0, c) = v1 in
  let (a, b) = p0 in
  let (p1, f) = v2 in
  let (d, e) = p1 in
  let (p2, i) = v0 in
  let (g, h) = p2 in
  qplus
    (qminus (qmult a (qminus (qmult e i) (qmult f h)))
      (qmult b (qminus (qmult d i) (qmult f g))))
    (qmult c (qminus (qmult d h) (qmult e g)))

(** val shared_pairs : row list -> row list -> vec list * vec list **)

let shared_pairs sel_mobile sel_target =
  pairs_of_tuples
    (join ((S O) :: ((S (S (S O))) :: ((S (S (S (S (S O))))) :: ((S (S (S (S
      O)))) :: [])))) (sel_mobile :: (sel_target :: [])))

(** val close_to : q -> q -> q -> bool **)

let close_to eps a b =
  qleb (qabs (qminus a b)) eps

(** val is_rotation_eps : q -> mat -> bool **)

let is_rotation_eps eps m = match m with
| (p, r3) ->
  let (r1, r2) = p in
  (&&)
    ((&&)
      ((&&)
        ((&&)
          ((&&)
            ((&&) (close_to eps (vdot r1 r1) { qnum = (Zpos XH); qden = XH })
              (close_to eps (vdot r2 r2) { qnum = (Zpos XH); qden = XH }))
            (close_to eps (vdot r3 r3) { qnum = (Zpos XH); qden = XH }))
          (close_to eps (vdot r1 r2) { qnum = Z0; qden = XH }))
        (close_to eps (vdot r1 r3) { qnum = Z0; qden = XH }))
      (close_to eps (vdot r2 r3) { qnum = Z0; qden = XH }))
    (close_to eps (det m) { qnum = (Zpos XH); qden = XH })

(** val vec_of_V : v -> vec **)

let vec_of_V v0 =
  (((getQ (nth O (getL v0) (VZ Z0))), (getQ (nth (S O) (getL v0) (VZ Z0)))),
    (getQ (nth (S (S O)) (getL v0) (VZ Z0))))

(** val mat_of_V : v -> mat **)

let mat_of_V v0 =
  (((vec_of_V (nth O (getL v0) (VZ Z0))),
    (vec_of_V (nth (S O) (getL v0) (VZ Z0)))),
    (vec_of_V (nth (S (S O)) (getL v0) (VZ Z0))))

(** val vvec : vec -> v **)

let vvec = function
| (p, z0) ->
  let (x, y) = p in
  VL ((vQ (qred x)) :: ((vQ (qred y)) :: ((vQ (qred z0)) :: [])))

(** val rows_of_V : v -> row list **)

let rows_of_V v0 =
  map row_of_V (getL v0)

(** val run_superpose : string -> v list -> v option **)

let run_superpose cmd a =
  if eqb1 cmd (String ((Ascii (true, true, false, false, true, true, true,
       false)), (String ((Ascii (true, false, true, false, true, true, true,
       false)), (String ((Ascii (false, false, false, false, true, true,
       true, false)), (String ((Ascii (true, false, true, false, false, true,
       true, false)), (String ((Ascii (false, true, false, false, true, true,
       true, false)), (String ((Ascii (false, false, false, false, true,
       true, true, false)), (String ((Ascii (true, true, true, true, false,
       true, true, false)), (String ((Ascii (true, true, false, false, true,
       true, true, false)), (String ((Ascii (true, false, true, false, false,
       true, true, false)), (String ((Ascii (false, true, true, true, false,
       true, false, false)), (String ((Ascii (true, false, true, true, false,
       true, true, false)), (String ((Ascii (true, true, true, true, false,
       true, true, false)), (String ((Ascii (false, false, true, false,
       false, true, true, false)), (String ((Ascii (true, false, true, false,
       false, true, true, false)), (String ((Ascii (false, false, true, true,
       false, true, true, false)), EmptyString))))))))))))))))))))))))))))))
  then Some
         (vres
           (bind
             (superpose (mat_of_V (nth O a (VZ Z0)))
               (rows_of_V (nth (S O) a (VZ Z0)))
               (rows_of_V (nth (S (S O)) a (VZ Z0)))
               (rows_of_V (nth (S (S (S O))) a (VZ Z0)))) (fun new0 -> Ok (VL
             (map (fun r -> vvec (xyz_of r)) new0)))))
  else if eqb1 cmd (String ((Ascii (true, true, false, false, true, true,
            true, false)), (String ((Ascii (true, false, true, false, true,
            true, true, false)), (String ((Ascii (false, false, false, false,
            true, true, true, false)), (String ((Ascii (true, false, true,
            false, false, true, true, false)), (String ((Ascii (false, true,
            false, false, true, true, true, false)), (String ((Ascii (false,
            false, false, false, true, true, true, false)), (String ((Ascii
            (true, true, true, true, false, true, true, false)), (String
            ((Ascii (true, true, false, false, true, true, true, false)),
            (String ((Ascii (true, false, true, false, false, true, true,
            false)), (String ((Ascii (false, true, true, true, false, true,
            false, false)), (String ((Ascii (false, false, false, false,
            true, true, true, false)), (String ((Ascii (true, false, false,
            false, false, true, true, false)), (String ((Ascii (true, false,
            false, true, false, true, true, false)), (String ((Ascii (false,
            true, false, false, true, true, true, false)), (String ((Ascii
            (true, false, true, false, false, true, true, false)), (String
            ((Ascii (false, false, true, false, false, true, true, false)),
            EmptyString))))))))))))))))))))))))))))))))
       then Some
              (vres
                (bind
                  (paired_selections (rows_of_V (nth O a (VZ Z0)))
                    (rows_of_V (nth (S O) a (VZ Z0)))) (fun pq -> Ok (VL ((VL
                  (map vvec (fst pq))) :: ((VL (map vvec (snd pq))) :: []))))))
       else if eqb1 cmd (String ((Ascii (true, true, false, false, true,
                 true, true, false)), (String ((Ascii (false, false, false,
                 false, true, true, true, false)), (String ((Ascii (true,
                 false, true, false, false, true, true, false)), (String
                 ((Ascii (true, true, false, false, false, true, true,
                 false)), (String ((Ascii (false, true, true, true, false,
                 true, false, false)), (String ((Ascii (true, true, false,
                 false, true, true, true, false)), (String ((Ascii (true,
                 false, true, false, true, true, true, false)), (String
                 ((Ascii (false, false, false, false, true, true, true,
                 false)), (String ((Ascii (true, false, true, false, false,
                 true, true, false)), (String ((Ascii (false, true, false,
                 false, true, true, true, false)), (String ((Ascii (false,
                 false, false, false, true, true, true, false)), (String
                 ((Ascii (true, true, true, true, false, true, true, false)),
                 (String ((Ascii (true, true, false, false, true, true, true,
                 false)), (String ((Ascii (true, false, true, false, false,
                 true, true, false)), (String ((Ascii (false, true, true,
                 true, false, true, false, false)), (String ((Ascii (true,
                 true, false, false, true, true, true, false)), (String
                 ((Ascii (false, false, false, true, false, true, true,
                 false)), (String ((Ascii (true, false, false, false, false,
                 true, true, false)), (String ((Ascii (false, true, false,
                 false, true, true, true, false)), (String ((Ascii (true,
                 false, true, false, false, true, true, false)), (String
                 ((Ascii (false, false, true, false, false, true, true,
                 false)), (String ((Ascii (true, true, true, true, true,
                 false, true, false)), (String ((Ascii (false, false, false,
                 false, true, true, true, false)), (String ((Ascii (true,
                 false, false, false, false, true, true, false)), (String
                 ((Ascii (true, false, false, true, false, true, true,
                 false)), (String ((Ascii (false, true, false, false, true,
                 true, true, false)), (String ((Ascii (true, true, false,
                 false, true, true, true, false)),
                 EmptyString))))))))))))))))))))))))))))))))))))))))))))))))))))))
            then let (p, q0) =
                   shared_pairs (rows_of_V (nth O a (VZ Z0)))
                     (rows_of_V (nth (S O) a (VZ Z0)))
                 in
                 Some (VL ((VL (map vvec p)) :: ((VL (map vvec q0)) :: [])))
            else if eqb1 cmd (String ((Ascii (true, true, false, false, true,
                      true, true, false)), (String ((Ascii (false, false,
                      false, false, true, true, true, false)), (String
                      ((Ascii (true, false, true, false, false, true, true,
                      false)), (String ((Ascii (true, true, false, false,
                      false, true, true, false)), (String ((Ascii (false,
                      true, true, true, false, true, false, false)), (String
                      ((Ascii (true, true, false, false, true, true, true,
                      false)), (String ((Ascii (true, false, true, false,
                      true, true, true, false)), (String ((Ascii (false,
                      false, false, false, true, true, true, false)), (String
                      ((Ascii (true, false, true, false, false, true, true,
                      false)), (String ((Ascii (false, true, false, false,
                      true, true, true, false)), (String ((Ascii (false,
                      false, false, false, true, true, true, false)), (String
                      ((Ascii (true, true, true, true, false, true, true,
                      false)), (String ((Ascii (true, true, false, false,
                      true, true, true, false)), (String ((Ascii (true,
                      false, true, false, false, true, true, false)), (String
                      ((Ascii (false, true, true, true, false, true, false,
                      false)), (String ((Ascii (true, false, false, true,
                      false, true, true, false)), (String ((Ascii (true,
                      true, false, false, true, true, true, false)), (String
                      ((Ascii (true, true, true, true, true, false, true,
                      false)), (String ((Ascii (false, true, false, false,
                      true, true, true, false)), (String ((Ascii (true, true,
                      true, true, false, true, true, false)), (String ((Ascii
                      (false, false, true, false, true, true, true, false)),
                      (String ((Ascii (true, false, false, false, false,
                      true, true, false)), (String ((Ascii (false, false,
                      true, false, true, true, true, false)), (String ((Ascii
                      (true, false, false, true, false, true, true, false)),
                      (String ((Ascii (true, true, true, true, false, true,
                      true, false)), (String ((Ascii (false, true, true,
                      true, false, true, true, false)),
                      EmptyString))))))))))))))))))))))))))))))))))))))))))))))))))))
                 then Some
                        (vB
                          (is_rotation_eps (getQ (nth O a (VZ Z0)))
                            (mat_of_V (nth (S O) a (VZ Z0)))))
                 else None

(** val vresS : string res -> v **)

let vresS = function
| Ok s -> vOk (VS s)
| Err e -> vErr e

(** val run_scores : string -> v list -> v option **)

let run_scores cmd a =
  if eqb1 cmd (String ((Ascii (true, true, false, false, false, true, true,
       false)), (String ((Ascii (true, false, false, false, false, true,
       true, false)), (String ((Ascii (false, false, false, false, true,
       true, true, false)), (String ((Ascii (false, true, false, false, true,
       true, true, false)), (String ((Ascii (true, false, false, true, false,
       true, true, false)), EmptyString))))))))))
  then Some
         (vresS
           (capri (getQ (nth O a (VZ Z0))) (getQ (nth (S O) a (VZ Z0)))
             (getQ (nth (S (S O)) a (VZ Z0)))))
  else if eqb1 cmd (String ((Ascii (true, true, false, false, false, true,
            true, false)), (String ((Ascii (true, false, false, false, false,
            true, true, false)), (String ((Ascii (false, false, false, false,
            true, true, true, false)), (String ((Ascii (false, true, false,
            false, true, true, true, false)), (String ((Ascii (true, false,
            false, true, false, true, true, false)), (String ((Ascii (true,
            true, true, true, true, false, true, false)), (String ((Ascii
            (true, true, false, false, true, true, true, false)), (String
            ((Ascii (true, false, false, true, true, true, true, false)),
            (String ((Ascii (true, true, false, false, true, true, true,
            false)), EmptyString))))))))))))))))))
       then Some
              (vresS
                (capri_src (getQ (nth O a (VZ Z0)))
                  (getQ (nth (S O) a (VZ Z0)))
                  (getQ (nth (S (S O)) a (VZ Z0)))
                  (getS (nth (S (S (S O))) a (VZ Z0)))))
       else if eqb1 cmd (String ((Ascii (true, true, false, false, true,
                 true, true, false)), (String ((Ascii (false, false, false,
                 false, true, true, true, false)), (String ((Ascii (true,
                 false, true, false, false, true, true, false)), (String
                 ((Ascii (true, true, false, false, false, true, true,
                 false)), (String ((Ascii (false, true, true, true, false,
                 true, false, false)), (String ((Ascii (true, true, false,
                 false, false, true, true, false)), (String ((Ascii (true,
                 false, false, false, false, true, true, false)), (String
                 ((Ascii (false, false, false, false, true, true, true,
                 false)), (String ((Ascii (false, true, false, false, true,
                 true, true, false)), (String ((Ascii (true, false, false,
                 true, false, true, true, false)),
                 EmptyString))))))))))))))))))))
            then Some
                   (vOk (VS
                     (class_name
                       (capri_spec (getQ (nth O a (VZ Z0)))
                         (getQ (nth (S O) a (VZ Z0)))
                         (getQ (nth (S (S O)) a (VZ Z0)))))))
            else if eqb1 cmd (String ((Ascii (false, false, true, false,
                      false, true, true, false)), (String ((Ascii (true,
                      true, true, true, false, true, true, false)), (String
                      ((Ascii (true, true, false, false, false, true, true,
                      false)), (String ((Ascii (true, true, false, true,
                      false, true, true, false)), (String ((Ascii (true,
                      false, false, false, true, true, true, false)),
                      EmptyString))))))))))
                 then Some
                        (vQ
                          (dockq (getQ (nth O a (VZ Z0)))
                            (getQ (nth (S O) a (VZ Z0)))
                            (getQ (nth (S (S O)) a (VZ Z0)))
                            (getQ (nth (S (S (S O))) a (VZ Z0)))
                            (getQ (nth (S (S (S (S O)))) a (VZ Z0)))))
                 else if eqb1 cmd (String ((Ascii (false, false, true, false,
                           false, true, true, false)), (String ((Ascii (true,
                           true, true, true, false, true, true, false)),
                           (String ((Ascii (true, true, false, false, false,
                           true, true, false)), (String ((Ascii (true, true,
                           false, true, false, true, true, false)), (String
                           ((Ascii (true, false, false, false, true, true,
                           true, false)), (String ((Ascii (true, true, true,
                           true, true, false, true, false)), (String ((Ascii
                           (false, true, false, false, true, true, true,
                           false)), (String ((Ascii (true, false, false,
                           false, false, true, true, false)), (String ((Ascii
                           (true, true, true, false, true, true, true,
                           false)), EmptyString))))))))))))))))))
                      then Some
                             (vQ
                               (qred
                                 (dockq_raw_src (getQ (nth O a (VZ Z0)))
                                   (getQ (nth (S O) a (VZ Z0)))
                                   (getQ (nth (S (S O)) a (VZ Z0)))
                                   (getQ (nth (S (S (S O))) a (VZ Z0)))
                                   (getQ (nth (S (S (S (S O)))) a (VZ Z0))))))
                      else if eqb1 cmd (String ((Ascii (true, true, false,
                                false, true, true, true, false)), (String
                                ((Ascii (false, false, false, false, true,
                                true, true, false)), (String ((Ascii (true,
                                false, true, false, false, true, true,
                                false)), (String ((Ascii (true, true, false,
                                false, false, true, true, false)), (String
                                ((Ascii (false, true, true, true, false,
                                true, false, false)), (String ((Ascii (false,
                                false, true, false, false, true, true,
                                false)), (String ((Ascii (true, true, true,
                                true, false, true, true, false)), (String
                                ((Ascii (true, true, false, false, false,
                                true, true, false)), (String ((Ascii (true,
                                true, false, true, false, true, true,
                                false)), (String ((Ascii (true, false, false,
                                false, true, true, true, false)),
                                EmptyString))))))))))))))))))))
                           then Some
                                  (vQ
                                    (round_dec (S (S (S (S (S (S O))))))
                                      (dockq_formula (getQ (nth O a (VZ Z0)))
                                        (getQ (nth (S O) a (VZ Z0)))
                                        (getQ (nth (S (S O)) a (VZ Z0)))
                                        (getQ (nth (S (S (S O))) a (VZ Z0)))
                                        (getQ
                                          (nth (S (S (S (S O)))) a (VZ Z0))))))
                           else if eqb1 cmd (String ((Ascii (false, false,
                                     true, false, false, true, true, false)),
                                     (String ((Ascii (true, true, true, true,
                                     false, true, true, false)), (String
                                     ((Ascii (true, true, false, false,
                                     false, true, true, false)), (String
                                     ((Ascii (true, true, false, true, false,
                                     true, true, false)), (String ((Ascii
                                     (true, false, false, false, true, true,
                                     true, false)), (String ((Ascii (true,
                                     true, true, true, true, false, true,
                                     false)), (String ((Ascii (false, false,
                                     true, false, false, true, true, false)),
                                     (String ((Ascii (true, false, true,
                                     false, false, true, true, false)),
                                     (String ((Ascii (false, true, true,
                                     false, false, true, true, false)),
                                     (String ((Ascii (true, false, false,
                                     false, false, true, true, false)),
                                     (String ((Ascii (true, false, true,
                                     false, true, true, true, false)),
                                     (String ((Ascii (false, false, true,
                                     true, false, true, true, false)),
                                     (String ((Ascii (false, false, true,
                                     false, true, true, true, false)),
                                     (String ((Ascii (true, true, false,
                                     false, true, true, true, false)),
                                     EmptyString))))))))))))))))))))))))))))
                                then Some (VL
                                       ((vQ dockq_d1_src) :: ((vQ
                                                                dockq_d2_src) :: [])))
                                else None

(** val run : v -> v **)

let run = function
| VL l ->
  (match l with
   | [] ->
     vErr (String ((Ascii (false, true, false, false, false, true, true,
       false)), (String ((Ascii (true, false, false, false, false, true,
       true, false)), (String ((Ascii (false, false, true, false, false,
       true, true, false)), (String ((Ascii (true, false, true, true, false,
       true, false, false)), (String ((Ascii (false, true, false, false,
       true, true, true, false)), (String ((Ascii (true, false, true, false,
       false, true, true, false)), (String ((Ascii (true, false, false,
       false, true, true, true, false)), (String ((Ascii (true, false, true,
       false, true, true, true, false)), (String ((Ascii (true, false, true,
       false, false, true, true, false)), (String ((Ascii (true, true, false,
       false, true, true, true, false)), (String ((Ascii (false, false, true,
       false, true, true, true, false)), EmptyString))))))))))))))))))))))
   | v1 :: args ->
     (match v1 with
      | VS cmd ->
        (match run_scores cmd args with
         | Some r -> r
         | None ->
           (match run_parse cmd args with
            | Some r -> r
            | None ->
              (match run_export cmd args with
               | Some r -> r
               | None ->
                 (match run_many cmd args with
                  | Some r -> r
                  | None ->
                    (match run_store cmd args with
                     | Some r -> r
                     | None ->
                       (match run_superpose cmd args with
                        | Some r -> r
                        | None ->
                          vErr (String ((Ascii (true, false, true, false,
                            true, true, true, false)), (String ((Ascii
                            (false, true, true, true, false, true, true,
                            false)), (String ((Ascii (true, true, false,
                            true, false, true, true, false)), (String ((Ascii
                            (false, true, true, true, false, true, true,
                            false)), (String ((Ascii (true, true, true, true,
                            false, true, true, false)), (String ((Ascii
                            (true, true, true, false, true, true, true,
                            false)), (String ((Ascii (false, true, true,
                            true, false, true, true, false)), (String ((Ascii
                            (true, false, true, true, false, true, false,
                            false)), (String ((Ascii (true, true, false,
                            false, false, true, true, false)), (String
                            ((Ascii (true, true, true, true, false, true,
                            true, false)), (String ((Ascii (true, false,
                            true, true, false, true, true, false)), (String
                            ((Ascii (true, false, true, true, false, true,
                            true, false)), (String ((Ascii (true, false,
                            false, false, false, true, true, false)), (String
                            ((Ascii (false, true, true, true, false, true,
                            true, false)), (String ((Ascii (false, false,
                            true, false, false, true, true, false)),
                            EmptyString))))))))))))))))))))))))))))))))))))
      | _ ->
        vErr (String ((Ascii (false, true, false, false, false, true, true,
          false)), (String ((Ascii (true, false, false, false, false, true,
          true, false)), (String ((Ascii (false, false, true, false, false,
          true, true, false)), (String ((Ascii (true, false, true, true,
          false, true, false, false)), (String ((Ascii (false, true, false,
          false, true, true, true, false)), (String ((Ascii (true, false,
          true, false, false, true, true, false)), (String ((Ascii (true,
          false, false, false, true, true, true, false)), (String ((Ascii
          (true, false, true, false, true, true, true, false)), (String
          ((Ascii (true, false, true, false, false, true, true, false)),
          (String ((Ascii (true, true, false, false, true, true, true,
          false)), (String ((Ascii (false, false, true, false, true, true,
          true, false)), EmptyString))))))))))))))))))))))))
| _ ->
  vErr (String ((Ascii (false, true, false, false, false, true, true,
    false)), (String ((Ascii (true, false, false, false, false, true, true,
    false)), (String ((Ascii (false, false, true, false, false, true, true,
    false)), (String ((Ascii (true, false, true, true, false, true, false,
    false)), (String ((Ascii (false, true, false, false, true, true, true,
    false)), (String ((Ascii (true, false, true, false, false, true, true,
    false)), (String ((Ascii (true, false, false, false, true, true, true,
    false)), (String ((Ascii (true, false, true, false, true, true, true,
    false)), (String ((Ascii (true, false, true, false, false, true, true,
    false)), (String ((Ascii (true, true, false, false, true, true, true,
    false)), (String ((Ascii (false, false, true, false, true, true, true,
    false)), EmptyString))))))))))))))))))))))
